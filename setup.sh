#!/bin/sh
# Offline setup: make sure hypothesis and jsonschema are importable in /venv (both are normally present).
set -e
PY="${VERIF_PYTHON:-/venv/bin/python}"
for pkg in hypothesis jsonschema; do
  if ! "$PY" -c "import $pkg" 2>/dev/null; then
    /venv/bin/pip install --no-index --find-links /opt/veriftools/wheels "$pkg"
  fi
done
"$PY" -c "import hypothesis, jsonschema, numpy, scipy; print('setup ok: hypothesis', hypothesis.__version__)"
mkdir -p evidence replays
