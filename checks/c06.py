"""C06  Covariance and correlation matrices are consistent with the individual errors.

Sub-properties
  matrix    validity predicates of pe.covariance on lists of 2-8 analysed observables over 1-2 ensembles x 1-3 replicas
            (identical / nested / partly overlapping / disjoint configuration lists, replica subsets, shared and unshared
            covariance inputs, derived observables, per-observable analysis parameters): symmetric, diag = dvalue^2,
            correlation has unit diagonal and entries in [-1,1], cov_ij = e_i corr_ij e_j, exact zero without a common
            ensemble / covariance input, cov(perm) = P cov P^T (list or ndarray argument); with smooth=E (2<E<n-1):
            trace preserved, documented eigenvalue rule, symmetry, permutation equivariance; a list with a never
            analysed member must raise.
  single    all observables on one chain: correlation = Pearson correlation of the fluctuations on the common
            configurations, computed from the spec by configuration number (primary observables from the raw samples,
            derived ones through RefObs.combine); cov_ij = e_i e_j rho_ij; identical lists -> positive semi-definite.
  external  purely external inputs (sums / functions of cov_Obs): cov_ij = sum_names J_i Sigma J_j^T from the spec.
  chol      invert_corr_cov_cholesky: lower triangular X with X^T X cov = 1 (synthetic matrices and matrices of observables).
  sortcorr  sort_corr = the block permutation by sorted keys, computed independently (exact copy of entries);
            on observables: equals the correlation matrix of the list arranged by sorted keys.
  errband   fits.error_band(x, f, beta)[k] = sqrt(g^T covariance(beta) g), g = analytic gradient of the generated model.
"""
import math

import numpy as np
from hypothesis import strategies as st

from vlib import gen
from vlib.build import samples, idl_arg, build_cov_part, group_chains, ens_of
from vlib.core import Sub, Violation, Skip, require
from vlib.refobs import RefObs, combine

PROPERTY = 'C06'
LEVEL = 'exploration'
RULE = ('Hypothesis-generated lists of 2-8 analysed observables. Data are mixtures of shared per-replica random fields '
        '(white / AR(1) / count-like / alternating) keyed by configuration number, so observables on the same chain are '
        'genuinely correlated; each observable lives on a subset (full / window / mask / stride) of a base grid per '
        'replica and on a subset of replicas and ensembles; optional shared covariance inputs; derived entries a*p+b*q '
        'and p*q; per-entry S / tau_exp / N_sigma and optional global / dictionary S; a drawn permutation; '
        'correlation flag; smooth=E. matrix/single: a case is non-trivial if at least one pair of list entries has '
        'partly overlapping or nested (not identical) configuration lists on a shared replica, or shares a covariance '
        'input. external: at least one pair shares an input. chol: dimension >= 2 and a non-diagonal correlation. '
        'sortcorr: sorting changes the order of blocks. errband: >= 2 parameters with non-zero mutual covariance. '
        'distinct = distinct spec hash.')
ASSUMPTIONS = ['fluctuations of a primary observable = sample - mean over its own configurations (fsum); of a derived one '
               '= RefObs.combine (statement of C01, checked there)',
               'errors e_i are taken from Obs.dvalue as computed by pyerrors (C02 checks them); C06 is about the matrix',
               'every generated chain satisfies the Gamma-method precondition (all spacings multiples of the smallest one, '
               'common to the replicas of an ensemble); derived observables violating it are skipped',
               'observables with vanishing error or whose fluctuations are rounding noise of a cancellation are skipped '
               '(correlation undefined)',
               'tolerances: symmetry 1e-14 relative entrywise (rescaling multiplies in different order for ij and ji; '
               'after smoothing 1e-13 of the largest entry, V diag V^T is symmetric only norm-wise); diag, unit diagonal, '
               '[-1,1], e_i corr e_j, permutation: 1e-12 relative to e_i e_j (sums of <= 200 products); Pearson: '
               '1e-12 + 1e-13 N (kappa_i + kappa_j), kappa = magnitude of the summed terms / largest fluctuation; PSD: '
               'smallest eigenvalue >= -1e-10 trace; Cholesky residual 1e-12 n cond(corr), cond <= 1e8; error band 1e-10',
               'a list containing a never analysed observable must raise (docstring of covariance)',
               'smoothing rule from the docstring of covariance / hep-lat/9412087 as implemented: eigenvalues below the mean '
               'of the n-E smallest are raised to it, then all are divided by their mean']

# =================================================================================================
# generators

FIELD_KINDS0 = ('white', 'ar1')
FIELD_KINDS = ('white', 'ar1', 'count', 'alt')
NMIN = 5


def spacing_ok(idl):
    d = [b - a for a, b in zip(idl, idl[1:])]
    g = min(d)
    return all(x % g == 0 for x in d)


def has_pair(idl, g):
    return any(b - a == g for a, b in zip(idl, idl[1:]))


@st.composite
def field_recipe(draw, first):
    kind = draw(st.sampled_from(FIELD_KINDS0 if first else FIELD_KINDS))
    r = {'kind': kind, 'seed': draw(st.integers(0, 2 ** 31 - 1)), 'mean': 0.0, 'sigma': 1.0}
    if kind == 'ar1':
        r['rho'] = draw(st.sampled_from([0.3, 0.6, 0.9, -0.4]))
    return r


@st.composite
def grid_sub(draw, grid, allow_stride=False):
    """Subset (>= NMIN points) of a base grid which keeps two neighbours at the base spacing
    (except 'stride', only used for single-replica ensembles): full, window, mask, stride."""
    L = grid['len']
    pts = [grid['start'] + grid['gap'] * k for k in range(L)]
    mode = draw(st.sampled_from(['full', 'window', 'window', 'mask', 'mask'] + (['stride'] if allow_stride else [])))
    if mode == 'window' and L > NMIN:
        a = draw(st.integers(0, L - NMIN))
        b = draw(st.integers(a + NMIN, L))
        return pts[a:b]
    if mode == 'mask' and L > NMIN:
        j = draw(st.integers(0, L - 2))
        drop = draw(st.lists(st.integers(0, L - 1), min_size=1, max_size=L - NMIN, unique=True))
        ds = set(drop) - {j, j + 1}
        return [p for i, p in enumerate(pts) if i not in ds]
    if mode == 'stride' and L >= 2 * NMIN:
        m = draw(st.integers(2, min(4, L // NMIN)))
        off = draw(st.integers(0, m - 1))
        sub = pts[off::m]
        if len(sub) >= NMIN:
            return sub
    return pts


@st.composite
def sub_of(draw, parent, g, need_pair):
    """A sub-list (>= NMIN entries) of a configuration list that still satisfies the spacing precondition;
    falls back to the parent itself."""
    n = len(parent)
    if n <= NMIN:
        return list(parent)
    if draw(st.booleans()):
        a = draw(st.integers(0, n - NMIN))
        b = draw(st.integers(a + NMIN, n))
        out = parent[a:b]
    else:
        drop = set(draw(st.lists(st.integers(0, n - 1), min_size=1, max_size=n - NMIN, unique=True)))
        pairs = [i for i in range(n - 1) if parent[i + 1] - parent[i] == g]
        if pairs:
            j = pairs[draw(st.integers(0, len(pairs) - 1))]
            drop -= {j, j + 1}
        out = [p for i, p in enumerate(parent) if i not in drop]
    if len(out) < NMIN or not spacing_ok(out) or (need_pair and not has_pair(out, g)):
        return list(parent)
    return list(out)


@st.composite
def gm_kwargs(draw, allow_texp):
    kw = {}
    if draw(st.booleans()):
        kw['S'] = draw(st.one_of(gen.fl(0.5, 5.0), st.sampled_from([1.0, 1.5, 2.0, 3, 0, 0.0])))
    if allow_texp and draw(st.integers(0, 4)) == 0:
        kw['tau_exp'] = draw(st.one_of(gen.fl(0.5, 10.0), st.sampled_from([2, 5.0])))
        if draw(st.booleans()):
            kw['N_sigma'] = draw(st.sampled_from([1.0, 1.5, 2, 0.5]))
    return kw


def nonzero(lo, hi):
    return st.builds(lambda s, x: s * (lo + x), st.sampled_from([1.0, -1.0]), gen.fl(0.0, hi - lo))


MODES = st.integers(0, 9).map(lambda k: 'mixed' if k < 6 else ('nested' if k < 8 else 'identical'))


@st.composite
def obs_list_case(draw, tier, nmin, nmax, single=False, with_cov=True, idl_mode=None, derived=True, own='maybe',
                  distinct=False, lmin=8):
    """Plain-data description of a list of correlated observables (see RULE)."""
    lmax = 40 if tier == 'quick' else 200
    if single:
        e = draw(st.sampled_from(gen.ENSEMBLES))
        r = draw(st.sampled_from([e, e + '|r1', e + '|x']))
        lay = {e: {r: {'start': draw(st.one_of(st.integers(0, 3), st.integers(1, 2000))),
                       'gap': draw(st.sampled_from([1, 1, 2, 3])), 'len': draw(st.integers(lmin, max(lmin, lmax)))}}}
    else:
        lay = draw(gen.base_layout(3, 3, lmin, max(lmin, lmax)))
    K = draw(st.integers(1, 3))
    fields = {r: [draw(field_recipe(k == 0)) for k in range(K)] for e in sorted(lay) for r in sorted(lay[e])}
    pool = draw(gen.cov_pool(2)) if with_cov else {}
    n = draw(st.integers(nmin, nmax))
    P = n if distinct else max(draw(st.integers(1, min(n, 6))), draw(st.integers(1, min(n, 6))))
    mode = idl_mode or draw(MODES)
    ens_all = sorted(lay)
    first = {}
    prims = []
    for i in range(P):
        if single or len(ens_all) == 1 or mode == 'identical':
            enss = ens_all
        else:
            enss = draw(st.lists(st.sampled_from(ens_all), min_size=1, max_size=len(ens_all), unique=True))
        chains = []
        for e in sorted(enss):
            reps = sorted(lay[e])
            multi = len(reps) > 1
            g = lay[e][reps[0]]['gap']
            if multi and mode != 'identical' and draw(st.integers(0, 19)) < 7:
                reps = sorted(draw(st.lists(st.sampled_from(reps), min_size=1, max_size=len(reps) - 1, unique=True)))
            for r in reps:
                if r in first and mode == 'identical':
                    il = list(first[r])
                elif r in first and mode == 'nested':
                    il = draw(sub_of(first[r], g, multi))
                elif r in first and draw(st.integers(0, 9)) < 2:
                    il = list(first[r])
                else:
                    il = draw(grid_sub(lay[e][r], allow_stride=not multi))
                first.setdefault(r, list(il))
                coef = [draw(gen.fl(-2, 2)) for _ in range(K)]
                coef[0] = draw(nonzero(0.25, 2.0))      # a continuous field always contributes: data never constant
                ch = {'name': r, 'idl': list(il), 'form': draw(gen.idl_form()), 'coef': coef,
                      'mean': draw(st.one_of(gen.fl(-3, 3), st.sampled_from([0.0, 1.0, -1.0])))}
                if own == 'always' or (own == 'maybe' and draw(st.booleans())):
                    ch['own'] = {'c': draw(nonzero(0.5, 2.0)),
                                 'recipe': {'kind': 'white', 'seed': draw(st.integers(0, 2 ** 31 - 1)), 'mean': 0.0, 'sigma': 1.0}}
                chains.append(ch)
        cov = draw(gen.cov_part(pool, 0.4)) if pool else []
        prims.append({'chains': chains, 'cov': cov})
    entries = []
    for k in range(n):
        if distinct:
            ent = {'kind': 'prim', 'i': k}
        else:
            kind = draw(st.sampled_from(['prim', 'prim', 'prim', 'lin', 'prod'])) if (derived and P >= 2) else 'prim'
            ent = {'kind': kind, 'i': draw(st.integers(0, P - 1))}
            if kind != 'prim':
                j = draw(st.integers(0, P - 2))
                ent['j'] = j + (1 if j >= ent['i'] else 0)
            if kind == 'lin':
                ent['a'] = draw(st.one_of(st.sampled_from([1.0, -1.0, 0.5, 2.0]), nonzero(0.05, 2.0)))
                ent['b'] = draw(st.one_of(st.sampled_from([1.0, -1.0, 0.5, 2.0]), nonzero(0.05, 2.0)))
        involved = [ent['i']] + ([ent['j']] if 'j' in ent else [])
        minlen = min(len(c['idl']) for p in involved for c in prims[p]['chains'])
        ent['gm'] = draw(gm_kwargs(minlen >= 10))
        entries.append(ent)
    glob = {}
    if draw(st.integers(0, 5)) == 0:
        glob['S_global'] = draw(st.sampled_from([1.0, 3.0, 0.0]))
    if draw(st.integers(0, 5)) == 0:
        glob['S_dict'] = {e: draw(st.sampled_from([1.0, 2.5, 0.0])) for e in ens_all[:1]}
    # overall magnitude of the Monte-Carlo data: correlations are scale invariant
    xscale = draw(st.sampled_from([1.0, 1.0, 1.0, 1e-6, 1e-5, 1e-4, 1e5]))
    return {'lay': lay, 'fields': fields, 'prims': prims, 'entries': entries, 'glob': glob, 'xscale': xscale}


# =================================================================================================
# spec -> numbers -> objects

def chain_x(spec, ch, cache):
    r = ch['name']
    g = spec['lay'][ens_of(r)][r]
    if r not in cache:
        cache[r] = [samples(rc, g['len']) for rc in spec['fields'][r]]
    pos = np.array([(c - g['start']) // g['gap'] for c in ch['idl']], dtype=int)
    x = np.full(len(pos), float(ch['mean']))
    for c, f in zip(ch['coef'], cache[r]):
        x = x + c * f[pos]
    if ch.get('own'):
        x = x + ch['own']['c'] * samples(ch['own']['recipe'], g['len'])[pos]
    return x * float(spec.get('xscale', 1.0))


def build_prim(pe, spec, prim, cache):
    """Returns (Obs, magnitude of the raw samples)."""
    o = None
    mag = 0.0
    for e, chains in sorted(group_chains(prim['chains']).items()):
        xs = [chain_x(spec, c, cache) for c in chains]
        mag = max([mag] + [float(np.max(np.abs(x))) for x in xs])
        p = pe.Obs(xs, [c['name'] for c in chains], idl=[idl_arg(c) for c in chains])
        o = p if o is None else o + p
    for cv in prim.get('cov', []):
        p = build_cov_part(pe, cv)
        o = p if o is None else o + p
    return o, mag


def build_entry(pe, spec, ent, cache):
    p, mp = build_prim(pe, spec, spec['prims'][ent['i']], cache)
    if ent['kind'] == 'prim':
        return p, mp
    q, mq = build_prim(pe, spec, spec['prims'][ent['j']], cache)
    if ent['kind'] == 'lin':
        return ent['a'] * p + ent['b'] * q, abs(ent['a']) * mp + abs(ent['b']) * mq
    return p * q, abs(q.value) * mp + abs(p.value) * mq


def entry_layout(spec, ent):
    """({replica: set of configurations}, set of covariance names) of a list entry (union over its operands)."""
    lay, cn = {}, set()
    for i in [ent['i']] + ([ent['j']] if 'j' in ent else []):
        for c in spec['prims'][i]['chains']:
            lay.setdefault(c['name'], set()).update(c['idl'])
        cn.update(cv['name'] for cv in spec['prims'][i].get('cov', []))
    return lay, cn


def guard_spacing(o):
    """Gamma-method precondition (documented): all spacings of the replicas of an ensemble are multiples of the smallest."""
    for e, reps in o.e_content.items():
        if e in o.covobs:
            continue
        diffs = set()
        for r in reps:
            il = [int(c) for c in o.idl[r]]
            diffs.update(b - a for a, b in zip(il, il[1:]))
        g = min(diffs)
        if any(d % g for d in diffs):
            raise Skip('derived observable without common spacing')


def analysed(pe, spec):
    """Builds and analyses the list; returns (obs, mags)."""
    gl = spec.get('glob', {})
    if 'S_global' in gl:
        pe.Obs.S_global = gl['S_global']
    if 'S_dict' in gl:
        pe.Obs.S_dict = dict(gl['S_dict'])
    cache = {}
    obs, mags = [], []
    for ent in spec['entries']:
        o, mag = build_entry(pe, spec, ent, cache)
        guard_spacing(o)
        o.gamma_method(**ent['gm'])
        if not (np.isfinite(o.dvalue) and o.dvalue > 0):
            raise Skip('observable with vanishing error')
        obs.append(o)
        mags.append(mag)
    return obs, mags


# =================================================================================================
# predicates

def check_shape(M, n, what):
    M = np.asarray(M)
    require(M.shape == (n, n), '%s has shape %r for a list of %d observables' % (what, M.shape, n))
    require(M.dtype.kind == 'f' and bool(np.all(np.isfinite(M))), '%s contains non-finite entries' % what, M.tolist())
    return M


def check_basic(C, R, e, smooth):
    """Validity predicates that need no reference."""
    n = len(e)
    C = check_shape(C, n, 'covariance')
    R = check_shape(R, n, 'correlation')
    ee = np.outer(e, e)
    if smooth:
        rmax = float(np.max(np.abs(R)))
        require(np.all(np.abs(R - R.T) <= 1e-13 * rmax), 'smoothed correlation matrix is not symmetric', float(np.max(np.abs(R - R.T))))
        require(np.all(np.abs(C - C.T) <= 1e-13 * rmax * ee), 'smoothed covariance matrix is not symmetric', float(np.max(np.abs(C - C.T) / ee)))
        require(abs(np.trace(R) - n) <= 1e-12 * n, 'eigenvalue smoothing changed the trace of the correlation matrix: %r, expected %d' % (float(np.trace(R)), n))
        require(np.all(np.abs(C - ee * R) <= 1e-12 * ee * max(1.0, rmax)), 'covariance is not e_i corr_ij e_j (smoothed)',
                float(np.max(np.abs(C - ee * R) / ee)))
        return C, R
    for M, nm in ((C, 'covariance'), (R, 'correlation')):
        bad = np.abs(M - M.T) > 1e-14 * np.maximum(np.abs(M), np.abs(M.T)) + 1e-300
        if np.any(bad):
            i, j = [int(v[0]) for v in np.where(bad)]
            raise Violation('%s matrix is not symmetric: [%d,%d]=%r, [%d,%d]=%r' % (nm, i, j, M[i, j], j, i, M[j, i]))
    d = np.diag(C)
    bad = np.where(~(np.abs(d - e ** 2) <= 1e-12 * e ** 2))[0]
    require(len(bad) == 0, 'diagonal of the covariance matrix is not the squared error: entry %s is %r, dvalue^2 = %r'
            % (bad[:1].tolist(), d[bad[:1]].tolist(), (e[bad[:1]] ** 2).tolist()))
    bad = np.where(~(np.abs(np.diag(R) - 1.0) <= 1e-12))[0]
    require(len(bad) == 0, 'correlation matrix does not have unit diagonal: entry %s is %r' % (bad[:1].tolist(), np.diag(R)[bad[:1]].tolist()))
    require(np.all(np.abs(R) <= 1.0 + 1e-12), 'correlation outside [-1,1]: %r' % float(np.max(np.abs(R))))
    dev = np.abs(C - ee * R)
    bad = dev > 1e-12 * ee
    if np.any(bad):
        i, j = [int(v[0]) for v in np.where(bad)]
        raise Violation('covariance[%d,%d] = %r is not e_i corr_ij e_j = %r (e_i=%r, e_j=%r, corr=%r)'
                        % (i, j, C[i, j], e[i] * R[i, j] * e[j], e[i], e[j], R[i, j]))
    return C, R


def ref_smooth(R0, E):
    """Eigenvalue smoothing as documented (see ASSUMPTIONS)."""
    w, V = np.linalg.eigh(R0)
    n = len(w)
    lam = math.fsum(w[:n - E]) / (n - E)
    w2 = np.array([max(float(x), lam) for x in w])
    w2 = w2 * (n / math.fsum(w2))
    return (V * w2) @ V.T


def pair_relations(lays):
    """Relation labels over all pairs of list entries and the non-triviality flag."""
    labs = set()
    nt = False
    n = len(lays)
    for i in range(n):
        for j in range(i):
            (li, ci), (lj, cj) = lays[i], lays[j]
            ei, ej = set(ens_of(r) for r in li), set(ens_of(r) for r in lj)
            if ci & cj:
                labs.add('cov_shared')
                nt = True
            if not (ei & ej):
                labs.add('ens_disjoint' if (ei and ej) else 'no_mc_part')
                continue
            if set(li) != set(lj):
                labs.add('replica_sets_differ')
            if not (set(li) & set(lj)):
                labs.add('same_ensemble_no_common_replica')
            for r in set(li) & set(lj):
                a, b = li[r], lj[r]
                if a == b:
                    labs.add('cfg_identical')
                elif a < b or b < a:
                    labs.add('cfg_nested')
                    nt = True
                elif a & b:
                    labs.add('cfg_overlap')
                    nt = True
                else:
                    labs.add('cfg_disjoint')
    return labs, nt


def entry_labels(spec, obs):
    labs = set()
    for ent in spec['entries']:
        labs.add('entry:' + ent['kind'])
        if ent['gm'].get('S', 1) == 0:
            labs.add('S=0')
        if 'tau_exp' in ent['gm']:
            labs.add('tau_exp>0')
    for p in spec['prims']:
        for c in p['chains']:
            labs.add('idl:' + gen.classify_idl(c['idl']))
    if any(len(o.mc_names) > 1 for o in obs):
        labs.add('multi_ensemble_obs')
    if any(len(v) > 1 for o in obs for k, v in o.e_content.items() if k in o.mc_names):
        labs.add('multi_replica_obs')
    if any(o.cov_names and o.mc_names for o in obs):
        labs.add('mixed_mc_cov_obs')
    if spec.get('glob'):
        labs.add('global_or_dict_S')
    labs.add('n=%d' % len(obs))
    return labs


# =================================================================================================
# matrix

@st.composite
def matrix_case(draw, tier):
    spec = draw(obs_list_case(tier, 2, 8, with_cov=draw(st.integers(0, 2)) > 0))
    n = len(spec['entries'])
    spec['perm'] = list(draw(st.permutations(list(range(n)))))
    spec['perm_corr'] = draw(st.booleans())
    spec['as_array'] = draw(st.booleans())
    spec['unanalysed'] = draw(st.integers(0, n - 1)) if draw(st.integers(0, 7)) == 0 else None
    spec['smooth'] = None
    if n >= 5 and draw(st.integers(0, 2)) == 0:
        spec['smooth'] = draw(st.integers(3, n - 2))
    return spec


def matrix_oracle(spec):
    import pyerrors as pe
    obs, _ = analysed(pe, spec)
    n = len(obs)
    e = np.array([float(o.dvalue) for o in obs])
    ee = np.outer(e, e)
    sm = spec.get('smooth')
    kw = {} if sm is None else {'smooth': int(sm)}
    C = pe.covariance(obs, **kw)
    R = pe.covariance(obs, correlation=True, **kw)
    C, R = check_basic(C, R, e, sm is not None)
    lays = [entry_layout(spec, ent) for ent in spec['entries']]
    labs, nt = pair_relations(lays)
    labs |= entry_labels(spec, obs)
    if sm is None:
        for i in range(n):
            for j in range(n):
                (li, ci), (lj, cj) = lays[i], lays[j]
                if not (set(ens_of(r) for r in li) & set(ens_of(r) for r in lj)) and not (ci & cj):
                    labs.add('pair_without_common_input')
                    require(abs(C[i, j]) <= 1e-14 * ee[i, j] and abs(R[i, j]) <= 1e-14,
                            'observables %d and %d share no ensemble and no covariance input but cov = %r, corr = %r' % (i, j, C[i, j], R[i, j]))
        if np.any(np.abs(np.abs(R) - 1.0)[~np.eye(n, dtype=bool)] <= 1e-12):
            labs.add('offdiag_corr=+-1')
    else:
        labs.add('smooth')
        R0 = np.asarray(pe.covariance(obs, correlation=True))
        want = ref_smooth(R0, int(sm))
        require(np.all(np.abs(R - want) <= 1e-10 * max(1.0, float(np.max(np.abs(want))))),
                'smoothed correlation matrix (E=%d) deviates from the documented eigenvalue rule' % sm,
                float(np.max(np.abs(R - want))), np.linalg.eigvalsh(R).tolist(), np.linalg.eigvalsh(want).tolist())
    p = [int(k) for k in spec['perm']]
    lst = [obs[k] for k in p]
    if spec.get('as_array'):
        arr = np.empty(n, dtype=object)
        for k, o in enumerate(lst):
            arr[k] = o
        lst = arr
        labs.add('ndarray_argument')
    flag = bool(spec['perm_corr'])
    Mp = check_shape(pe.covariance(lst, correlation=flag, **kw), n, 'matrix of the permuted list')
    M = R if flag else C
    want = M[np.ix_(p, p)]
    sc = (np.ones((n, n)) if flag else ee[np.ix_(p, p)]) * (1e-12 if sm is None else 1e-10 * max(1.0, float(np.max(np.abs(R)))))
    bad = np.abs(Mp - want) > sc
    if np.any(bad):
        a, b = [int(v[0]) for v in np.where(bad)]
        raise Violation('permuting the list does not permute the %s matrix: entry for observables (%d,%d) is %r in the '
                        'original order and %r after the permutation %r' % ('correlation' if flag else 'covariance', p[a], p[b], want[a, b], Mp[a, b], p))
    if p != sorted(p):
        labs.add('perm_nontrivial')
    k = spec.get('unanalysed')
    if k is not None:
        # docstring of covariance: "The gamma method has to be applied first to all observables."
        labs.add('unanalysed_member_must_raise')
        fresh, _ = build_entry(pe, spec, spec['entries'][k], {})
        lst2 = [fresh if t == k else o for t, o in enumerate(obs)]
        try:
            res = pe.covariance(lst2, correlation=flag)
        except Exception:
            res = None
        require(res is None, 'covariance returned a matrix although observable %d of the list was never analysed' % k)
    return {'nt': nt, 'cls': sorted(labs)}


# =================================================================================================
# single chain: Pearson correlation and positive semi-definiteness

@st.composite
def single_case(draw, tier):
    mode = draw(MODES)
    spec = draw(obs_list_case(tier, 2, 8, single=True, with_cov=False, idl_mode=mode))
    spec['mode'] = mode
    return spec


def ref_prim(spec, prim, cache):
    c = prim['chains'][0]
    return RefObs.from_samples([chain_x(spec, c, cache)], [c['name']], [c['idl']])


def ref_entry(spec, ent, cache):
    p = ref_prim(spec, spec['prims'][ent['i']], cache)
    if ent['kind'] == 'prim':
        return p
    q = ref_prim(spec, spec['prims'][ent['j']], cache)
    if ent['kind'] == 'lin':
        a, b = ent['a'], ent['b']
        return combine(lambda v: a * v[0] + b * v[1], [a, b], [p, q])
    return combine(lambda v: v[0] * v[1], [q.value, p.value], [p, q])


def pearson(di, dj):
    common = sorted(set(di) & set(dj))
    if not common:
        return None, 0
    sij = math.fsum(di[c] * dj[c] for c in common)
    sii = math.fsum(di[c] * di[c] for c in common)
    sjj = math.fsum(dj[c] * dj[c] for c in common)
    if sii == 0.0 or sjj == 0.0:
        return None, len(common)
    return sij / math.sqrt(sii * sjj), len(common)


def single_oracle(spec):
    import pyerrors as pe
    obs, _ = analysed(pe, spec)
    n = len(obs)
    cache = {}
    refs = [ref_entry(spec, ent, cache) for ent in spec['entries']]
    name = spec['prims'][0]['chains'][0]['name']
    kappa = []
    for r in refs:
        dmax = max(abs(x) for x in r.d[name].values())
        if not dmax > 1e-4 * r.mag[name]:
            raise Skip('fluctuations are rounding noise of a cancellation')
        kappa.append(r.mag[name] / dmax)
    e = np.array([float(o.dvalue) for o in obs])
    C = pe.covariance(obs)
    R = pe.covariance(obs, correlation=True)
    C, R = check_basic(C, R, e, False)
    lays = [entry_layout(spec, ent) for ent in spec['entries']]
    labs, nt = pair_relations(lays)
    labs |= entry_labels(spec, obs)
    for i in range(n):
        require(sorted(refs[i].d[name]) == [int(c) for c in obs[i].idl[name]], 'configuration list of list entry %d' % i)
        for j in range(i):
            rho, nc = pearson(refs[i].d[name], refs[j].d[name])
            if rho is None:
                labs.add('pair_not_judged:' + ('no_common_cfg' if nc == 0 else 'zero_on_common'))
                continue
            tol = 1e-12 + 1e-13 * nc * (kappa[i] + kappa[j])
            require(abs(R[i, j] - rho) <= tol, 'correlation of observables %d and %d is %r, Pearson correlation of their fluctuations on '
                    'the %d common configurations is %r' % (i, j, R[i, j], nc, rho))
            require(abs(C[i, j] - e[i] * e[j] * rho) <= (tol + 1e-12) * e[i] * e[j],
                    'covariance of observables %d and %d is %r, expected e_i e_j rho = %r' % (i, j, C[i, j], e[i] * e[j] * rho))
            if nc <= 3:
                labs.add('common_cfgs<=3')
    if all(set(ly[0][name]) == set(lays[0][0][name]) for ly in lays):
        labs.add('all_identical:psd_checked')
        for M, nm in ((C, 'covariance'), (R, 'correlation')):
            S = 0.5 * (M + M.T)
            w = np.linalg.eigvalsh(S)
            require(w[0] >= -1e-10 * float(np.trace(S)), '%s matrix of observables on identical configurations is not positive '
                    'semi-definite: smallest eigenvalue %r, trace %r' % (nm, float(w[0]), float(np.trace(S))))
    return {'nt': nt, 'cls': sorted(labs)}


# =================================================================================================
# purely external inputs

EXT_FN = {
    'id': (lambda v: v, lambda v: 1.0),
    'exp': (lambda v: math.exp(v / 10.0), lambda v: math.exp(v / 10.0) / 10.0),
    'cube': (lambda v: v + v ** 3 / 3.0, lambda v: 1.0 + v * v),
}


@st.composite
def external_case(draw, tier):
    pool = draw(gen.cov_pool(3))
    if not pool:
        pool = {'sys': {'cov': [[draw(gen.fl(0.05, 2.0))]], 'means': [draw(gen.fl(-2, 2))]}}
    n = draw(st.integers(2, 8))
    entries = []
    comp = st.one_of(nonzero(0.05, 2.0), st.sampled_from([0.0, 1.0, -1.0]))      # no denormal gradients: their squares underflow
    for k in range(n):
        use = [nm for nm in sorted(pool) if draw(st.integers(0, 9)) < 6]
        if not use:
            use = [draw(st.sampled_from(sorted(pool)))]
        cov = [{'name': nm, 'cov': pool[nm]['cov'], 'means': pool[nm]['means'], 'grad': [draw(comp) for _ in pool[nm]['means']]}
               for nm in use]
        j = draw(st.integers(0, len(cov) - 1))
        if all(g == 0.0 for g in cov[j]['grad']):
            cov[j]['grad'][0] = draw(nonzero(0.1, 2.0))
        entries.append({'cov': cov, 'fn': draw(st.sampled_from(['id', 'id', 'exp', 'cube']))})
    return {'entries': entries, 'perm': list(draw(st.permutations(list(range(n))))), 'perm_corr': draw(st.booleans())}


def external_oracle(spec):
    import pyerrors as pe
    obs, J = [], []
    for ent in spec['entries']:
        o = None
        v = 0.0
        for cv in ent['cov']:
            p = build_cov_part(pe, cv)
            o = p if o is None else o + p
            v += math.fsum(g * m for g, m in zip(cv['grad'], cv['means']))
        f, df = EXT_FN[ent['fn']]
        if ent['fn'] == 'exp':
            o = np.exp(o / 10.0)
        elif ent['fn'] == 'cube':
            o = o + o ** 3 / 3.0
        o.gamma_method()
        obs.append(o)
        J.append({cv['name']: df(v) * np.array(cv['grad'], dtype=float) for cv in ent['cov']})
    n = len(obs)
    sig = {cv['name']: np.array(cv['cov'], dtype=float) for ent in spec['entries'] for cv in ent['cov']}
    want = np.zeros((n, n))
    shared = False
    for i in range(n):
        for j in range(n):
            for nm in set(J[i]) & set(J[j]):
                want[i, j] += float(J[i][nm] @ sig[nm] @ J[j][nm])
                shared = shared or i != j
    eref = np.sqrt(np.diag(want))
    e = np.array([float(o.dvalue) for o in obs])
    if not np.all(eref > 0):
        raise Skip('observable with vanishing error')
    require(np.all(np.abs(e - eref) <= 1e-11 * eref), 'error of a purely external observable is not sqrt(J Sigma J^T)', e.tolist(), eref.tolist())
    C = pe.covariance(obs)
    R = pe.covariance(obs, correlation=True)
    C, R = check_basic(C, R, e, False)
    ee = np.outer(eref, eref)
    # the terms J_i Sigma J_j of different inputs may cancel: tolerance relative to e_i e_j (Cauchy-Schwarz bound of every term)
    bad = np.abs(C - want) > 1e-11 * ee
    if np.any(bad):
        i, j = [int(v[0]) for v in np.where(bad)]
        raise Violation('covariance of purely external observables %d and %d is %r, expected J_i Sigma J_j^T = %r' % (i, j, C[i, j], want[i, j]))
    require(np.all(np.abs(R - want / ee) <= 1e-11), 'correlation of purely external observables is not J_i Sigma J_j^T / (e_i e_j)',
            float(np.max(np.abs(R - want / ee))))
    labs = {'n=%d' % n}
    for i in range(n):
        for j in range(i):
            if not (set(J[i]) & set(J[j])):
                labs.add('pair_without_common_input')
                require(abs(C[i, j]) <= 1e-14 * ee[i, j] and abs(R[i, j]) <= 1e-14, 'observables %d and %d share no covariance input but cov = %r' % (i, j, C[i, j]))
    p = [int(k) for k in spec['perm']]
    flag = bool(spec['perm_corr'])
    Mp = check_shape(pe.covariance([obs[k] for k in p], correlation=flag), n, 'matrix of the permuted list')
    M = R if flag else C
    require(np.all(np.abs(Mp - M[np.ix_(p, p)]) <= 1e-12 * (1.0 if flag else ee[np.ix_(p, p)])), 'permuting the list does not permute the matrix', p)
    labs |= set('fn:' + ent['fn'] for ent in spec['entries'])
    if any(len(ent['cov']) > 1 for ent in spec['entries']):
        labs.add('several_inputs_per_obs')
    if any(len(cv['grad']) > 1 for ent in spec['entries'] for cv in ent['cov']):
        labs.add('matrix_valued_input')
    return {'nt': shared, 'cls': sorted(labs)}


# =================================================================================================
# invert_corr_cov_cholesky

@st.composite
def chol_case(draw, tier):
    if draw(st.integers(0, 2)) == 0:
        n = draw(st.sampled_from([2, 3, 4, 5, 6, 6, 7, 7]))
        case = draw(obs_list_case(tier, n, n, single=draw(st.booleans()), with_cov=draw(st.booleans()), idl_mode='identical',
                                  derived=False, own='always', distinct=True, lmin=30))
        # eigenvalue-smoothed correlation matrices (as the correlated fits hand them over): the diagonal is no longer one
        return {'flavour': 'obs', 'case': case, 'smooth': draw(st.sampled_from([None] + list(range(3, n - 1))))}   # admissible: 2 < E < n - 1
    n = draw(st.integers(1, 8))
    m = draw(st.integers(1, n))
    B = [[draw(gen.fl(-1, 1)) for _ in range(m)] for _ in range(n)]
    return {'flavour': 'synthetic', 'B': B, 'eps': draw(st.sampled_from([0.02, 0.1, 1.0])),
            'errs': [draw(st.one_of(gen.fl(0.01, 10.0), st.sampled_from([1.0, 1e-3, 1e3]))) for _ in range(n)],
            'smooth': draw(st.sampled_from([None, None] + list(range(2, n))))}


def chol_oracle(spec):
    import pyerrors as pe
    labs = {'flavour:' + spec['flavour']}
    if spec['flavour'] == 'obs':
        obs, _ = analysed(pe, spec['case'])
        e = np.array([float(o.dvalue) for o in obs])
        if spec.get('smooth'):
            corr = np.asarray(pe.covariance(obs, correlation=True, smooth=int(spec['smooth'])))
            C = corr * np.outer(e, e)
            labs.add('smoothed')
        else:
            corr = np.asarray(pe.covariance(obs, correlation=True))
            C = np.asarray(pe.covariance(obs))
    else:
        B = np.array(spec['B'], dtype=float)
        A = B @ B.T + spec['eps'] * np.eye(len(B))
        d = 1.0 / np.sqrt(np.diag(A))
        corr = A * np.outer(d, d)
        np.fill_diagonal(corr, 1.0)
        corr = 0.5 * (corr + corr.T)
        if spec.get('smooth'):
            # the smallest E eigenvalues replaced by their mean (own lines, trace preserving)
            E = int(spec['smooth'])
            w, V = np.linalg.eigh(corr)
            w[:E] = np.mean(w[:E])
            corr = (V * w) @ V.T
            corr = 0.5 * (corr + corr.T)
            labs.add('smoothed')
        e = np.array(spec['errs'], dtype=float)
        C = corr * np.outer(e, e)
    n = len(e)
    cond = float(np.linalg.cond(corr))
    if not cond <= 1e8:
        raise Skip('ill-conditioned correlation matrix')
    if float(np.linalg.eigvalsh((corr + corr.T) / 2).min()) <= 0.0:
        # positive semi-definiteness is only promised for identical configuration sets; a Cholesky factor needs it
        raise Skip('correlation matrix is not positive definite')
    X = np.asarray(pe.obs.invert_corr_cov_cholesky(corr.copy(), np.diag(1.0 / e)))
    require(X.shape == (n, n) and bool(np.all(np.isfinite(X))), 'result has shape %r / non-finite entries' % (X.shape,))
    require(np.all(np.triu(X, 1) == 0.0), 'result is not lower triangular', X.tolist())
    # (X^T X cov - 1)_ij carries the ratio e_j / e_i of the errors: judged in the scale-free form D (.) D^-1, D = diag(e)
    res = (X.T @ X @ C - np.eye(n)) * np.outer(e, 1.0 / e)
    tol = 1e-12 * n * cond
    require(float(np.max(np.abs(res))) <= tol, 'chol_inv^T chol_inv is not the inverse covariance: max |e_i (X^T X cov - 1)_ij / e_j| = %r (cond %.3g, tolerance %.3g)'
            % (float(np.max(np.abs(res))), cond, tol))
    # chi^2 as used by the correlated fits: |X r|^2 = r^T cov^{-1} r
    r = e * np.cos(np.arange(1, n + 1))
    chi2 = float(np.sum((X @ r) ** 2))
    want = float((r / e) @ np.linalg.solve(corr, r / e))      # = r^T cov^-1 r, evaluated in the well-scaled form
    require(abs(chi2 - want) <= 1e-11 * n * cond * max(abs(want), 1e-300), '|chol_inv r|^2 = %r, r^T cov^-1 r = %r' % (chi2, want))
    labs.add('n=%d' % n)
    labs.add('cond<1e2' if cond < 1e2 else ('cond<1e5' if cond < 1e5 else 'cond<1e8'))
    offdiag = float(np.max(np.abs(corr - np.eye(n)))) if n > 1 else 0.0
    return {'nt': n >= 2 and offdiag > 1e-3, 'cls': sorted(labs)}


# =================================================================================================
# sort_corr

KEYS = ['a', 'b', 'c', 'B', 'A', 'a10', 'a2', 'ab', 'Z_1', 'ens3', 'x|1', '0', '10', '9', 'b_', ' a']


@st.composite
def sortcorr_case(draw, tier):
    nk = draw(st.sampled_from([3, 2, 4, 5, 3, 4, 1, 5]))
    keys = draw(st.lists(st.sampled_from(KEYS), min_size=nk, max_size=nk, unique=True))
    if draw(st.integers(0, 3)) == 0:
        lens = [draw(st.integers(1, 2)) for _ in keys]
        while sum(lens) < 2:
            lens[0] += 1
        n = sum(lens)
        case = draw(obs_list_case(tier, n, n, with_cov=draw(st.booleans())))
        return {'flavour': 'obs', 'keys': keys, 'lens': lens, 'case': case, 'yd_order': draw(st.permutations(list(range(nk))))}
    lens = [draw(st.integers(1, 4)) for _ in keys]
    n = sum(lens)
    upper = [draw(gen.fl(-1, 1)) for _ in range(n * (n - 1) // 2)]
    return {'flavour': 'matrix', 'keys': keys, 'lens': lens, 'upper': upper, 'yd_order': draw(st.permutations(list(range(nk))))}


def sortcorr_oracle(spec):
    import pyerrors as pe
    keys, lens = list(spec['keys']), list(spec['lens'])
    n = sum(lens)
    labels = [(k, i) for k, ln in zip(keys, lens) for i in range(ln)]          # row labels in the order of kl
    order = sorted(range(n), key=lambda t: labels[t])                          # rows arranged by (sorted key, position in block)
    labs = {'flavour:' + spec['flavour'], 'keys=%d' % len(keys)}
    if spec['flavour'] == 'matrix':
        M = np.eye(n)
        it = iter(spec['upper'])
        for i in range(n):
            for j in range(i + 1, n):
                M[i, j] = M[j, i] = next(it)
        yd = {k: [float(i) for i in range(ln)] for k, ln in zip(keys, lens)}
        # the dictionary is only a lookup table: its insertion order is independent of the key list kl that defines the matrix layout
        yd = {keys[i]: yd[keys[i]] for i in spec.get('yd_order', range(len(keys)))}
        got = np.asarray(pe.obs.sort_corr(M.copy(), list(keys), yd))
        want = M[np.ix_(order, order)]
        require(got.shape == want.shape and np.array_equal(got, want), 'sort_corr is not the permutation by sorted keys '
                '(keys %r, block lengths %r): row order expected %r' % (keys, lens, order), got.tolist(), want.tolist())
    else:
        obs, _ = analysed(pe, spec['case'])
        require(len(obs) == n, 'harness: list length')
        yd, ofs = {}, 0
        for k, ln in zip(keys, lens):
            yd[k] = obs[ofs:ofs + ln]
            ofs += ln
        corr = np.asarray(pe.covariance(obs, correlation=True))
        yd = {keys[i]: yd[keys[i]] for i in spec.get('yd_order', range(len(keys)))}
        got = np.asarray(pe.obs.sort_corr(corr.copy(), list(keys), yd))
        want = np.asarray(pe.covariance([o for k in sorted(keys) for o in yd[k]], correlation=True))
        require(got.shape == want.shape and np.all(np.abs(got - want) <= 1e-12), 'sorted correlation matrix differs from the correlation '
                'matrix of the y data arranged by sorted keys (keys %r, block lengths %r)' % (keys, lens), float(np.max(np.abs(got - want))))
    if len(set(lens)) > 1:
        labs.add('unequal_blocks')
    invol = all(order[order[t]] == t for t in range(n))
    labs.add('perm:' + ('identity' if order == list(range(n)) else ('involution' if invol else 'general')))
    labs.add('yd_order:' + ('as_kl' if list(spec.get('yd_order', range(len(keys)))) == list(range(len(keys))) else 'other'))
    return {'nt': order != list(range(n)), 'cls': sorted(labs)}


# =================================================================================================
# error_band

def _models():
    import autograd.numpy as anp
    return {
        'lin': (2, lambda p, x: p[0] + p[1] * x, lambda p, x: [1.0, x]),
        'quad': (3, lambda p, x: p[0] + p[1] * x + p[2] * x ** 2, lambda p, x: [1.0, x, x * x]),
        'exp': (2, lambda p, x: p[0] * anp.exp(-p[1] * x), lambda p, x: [math.exp(-p[1] * x), -p[0] * x * math.exp(-p[1] * x)]),
        'ratio': (2, lambda p, x: p[0] / (1.0 + p[1] ** 2 * x ** 2),
                  lambda p, x: [1.0 / (1.0 + p[1] ** 2 * x ** 2), -2.0 * p[0] * p[1] * x ** 2 / (1.0 + p[1] ** 2 * x ** 2) ** 2]),
        'sincos': (3, lambda p, x: p[0] * anp.sin(p[1] * x) + p[2] * anp.cos(x),
                   lambda p, x: [math.sin(p[1] * x), p[0] * x * math.cos(p[1] * x), math.cos(x)]),
        'bilin': (3, lambda p, x: p[0] * p[1] + p[2] * x * p[0], lambda p, x: [p[1] + p[2] * x, p[0], x * p[0]]),
        'four': (4, lambda p, x: p[0] + p[1] * x + p[2] * anp.exp(-p[3] * x ** 2),
                 lambda p, x: [1.0, x, math.exp(-p[3] * x * x), -p[2] * x * x * math.exp(-p[3] * x * x)]),
    }


def _selfcheck_models():
    h = 1e-6
    for k, (npar, f, g) in _models().items():
        p0 = [0.7, -1.3, 0.4, 0.9][:npar]
        for x in (-1.1, 0.3, 1.7):
            an = g(p0, x)
            for i in range(npar):
                pp, pm = list(p0), list(p0)
                pp[i] += h
                pm[i] -= h
                num = (float(f(pp, x)) - float(f(pm, x))) / (2 * h)
                assert abs(num - an[i]) <= 1e-7 * max(1.0, abs(num)), (k, x, i, num, an[i])


_selfcheck_models()
MODEL_NPAR = {k: v[0] for k, v in _models().items()}


@st.composite
def errband_case(draw, tier):
    model = draw(st.sampled_from(sorted(MODEL_NPAR)))
    n = MODEL_NPAR[model]
    case = draw(obs_list_case(tier, n, n))
    case['xscale'] = 1.0        # the parameters enter exponentials: keep them of order one here
    x = draw(st.lists(st.one_of(gen.fl(-2, 2), st.sampled_from([0.0, 1.0])), min_size=1, max_size=6))
    return {'case': case, 'model': model, 'x': x, 'x_array': draw(st.booleans())}


def errband_oracle(spec):
    import pyerrors as pe
    npar, f, g = _models()[spec['model']]
    obs, _ = analysed(pe, spec['case'])
    C = np.asarray(pe.covariance(obs))
    vals = [float(o.value) for o in obs]
    x = [float(v) for v in spec['x']]
    got = np.asarray(pe.fits.error_band(np.array(x) if spec['x_array'] else list(x), f, obs), dtype=float)
    require(got.shape == (len(x),), 'error band has shape %r for %d sample points' % (got.shape, len(x)))
    labs = {'model:' + spec['model'], 'x_array' if spec['x_array'] else 'x_list'}
    judged = 0
    for k, xv in enumerate(x):
        gv = np.array(g(vals, xv), dtype=float)
        terms = np.outer(gv, gv) * C
        var = float(gv @ C @ gv)
        tsum = float(np.sum(np.abs(terms)))
        if not var > 1e-6 * tsum:
            labs.add('point_not_judged:cancellation')
            continue
        judged += 1
        want = math.sqrt(var)
        # rounding of the gradient (autograd vs. closed form) enters amplified by the cancellation sum|terms| / var
        require(np.isfinite(got[k]) and abs(got[k] - want) <= (1e-10 + 1e-14 * tsum / var) * want, 'error band at x=%r is %r, sqrt(g^T cov(beta) g) = %r (model %s)'
                % (xv, float(got[k]), want, spec['model']))
    if judged == 0:
        raise Skip('variance cancels at every sample point')
    off = C - np.diag(np.diag(C))
    lays = [entry_layout(spec['case'], ent) for ent in spec['case']['entries']]
    rl, _ = pair_relations(lays)
    labs |= rl
    return {'nt': bool(np.any(np.abs(off) > 1e-6 * np.sqrt(np.outer(np.diag(C), np.diag(C))))), 'cls': sorted(labs)}


# =================================================================================================

SUBS = [
    Sub('matrix', matrix_case, matrix_oracle, {'quick': 250, 'thorough': 5000}, {'quick': 6, 'thorough': 16},
        doc='validity predicates, zero blocks, permutation equivariance, smoothing', max_skip_frac=0.2),
    Sub('single', single_case, single_oracle, {'quick': 250, 'thorough': 5000}, {'quick': 4, 'thorough': 16},
        doc='Pearson correlation on the common configurations, PSD for identical lists', max_skip_frac=0.2),
    Sub('external', external_case, external_oracle, {'quick': 200, 'thorough': 4000}, {'quick': 2, 'thorough': 4},
        doc='purely external inputs: J1 Sigma J2^T', max_skip_frac=0.1),
    Sub('chol', chol_case, chol_oracle, {'quick': 250, 'thorough': 5000}, {'quick': 1, 'thorough': 4},
        doc='Cholesky-based inverse reproduces the inverse covariance', max_skip_frac=0.3),
    Sub('sortcorr', sortcorr_case, sortcorr_oracle, {'quick': 300, 'thorough': 6000}, {'quick': 1, 'thorough': 4},
        doc='sort_corr is the permutation by sorted keys', max_skip_frac=0.2),
    Sub('errband', errband_case, errband_oracle, {'quick': 200, 'thorough': 4000}, {'quick': 2, 'thorough': 8},
        doc='error band = sqrt(g^T C g)', max_skip_frac=0.2),
]
