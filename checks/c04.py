"""C04  Every observable produced by the library is structurally well-formed.

Sub-properties
  history    rule-based state machine over a pool of Obs / CObs: constructors, arithmetic (both operand orders, Obs /
             CObs / int / float / complex / ndarray), elementary functions, reweight, correlate, merge_obs, json / dobs /
             pickle / jackknife round trips, fits and roots.  Invariant after every step: every object returned is
             well-formed (vlib/wellformed.py).
  closure    arithmetic + - * / (and ** with a complex number) between Obs, CObs and int / float / complex in both
             operand orders yields an Obs or CObs of well-formed parts - never a complex-valued Obs or a bare number.
  malformed  the malformed construction requests listed in the statement raise.
"""
import math
import os
import pickle
import tempfile

import numpy as np
from hypothesis import strategies as st

from vlib import gen, machine as vm
from vlib.build import build_obs, to_complex, chain_samples, idl_arg
from vlib.core import Sub, Violation, Skip, require
from vlib.wellformed import wellformed_obs, wellformed_any

PROPERTY = 'C04'
LEVEL = 'exploration'
RULE = ('Histories: RuleBasedStateMachine over a pool of Obs/CObs with rules construct / cov_Obs / binary op between pool '
        'members / op with int, float, complex, ndarray in both orders / elementary function / reweight / correlate / '
        'merge_obs / json, dobs, pickle, jackknife round trip / linear fit / root; the well-formedness invariant is '
        'evaluated on every returned object after every step. A history is non-trivial if it contains >= 1 mixed-type '
        'operation and >= 1 re-alignment (operands on different configuration sets or replicas) or round trip. '
        'Closure and malformed-request cases are generated with @given; every closure case with a non-Obs left operand '
        'or complex partner, and every malformed request, counts as non-trivial; distinct = distinct spec / trace hash.')
ASSUMPTIONS = ['an integer central value (cov_Obs(1, ...)) counts as real; complex, arrays, bool and None do not',
               'exceptions raised by non-arithmetic operations inside a history are counted, not judged (other properties own them)']


# ---------------------------------------------------------------------------------------------- history
SAFE_FUNCS = {
    'sin': lambda v: True, 'cos': lambda v: True, 'tanh': lambda v: True, 'arctan': lambda v: True, 'arcsinh': lambda v: True,
    'exp': lambda v: abs(v) < 20, 'sinh': lambda v: abs(v) < 20, 'cosh': lambda v: abs(v) < 20,
    'sqrt': lambda v: v > 0.05, 'log': lambda v: v > 0.05, 'tan': lambda v: abs(math.cos(v)) > 0.2,
    'arcsin': lambda v: abs(v) < 0.9, 'arccos': lambda v: abs(v) < 0.9, 'arctanh': lambda v: abs(v) < 0.9,
    'arccosh': lambda v: v > 1.1,
}
NUMS = st.one_of(st.integers(-3, 3).filter(lambda x: x != 0), gen.fl(0.2, 3), gen.fl(-3, -0.2),
                 st.builds(lambda r, i: {'__complex__': [r, i]}, gen.fl(-2, 2), st.one_of(gen.fl(0.2, 2), gen.fl(-2, -0.2), st.just(0.0))))


def apply_op(op, a, b):
    if op == '+':
        return a + b
    if op == '-':
        return a - b
    if op == '*':
        return a * b
    if op == '/':
        return a / b
    return a ** b


def make_machine(tier):
    nmax = 20 if tier == 'quick' else 60

    class WF(vm.TraceMachine):
        def setup(self):
            import pyerrors as pe
            self.pe = pe
            self.pool = []
            self.mixed = 0
            self.realign = 0
            self.roundtrips = 0
            self.tmp = None

        def add(self, x, what):
            wellformed_any(x, what)
            items = list(np.asarray(x, dtype=object).ravel()) if isinstance(x, (list, tuple, np.ndarray)) else [x]
            for y in items[:2]:
                if len(self.pool) < 12:
                    self.pool.append(y)
                else:
                    self.pool[len(self.trace) % 12] = y

        @staticmethod
        def same_cfgs(o, spec):
            for c in spec['chains']:
                require([int(x) for x in o.idl[c['name']]] == list(c['idl']),
                        'constructor changed the configuration numbers of %s' % c['name'], list(o.idl[c['name']])[:12], c['idl'][:12])
                eq = len(set(b - a for a, b in zip(c['idl'], c['idl'][1:]))) == 1
                require(isinstance(o.idl[c['name']], range) == eq, 'range form of %s does not match the requested numbers' % c['name'])
            return o

        def get(self, i):
            if not self.pool:
                raise IndexError('empty pool')
            return self.pool[i % len(self.pool)]

        def real_obs(self, i):
            x = self.get(i)
            return x if isinstance(x, self.pe.Obs) else (x.real if isinstance(x.real, self.pe.Obs) else None)

        def val(self, x):
            return x.value if isinstance(x, self.pe.Obs) else complex(getattr(x.real, 'value', x.real), getattr(x.imag, 'value', x.imag))

        # ---- constructors
        @vm.rule(spec=gen.obs_spec(ens_max=2, rep_max=2, nmin=5, nmax=nmax, sigma=gen.fl(0.01, 0.5), mean=gen.fl(0.3, 2.5)))
        @vm.traced
        def construct(self, spec):
            for cv in spec['cov']:
                cv['name'] = '%s_k%d' % (cv['name'], len(cv['means']))      # one covariance matrix per name within a history
                cv['cov'] = [[0.5 if i == j else 0.0 for j in range(len(cv['means']))] for i in range(len(cv['means']))]
            o = build_obs(spec)
            self.same_cfgs(o, spec)
            self.add(o, 'constructed')
            self.labels.append('construct')

        @vm.rule(specs=gen.related_obs_specs(2, ens_max=1, rep_max=3, lmin=8, lmax=nmax + 8, with_cov=False, sigma=gen.fl(0.01, 0.5), mean=gen.fl(0.3, 2.5)))
        @vm.traced
        def construct_related(self, specs):
            objs = []
            for sp in specs:
                o = build_obs(sp)
                self.same_cfgs(o, sp)
                self.add(o, 'constructed')
                objs.append(o)
            # operands on related (nested / overlapping) configuration sets are combined at once: the union must be well-formed
            self.realign += 1
            self.add(objs[0] + objs[1], 'sum of related observables')
            self.add(objs[1] * objs[0], 'product of related observables')
            self.labels.append('construct_related')

        @vm.rule(name=st.sampled_from(['A|r1', 'B', 'AB|x']), start=st.integers(0, 500), step=st.integers(1, 4), n=st.integers(10, nmax + 10),
                 cut=st.tuples(st.integers(5, 9), st.integers(0, 4)), seed=st.integers(0, 10 ** 6))
        @vm.traced
        def construct_windows(self, name, start, step, n, cut, seed):
            """Two observables on overlapping windows of one equally spaced grid: their union is equally spaced again and
            must therefore be held as a range by whatever combines them."""
            pts = [start + step * k for k in range(n)]
            a_idl, b_idl = pts[:n - cut[1] - 1], pts[cut[0] - 5:][1:]
            objs = []
            for il, sd in ((a_idl, seed), (b_idl, seed + 1)):
                sp = {'chains': [{'name': name, 'idl': il, 'form': 'list' if sd % 2 else 'range',
                                  'data': {'kind': 'white', 'seed': sd, 'mean': 1.3, 'sigma': 0.2}}], 'cov': []}
                o = build_obs(sp)
                self.same_cfgs(o, sp)
                self.add(o, 'constructed')
                objs.append(o)
            self.realign += 1
            self.add(objs[0] - objs[1], 'difference of observables on overlapping windows')
            self.add(objs[1] / objs[0], 'ratio of observables on overlapping windows')
            self.labels.append('construct_windows')

        @vm.rule(ens=st.sampled_from(['E', 'A']), labels=st.lists(st.sampled_from(['s0|seg1', 's0|seg2', 's1|seg1', 'r1', 'x|y|z']), min_size=2, max_size=3, unique=True),
                 n=st.integers(5, 12), seed=st.integers(0, 10 ** 6))
        @vm.traced
        def construct_nested_separator(self, ens, labels, n, seed):
            """Replica labels may themselves contain '|': chains still group by the text before the *first* separator."""
            rng = np.random.RandomState(seed)
            names = [ens + '|' + lab for lab in labels]
            o = self.pe.Obs([1.0 + 0.1 * rng.normal(size=n + k) for k in range(len(names))], names)
            self.add(o, 'constructed (nested separator)')
            o.gamma_method()
            require(sorted(o.e_dvalue) == [ens], 'error analysis of one ensemble with nested separators reports ensembles %r' % sorted(o.e_dvalue))
            self.add(o * o + 1.0, 'arithmetic on nested-separator names')
            self.labels.append('construct_nested_separator')

        @vm.rule(mean=st.one_of(gen.fl(-2, 2), st.integers(-2, 2)), var=gen.fl(0.01, 2.0), name=st.sampled_from(['cx', 'cy']))
        @vm.traced
        def covobs(self, mean, var, name):
            o = self.pe.cov_Obs(mean, 0.25 if name == 'cx' else 0.6, name)   # one covariance matrix per name
            self.add(o, 'cov_Obs')
            self.labels.append('cov_Obs')

        @vm.precondition(lambda self: len(self.pool) > 0)
        @vm.rule(i=st.integers(0, 20), j=st.integers(0, 20))
        @vm.traced
        def make_cobs(self, i, j):
            a, b = self.real_obs(i), self.real_obs(j)
            if a is None or b is None:
                return
            self.add(self.pe.CObs(a, b), 'CObs(a, b)')

        # ---- arithmetic
        @vm.precondition(lambda self: len(self.pool) > 0)
        @vm.rule(i=st.integers(0, 20), j=st.integers(0, 20), op=st.sampled_from(['+', '-', '*', '/', '**']))
        @vm.traced
        def binop(self, i, j, op):
            pe = self.pe
            a, b = self.get(i), self.get(j)
            va, vb = self.val(a), self.val(b)
            if op == '/' and abs(vb) < 0.05:
                return
            if op == '**':
                if not (isinstance(a, pe.Obs) and isinstance(b, pe.Obs) and 0.05 < va < 20 and abs(vb) < 5):
                    return
            if isinstance(a, pe.Obs) and isinstance(b, pe.Obs):
                if sorted(a.names) != sorted(b.names) or any(list(a.idl[n]) != list(b.idl[n]) for n in a.idl if n in b.idl):
                    self.realign += 1
            else:
                self.mixed += 1
            res = apply_op(op, a, b)
            if abs(self.val(res)) > 1e12:
                return
            self.add(res, '%s %s %s' % (type(a).__name__, op, type(b).__name__))
            self.labels.append('binop:%s%s%s' % (type(a).__name__[0], op, type(b).__name__[0]))

        @vm.precondition(lambda self: len(self.pool) > 0)
        @vm.rule(i=st.integers(0, 20), num=NUMS, op=st.sampled_from(['+', '-', '*', '/']), left=st.booleans())
        @vm.traced
        def numop(self, i, num, op, left):
            a = self.get(i)
            z = to_complex(num)
            if isinstance(z, complex) and z.imag == 0 and isinstance(num, dict):
                z = complex(z.real if z.real else 1.0, 0.0)
            if op == '/' and ((left and abs(self.val(a)) < 0.05) or (not left and abs(z) < 0.05)):
                return
            res = apply_op(op, z, a) if left else apply_op(op, a, z)
            self.mixed += 1
            self.add(res, '%s %s %s' % (type(z).__name__ if left else type(a).__name__, op, type(a).__name__ if left else type(z).__name__))
            self.labels.append('numop:%s:%s:%s:%s' % (type(a).__name__[0], type(z).__name__, op, 'L' if left else 'R'))

        @vm.precondition(lambda self: len(self.pool) > 0)
        @vm.rule(i=st.integers(0, 20), arr=st.lists(st.one_of(gen.fl(0.3, 2), st.integers(1, 3)), min_size=1, max_size=3),
                 op=st.sampled_from(['+', '-', '*', '/']), left=st.booleans())
        @vm.traced
        def arrayop(self, i, arr, op, left):
            a = self.get(i)
            if op == '/' and left and abs(self.val(a)) < 0.05:
                return
            arr = np.array(arr)
            res = apply_op(op, arr, a) if left else apply_op(op, a, arr)
            require(isinstance(res, np.ndarray) and res.shape == arr.shape, 'operation with an ndarray must return an array of that shape', type(res).__name__)
            self.mixed += 1
            self.add(res, 'ndarray op')
            self.labels.append('arrayop:%s:%s' % (type(a).__name__[0], 'L' if left else 'R'))

        @vm.precondition(lambda self: len(self.pool) > 0)
        @vm.rule(i=st.integers(0, 20), fn=st.sampled_from(sorted(SAFE_FUNCS) + ['neg', 'abs', 'neg', 'abs']))
        @vm.traced
        def unary(self, i, fn):
            a = self.get(i)
            pe = self.pe
            if fn == 'neg':
                res = -a
            elif fn == 'abs':
                if abs(self.val(a)) < 1e-3:
                    return
                if isinstance(a, pe.CObs) and not (isinstance(a.real, pe.Obs) and isinstance(a.imag, pe.Obs)):
                    return
                res = abs(a)
            else:
                if not isinstance(a, pe.Obs) or not SAFE_FUNCS[fn](float(a.value)):
                    return
                res = getattr(np, fn)(a)
            self.add(res, fn)
            self.labels.append('unary:' + fn)

        # ---- alignment helpers
        @vm.precondition(lambda self: len(self.pool) > 1)
        @vm.rule(i=st.integers(0, 20), j=st.integers(0, 20), allc=st.booleans())
        @vm.traced
        def reweight(self, i, j, allc):
            pe = self.pe
            o, w0 = self.real_obs(i), self.real_obs(j)
            if o is None or w0 is None or o.cov_names or w0.cov_names or len(o.mc_names) != 1 or len(w0.mc_names) != 1:
                return
            if not set(o.names) <= set(w0.names) or any(not set(o.idl[n]) <= set(w0.idl[n]) for n in o.names):
                return
            w = np.exp(0.1 * w0)
            res = pe.reweight(w, [o], all_configs=allc)
            require(isinstance(res, list) and len(res) == 1, 'reweight must return a list of one Obs')
            require(res[0].reweighted is True or res[0].reweighted == True, 'reweighted flag not set')  # noqa: E712
            self.realign += int(any(list(o.idl[n]) != list(w0.idl[n]) for n in o.names) or sorted(o.names) != sorted(w0.names))
            self.add(res[0], 'reweight')
            self.labels.append('reweight')

        @vm.precondition(lambda self: len(self.pool) > 1)
        @vm.rule(i=st.integers(0, 20), j=st.integers(0, 20))
        @vm.traced
        def correlate(self, i, j):
            pe = self.pe
            a, b = self.real_obs(i), self.real_obs(j)
            if a is None or b is None or a.cov_names or b.cov_names or len(a.mc_names) != 1 or len(b.mc_names) != 1:
                return
            if sorted(a.names) != sorted(b.names) or any(list(a.idl[n]) != list(b.idl[n]) for n in a.names):
                return
            self.add(pe.correlate(a, b), 'correlate')
            self.labels.append('correlate')

        @vm.precondition(lambda self: len(self.pool) > 1)
        @vm.rule(i=st.integers(0, 20), j=st.integers(0, 20))
        @vm.traced
        def merge(self, i, j):
            pe = self.pe
            a, b = self.real_obs(i), self.real_obs(j)
            if a is None or b is None or a.cov_names or b.cov_names or a.mc_names != b.mc_names or len(a.mc_names) != 1:
                return
            if set(a.names) & set(b.names):
                return
            self.add(pe.merge_obs([a, b]), 'merge_obs')
            self.labels.append('merge_obs')

        # ---- round trips
        @vm.precondition(lambda self: len(self.pool) > 0)
        @vm.rule(i=st.integers(0, 20), how=st.sampled_from(['json', 'json', 'dobs', 'pickle', 'jackknife']))
        @vm.traced
        def roundtrip(self, i, how):
            pe = self.pe
            o = self.real_obs(i)
            if o is None:
                return
            if how == 'json':
                res = pe.input.json.import_json_string(pe.input.json.create_json_string([o], indent=0), verbose=False)
                if isinstance(res, list):   # a one-element list is documented to be unpacked
                    require(len(res) == 1, 'json import returned %d objects for one' % len(res))
                    res = res[0]
            elif how == 'dobs':
                if not o.mc_names:
                    return
                s = pe.input.dobs.create_dobs_string([o], 'obs', who='verif')
                res = pe.input.dobs.import_dobs_string(s.encode('utf-8') if isinstance(s, str) else s, full_output=False)
                require(isinstance(res, list) and len(res) == 1, 'dobs import must return the list that was written')
                res = res[0]
            elif how == 'pickle':
                res = pickle.loads(pickle.dumps(o))
            else:
                if len(o.names) != 1 or o.cov_names:
                    return
                n = o.names[0]
                res = pe.import_jackknife(o.export_jackknife(), n, idl=[o.idl[n]])
            self.roundtrips += 1
            self.add(res, how + ' round trip')
            self.labels.append('roundtrip:' + how)

        # ---- fits and roots
        @vm.precondition(lambda self: len(self.pool) > 1)
        @vm.rule(i=st.integers(0, 20), j=st.integers(0, 20), which=st.sampled_from(['fit_lin', 'least_squares', 'root']))
        @vm.traced
        def fit_or_root(self, i, j, which):
            pe = self.pe
            a, b = self.real_obs(i), self.real_obs(j)
            if a is None or b is None:
                return
            try:
                if which == 'root':
                    d = a * a + 1.5
                    res = pe.roots.find_root(d, lambda x, dd: x ** 3 + x - dd, guess=1.0)
                    out = [res]
                else:
                    ys = [a + 0.1 * b, 2 * a + 0.3 * b, 3.1 * a - 0.2 * b, 4 * a + b * 0.05]
                    for y in ys:
                        y.gamma_method()
                    if any(y.dvalue <= 0 or not np.isfinite(y.dvalue) for y in ys):
                        return
                    if which == 'fit_lin':
                        out = list(pe.fits.fit_lin([1.0, 2.0, 3.0, 4.0], ys))
                    else:
                        fr = pe.fits.least_squares(np.array([1.0, 2.0, 3.0, 4.0]), ys, lambda p, x: p[0] + p[1] * x, silent=True)
                        out = list(fr.fit_parameters)
            except Violation:
                raise
            except Exception as e:
                self.labels.append('exception:%s:%s' % (which, type(e).__name__))
                return
            for k, r in enumerate(out):
                wellformed_obs(r, '%s result %d' % (which, k))
            self.add(out[0], which)
            self.labels.append(which)

        def info(self):
            nt = self.mixed >= 1 and (self.realign >= 1 or self.roundtrips >= 1)
            return {'nt': nt, 'cls': sorted(set(self.labels))}

    return WF


_M = {}


def machine(tier):
    if tier not in _M:
        _M[tier] = make_machine(tier)
    return _M[tier]


def history_replay(spec):
    return vm.replay(machine('quick'), spec['trace'])


# ---------------------------------------------------------------------------------------------- closure
KINDS = ['obs', 'cobs', 'int', 'float', 'complex', 'complex0',
         # numbers and arrays as numpy hands them out (elements of arrays, results of reductions)
         'np_f32', 'np_i64', 'np_c64', 'np_c128', 'arr_f', 'arr_c', 'arr_c64']
COMPLEX_KINDS = ('cobs', 'complex', 'complex0', 'np_c64', 'np_c128', 'arr_c', 'arr_c64')
ARRAY_KINDS = ('arr_f', 'arr_c', 'arr_c64')


@st.composite
def closure_case(draw, tier):
    ops = draw(gen.related_obs_specs(4, ens_max=2, rep_max=2, lmax=20, sigma=gen.fl(0.01, 0.3), mean=gen.fl(0.5, 2.5)))
    left = draw(st.sampled_from(KINDS))
    right = draw(st.sampled_from(KINDS))
    if left not in ('obs', 'cobs') and right not in ('obs', 'cobs'):
        left = draw(st.sampled_from(['obs', 'cobs']))
    op = draw(st.sampled_from(['+', '-', '*', '/', '**']))
    if op == '**' and (left in ARRAY_KINDS or right in ARRAY_KINDS):
        op = draw(st.sampled_from(['+', '-', '*', '/']))
    nz = st.one_of(gen.fl(0.2, 3), gen.fl(-3, -0.2))
    return {'ops': ops, 'left': left, 'right': right, 'op': op, 'lnum': [draw(nz), draw(nz)], 'rnum': [draw(nz), draw(nz)]}


def _operand(pe, kind, o1, o2, num):
    if kind == 'obs':
        return o1
    if kind == 'cobs':
        return pe.CObs(o1, o2)
    if kind == 'int':
        return int(round(num[0])) or 2
    if kind == 'float':
        return float(num[0])
    if kind == 'complex0':
        return complex(num[0], 0.0)
    if kind == 'np_f32':
        return np.float32(num[0])
    if kind == 'np_i64':
        return np.int64(int(round(num[0])) or 2)
    if kind == 'np_c64':
        return np.complex64(complex(num[0], num[1]))
    if kind == 'np_c128':
        return np.complex128(complex(num[0], num[1]))
    if kind == 'arr_f':
        return np.array([num[0], num[1]])
    if kind == 'arr_c':
        return np.array([complex(num[0], num[1]), complex(num[1], -num[0])])
    if kind == 'arr_c64':
        return np.array([complex(num[0], num[1]), complex(num[1], -num[0])], dtype=np.complex64)
    return complex(num[0], num[1])


def closure_oracle(spec):
    import pyerrors as pe
    obs = [build_obs(s) for s in spec['ops']]
    L = _operand(pe, spec['left'], obs[0], obs[1], spec['lnum'])
    R = _operand(pe, spec['right'], obs[2], obs[3], spec['rnum'])
    op = spec['op']
    what = '%s %s %s' % (spec['left'], op, spec['right'])
    cplx = spec['left'] in COMPLEX_KINDS or spec['right'] in COMPLEX_KINDS
    arr = spec['left'] in ARRAY_KINDS or spec['right'] in ARRAY_KINDS
    if op == '**':
        # powers involving complex quantities are not part of the closed arithmetic (CObs has no power); the
        # statement still forbids a complex-valued Obs or a bare number as the outcome of what does return
        if not cplx:
            if spec['right'] == 'float' and spec['left'] == 'obs':
                pass
            if spec['left'] in ('int', 'float', 'np_f32', 'np_i64') and L < 0:
                L = -L
        try:
            res = L ** R
        except Exception as e:
            if cplx:
                return {'nt': True, 'cls': ['pow_complex_raises:' + type(e).__name__]}
            raise Violation('%s raised %s: %s' % (what, type(e).__name__, e))
        wellformed_any(res, what)
        return {'nt': cplx or spec['left'] != 'obs', 'cls': ['pair:' + what]}
    try:
        res = apply_op(op, L, R)
    except Exception as e:
        raise Violation('%s raised %s: %s (arithmetic between observables and numbers must be closed)' % (what, type(e).__name__, e))
    wellformed_any(res, what)
    if arr:
        # element-wise: an array of the same length whose entries are observables of the closed arithmetic
        require(isinstance(res, np.ndarray) and res.shape == (2,), what + ' must be an array with one entry per entry of the operand',
                type(res).__name__, getattr(res, 'shape', None))
        members = list(res)
    else:
        members = [res]
    for r in members:
        if cplx:
            require(isinstance(r, pe.CObs), what + ' must be a complex observable', type(r).__name__)
        else:
            require(isinstance(r, pe.Obs), what + ' must be a real observable', type(r).__name__)
    return {'nt': cplx or spec['left'] != 'obs', 'cls': ['pair:' + what]}


# ---------------------------------------------------------------------------------------------- malformed requests
MAL = ['dup_names', 'nonstring_name', 'nonstring_single', 'unsorted_idl', 'duplicate_idl', 'descending_range', 'len_mismatch_idl',
       'len_mismatch_names', 'len_mismatch_idl_count', 'few_samples', 'multi_ensemble', 'cov_name_sep', 'cov_asym', 'cov_indef',
       'cov_nonsquare', 'merge_duplicate', 'cov_means_count', 'cov_asym_grad', 'cov_indef_grad', 'covobs_asym_grad', 'covobs_indef', 'cov_asym_tiny', 'multi_ensemble_prefix', 'merge_multi_ensemble',
       'reversed_idl', 'descending_list', 'cov_negative_variance', 'cov_indef_mild']


@st.composite
def malformed_case(draw, tier):
    kind = draw(st.sampled_from(MAL))
    e = draw(st.sampled_from(gen.ENSEMBLES))
    chains = draw(gen.single_ensemble_chains(e, 5, 15, rep_max=3, allow_bare=False))
    return {'kind': kind, 'chains': chains, 'k': draw(st.integers(0, 50)), 'x': draw(gen.fl(0.1, 2.0))}


def malformed_oracle(spec):
    import pyerrors as pe
    kind = spec['kind']
    ch = spec['chains']
    k = spec['k']
    samples = [chain_samples(c) for c in ch]
    names = [c['name'] for c in ch]
    idl = [idl_arg(c) for c in ch]
    c0 = k % len(ch)

    def attempt():
        if kind == 'dup_names':
            if len(ch) < 2:
                names.append(names[0]); samples.append(samples[0]); idl.append(idl[0])
            else:
                names[(c0 + 1) % len(ch)] = names[c0]
            return pe.Obs(samples, names, idl=idl)
        if kind == 'nonstring_name':
            if len(ch) < 2:
                names.append(names[0] + 'q'); samples.append(samples[0]); idl.append(idl[0])
            names[c0 % len(names)] = 7
            return pe.Obs(samples, names, idl=idl)
        if kind == 'nonstring_single':
            return pe.Obs([samples[0]], [3.5], idl=[idl[0]])
        if kind == 'unsorted_idl':
            il = list(ch[c0]['idl'])
            i = k % (len(il) - 1)
            il[i], il[i + 1] = il[i + 1], il[i]
            idl[c0] = il if k % 2 else np.array(il)
            return pe.Obs(samples, names, idl=idl)
        if kind == 'duplicate_idl':
            il = list(ch[c0]['idl'])
            i = k % (len(il) - 1)
            il[i + 1] = il[i]
            idl[c0] = il
            return pe.Obs(samples, names, idl=idl)
        if kind == 'descending_range':
            n = len(ch[c0]['idl'])
            step = 1 + k % 3
            idl[c0] = range(100 + step * n, 100, -step)
            return pe.Obs(samples, names, idl=idl)
        if kind == 'reversed_idl':
            # the chain's own configuration numbers in decreasing order (equally spaced or not), as list or array
            il = list(reversed(ch[c0]['idl']))
            idl[c0] = il if k % 2 else np.array(il)
            return pe.Obs(samples, names, idl=idl)
        if kind == 'descending_list':
            # strictly decreasing with constant step, given as list / array (not as a range object)
            n = len(ch[c0]['idl'])
            step = 1 + k % 4
            il = list(range(7 + step * n, 7, -step))
            idl[c0] = il if (k // 4) % 2 else np.array(il)
            return pe.Obs(samples, names, idl=idl)
        if kind == 'len_mismatch_idl':
            il = list(ch[c0]['idl'])
            idl[c0] = il + [il[-1] + 1 + k % 3] if k % 2 else il[:-1]
            return pe.Obs(samples, names, idl=idl)
        if kind == 'len_mismatch_names':
            return pe.Obs(samples, names + [names[0] + 'zz'], idl=idl + [idl[0]])
        if kind == 'len_mismatch_idl_count':
            return pe.Obs(samples, names, idl=idl + [idl[0]])
        if kind == 'few_samples':
            full_s, full_i = samples[c0], list(ch[c0]['idl'])
            for m in (4, 3, 2, 1):      # every length below five must be rejected
                samples[c0] = full_s[:m]
                idl[c0] = full_i[:m] if k % 2 else None
                try:
                    r = pe.Obs(samples, names, idl=idl) if k % 2 else pe.Obs(samples, names)
                except Exception as e:
                    last = e
                    continue
                return r
            raise last
        if kind == 'multi_ensemble':
            other = 'Q' + names[0]
            return pe.Obs(samples + [samples[0]], names + [other + '|r1'], idl=idl + [idl[0]])
        if kind == 'cov_name_sep':
            return pe.cov_Obs(1.0, spec['x'], 'sys|1')
        if kind == 'cov_asym':
            return pe.cov_Obs([1.0, 2.0], [[1.0, 0.2 + spec['x'] * 0.01], [0.2, 1.0]], 'sys')
        if kind == 'cov_indef':
            return pe.cov_Obs([1.0, 2.0], [[1.0, 1.0 + spec['x']], [1.0 + spec['x'], 1.0]], 'sys')
        if kind == 'cov_indef_mild':
            # indefinite by far more than rounding (relative size 1e-3 .. 1e-10 of the largest eigenvalue, eps is 1e-16), but mildly:
            # a negative variance on the diagonal, or a correlation slightly above one (C04-m21: relative tolerance sqrt(eps))
            d = 10.0 ** (-3 - (k % 8))
            a = spec['x'] * 10.0 ** ((k // 8) % 5 - 2)
            if (k // 3) % 2 == 0:
                return pe.cov_Obs([1.0, 2.0], [[a, 0.0], [0.0, -a * d]], 'sys')
            return pe.cov_Obs([1.0, 2.0], [[a, a * (1.0 + d)], [a * (1.0 + d), a]], 'sys')
        if kind == 'cov_asym_grad':
            return pe.cov_Obs([1.0, 2.0], [[1.0, 0.2 + spec['x'] * 0.01], [0.2, 1.0]], 'sys', grad=[1.0, 0.5])
        if kind == 'cov_indef_grad':
            return pe.cov_Obs([1.0, 2.0], [[1.0, 1.0 + spec['x']], [1.0 + spec['x'], 1.0]], 'sys', grad=[0.3, 1.0])
        if kind == 'covobs_asym_grad':
            return pe.covobs.Covobs(1.0, [[1.0, 0.2 + spec['x'] * 0.01], [0.2, 1.0]], 'sys', grad=[1.0, 0.5])
        if kind == 'covobs_indef':
            return pe.covobs.Covobs(1.0, [[1.0, 1.0 + spec['x']], [1.0 + spec['x'], 1.0]], 'sys', pos=0)
        if kind == 'cov_negative_variance':
            # an indefinite covariance in the scalar and in the 1-d (list of variances) layout
            v = -spec['x'] * 10.0 ** (-(k % 6))
            form = k % 4
            if form == 0:
                return pe.cov_Obs(1.0, v, 'sys')
            if form == 1:
                return pe.cov_Obs([1.0, 2.0, 0.5], [0.1, v, 0.3] if (k // 4) % 2 else [v, 0.2, 0.3], 'sys')
            if form == 2:
                return pe.covobs.Covobs(1.0, v, 'sys')
            return pe.covobs.Covobs(1.0, np.array([0.2, v]), 'sys', pos=k % 2)
        if kind == 'cov_asym_tiny':
            # asymmetric well above rounding (relative 1e-6 .. 1e-5) but small
            eps = (1.0 + k % 9) * 1e-6
            return pe.cov_Obs([1.0, 2.0], [[1.0, 0.3 * (1 + eps)], [0.3, 1.0]], 'sys') if k % 2 else \
                pe.covobs.Covobs(1.0, np.array([[2.0, 0.5, 0.1], [0.5, 1.0, 0.2 * (1 + eps)], [0.1, 0.2, 3.0]]), 'sys', grad=[1.0, 0.5, 0.2])
        if kind == 'multi_ensemble_prefix':
            # two different ensembles one of whose names is a prefix of the other, in either order
            e = names[0].split('|')[0]
            other = (e + '0|r1') if k % 2 else (e + 'x')
            nm, sm, il = ([names[0], other], [samples[0], samples[0]], [idl[0], idl[0]])
            if (k // 2) % 2:
                nm.reverse()
            return pe.Obs(sm, nm, idl=il)
        if kind == 'merge_multi_ensemble':
            e = names[0].split('|')[0]
            a = pe.Obs([samples[0]], [names[0]], idl=[idl[0]])
            b = pe.Obs([samples[0] + 1.0], [e + '0|r1'], idl=[idl[0]])
            return pe.merge_obs([a, b] if k % 2 else [b, a])
        if kind == 'cov_nonsquare':
            return pe.cov_Obs([1.0, 2.0], [[1.0, 0.0, 0.0], [0.0, 1.0, 0.0]], 'sys')
        if kind == 'cov_means_count':
            return pe.cov_Obs([1.0, 2.0, 3.0], [[1.0, 0.0], [0.0, 1.0]], 'sys')
        if kind == 'merge_duplicate':
            a = pe.Obs(samples, names, idl=idl)
            b = pe.Obs([samples[c0] * 2], [names[c0]], idl=[idl[c0]])
            if k % 3 == 0:
                return pe.merge_obs([a, b])
            # the duplicated replica in list entries that are not neighbours
            e = names[0].split('|')[0]
            mids = [pe.Obs([np.arange(6.0 + j) * 0.1], ['%s|zz_mid%d' % (e, j)]) for j in range(1 + (k // 3) % 3)]
            first = pe.Obs([samples[c0]], [names[c0]], idl=[idl[c0]]) if k % 3 == 1 else a
            return pe.merge_obs([first] + mids + [b])
        raise RuntimeError(kind)
    try:
        res = attempt()
    except Exception as e:
        return {'nt': True, 'cls': ['%s:%s' % (kind, type(e).__name__)]}
    raise Violation('malformed request "%s" was accepted and returned %r' % (kind, res))


SUBS = [
    Sub('history', None, history_replay, {'quick': 90, 'thorough': 800}, {'quick': 10, 'thorough': 16}, kind='machine',
        machine=machine, steps={'quick': 25, 'thorough': 40}, doc='well-formedness invariant over operation histories'),
    Sub('closure', closure_case, closure_oracle, {'quick': 600, 'thorough': 5000}, {'quick': 3, 'thorough': 8},
        doc='arithmetic closure table Obs/CObs/int/float/complex, both orders'),
    Sub('malformed', malformed_case, malformed_oracle, {'quick': 300, 'thorough': 4000}, {'quick': 2, 'thorough': 4},
        doc='malformed construction requests must raise'),
]
