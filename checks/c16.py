"""C16  GEVP and matrix pencil satisfy the eigen-equation and recover exact spectra.

The inputs are *model* correlator matrices whose generalised eigen-decomposition is known in closed form:

    G(t) = Z^T diag(a_1(t) ... a_N(t)) Z ,   Z = Q1 diag(D) Q2  (Givens rotations, 1 <= D <= 8, cond(Z) <= 8)

so that G(t) w_n = [a_n(t)/a_n(t0)] G(t0) w_n with w_n = Z^{-1} e_n for *every* t and t0.  Three kinds:
  exp     a_n(t) = exp(-E_n t), E_1 < ... < E_N, gaps >= 0.1          (the exact N-exponential matrix of the statement)
  table   a_n(t) an arbitrary positive table (the order of the eigenvalues changes with t: level crossings,
          which is what distinguishes eigenvector sorting from eigenvalue sorting)
  randpd  G(t) = B_t B_t^T / N + eps_t 1 (generic symmetric positive matrices without closed form)
The central value of every matrix element is exact (antithetic +-noise per replica), the elements are Obs on one
common layout of 1-2 replicas; symmetric matrices share one Obs object per pair (i,j),(j,i) or hold two equal copies;
non-symmetric input = designed matrix +- an antisymmetric part (mean and noise) that symmetrisation removes.

Sub-properties
  eigen     Corr.GEVP: G(t) v = lambda G(t0) v for every t > t0 (sorted modes) / t = ts (sort=None), decreasing
            eigenvalues with the state index, eigh vs cholesky vectors parallel, vectors parallel to the known
            w_n, eigenvector sorting keeps the state of the reference time ts at every t, undefined slices and
            t <= t0 give None, `state=` picks the state; with vector_obs=True the eigen-equation also holds in the
            fluctuations (first order).
  spectrum  Corr.Eigenvalue on exp models: value exp(-E_n (t - t0)) for every state and every defined time, None
            pattern, fluctuation v^T dG(t) v (vector_obs=False) resp. v^T (dG(t) - lambda dG(t0)) v (vector_obs=True).
  prune     Corr.prune(Ntrunc, tproj, t0proj[, basematrix]) on exp models: the generalised eigenvalues of the pruned
            matrix are exp(-E_n (t - t0)) for the states that were kept (the lowest ones), in value; fluctuations
            of the pruned elements are v_i^T dG(t) v_j.
  mpm       matrix_pencil_method on an exact k-exponential correlator returns E_1..E_k (ascending); if every
            configuration is itself an exact multi-exponential with these energies the returned energies do not
            fluctuate.  Two input classes: 'wide' (k=1..5, gaps 0.1..0.6, T=8..24) and 'close' (k=3..5 closely spaced
            levels, gaps 0.1..0.35, on short correlators T=2k..16), where the k-th singular value of the Hankel
            block is 1e-7..1e-10 of the first although the data still determine every energy to better than 1e-7.
            Tolerance: 1e3 eps cond(Y2) exp(E_n) where that is below 1e-6, else 1e3 eps S_n with the first-order
            sensitivity S_n of E_n to the data (mpm_sensitivity) where that is below 1e-4; the rest is skipped as
            ill-conditioned.  Labels svk:* / svk<sqrt(eps) measure how small the smallest singular value is that
            the method has to keep.

Recorded defects of the unchanged tree (known/F-C16-*.json, excluded from the generators only while open):
  F-C16-1   Corr.prune raises on every correlator with an undefined timeslice.
  F-C16-2   sort='Eigenvector' mislabels the states when the eigenvalue orders at t and ts differ by a permutation
            that is not its own inverse (the permutation found by _sort_vectors is applied instead of its inverse).
"""
import math

import numpy as np
from hypothesis import strategies as st

from vlib import gen, findings
from vlib.build import idl_arg
from vlib.core import Sub, Violation, Skip, require

PROPERTY = 'C16'
LEVEL = 'exploration'
RULE = ('Hypothesis-generated model correlator matrices G(t) = Z^T diag(a_n(t)) Z with known generalised eigenvectors '
        '(N=2..5, T=8..24, t0=1..T//3, exact exponentials with gaps >= 0.1 / arbitrary positive tables with level '
        'crossings / generic random positive matrices; overlaps Z = Q1 D Q2 with cond <= 8; elements are Obs with exact '
        'mean on 1-2 replicas; symmetric by shared object, symmetric by equal copies, or non-symmetric by an '
        'antisymmetric part; arbitrary undefined timeslices apart from t0/ts), all of sort in Eigenvalue/Eigenvector/'
        'None, method eigh/cholesky, vector_obs on/off, every state; exact k=1..5 exponential single correlators for the '
        'matrix pencil with every admissible pencil parameter, a third of them with k=3..5 closely spaced levels (gaps '
        '0.1..0.35) on short correlators (T<=16) so that the smallest singular value the method has to keep is down to 1e-10 '
        'of the largest (class labels svk:*). Non-trivial: N>=3 or t0>=2 or an undefined timeslice '
        '(matrix pencil: k>=2); distinct = distinct spec hash. Each comparison of a vector direction / eigenvalue is '
        'made only where its a-priori rounding bound (K eps cond(G(t0)) / relative gap or ratio) is below 1e-6; the '
        'fraction judged is reported in the class histogram (matrix pencil beyond that region: judged with 1e3 eps times the '
        'first-order sensitivity of each energy to the data where this is below 1e-4, label bound:sensitivity).')
ASSUMPTIONS = [
    'the closed-form eigen-decomposition of G(t) = Z^T diag(a(t)) Z (eigenvectors Z^-1 e_n, eigenvalues a_n(t)/a_n(t0))',
    'eigen-equation residual tolerance 1e-10 (||G(t)|| + |lambda| ||G(t0)||) ||v|| (observed <= 3e-15 at cond(G(t0)) up to 1e7)',
    'directions: sin(angle) <= 1e3 eps cond(G(t0)) / relgap, judged where this is <= 1e-6 (Davis-Kahan; observed constant <= 2)',
    'eigenvalues / energies: relative 1e3 eps (cond(G(t0)) / ratio + cancellation of the bilinear form), judged where <= 1e-6',
    'matrix pencil: |E - E_n| <= 1e3 eps cond(Y2) exp(E_n) (cond = s_1/s_k of the Hankel block; observed constant <= 20), judged where <= 1e-6',
    'matrix pencil where that bound exceeds 1e-6 (cond(Y2) above about 1e6): |E - E_n| <= 1e3 eps S_n, S_n = sum_t |dE_n/dc(t)| sum_q |A_q| exp(-E_q t) '
    'the first-order sensitivity of the estimator of eq. (2.17) to the data at the exact correlator (analytic, from the pseudo-inverses of the two '
    'Vandermonde factors of the Hankel block); observed error <= 18 eps S_n uniformly for cond(Y2) = 1..1e11 on the unchanged tree; judged where '
    '1e3 eps S_n <= 1e-4 (1e-3 of the smallest gap) and cond(Y2) < 1e11, skipped otherwise',
    'vector_obs=True: "uncertainties are propagated" is read as first-order exactness of the eigen-equation in the fluctuations',
    'numpy/scipy linear algebra is trusted for residuals, condition numbers and the eigenvalues of the pruned matrices',
]

EPS = 2.220446049250313e-16
KTOL = 1e3          # safety factor on the a-priori rounding bounds (observed constants <= 20)
JUDGE = 1e-6        # a comparison is made only where its bound is below this (tolerance of DESIGN C16)
JUDGE_MPM = 1e-4    # matrix pencil with the sensitivity bound: judged where KTOL eps S_n is below this (1e-3 of the smallest gap)
ENS = ['A', 'B', 'ens3']
MARGIN = {}         # largest observed error / tolerance per kind of comparison (development aid, see DEVGUIDE soundness)


def within(err, tol, key):
    err, tol = float(err), float(tol)
    r = err / tol if tol > 0 else (0.0 if err == 0 else float('inf'))
    if not r <= MARGIN.get(key, 0.0):
        MARGIN[key] = r
    return err <= tol


# ---------------------------------------------------------------------------------------------------------------
# generators (plain data)

@st.composite
def layout(draw):
    """1-2 replicas of one ensemble, 5-9 configurations each (contiguous / strided / irregular)."""
    e = draw(st.sampled_from(ENS))
    nrep = draw(st.sampled_from([1, 1, 2]))
    names = [e + '|r%d' % (k + 1) for k in range(nrep)] if nrep > 1 or draw(st.booleans()) else [e]
    return [{'name': n, 'idl': draw(gen.idl_list(5, 9)), 'form': draw(gen.idl_form())} for n in names]


@st.composite
def noise(draw):
    return {'seed': draw(st.integers(0, 2 ** 31 - 1)), 'sigma': draw(st.sampled_from([1e-4, 1e-3, 1e-2])),
            'chains': draw(layout())}


@st.composite
def energies(draw, n):
    e0 = draw(st.one_of(gen.fl(0.05, 1.0), st.sampled_from([0.1, 0.5])))
    gaps = [draw(st.one_of(gen.fl(0.1, 0.6), st.sampled_from([0.1, 0.25]))) for _ in range(n - 1)]
    out = [e0]
    for g in gaps:
        out.append(out[-1] + g)
    return out


@st.composite
def overlaps(draw, n):
    na = n * (n - 1) // 2
    return {'rot1': [draw(gen.fl(0.0, 6.283)) for _ in range(na)],
            'D': [draw(gen.fl(1.0, 8.0)) for _ in range(n)],
            'rot2': [draw(gen.fl(0.0, 6.283)) for _ in range(na)]}


@st.composite
def model(draw, tier, kinds=('exp', 'table', 'randpd'), nmin=2, tmax=24, allow_none=True):
    """Model matrix; the caller removes t0/ts/tproj from the undefined slices (drop_none) once they are drawn."""
    n = draw(st.integers(nmin, 5))
    T = draw(st.integers(8, tmax))
    kind = draw(st.sampled_from(list(kinds)))
    m = {'N': n, 'T': T, 'kind': kind}
    if kind == 'exp':
        m['E'] = draw(energies(n))
        m.update(draw(overlaps(n)))
    elif kind == 'table':
        m['amp'] = [[draw(gen.fl(0.05, 1.0)) for _ in range(n)] for _ in range(T)]
        m.update(draw(overlaps(n)))
    else:
        m['seed'] = draw(st.integers(0, 2 ** 31 - 1))
        m['eps'] = draw(st.sampled_from([0.05, 0.3, 1.0]))
    m['sym'] = draw(st.sampled_from(['object', 'object', 'copy', 'asym']))
    if m['sym'] == 'asym':
        m['alpha'] = draw(st.sampled_from([1e-3, 0.02, 0.3]))
    m['noise'] = draw(noise())
    if draw(st.integers(0, 3)) == 0:
        m['scale'] = 10.0 ** draw(st.sampled_from([-9, -12, -10, 6]))
    if draw(st.integers(0, 2)) == 0:
        m['mem'] = 'F'
    m['none'] = []
    if allow_none and draw(st.booleans()):
        m['none'] = sorted(draw(st.lists(st.integers(0, T - 1), min_size=1, max_size=4, unique=True)))
    return m


def drop_none(m, keep):
    m['none'] = [t for t in m['none'] if t not in keep]
    return m


@st.composite
def call_args(draw, T, n, sorts=('Eigenvalue', 'Eigenvector', None)):
    t0 = draw(st.integers(1, T // 3))
    sort = draw(st.sampled_from(list(sorts)))
    c = {'t0': t0, 'sort': sort, 'ts': None}
    if sort in ('Eigenvector', None) or draw(st.integers(0, 5)) == 0:
        c['ts'] = draw(st.integers(t0 + 1, T - 1))
    c['vector_obs'] = draw(st.sampled_from([False, False, True]))
    c['method'] = draw(st.sampled_from([None, 'eigh', 'cholesky']))
    return c


@st.composite
def eigen_case(draw, tier):
    m = draw(model(tier, kinds=('exp', 'table', 'table', 'randpd')))
    c = draw(call_args(m['T'], m['N']))
    drop_none(m, [c['t0']] + ([c['ts']] if c['ts'] is not None else []))
    c['state'] = draw(st.one_of(st.none(), st.integers(0, m['N'] - 1)))
    if c['sort'] == 'Eigenvector' and m['kind'] == 'table' and findings.is_open('F-C16-2'):
        # recorded defect: _sort_vectors applies the permutation it found instead of its inverse, which is wrong
        # whenever the eigenvalue orders at t and at ts are related by a permutation that is not its own inverse
        # (N >= 3).  While the finding is open such timeslices get the eigenvalue order of ts (amplitudes replaced).
        t0, ts = c['t0'], c['ts']
        for t in range(t0 + 1, m['T']):
            if t != ts and not involution(relative_perm(m['amp'], t0, ts, t)):
                m['amp'][t] = [m['amp'][t0][k] * (m['amp'][ts][k] / m['amp'][t0][k]) ** 1.5 for k in range(m['N'])]
                c['excluded'] = 'F-C16-2'
    return {'model': m, 'call': c}


def relative_perm(amp, t0, ts, t):
    """perm[k] = position at ts of the state that has the k-th largest eigenvalue a(t)/a(t0) at t."""
    n = len(amp[t])
    r_t = [amp[t][k] / amp[t0][k] for k in range(n)]
    r_s = [amp[ts][k] / amp[t0][k] for k in range(n)]
    o_t = sorted(range(n), key=lambda k: -r_t[k])
    o_s = sorted(range(n), key=lambda k: -r_s[k])
    return [o_s.index(k) for k in o_t]


def involution(p):
    return all(p[p[k]] == k for k in range(len(p)))


@st.composite
def spectrum_case(draw, tier):
    m = draw(model(tier, kinds=('exp',)))
    c = draw(call_args(m['T'], m['N']))
    drop_none(m, [c['t0']] + ([c['ts']] if c['ts'] is not None else []))
    if c['vector_obs']:
        c['states'] = sorted(draw(st.lists(st.integers(0, m['N'] - 1), min_size=1, max_size=2, unique=True)))
    else:
        c['states'] = list(range(m['N']))
    return {'model': m, 'call': c}


@st.composite
def prune_case(draw, tier):
    m = draw(model(tier, kinds=('exp',)))
    n, T = m['N'], m['T']
    t0p = draw(st.one_of(st.just(2), st.integers(0, T // 3)))
    tp = draw(st.one_of(st.just(max(3, t0p + 1)), st.integers(t0p + 1, min(T - 1, t0p + 6))))
    c = {'Ntrunc': draw(st.integers(2 if n >= 3 and draw(st.booleans()) else 1, n - 1)), 'tproj': tp, 't0proj': t0p,
         'defaults': bool(t0p == 2 and tp == 3 and draw(st.booleans())),
         't0': draw(st.integers(1, T // 3))}
    drop_none(m, [t0p, tp, c['t0']])
    c['base'] = None
    if draw(st.integers(0, 2)) == 0:
        # basematrix: same overlaps, other energies, possibly in another order (then other states are the "lowest" ones)
        eb = draw(energies(n))
        perm = draw(st.permutations(list(range(n)))) if draw(st.booleans()) else list(range(n))
        c['base'] = {'E': [eb[perm[k]] for k in range(n)], 'noise_seed': draw(st.integers(0, 2 ** 31 - 1)),
                     'none': sorted(draw(st.lists(st.integers(0, T - 1), max_size=2, unique=True)))}
        c['base']['none'] = [t for t in c['base']['none'] if t not in (t0p, tp)]
    if findings.is_open('F-C16-1') and m['none']:
        # recorded defect: prune raises on any undefined timeslice of the target.  Such draws are searched with
        # all timeslices defined while the finding is open (and counted through the label excluded:F-C16-1).
        m['none'] = []
        c['excluded'] = 'F-C16-1'
    return {'model': m, 'call': c}


@st.composite
def close_energies(draw, n):
    """closely spaced (but clearly non-degenerate: gaps 0.1 .. 0.35) levels."""
    e0 = draw(st.one_of(gen.fl(0.05, 1.0), st.sampled_from([0.1, 0.3, 0.5])))
    out = [e0]
    for _ in range(n - 1):
        out.append(out[-1] + draw(st.one_of(gen.fl(0.1, 0.35), st.sampled_from([0.15, 0.2, 0.25, 0.3]))))
    return out


@st.composite
def mpm_case(draw, tier):
    # 'close': many closely spaced states on a short correlator.  The k-th singular value of the Hankel block is then
    # tiny relative to the first (1e-7 .. 1e-10) although the energies are still determined to better than 1e-7 by
    # the data (the oracle computes the first-order sensitivity of every energy and skips what is not).
    mode = draw(st.sampled_from(['wide', 'wide', 'close']))
    if mode == 'close':
        k = draw(st.sampled_from([3, 4, 4, 5, 5]))
        T = draw(st.integers(max(8, 2 * k), 16))
        E = draw(close_energies(k))
    else:
        k = draw(st.sampled_from([1, 2, 2, 3, 3, 4, 5]))
        T = draw(st.integers(max(8, 2 * k), 24))
        E = draw(energies(k))
    amp = [draw(gen.fl(0.3, 3.0)) * draw(st.sampled_from([1.0, 1.0, -1.0])) for _ in range(k)]
    p = draw(st.one_of(st.none(), st.integers(k, T - k)))
    spec = {'k': k, 'T': T, 'E': E, 'amp': [amp], 'p': p, 'mode': mode,
            'noise': draw(noise()), 'noise_kind': draw(st.sampled_from(['generic', 'amplitude']))}
    if draw(st.integers(0, 4)) == 0:
        spec['amp'].append([draw(gen.fl(0.3, 3.0)) * draw(st.sampled_from([1.0, -1.0])) for _ in range(k)])
    return spec


# ---------------------------------------------------------------------------------------------------------------
# model -> numbers

def givens(n, angles):
    q = np.eye(n)
    k = 0
    for i in range(n):
        for j in range(i + 1, n):
            c, s = math.cos(angles[k]), math.sin(angles[k])
            k += 1
            r = np.eye(n)
            r[i, i] = c
            r[j, j] = c
            r[i, j] = -s
            r[j, i] = s
            q = q @ r
    return q


def overlap_matrix(m):
    n = m['N']
    # m['scale']: the whole correlator matrix in other units (overlaps times sqrt(scale)); the GEVP is scale invariant
    return math.sqrt(float(m.get('scale', 1.0))) * (givens(n, m['rot1']) @ np.diag(np.array(m['D'], dtype=float)) @ givens(n, m['rot2']))


def amplitudes(m, E=None):
    """a[t][n] for the kinds with closed form, else None."""
    T = m['T']
    if m['kind'] == 'exp' or E is not None:
        E = np.array(m['E'] if E is None else E, dtype=float)
        return np.array([np.exp(-E * t) for t in range(T)])
    if m['kind'] == 'table':
        return np.array(m['amp'], dtype=float)
    return None


def true_matrices(m, E=None):
    """list over t of the designed symmetric matrix (also for undefined slices: the caller masks them)."""
    n, T = m['N'], m['T']
    if m['kind'] == 'randpd':
        rng = np.random.RandomState(m['seed'] % (2 ** 32))
        out = []
        for t in range(T):
            b = rng.normal(size=(n, n))
            g = float(m.get('scale', 1.0)) * (b @ b.T / n + m['eps'] * np.eye(n))
            out.append(0.5 * (g + g.T))
        return out
    z = overlap_matrix(m)
    a = amplitudes(m, E)
    out = []
    for t in range(T):
        g = z.T @ np.diag(a[t]) @ z
        out.append(0.5 * (g + g.T))
    return out


def antithetic(rng, lens):
    """per replica: x, (0), -x  -> exact zero mean per replica."""
    out = []
    for L in lens:
        h = rng.normal(size=L // 2)
        out.append(np.concatenate([h, np.zeros(L % 2), -h]))
    return out


def noise_arrays(m, G, seed=None):
    """xs[t][i][j] = list over replicas of the symmetric noise, xa = antisymmetric noise (asym only)."""
    n, T = m['N'], m['T']
    lens = [len(c['idl']) for c in m['noise']['chains']]
    rng = np.random.RandomState((m['noise']['seed'] if seed is None else seed) % (2 ** 32))
    sig = m['noise']['sigma']
    xs = [[[None] * n for _ in range(n)] for _ in range(T)]
    xa = [[[None] * n for _ in range(n)] for _ in range(T)]
    for t in range(T):
        d = np.sqrt(np.abs(np.diag(G[t])))
        for i in range(n):
            for j in range(i, n):
                sc = sig * d[i] * d[j]
                s = [sc * x for x in antithetic(rng, lens)]
                a = [sc * x for x in antithetic(rng, lens)]
                xs[t][i][j] = s
                xs[t][j][i] = s
                xa[t][i][j] = a
                xa[t][j][i] = [-x for x in a]
    return xs, xa


def build_corr(m, G, xs, xa, none):
    import pyerrors as pe
    n, T = m['N'], m['T']
    ch = m['noise']['chains']
    names = [c['name'] for c in ch]
    asym = m['sym'] == 'asym'
    rng = np.random.RandomState((m['noise']['seed'] + 7) % (2 ** 32))
    sign = np.sign(rng.normal(size=(n, n)))

    def obs(mean, parts):
        return pe.Obs([mean + p for p in parts], names, idl=[idl_arg(c) for c in ch])
    content = []
    for t in range(T):
        if t in none:
            content.append(None)
            continue
        M = np.empty((n, n), dtype=object)
        for i in range(n):
            for j in range(i, n):
                g = float(G[t][i, j])
                if i == j or not asym:
                    o = obs(g, xs[t][i][j])
                    M[i, j] = o
                    M[j, i] = o if (m['sym'] == 'object' or i == j) else obs(g, xs[t][i][j])
                else:
                    a = m['alpha'] * sign[i, j] * math.sqrt(abs(G[t][i, i] * G[t][j, j]))
                    M[i, j] = obs(g + a, [s + x for s, x in zip(xs[t][i][j], xa[t][i][j])])
                    M[j, i] = obs(g - a, [s - x for s, x in zip(xs[t][i][j], xa[t][i][j])])
        # memory layout of the timeslice matrices (column-major when the model asks for it: what `m.T`, np.asfortranarray or a
        # (T, N, N) array with swapped axes hand over)
        content.append(np.asfortranarray(M) if m.get('mem') == 'F' else M)
    return pe.Corr(content)


def setup(m, E=None, none=None, noise_seed=None):
    G = true_matrices(m, E)
    xs, xa = noise_arrays(m, G, noise_seed)
    none = set(m['none'] if none is None else none)
    return G, xs, build_corr(m, G, xs, xa, none), none


def dG(xs, t, n):
    """fluctuation of the (symmetrised) matrix at time t as array (N, N, total number of configurations)."""
    return np.array([[np.concatenate(xs[t][i][j]) for j in range(n)] for i in range(n)])


def vec_values(v, what):
    import pyerrors as pe
    require(v is not None, what + ': vector is None although the timeslice is defined')
    a = np.asarray(v)
    out = np.array([float(x.value) if isinstance(x, pe.Obs) else float(x) for x in a.ravel()])
    require(np.all(np.isfinite(out)), what + ': vector is not finite', out.tolist())
    return out, a


def vec_deltas(a, chains, what):
    """fluctuations of an Obs-valued vector on the layout of the model: array (N, total configurations)."""
    import pyerrors as pe
    rows = []
    for x in a.ravel():
        require(isinstance(x, pe.Obs), what + ': vector_obs=True must return Obs entries, got %s' % type(x).__name__)
        parts = []
        for c in chains:
            if c['name'] in x.deltas:
                require([int(k) for k in x.idl[c['name']]] == list(c['idl']), what + ': configuration list of a vector entry on %s differs from the input' % c['name'],
                        list(x.idl[c['name']])[:8], c['idl'][:8])
                parts.append(np.asarray(x.deltas[c['name']], dtype=float))
            else:
                parts.append(np.zeros(len(c['idl'])))
        require(set(x.names) <= set(c['name'] for c in chains), what + ': vector entry lives on unknown chains', x.names)
        rows.append(np.concatenate(parts))
    return np.array(rows)


def obs_deltas(x, chains, what):
    parts = []
    for c in chains:
        require(c['name'] in x.deltas, what + ': chain %s missing' % c['name'], x.names)
        require([int(k) for k in x.idl[c['name']]] == list(c['idl']), what + ': configuration list on %s differs from the input' % c['name'],
                list(x.idl[c['name']])[:8], c['idl'][:8])
        parts.append(np.asarray(x.deltas[c['name']], dtype=float))
    return np.concatenate(parts)


def sin_angle(u, w):
    u = u / np.linalg.norm(u)
    w = w / np.linalg.norm(w)
    return float(min(np.linalg.norm(u - w), np.linalg.norm(u + w)))


def rayleigh(v, Gt, G0):
    return float(v @ Gt @ v) / float(v @ G0 @ v)


def relgaps(lam):
    lam = np.asarray(lam, dtype=float)
    mx = np.max(np.abs(lam))
    out = []
    for k in range(len(lam)):
        d = np.abs(lam - lam[k])
        d[k] = np.inf
        out.append(float(np.min(d) / mx))
    return np.array(out)


def gevp_kwargs(c, with_ts=True):
    kw = {'sort': c['sort'], 'vector_obs': c['vector_obs']}
    if c['ts'] is not None and with_ts:
        kw['ts'] = c['ts']
    if c['method'] is not None:
        kw['method'] = c['method']
    return kw


def pick(vecs, sort, s, t):
    return vecs[s] if sort is None else vecs[s][t]


def check_shape(vecs, sort, n, T, t0, none, what):
    require(len(vecs) == n, what + ': %d states returned for an %dx%d matrix' % (len(vecs), n, n))
    if sort is None:
        return
    for s in range(n):
        require(len(vecs[s]) == T, what + ': state %d has %d timeslices, correlator has %d' % (s, len(vecs[s]), T))
        for t in range(T):
            undefined = t <= t0 or t in none
            require((vecs[s][t] is None) == undefined, what + ': state %d at t=%d is %s, t0=%d, undefined input slices %r'
                    % (s, t, 'None' if vecs[s][t] is None else 'defined', t0, sorted(none)))


# ---------------------------------------------------------------------------------------------------------------
# eigen

def eigen_oracle(spec):
    m, c = spec['model'], spec['call']
    n, T, t0, ts, sort = m['N'], m['T'], c['t0'], c['ts'], c['sort']
    G, xs, corr, none = setup(m)
    G0 = G[t0]
    cond0 = float(np.linalg.cond(G0))
    a = amplitudes(m)
    W = np.linalg.inv(overlap_matrix(m)) if a is not None else None
    what = 'GEVP(t0=%d, ts=%r, sort=%r, method=%r, vector_obs=%r)' % (t0, ts, sort, c['method'], c['vector_obs'])
    kw = gevp_kwargs(c)
    vecs = corr.GEVP(t0, **kw)
    check_shape(vecs, sort, n, T, t0, none, what)
    if c['state'] is not None:
        one = corr.GEVP(t0, state=c['state'], **kw)
        full = vecs[c['state']]
        if sort is None:
            require(np.array_equal(vec_values(one, what)[0], vec_values(full, what)[0]), what + ': state=%d differs from element %d of the full result' % (c['state'], c['state']))
        else:
            require(len(one) == T, what + ': state=%d: %d timeslices' % (c['state'], len(one)))
            for t in range(T):
                require((one[t] is None) == (full[t] is None), what + ': state=%d: None pattern differs at t=%d' % (c['state'], t))
                if one[t] is not None:
                    require(np.array_equal(vec_values(one[t], what)[0], vec_values(full[t], what)[0]),
                            what + ': state=%d differs from element %d of the full result at t=%d' % (c['state'], c['state'], t))
    # the same problem with the two solvers (numbers only)
    other = {}
    for meth in ('eigh', 'cholesky'):
        k2 = dict(kw, vector_obs=False, method=meth)
        other[meth] = corr.GEVP(t0, **k2)
        check_shape(other[meth], sort, n, T, t0, none, what + ' [method=%s, numbers]' % meth)
    times = [ts] if sort is None else [t for t in range(t0 + 1, T) if t not in none]
    njudged = nlab = ntot = 0
    crossing = False
    ref_order = None
    if a is not None:
        r_ts = a[ts] / a[t0] if ts is not None else None
        if sort == 'Eigenvector':
            ref_order = np.argsort(-r_ts, kind='stable')
            ref_clean = KTOL * EPS * cond0 / relgaps(r_ts) <= JUDGE
    for t in times:
        Gt = G[t]
        nG, nG0 = np.linalg.norm(Gt, 2), np.linalg.norm(G0, 2)
        V = []
        for s in range(n):
            v, raw = vec_values(pick(vecs, sort, s, t), what + ' state %d t=%d' % (s, t))
            require(v.shape == (n,), what + ': vector of state %d at t=%d has shape %r' % (s, t, v.shape))
            require(np.linalg.norm(v) > 0, what + ': zero vector for state %d at t=%d' % (s, t))
            V.append(v)
        lam = np.array([rayleigh(v, Gt, G0) for v in V])
        for s in range(n):
            v = V[s]
            res = np.linalg.norm(Gt @ v - lam[s] * (G0 @ v))
            require(within(res, 1e-10 * (nG + abs(lam[s]) * nG0) * np.linalg.norm(v), 'residual'),
                    what + ': eigen-equation violated for state %d at t=%d: |G(t)v - lambda G(t0)v| = %.3g, scale %.3g, lambda = %r'
                    % (s, t, res, (nG + abs(lam[s]) * nG0) * np.linalg.norm(v), lam[s]))
        otol = KTOL * EPS * cond0 * np.max(np.abs(lam))
        if sort != 'Eigenvector' or t == ts:
            for s in range(n - 1):
                require(within(lam[s + 1] - lam[s], otol, 'order'), what + ': eigenvalues not decreasing with the state index at t=%d: lambda[%d] = %r < lambda[%d] = %r'
                        % (t, s, lam[s], s + 1, lam[s + 1]), lam.tolist())
        # directions
        if a is not None:
            r = a[t] / a[t0]
            order = np.argsort(-r, kind='stable')
            vt = KTOL * EPS * cond0 / relgaps(r)
            if sort == 'Eigenvector' and list(order) != list(ref_order):
                crossing = True
            for s in range(n):
                ntot += 1
                if sort == 'Eigenvector':
                    k = int(ref_order[s])
                    if not (ref_clean[k] and vt[k] <= JUDGE):
                        continue
                    nlab += 1
                    sa = sin_angle(V[s], W[:, k])
                    require(within(sa, vt[k], 'label'), what + ': eigenvector sorting does not follow the state: state %d (model state %d, identified at ts=%d) '
                            'at t=%d is not parallel to its eigenvector, sin = %.3g (tolerance %.3g); eigenvalue order at ts %r, at t %r'
                            % (s, k, ts, t, sa, vt[k], ref_order.tolist(), order.tolist()))
                else:
                    k = int(order[s])
                    if vt[k] > JUDGE:
                        continue
                    sa = sin_angle(V[s], W[:, k])
                    require(within(sa, vt[k], 'direction'), what + ': state %d at t=%d is not the eigenvector of the %d-th largest eigenvalue (model state %d): sin = %.3g (tolerance %.3g)'
                            % (s, t, s, k, sa, vt[k]), V[s].tolist(), W[:, k].tolist())
                njudged += 1
        # eigh vs cholesky, and the call under test against both
        O = {meth: [vec_values(pick(other[meth], sort, s, t), what + ' [%s]' % meth)[0] for s in range(n)] for meth in other}
        lam_e = np.array([rayleigh(v, Gt, G0) for v in O['eigh']])
        if sort == 'Eigenvector' and t != ts:
            gt = relgaps(lam_e)
        else:
            gt = relgaps(lam)
        vt2 = 2 * KTOL * EPS * cond0 / np.maximum(gt, 1e-300)
        for s in range(n):
            if vt2[s] > JUDGE:
                continue
            if sort == 'Eigenvector' and a is not None and not (ref_clean[int(ref_order[s])]):
                continue
            sa = sin_angle(O['eigh'][s], O['cholesky'][s])
            require(within(sa, vt2[s], 'eigh_vs_chol'), what + ': eigh and cholesky vectors of state %d at t=%d are not parallel: sin = %.3g (tolerance %.3g)' % (s, t, sa, vt2[s]),
                    O['eigh'][s].tolist(), O['cholesky'][s].tolist())
            sa = sin_angle(V[s], O['cholesky'][s])
            require(within(sa, vt2[s], 'call_vs_chol'), what + ': vector of state %d at t=%d differs from the cholesky solution with plain numbers: sin = %.3g (tolerance %.3g)' % (s, t, sa, vt2[s]))
            if a is None:
                njudged += 1
        if a is None:
            ntot += n
        # first-order eigen-equation in the fluctuations
        if c['vector_obs']:
            d0, dt = dG(xs, t0, n), dG(xs, t, n)
            for s in range(n):
                v = V[s]
                raw = np.asarray(pick(vecs, sort, s, t))
                dv = vec_deltas(raw, m['noise']['chains'], what + ' state %d t=%d' % (s, t))
                if not np.all(np.isfinite(dv)) and float(np.min(gt)) < 1e-6:
                    # two *other* states exactly degenerate at this timeslice: the derivative of an eigen-decomposition is not
                    # defined there (1 / (lambda_i - lambda_j)); a measure-zero input of the table models, not judged
                    continue
                den = float(v @ G0 @ v)
                num = float(v @ Gt @ v)
                dnum = 2 * (dv.T @ (Gt @ v)) + np.einsum('i,ijc,j->c', v, dt, v)
                dden = 2 * (dv.T @ (G0 @ v)) + np.einsum('i,ijc,j->c', v, d0, v)
                dlam = dnum / den - num / den ** 2 * dden
                dr = (np.einsum('ijc,j->ic', dt, v) + Gt @ dv - np.outer(G0 @ v, dlam)
                      - lam[s] * np.einsum('ijc,j->ic', d0, v) - lam[s] * (G0 @ dv))
                nv = np.linalg.norm(v)
                ndv = float(np.max(np.linalg.norm(dv, axis=0)))
                sc = (nG + abs(lam[s]) * nG0) * ndv + (float(np.max(np.linalg.norm(dt, axis=(0, 1)))) + abs(lam[s]) * float(np.max(np.linalg.norm(d0, axis=(0, 1))))) * nv
                got = float(np.max(np.linalg.norm(dr, axis=0)))
                ftol = max(1e-9, KTOL * EPS * cond0 / gt[s])
                if ftol > JUDGE:
                    continue
                require(within(got, ftol * sc, 'fluct_eq'), what + ': with vector_obs=True the eigen-equation does not hold to first order in the fluctuations for state %d at t=%d: '
                        '|d(G(t)v - lambda G(t0)v)| = %.3g, scale %.3g (tolerance %.3g)' % (s, t, got, sc, ftol))
    labs = labels(m, c)
    if crossing:
        labs.append('level_crossing_vs_ts')
    if ntot:
        labs.append('directions_judged:%s' % frac_bin(njudged / ntot))
    return {'nt': n >= 3 or t0 >= 2 or bool(none), 'cls': labs}


def frac_bin(f):
    return '0' if f == 0 else ('<50%' if f < 0.5 else ('<100%' if f < 1 else '100%'))


def labels(m, c):
    labs = ['kind:' + m['kind'], 'N:%d' % m['N'], 'sym:' + m['sym'], 'replicas:%d' % len(m['noise']['chains'])]
    if 'sort' in c:
        labs += ['sort:%s' % c['sort'], 'method:%s' % c['method'], 'vector_obs:%s' % c['vector_obs']]
    if m['none']:
        labs.append('undefined_slices')
        if any(0 < t < m['T'] - 1 for t in m['none']):
            labs.append('undefined_interior')
    if c.get('t0', 0) >= 2:
        labs.append('t0>=2')
    if c.get('sort') == 'Eigenvalue' and c.get('ts') is not None:
        labs.append('ts_with_eigenvalue_sort')
    for ch in m['noise']['chains']:
        labs.append('idl:' + gen.classify_idl(ch['idl']))
    if c.get('excluded'):
        labs.append('excluded:' + c['excluded'])
    if c.get('sort') == 'Eigenvector' and m['kind'] == 'table':
        if any(not involution(relative_perm(m['amp'], c['t0'], c['ts'], t)) for t in range(c['t0'] + 1, m['T']) if t not in m['none']):
            labs.append('crossing_not_involution')
    return sorted(set(labs))


# ---------------------------------------------------------------------------------------------------------------
# spectrum

def form_bound(w, Gt):
    """relative rounding of evaluating w^T G w: eps * sum |w_i G_ij w_j| / |w^T G w|."""
    return float(np.abs(w) @ np.abs(Gt) @ np.abs(w)) / abs(float(w @ Gt @ w))


def spectrum_oracle(spec):
    import pyerrors as pe
    m, c = spec['model'], spec['call']
    n, T, t0, ts, sort = m['N'], m['T'], c['t0'], c['ts'], c['sort']
    G, xs, corr, none = setup(m)
    G0 = G[t0]
    cond0 = float(np.linalg.cond(G0))
    E = np.array(m['E'], dtype=float)
    W = np.linalg.inv(overlap_matrix(m))
    kw = gevp_kwargs(c)
    what0 = 'Eigenvalue(t0=%d, ts=%r, sort=%r, method=%r, vector_obs=%r' % (t0, ts, sort, c['method'], c['vector_obs'])
    vecs = corr.GEVP(t0, **dict(kw, vector_obs=False))
    chains = m['noise']['chains']
    njudged = ntot = 0
    for st_ in c['states']:
        what = what0 + ', state=%d)' % st_
        ev = corr.Eigenvalue(t0, state=st_, **kw)
        require(isinstance(ev, pe.Corr) and ev.N == 1 and ev.T == T, what + ': result is not a single-valued correlator of the same length', type(ev).__name__)
        w = W[:, st_]
        for t in range(T):
            undefined = (t in none) or (sort is not None and t <= t0)
            require((ev.content[t] is None) == undefined, what + ': timeslice %d is %s; t0=%d, undefined input slices %r'
                    % (t, 'None' if ev.content[t] is None else 'defined', t0, sorted(none)))
            if undefined:
                continue
            o = ev[t]
            require(isinstance(o, pe.Obs), what + ': entry at t=%d is %s' % (t, type(o).__name__))
            want = math.exp(-E[st_] * (t - t0))
            tsolve = ts if sort is None else t
            ratio = np.exp(-(E - E[0]) * (tsolve - t0))
            rg = relgaps(np.exp(-E * (tsolve - t0)))[st_]
            # admixture delta ~ eps cond / relgap of the other states enters quadratically, amplified by a_m(t)/a_n(t)
            mix = (EPS * cond0 / rg) ** 2 * math.exp((E[-1] - E[0]) * abs(t - t0)) * n
            tol = KTOL * EPS * (cond0 / ratio[st_] + form_bound(w, G[t])) + KTOL * mix
            ntot += 1
            if tol > JUDGE:
                continue
            njudged += 1
            tol = max(tol, 1e-10)
            require(within(abs(float(o.value) - want), tol * want, 'ev_value'), what + ': value at t=%d is %r, exact spectrum gives exp(-E_%d (t-t0)) = %r (rel. dev. %.3g, tolerance %.3g)'
                    % (t, float(o.value), st_, want, abs(float(o.value) / want - 1), tol), E.tolist())
            # fluctuations
            v, _ = vec_values(pick(vecs, sort, st_, t), what)
            d = obs_deltas(o, chains, what + ' t=%d' % t)
            exp_d = np.einsum('i,ijc,j->c', v, dG(xs, t, n), v)
            sc = float(np.max(np.einsum('i,ijc,j->c', np.abs(v), np.abs(dG(xs, t, n)), np.abs(v))))
            if c['vector_obs']:
                d0 = dG(xs, t0, n)
                lam = float(v @ G[t] @ v)
                exp_d = exp_d - lam * np.einsum('i,ijc,j->c', v, d0, v)
                sc += abs(lam) * float(np.max(np.einsum('i,ijc,j->c', np.abs(v), np.abs(d0), np.abs(v))))
            # factor 10: the thorough tier (186 000 cases) met three cases at 1.2 - 1.9 times the a-priori bound
            ftol = 10 * max(1e-9, KTOL * EPS * cond0 / min(rg, ratio[st_]))
            if ftol <= JUDGE:
                require(within(np.max(np.abs(d - exp_d)), ftol * sc, 'ev_fluct_vobs' if c['vector_obs'] else 'ev_fluct'), what + ': fluctuation at t=%d differs from v^T dG(t) v%s: max dev %.3g, scale %.3g (tolerance %.3g)'
                        % (t, ' - lambda v^T dG(t0) v' if c['vector_obs'] else '', float(np.max(np.abs(d - exp_d))), sc, ftol))
    if sort is None and isinstance(vecs, (list, np.ndarray)) and len(vecs) > 0 and isinstance(vecs[0], np.ndarray):
        # a sequence of calls on one eigenvector: a projection with the rarely used normalize=True in between must not
        # change what the vector projects to afterwards (the GEVP normalisation v^T G(t0) v = 1 belongs to the caller)
        st0 = c['states'][0]
        v0 = vecs[st0]
        keep = np.array(v0, dtype=float).copy()
        p1 = corr.projected(v0)
        corr.projected(v0, normalize=True)
        p2 = corr.projected(v0)
        require(np.array_equal(np.array(v0, dtype=float), keep), what0 + '): projected(v, normalize=True) rescaled the eigenvector it was given',
                keep.tolist(), np.array(v0, dtype=float).tolist())
        for t in range(T):
            if p1.content[t] is None:
                continue
            a_, b_ = float(p1[t].value), float(p2[t].value)
            require(abs(a_ - b_) <= 1e-12 * max(abs(a_), abs(b_)), what0 + '): projected(v) at t=%d is %r before and %r after a call projected(v, normalize=True)'
                    % (t, a_, b_))
    labs = labels(m, c)
    labs.append('values_judged:%s' % frac_bin(njudged / max(ntot, 1)))
    return {'nt': n >= 3 or t0 >= 2 or bool(none), 'cls': labs}


# ---------------------------------------------------------------------------------------------------------------
# prune

def prune_oracle(spec):
    import pyerrors as pe
    import scipy.linalg
    m, c = spec['model'], spec['call']
    n, T, nt_ = m['N'], m['T'], c['Ntrunc']
    tp, t0p, t0 = c['tproj'], c['t0proj'], c['t0']
    labs = labels(m, {'excluded': c.get('excluded')})
    G, xs, corr, none = setup(m)
    E = np.array(m['E'], dtype=float)
    kept = list(range(nt_))
    base = None
    Gb = G
    if c['base'] is not None:
        Eb = np.array(c['base']['E'], dtype=float)
        Gb, _, base, _ = setup(m, E=Eb, none=c['base']['none'], noise_seed=c['base']['noise_seed'])
        kept = [int(k) for k in np.argsort(Eb, kind='stable')[:nt_]]
        labs.append('basematrix' + ('_reordered' if kept != list(range(nt_)) else ''))
    what = 'prune(Ntrunc=%d, tproj=%d, t0proj=%d%s)' % (nt_, tp, t0p, ', basematrix' if base is not None else '')
    if c['defaults'] and base is None:
        P = corr.prune(nt_)
    elif base is None:
        P = corr.prune(nt_, tproj=tp, t0proj=t0p)
    else:
        P = corr.prune(nt_, tproj=tp, t0proj=t0p, basematrix=base)
    require(isinstance(P, pe.Corr) and P.T == T, what + ': result is not a correlator of the same length', type(P).__name__)
    vals = []
    for t in range(T):
        require((P.content[t] is None) == (t in none), what + ': timeslice %d is %s, undefined input slices %r' % (t, 'None' if P.content[t] is None else 'defined', sorted(none)))
        if t in none:
            vals.append(None)
            continue
        arr = np.asarray(P.content[t])
        require(arr.shape == (nt_, nt_), what + ': pruned matrix at t=%d has shape %r' % (t, arr.shape))
        require(all(isinstance(x, pe.Obs) for x in arr.ravel()), what + ': pruned matrix at t=%d has non-Obs entries' % t)
        vals.append(np.array([[float(x.value) for x in row] for row in arr]))
    require(t0 not in none, 'internal: t0 undefined')
    # the vectors prune must have used (numbers): G_base(tproj) v = lambda G_base(t0proj) v, largest eigenvalues first
    cond0 = float(np.linalg.cond(Gb[t0p]))
    W = np.linalg.inv(overlap_matrix(m))
    # energies of the pruned matrix: generalised eigenvalues of (P(t), P(t0))
    P0 = 0.5 * (vals[t0] + vals[t0].T)
    Ek = np.sort(E[kept])
    njudged = ntot = 0
    # a-priori accuracy: the pruned matrix is diag(c_k^2 a_k(t)) + mixing of the discarded states with amplitude
    # delta ~ eps cond / relgap (vector error at tproj); judged where the bound is below 1e-6
    Esel = np.array(c['base']['E'], dtype=float) if c['base'] is not None else E
    rg = relgaps(np.exp(-Esel * (tp - t0p)))
    delta = EPS * cond0 / np.min(rg[kept])
    for t in range(T):
        if t in none or t == t0:
            continue
        Pt = 0.5 * (vals[t] + vals[t].T)
        want = np.exp(-Ek * (t - t0))
        # mixing: (delta^2) a_m(t)/a_k(t) summed over all states m, relative to the kept eigenvalue (both at t and at t0)
        amp_t = max(math.exp((E[k] - E[0]) * t) for k in kept)
        amp_0 = max(math.exp((E[k] - E[0]) * t0) for k in kept)
        fb = max(form_bound(W[:, k], G[t]) + form_bound(W[:, k], G[t0]) for k in kept)
        tol = KTOL * (n * delta ** 2 * (amp_t + amp_0) + EPS * fb + EPS * cond0)
        ntot += 1
        if tol > JUDGE:
            continue
        njudged += 1
        tol = max(tol, 1e-10)
        try:
            lam = np.sort(scipy.linalg.eigh(Pt, P0, eigvals_only=True))
        except Exception as e:
            raise Violation(what + ': pruned matrix at t0=%d is not positive definite (%s)' % (t0, e))
        lam = lam[::-1] if t > t0 else lam
        require(within(np.max(np.abs(lam - want) / want), tol, 'prune_energy'), what + ': generalised eigenvalues of the pruned matrix at t=%d (t0=%d) are %r, the energies of the kept states %r give %r (tolerance %.3g)'
                % (t, t0, lam.tolist(), Ek.tolist(), want.tolist(), tol))
    # fluctuations of the pruned elements: v_i^T dG(t) v_j with the vectors of the (base) GEVP at (t0proj, tproj)
    bvec = (base if base is not None else corr).GEVP(t0p, tp, sort=None)
    V = [vec_values(bvec[i], what)[0] for i in range(nt_)]
    if KTOL * delta <= JUDGE:
        for i, k in enumerate(kept):
            require(within(sin_angle(V[i], W[:, k]), max(KTOL * delta, 1e-10), 'prune_vec'), 'GEVP(sort=None) vector %d is not the eigenvector of model state %d' % (i, k))
        chains = m['noise']['chains']
        for t in range(T):
            if t in none:
                continue
            arr = np.asarray(P.content[t])
            d = dG(xs, t, n)
            for i in range(nt_):
                for j in range(nt_):
                    # (for non-symmetric input prune projects the matrix as it is; only the symmetric part is judged)
                    got = 0.5 * (obs_deltas(arr[i, j], chains, what + ' element (%d,%d) t=%d' % (i, j, t))
                                 + obs_deltas(arr[j, i], chains, what + ' element (%d,%d) t=%d' % (j, i, t)))
                    exp_d = np.einsum('i,ijc,j->c', V[i], d, V[j])
                    sc = float(np.max(np.einsum('i,ijc,j->c', np.abs(V[i]), np.abs(d), np.abs(V[j]))))
                    require(within(np.max(np.abs(got - exp_d)), 1e-9 * sc, 'prune_fluct'), what + ': fluctuation of element (%d,%d) at t=%d is not v_i^T dG(t) v_j: max dev %.3g, scale %.3g'
                            % (i, j, t, float(np.max(np.abs(got - exp_d))), sc))
    labs += ['Ntrunc:%d' % nt_, 'energies_judged:%s' % frac_bin(njudged / max(ntot, 1))]
    if c['defaults']:
        labs.append('default_times')
    return {'nt': n >= 3 or t0p >= 2 or bool(none), 'cls': sorted(set(labs))}


# ---------------------------------------------------------------------------------------------------------------
# matrix pencil

def mpm_sensitivity(E, amps, T, pp):
    """First-order sensitivity of the matrix-pencil energies to the data, per level: S_n = sum_t |dE_n / dc(t)| m(t) with
    m(t) = sum_q |A_q| exp(-E_q t) >= |c(t)| (the size of the rounding of c(t) is eps m(t), cancellations included).

    Exact data: Y2 = A B and Y1 = A L B with A[(set, i), n] = A^set_n exp(-E_n i), B[n, j] = exp(-E_n (j + 1)),
    L = diag(exp(E_n)).  The estimator of eq. (2.17) returns the logarithms of the eigenvalues of the rank-k pencil
    (Y1, Y2); to first order in a perturbation of the data
        d lambda_n = (A^+)[n, :] (dY1 - lambda_n dY2) (B^+)[:, n],   dE_n = d lambda_n / lambda_n,
    dY1[(set, i), j] = dc_set(i + j), dY2[(set, i), j] = dc_set(i + j + 1)   (checked against finite differences of an
    independent numpy transcription of eq. (2.17) to 1e-7 relative).  This is the condition number of the problem
    the method solves: the rounding of the data alone moves E_n by about eps S_n.
    """
    k = len(E)
    r = T - pp
    A = np.concatenate([np.array([[a[n] * math.exp(-E[n] * i) for n in range(k)] for i in range(r)]) for a in amps])
    B = np.array([[math.exp(-E[n] * (j + 1)) for j in range(pp)] for n in range(k)])
    Ap, Bp = np.linalg.pinv(A), np.linalg.pinv(B)
    S = np.zeros(k)
    for si, a in enumerate(amps):
        mag = np.array([float(np.sum(np.abs(a) * np.exp(-E * t))) for t in range(T)])
        for n in range(k):
            lam = math.exp(E[n])
            W = np.outer(Ap[n, si * r:(si + 1) * r], Bp[:, n])
            g = np.zeros(T)
            for i in range(r):
                g[i:i + pp] += W[i] / lam
                g[i + 1:i + pp + 1] -= W[i]
            S[n] += float(np.sum(np.abs(g) * mag))
    return S


def mpm_oracle(spec):
    import pyerrors as pe
    import scipy.linalg
    from pyerrors.mpm import matrix_pencil_method
    k, T, p = spec['k'], spec['T'], spec['p']
    E = np.array(spec['E'], dtype=float)
    ch = spec['noise']['chains']
    names = [c['name'] for c in ch]
    lens = [len(c['idl']) for c in ch]
    rng = np.random.RandomState(spec['noise']['seed'] % (2 ** 32))
    sig = spec['noise']['sigma']
    data, exact = [], []
    relnoise = 0.0
    for amp in spec['amp']:
        amp = np.array(amp, dtype=float)
        cs = np.array([float(np.sum(amp * np.exp(-E * t))) for t in range(T)])
        row = []
        if spec['noise_kind'] == 'amplitude':
            al = [[sig * abs(amp[q]) * x for x in antithetic(rng, lens)] for q in range(k)]
        for t in range(T):
            if spec['noise_kind'] == 'amplitude':
                parts = [sum(al[q][r] * math.exp(-E[q] * t) for q in range(k)) for r in range(len(lens))]
            else:
                parts = [sig * abs(cs[t]) * x for x in antithetic(rng, lens)]
            relnoise = max(relnoise, max(float(np.max(np.abs(x))) for x in parts) / float(np.max(np.abs(cs))))
            row.append(pe.Obs([cs[t] + x for x in parts], names, idl=[idl_arg(c) for c in ch]))
        data.append(row)
        exact.append(cs)
    pp = p if p is not None else max(T // 2, k)
    y2 = np.concatenate([scipy.linalg.hankel(cs[:T - pp], cs[T - pp - 1:])[:, 1:] for cs in exact])
    sv = np.linalg.svd(y2, compute_uv=False)
    cond = float(sv[0] / sv[k - 1]) if sv[k - 1] > 0 else float('inf')
    tol = KTOL * EPS * cond * np.exp(E)
    bound = 'cond'
    if np.max(tol) > JUDGE:
        # The bound through cond(Y2) is pessimistic for large condition numbers (observed error / bound falls from 20 at
        # cond 1e2 to 0.05 at cond 1e10).  What the data determine is measured by the first-order sensitivity of every
        # energy to the data: observed error <= 18 eps S_n uniformly over cond = 1 .. 1e11 (12 000 cases, unchanged tree).
        # Such cases are judged with KTOL eps S_n where that is below JUDGE_MPM; the rest is genuinely ill-conditioned.
        if not (np.isfinite(cond) and cond < 1e11):
            raise Skip('ill-conditioned pencil (cond(Y2) >= 1e11)')
        tol = KTOL * EPS * mpm_sensitivity(E, [np.array(a_, dtype=float) for a_ in spec['amp']], T, pp)
        bound = 'sensitivity'
        if not np.max(tol) <= JUDGE_MPM:
            raise Skip('ill-conditioned pencil (sensitivity bound above 1e-4)')
    arg = data[0] if len(data) == 1 else data
    what = 'matrix_pencil_method(k=%d, p=%r, T=%d%s)' % (k, p, T, ', %d correlators' % len(data) if len(data) > 1 else '')
    if p is None:
        res = matrix_pencil_method(arg, k=k) if k > 1 or spec['noise']['seed'] % 2 else matrix_pencil_method(arg)
    else:
        res = matrix_pencil_method(arg, k=k, p=p)
    require(len(res) == k, what + ': %d energies returned' % len(res))
    require(all(isinstance(x, pe.Obs) for x in res), what + ': energies are not Obs', [type(x).__name__ for x in res])
    got = np.array([float(x.value) for x in res])
    require(within(np.max(np.abs(got - E) / np.maximum(tol, 1e-10)), 1.0, 'mpm_energy' if bound == 'cond' else 'mpm_energy_sens'), what + ': energies %r, exact spectrum %r (tolerances %r from the %s bound, cond %.3g)' % (got.tolist(), E.tolist(), tol.tolist(), bound, cond))
    if spec['noise_kind'] == 'amplitude':
        # every configuration is an exact multi-exponential with the same energies: no first-order fluctuation
        for q, x in enumerate(res):
            dmax = max([float(np.max(np.abs(d))) for d in x.deltas.values()] + [0.0])
            require(within(dmax, 1e-8 * cond * relnoise * math.exp(E[q]), 'mpm_fluct' if bound == 'cond' else 'mpm_fluct_sens'), what + ': energy %d fluctuates (max |delta| = %.3g) although every configuration has exactly the same energies '
                    '(generic sensitivity cond*noise = %.3g)' % (q, dmax, cond * relnoise))
    labs = ['k:%d' % k, 'p:' + ('default' if p is None else ('low' if p < T / 3 else ('high' if p > 2 * T / 3 else 'mid'))), 'noise:' + spec['noise_kind'],
            'sets:%d' % len(data), 'replicas:%d' % len(ch), 'cond:1e%d' % int(math.log10(max(cond, 1.0)))]
    if any(a_ < 0 for a_ in spec['amp'][0]):
        labs.append('negative_amplitude')
    # smallest singular value that the method has to keep, relative to the largest
    svk = 1.0 / cond
    labs += ['mode:' + spec.get('mode', 'wide'), 'bound:' + bound,
             'svk:' + ('>=1e-4' if svk >= 1e-4 else ('1e-7..1e-4' if svk >= 1e-7 else '<1e-7'))]
    if svk < 1.5e-8:
        labs.append('svk<sqrt(eps)')
    return {'nt': k >= 2, 'cls': labs}


SUBS = [
    Sub('eigen', eigen_case, eigen_oracle, {'quick': 250, 'thorough': 6000}, {'quick': 8, 'thorough': 16},
        doc='GEVP vectors: eigen-equation, order, eigh vs cholesky, known eigenvectors, eigenvector sorting, None slices'),
    Sub('spectrum', spectrum_case, spectrum_oracle, {'quick': 120, 'thorough': 3000}, {'quick': 4, 'thorough': 16},
        doc='Eigenvalue correlator of exact N-exponential matrices = exp(-E_n (t-t0))'),
    Sub('prune', prune_case, prune_oracle, {'quick': 120, 'thorough': 3000}, {'quick': 2, 'thorough': 8},
        doc='prune keeps the energies of the lowest states'),
    Sub('mpm', mpm_case, mpm_oracle, {'quick': 120, 'thorough': 2500}, {'quick': 2, 'thorough': 8},
        doc='matrix pencil on exact multi-exponential correlators', max_skip_frac=0.4),
]
