"""C20  Constant tables and special-function derivatives are mathematically exact.

Sub-properties
  dirac     (complete enumeration) Euclidean Clifford algebra {g_mu, g_nu} = 2 delta_mu_nu for all 16 pairs,
            hermiticity, gamma5 = gX gY gZ gT, gamma5 anticommutes with each of the four - on the named matrices
            (gammaX ... gammaT) and on the container `gamma[mu]`.
  grid      (complete enumeration) all 16 Grid tags against products / commutators built here from the named
            matrices; a fixed list of near-miss tags must be rejected.
  epsilon   (complete enumeration) every tuple of {0..4}^3 and {0..4}^4: permutation sign by inversion counting
            inside the domain (all indices from {1..r} or all from {0..r-1}), rejection outside.
  tags      generated tag strings (mutations / concatenations of the 16 names, other types): a known name must
            give the stated matrix, everything else must be rejected.
  eps_forms generated index tuples with entries from -3..8 in several numeric representations.
  kn        K_n applied to an observable (n = -6..6, x in (0.05, 20)) plain and inside composite expressions
            (scaled, squared, log, scaled argument, sum of two orders, product with a second observable,
            vectorised over two observables): result == first-order propagation with the exact derivative
            -(K_{n-1} + K_{n+1})/2 (RefObs.combine), scipy values.
  special   every re-exported special function applied to observables on arguments inside its domain:
            result == first-order propagation with the analytic derivative written here from the DLMF
            identities (checked against central differences at import and per case).
"""
import itertools
import math

import numpy as np
import scipy.special as sp
from hypothesis import strategies as st

from vlib import gen
from vlib.build import build_obs
from vlib.core import spec_hash, Sub, Skip, require
from vlib.refobs import RefObs, combine, cmp_obs

PROPERTY = 'C20'
LEVEL = 'exploration'
RULE = ('Tables: every entry is one case (52 algebra relations on the named matrices and on the container gamma[mu], 16 Grid tags '
        '+ 48 fixed unknown tags, 125 + 625 index tuples), all distinct and non-trivial, enumerated completely. '
        'Generated: tag strings obtained by mutating the 16 names; index tuples from -3..8 as int / numpy int / float; '
        'K_n and the 30 other re-exported special functions applied through derived_observable to observables '
        '(1-2 ensembles x 1-2 replicas, contiguous / strided / irregular configuration lists, optional covariance '
        'input) whose central value is placed at a drawn argument inside the domain. A K_n case is non-trivial if the '
        'observable fluctuates and (n >= 1 with x < 1, where K_{n-1} and K_{n+1} differ by more than 2 K_n, or n <= 0, '
        'where the order n-1 is negative); a special-function case is non-trivial if the observable fluctuates; '
        'a generated tag / tuple case is non-trivial if it is not one of the enumerated table entries in its plain '
        'representation. distinct = distinct spec hash.')
ASSUMPTIONS = ['matrix entries are in {0, +-1, +-i, +-1/2 ...}: products are exact in floating point, comparisons are exact',
               'scipy.special values are the reference for function values (K_n additionally self-checked at import '
               'against the integral representation int_0^inf exp(-x cosh t) cosh(n t) dt to 1e-9)',
               'analytic derivatives of the reference are written from the DLMF identities and asserted at import against '
               'central differences on a fixed grid (1e-6); per case the same cross-check is repeated and a disagreement '
               'is counted as skipped (oracle not applicable), never as violation',
               'RefObs.combine is the statement of C01 (vlib/refobs.py); the operand reference is read from the constructed '
               'Obs after it was verified against RefObs.from_spec',
               'tolerances: fluctuations 1e-10 relative + 1e-12 of (sum of |terms of the derivative formula|) x max|delta|; '
               'values 1e-11 relative',
               'the domain of epsilon_tensor(_rank4) is read as: all indices from {1..r} or all from {0..r-1}',
               'rejection = any exception; float-valued integral indices may be accepted (correct sign) or rejected']
EXHAUSTIVE = {'dirac': 'all 16 (mu,nu) pairs, 4 hermiticity, product and 4 anticommutators of gamma5, for 2 sources',
              'grid': 'all 16 Grid tags',
              'epsilon': 'all 125 tuples of {0..4}^3 and all 625 tuples of {0..4}^4'}

MU = ['X', 'Y', 'Z', 'T']


# =============================================================================================
# tables (enumerated completely)

def _dirac():
    import pyerrors as pe
    return pe.dirac


def _named(d, src):
    """the four Dirac matrices, either the named module constants or the container"""
    if src == 'named':
        return [np.asarray(getattr(d, 'gamma' + m)) for m in MU]
    return [np.asarray(d.gamma[i]) for i in range(4)]


def _is44(m):
    return isinstance(m, np.ndarray) and m.shape == (4, 4)


def _exact(a, b):
    a = np.asarray(a)
    b = np.asarray(b)
    return a.shape == b.shape and bool(np.all(a == b))


def dirac_cases():
    out = []
    for src in ('named', 'container'):
        for mu in range(4):
            for nu in range(4):
                out.append({'rel': 'anticommutator', 'src': src, 'mu': mu, 'nu': nu})
        for mu in range(4):
            out.append({'rel': 'hermitian', 'src': src, 'mu': mu})
        out.append({'rel': 'gamma5_product', 'src': src})
        for mu in range(4):
            out.append({'rel': 'gamma5_anticommutes', 'src': src, 'mu': mu})
    out.append({'rel': 'identity', 'src': 'named'})
    out.append({'rel': 'container_shape', 'src': 'container'})
    return out


def dirac_oracle(spec):
    d = _dirac()
    rel = spec['rel']
    if rel == 'container_shape':
        g = np.asarray(d.gamma)
        require(g.shape == (4, 4, 4), 'dirac.gamma is not a stack of four 4x4 matrices', g.shape)
        return {'nt': True, 'cls': ['rel:' + rel]}
    if rel == 'identity':
        require(_exact(d.identity, np.eye(4)), 'dirac.identity is not the unit matrix', np.asarray(d.identity).tolist())
        return {'nt': True, 'cls': ['rel:' + rel]}
    g = _named(d, spec['src'])
    for i, m in enumerate(g):
        require(_is44(m), 'gamma%s (%s) is not a 4x4 array' % (MU[i], spec['src']), getattr(m, 'shape', None))
    g5 = np.asarray(d.gamma5)
    require(_is44(g5), 'gamma5 is not a 4x4 array')
    one = np.eye(4)
    if rel == 'anticommutator':
        mu, nu = spec['mu'], spec['nu']
        ac = g[mu] @ g[nu] + g[nu] @ g[mu]
        want = 2.0 * one if mu == nu else 0.0 * one
        require(_exact(ac, want), '{gamma%s, gamma%s} (%s) is not %s' % (MU[mu], MU[nu], spec['src'], '2*1' if mu == nu else '0'),
                ac.tolist())
    elif rel == 'hermitian':
        m = g[spec['mu']]
        require(_exact(m, m.conj().T), 'gamma%s (%s) is not Hermitian' % (MU[spec['mu']], spec['src']), m.tolist())
    elif rel == 'gamma5_product':
        p = g[0] @ g[1] @ g[2] @ g[3]
        require(_exact(g5, p), 'gamma5 is not gammaX gammaY gammaZ gammaT (%s)' % spec['src'], g5.tolist(), p.tolist())
    elif rel == 'gamma5_anticommutes':
        m = g[spec['mu']]
        ac = g5 @ m + m @ g5
        require(_exact(ac, 0.0 * one), '{gamma5, gamma%s} (%s) does not vanish' % (MU[spec['mu']], spec['src']), ac.tolist())
    else:
        raise ValueError(rel)
    return {'nt': True, 'cls': ['rel:' + rel, 'src:' + spec['src']]}


# ---- Grid tags: name -> how the matrix is built from gX, gY, gZ, gT (indices into MU), written from the names
GRID = {'Identity': ('one',), 'Gamma5': ('g5',),
        'GammaX': ('g', 0), 'GammaY': ('g', 1), 'GammaZ': ('g', 2), 'GammaT': ('g', 3),
        'GammaXGamma5': ('gg5', 0), 'GammaYGamma5': ('gg5', 1), 'GammaZGamma5': ('gg5', 2), 'GammaTGamma5': ('gg5', 3),
        'SigmaXT': ('sigma', 0, 3), 'SigmaXY': ('sigma', 0, 1), 'SigmaXZ': ('sigma', 0, 2),
        'SigmaYT': ('sigma', 1, 3), 'SigmaYZ': ('sigma', 1, 2), 'SigmaZT': ('sigma', 2, 3)}
assert len(GRID) == 16

UNKNOWN_TAGS = ['', ' ', 'identity', 'IDENTITY', 'Identity ', ' Identity', 'Identit', 'Identityy', 'Unity', 'One', '1',
                'Gamma', 'Gamma6', 'Gamma55', 'gamma5', 'GAMMA5', 'Gamma_5', 'GammaW', 'Gammax', 'gammaX', 'GammaXY',
                'GammaXGamma', 'Gamma5GammaX', 'GammaXGammaY', 'Gamma5Gamma5', 'GammaXGamma5 ', 'GammaX Gamma5',
                'GammaTGammaT', 'SigmaTX', 'SigmaYX', 'SigmaZX', 'SigmaTY', 'SigmaZY', 'SigmaTZ', 'SigmaXX', 'SigmaYY',
                'SigmaZZ', 'SigmaTT', 'Sigma', 'SigmaX', 'SigmaXYZ', 'sigmaXY', 'SigmaXy', 'Sigmaxy', 'SigmaXT\n',
                'Not a gamma matrix', 'X', 'XT']
assert not set(UNKNOWN_TAGS) & set(GRID)


def grid_expected(d, name):
    g = _named(d, 'named')
    how = GRID[name]
    if how[0] == 'one':
        return np.eye(4)
    g5 = g[0] @ g[1] @ g[2] @ g[3]
    if how[0] == 'g5':
        return g5
    if how[0] == 'g':
        return g[how[1]]
    if how[0] == 'gg5':
        return g[how[1]] @ g5
    a, b = g[how[1]], g[how[2]]
    return 0.5 * (a @ b - b @ a)


def make_tag(t):
    form, v = t['form'], t.get('v')
    if form == 'str':
        return v
    if form == 'npstr':
        return np.str_(v)
    if form == 'bytes':
        return v.encode()
    if form == 'none':
        return None
    if form == 'int':
        return int(v)
    if form == 'list':
        return [v]
    if form == 'tuple':
        return (v,)
    raise ValueError(form)


def tag_oracle(spec):
    """A known name (as str / numpy str) must give the stated matrix, anything else must be rejected."""
    d = _dirac()
    t = spec['tag']
    tag = make_tag(t)
    known = t['form'] in ('str', 'npstr') and t['v'] in GRID
    try:
        res = d.Grid_gamma(tag)
    except Exception as e:
        require(not known, 'Grid_gamma(%r) raised %s: %s for a named Grid structure' % (tag, type(e).__name__, e))
        return {'nt': True, 'cls': ['unknown:rejected:' + type(e).__name__, 'form:' + t['form']]}
    require(known, 'Grid_gamma(%r) returned a matrix for an unknown gamma structure' % (tag,), np.asarray(res).tolist())
    want = grid_expected(d, t['v'])
    require(_is44(np.asarray(res)), 'Grid_gamma(%r) is not a 4x4 array' % (tag,), getattr(res, 'shape', None))
    require(_exact(res, want), 'Grid_gamma(%r) is not the stated product / commutator' % (tag,), np.asarray(res).tolist(), want.tolist())
    # every named structure equals the stated matrix - also after other structures have been asked for: a caller keeps the
    # matrices it was given (e.g. a list comprehension over the names) and each must still be the one of its name
    kept = [(n_, d.Grid_gamma(n_)) for n_ in sorted(GRID)]
    require(_exact(res, want), 'the matrix returned by Grid_gamma(%r) changed when other structures were requested afterwards' % (tag,),
            np.asarray(res).tolist(), want.tolist())
    for n_, m_ in kept:
        require(_exact(m_, grid_expected(d, n_)), 'Grid_gamma(%r), kept while the other structures were requested, is no longer the stated matrix' % (n_,),
                np.asarray(m_).tolist())
    return {'nt': bool(spec.get('table', False)) or t['form'] != 'str', 'cls': ['known:' + GRID[t['v']][0], 'form:' + t['form']]}


def grid_cases():
    out = [{'table': True, 'tag': {'form': 'str', 'v': n}} for n in GRID]
    out += [{'table': True, 'tag': {'form': 'str', 'v': n}} for n in UNKNOWN_TAGS]
    return out


# ---- epsilon tensors

def perm_sign(t):
    if len(set(t)) < len(t):
        return 0
    inv = 0
    for a in range(len(t)):
        for b in range(a + 1, len(t)):
            if t[a] > t[b]:
                inv += 1
    return -1 if inv % 2 else 1


def in_domain(t, rank):
    s = set(t)
    return s <= set(range(1, rank + 1)) or s <= set(range(0, rank))


def make_index(e):
    form, v = e['form'], e['v']
    if form == 'int':
        return int(v)
    if form == 'int64':
        return np.int64(v)
    if form == 'int32':
        return np.int32(v)
    if form == 'int8':
        return np.int8(v)
    if form == 'float':
        return float(v)
    if form == 'frac':
        return float(v) + 0.5
    raise ValueError(form)


def _is_real_number(x):
    return isinstance(x, (int, float, np.integer, np.floating)) and not isinstance(x, (bool, np.bool_))


def eps_oracle(spec):
    d = _dirac()
    idx = spec['idx']
    rank = len(idx)
    fn = d.epsilon_tensor if rank == 3 else d.epsilon_tensor_rank4
    name = 'epsilon_tensor' if rank == 3 else 'epsilon_tensor_rank4'
    forms = sorted(set(e['form'] for e in idx))
    args = [make_index(e) for e in idx]
    integral = all(e['form'] != 'frac' for e in idx)
    ints = [int(e['v']) for e in idx]
    dom = integral and in_domain(ints, rank)
    lenient = any(e['form'] == 'float' for e in idx)      # float-valued integral indices: accept or reject, never a wrong number
    try:
        res = fn(*args)
    except Exception as e:
        require((not dom) or lenient, '%s%r raised %s: %s inside its domain' % (name, tuple(args), type(e).__name__, e))
        return {'nt': spec.get('table', False) or forms != ['int'] or max(ints) > 4 or min(ints) < 0,
                'cls': ['rank%d:rejected' % rank] + ['form:' + f for f in forms]}
    require(dom, '%s%r returned %r for an index tuple outside its domain' % (name, tuple(args), res))
    want = perm_sign(ints)
    require(_is_real_number(res), '%s%r returned a %s' % (name, tuple(args), type(res).__name__))
    require(res == want, '%s%r = %r, permutation sign is %d' % (name, tuple(args), res, want))
    return {'nt': spec.get('table', False) or forms != ['int'],
            'cls': ['rank%d:%s' % (rank, {0: 'zero', 1: 'even', -1: 'odd'}[want])] + ['form:' + f for f in forms]}


def eps_cases():
    out = []
    for rank in (3, 4):
        for t in itertools.product(range(5), repeat=rank):
            out.append({'table': True, 'idx': [{'form': 'int', 'v': v} for v in t]})
    return out


def make_enum(cases, oracle):
    def run(tier, seed, shard, nshards, stats):
        from vlib.util import reset_state
        for i, spec in enumerate(cases()):
            if i % nshards != shard:
                continue
            stats.begin(spec)
            reset_state()
            try:
                info = oracle(spec)
            except Skip as s:
                stats.skip(spec, s.reason)
                continue
            except BaseException as e:
                e.spec = spec
                raise
            stats.record(spec, info)
    return run


# ---- generated tags and index tuples

_ALPHA = 'GamSigXYZT5Identy '


@st.composite
def tag_case(draw, tier):
    names = sorted(GRID)
    how = draw(st.sampled_from(['known', 'delete', 'case', 'swap', 'insert', 'concat', 'sigma_any', 'gamma_any', 'text',
                                'other_type']))
    form = 'str'
    v = draw(st.sampled_from(names))
    if how == 'known':
        form = draw(st.sampled_from(['str', 'npstr', 'npstr', 'bytes', 'list', 'tuple']))
    elif how == 'delete':
        i = draw(st.integers(0, len(v) - 1))
        v = v[:i] + v[i + 1:]
    elif how == 'case':
        i = draw(st.integers(0, len(v) - 1))
        v = v[:i] + v[i].swapcase() + v[i + 1:]
    elif how == 'swap':
        i = draw(st.integers(0, len(v) - 2))
        v = v[:i] + v[i + 1] + v[i] + v[i + 2:]
    elif how == 'insert':
        i = draw(st.integers(0, len(v)))
        v = v[:i] + draw(st.sampled_from(list(_ALPHA))) + v[i:]
    elif how == 'concat':
        v = v + draw(st.sampled_from(names + ['Gamma5', 'GammaX']))
    elif how == 'sigma_any':
        v = 'Sigma' + draw(st.sampled_from(MU + ['5'])) + draw(st.sampled_from(MU + ['5', '']))
    elif how == 'gamma_any':
        v = 'Gamma' + draw(st.sampled_from(MU + ['5'])) + draw(st.sampled_from(['', 'Gamma5', 'Gamma' + draw(st.sampled_from(MU))]))
    elif how == 'text':
        v = draw(st.text(alphabet=_ALPHA, min_size=0, max_size=14))
    else:
        form = draw(st.sampled_from(['none', 'int']))
        v = draw(st.integers(-2, 16)) if form == 'int' else None
    return {'tag': {'form': form, 'v': v}, 'how': how}


@st.composite
def eps_case(draw, tier):
    rank = draw(st.sampled_from([3, 4]))
    mode = draw(st.sampled_from(['perm1', 'perm0', 'domain1', 'domain0', 'mixed', 'wide']))
    perm = None
    if mode in ('perm1', 'perm0'):
        # a permutation of the index set, with one entry possibly replaced (repeated index / index outside the set)
        base = list(range(1, rank + 1)) if mode == 'perm1' else list(range(rank))
        perm = list(draw(st.permutations(base)))
        if draw(st.integers(0, 3)) == 0:
            perm[draw(st.integers(0, rank - 1))] = draw(st.integers(-1, rank + 1))
        vals = None
    elif mode == 'domain1':
        vals = st.integers(1, rank)
    elif mode == 'domain0':
        vals = st.integers(0, rank - 1)
    elif mode == 'mixed':
        vals = st.integers(0, rank)
    else:
        vals = st.integers(-3, 8)
    formmode = draw(st.sampled_from(['int', 'numpy', 'float', 'any']))
    idx = []
    for k in range(rank):
        if formmode == 'int':
            f = 'int'
        elif formmode == 'numpy':
            f = draw(st.sampled_from(['int64', 'int32', 'int8', 'int']))
        elif formmode == 'float':
            f = draw(st.sampled_from(['float', 'float', 'int']))
        else:
            f = draw(st.sampled_from(['int', 'int64', 'int32', 'int8', 'float', 'frac']))
        idx.append({'form': f, 'v': perm[k] if perm is not None else draw(vals)})
    return {'idx': idx, 'mode': mode}


# =============================================================================================
# observables placed at a drawn argument

DATA_KINDS = ('white', 'ar1', 'const', 'alt', 'list')


@st.composite
def obs_near(draw, x, room, nmax, pool, ens_max=2, rep_max=2):
    """obs spec whose central value is x up to the sampling noise of its chains (sigma = rel * room, rel <= 0.1,
    room = distance of x to the boundary of the domain), built as sum over ensembles + optional covariance part."""
    rel = draw(st.sampled_from([0.002, 0.02, 0.1]))
    sigma = rel * room
    enss = draw(gen.ensemble_names(1, ens_max))
    cov = draw(gen.cov_part(pool, 0.6))     # one pool per case: a shared name means the same covariance matrix
    c = sum(g * m for cv in cov for g, m in zip(cv['grad'], cv['means']))
    w = [draw(st.sampled_from([1.0, 0.5, 0.25, 2.0])) for _ in enss]
    chains = []
    for e, wi in zip(enss, w):
        me = (x - c) * wi / sum(w)
        chains += draw(gen.single_ensemble_chains(e, 5, nmax, rep_max, data_kinds=DATA_KINDS,
                                                  mean=st.just(me), sigma=st.just(sigma)))
    return {'chains': chains, 'cov': cov}


def build_inputs(specs):
    """pyerrors observables of the specs (verified against RefObs.from_spec) and their references."""
    obs, refs = [], []
    for sp_ in specs:
        o = build_obs(sp_)
        cmp_obs(RefObs.from_spec(sp_), o, 'constructed operand', check_form=True)
        obs.append(o)
        refs.append(RefObs.from_pe(o))
    return obs, refs


def fluctuates(o):
    return any(float(np.max(np.abs(d), initial=0.0)) > 1e-12 * max(1.0, abs(float(o.value))) for d in o.deltas.values()) \
        or len(o.covobs) > 0


def layout_labels(specs):
    labs = set()
    for s in specs:
        enss = set(c['name'].split('|')[0] for c in s['chains'])
        if len(enss) > 1:
            labs.add('multi_ensemble')
        if len(s['chains']) > len(enss):
            labs.add('multi_replica')
        if s['cov']:
            labs.add('with_cov')
        for c in s['chains']:
            labs.add('idl:' + gen.classify_idl(c['idl']))
            labs.add('data:' + c['data']['kind'])
    return labs


def fd_ok(f, vals, grads, gscales, hs):
    """Richardson-extrapolated central differences (steps h, h/2) of the reference function agree with the analytic
    gradient of the reference.  Tolerance: 1e-6 of the derivative terms + a tenth of the difference between the two
    step sizes (truncation) + rounding of the function values (eps |f| / h) + rounding of the shifted arguments
    (eps |x| / h times the one-sided slopes)."""
    eps = float(np.finfo(float).eps)
    f0 = f(list(vals))
    for i in range(len(vals)):
        d = []
        rnd = 0.0
        for h in (hs[i], 0.5 * hs[i]):
            up = list(vals)
            dn = list(vals)
            up[i] = vals[i] + h
            dn[i] = vals[i] - h
            fu, fd = f(up), f(dn)
            if not (math.isfinite(fu) and math.isfinite(fd)):
                return False
            d.append((fu - fd) / (up[i] - dn[i]))
            slope = max(abs(fu - f0), abs(f0 - fd)) / h
            rnd = max(rnd, 256 * eps * max(abs(fu), abs(fd)) / h + 16 * eps * max(abs(vals[i]), h) / h * slope)
        num = (4.0 * d[1] - d[0]) / 3.0
        tol = 1e-6 * max(gscales[i], abs(num)) + 0.1 * abs(d[1] - d[0]) + 4 * rnd
        if not abs(num - grads[i]) <= tol:
            return False
    return True


def judge(what, res, f, grads, gscales, refs, hs):
    """res must be the first-order propagation of f with the analytic gradient `grads` through the operands `refs`.
    gscales = sum of the absolute values of the terms of each derivative formula (cancellation-aware tolerance)."""
    import pyerrors as pe
    vals = [r.value for r in refs]
    fv = f(vals)
    if not (math.isfinite(fv) and all(math.isfinite(g) for g in grads)):
        raise Skip('non-finite reference')
    if not fd_ok(f, vals, grads, gscales, hs):
        raise Skip('reference derivative not confirmed by central differences')
    if isinstance(res, np.ndarray) and res.shape == ():
        res = res[()]           # scipy functions returning 0-d arrays (polygamma): the container is not part of the property
    require(isinstance(res, pe.Obs), what + ': result is not an Obs', type(res).__name__)
    rf = combine(f, grads, refs)
    sc = combine(f, gscales, refs)        # same propagation with |terms| summed: scale of the rounding errors
    rf.mag, rf.cgmag = sc.mag, sc.cgmag
    skip = set()
    for n in list(rf.rv):
        if not math.isfinite(rf.rv[n]):
            skip.add(n)
    cmp_obs(rf, res, what, rtol=1e-10, vtol=1e-11, atol_scale=1e-12, check_form=True, rv_skip=skip)


# =============================================================================================
# K_n

def K(n, x):
    return float(sp.kn(abs(int(n)), x))       # K_{-n} = K_n


def dK(n, x):
    """exact derivative of K_n: -(K_{n-1} + K_{n+1}) / 2   (DLMF 10.29.1)"""
    return -0.5 * (K(n - 1, x) + K(n + 1, x))


def _selfcheck_kn():
    from scipy.integrate import quad
    for n in (0, 1, 2, 5, 7):
        for x in (0.05, 0.3, 1.0, 4.0, 20.0):
            tmax = math.acosh(800.0 / x + 1.0)
            v, _ = quad(lambda t: math.exp(-x * math.cosh(t)) * math.cosh(n * t), 0.0, tmax, epsabs=0, epsrel=1e-12, limit=400)
            assert abs(v - K(n, x)) <= 1e-9 * abs(v), ('K_n integral representation', n, x, v, K(n, x))
            h = 1e-5 * x
            num = (K(n, x + h) - K(n, x - h)) / (2 * h)
            assert abs(num - dK(n, x)) <= 1e-6 * abs(num), ('K_n derivative', n, x, num, dK(n, x))


_selfcheck_kn()

KN_WRAPS = ['plain', 'plain', 'scaled', 'square', 'log', 'inner', 'sum2', 'product', 'array', 'array_used', 'array_used']


def make_order(n, form):
    if form == 'float':
        return float(n)
    if form == 'npint':
        return np.int64(n)
    return int(n)


def logu(lo, hi):
    return st.floats(math.log(lo), math.log(hi), allow_nan=False).map(lambda u: float(min(hi, max(lo, math.exp(u)))))


@st.composite
def kn_case(draw, tier):
    nmax = 12 if tier == 'quick' else 60
    n = draw(st.sampled_from(list(range(0, 7)) * 3 + list(range(-6, 0))))
    wrap = draw(st.sampled_from(KN_WRAPS))
    x = draw(st.one_of(logu(0.05, 20.0), logu(0.05, 1.0), st.sampled_from([0.05, 0.1, 0.5, 1.0, 2.0, 7.3, 20.0])))
    spec = {'n': n, 'nform': draw(st.sampled_from(['int', 'int', 'float', 'npint'])), 'wrap': wrap, 'x': x}
    a = 1.0
    if wrap == 'inner':
        a = draw(st.sampled_from([0.5, 2.0, 3.0, 0.25]))
        spec['a'] = a
    if wrap == 'scaled':
        spec['c'] = draw(st.one_of(gen.fl(0.1, 3.0), gen.fl(-3.0, -0.1)))
    if wrap == 'sum2':
        spec['m'] = draw(st.integers(0, 6))
    xo = x / a                     # value of the observable; the argument of K_n is a * xo = x
    pool = draw(gen.cov_pool(1))
    obs = [draw(obs_near(xo, xo, nmax, pool))]
    if wrap == 'product':
        y = draw(st.one_of(gen.fl(0.2, 3.0), gen.fl(-3.0, -0.2)))
        spec['y'] = y
        obs.append(draw(obs_near(y, 1.0, nmax, pool)))
    if wrap in ('array', 'array_used'):
        x2 = draw(logu(0.05, 20.0))
        spec['x2'] = x2
        obs.append(draw(obs_near(x2, x2, nmax, pool)))
    spec['obs'] = obs
    return spec


def kn_oracle(spec):
    import pyerrors as pe
    import autograd.numpy as anp
    kn = pe.special.kn
    n = spec['n']
    nn = make_order(n, spec['nform'])
    wrap = spec['wrap']
    obs, refs = build_inputs(spec['obs'])
    vals = [r.value for r in refs]
    if vals[0] <= 0 or (wrap in ('array', 'array_used') and vals[1] <= 0):
        raise Skip('argument left the domain')
    hs = [1e-5 * abs(v) for v in vals]
    what = 'kn(%r, x) [%s] at x=%r' % (nn, wrap, vals[0])
    if wrap == 'array':
        res = pe.derived_observable(lambda x, **kw: kn(nn, x), obs)
        require(isinstance(res, np.ndarray) and res.shape == (2,), what + ': vectorised call did not return two results',
                getattr(res, 'shape', None))
        for k in range(2):
            g = [0.0, 0.0]
            g[k] = dK(n, vals[k])
            judge('%s component %d' % (what, k), res[k], lambda v, k=k: K(n, v[k]), g, [abs(x) for x in g], refs, hs)
    elif wrap == 'array_used':
        # K_n of an array argument used further inside the same function (the derivative must not disturb the forward value)
        how = ['x*K', 'log', 'square'][abs(n) % 3]
        fa = {'x*K': lambda x: x * kn(nn, x), 'log': lambda x: anp.log(kn(nn, x)), 'square': lambda x: kn(nn, x) ** 2}[how]
        res = pe.derived_observable(lambda x, **kw: fa(x), obs)
        require(isinstance(res, np.ndarray) and res.shape == (2,), what + ': vectorised call did not return two results',
                getattr(res, 'shape', None))
        for k in range(2):
            Kk, dKk = K(n, vals[k]), dK(n, vals[k])
            g = [0.0, 0.0]
            if how == 'x*K':
                g[k] = Kk + vals[k] * dKk
                fk = lambda v, k=k: v[k] * K(n, v[k])  # noqa: E731
                sc = [0.0, 0.0]
                sc[k] = abs(Kk) + abs(vals[k] * dKk)
            elif how == 'log':
                if not Kk > 0:
                    raise Skip('non-positive K_n')
                g[k] = dKk / Kk
                fk = lambda v, k=k: math.log(K(n, v[k])) if K(n, v[k]) > 0 else float('nan')  # noqa: E731
                sc = [abs(x) for x in g]
            else:
                g[k] = 2 * Kk * dKk
                fk = lambda v, k=k: K(n, v[k]) ** 2  # noqa: E731
                sc = [abs(x) for x in g]
            judge('%s (%s) component %d' % (what, how, k), res[k], fk, g, sc, refs, hs)
    else:
        if wrap == 'plain':
            res = pe.derived_observable(lambda x, **kw: kn(nn, x[0]), obs)
            f = lambda v: K(n, v[0])  # noqa: E731
            g = [dK(n, vals[0])]
        elif wrap == 'scaled':
            c = spec['c']
            res = pe.derived_observable(lambda x, **kw: c * kn(nn, x[0]), obs)
            f = lambda v: c * K(n, v[0])  # noqa: E731
            g = [c * dK(n, vals[0])]
        elif wrap == 'square':
            res = pe.derived_observable(lambda x, **kw: kn(nn, x[0]) ** 2, obs)
            f = lambda v: K(n, v[0]) ** 2  # noqa: E731
            g = [2 * K(n, vals[0]) * dK(n, vals[0])]
        elif wrap == 'log':
            res = pe.derived_observable(lambda x, **kw: anp.log(kn(nn, x[0])), obs)
            f = lambda v: math.log(K(n, v[0])) if K(n, v[0]) > 0 else float('nan')  # noqa: E731
            g = [dK(n, vals[0]) / K(n, vals[0])]
        elif wrap == 'inner':
            a = spec['a']
            res = pe.derived_observable(lambda x, **kw: kn(nn, a * x[0]), obs)
            f = lambda v: K(n, a * v[0])  # noqa: E731
            g = [a * dK(n, a * vals[0])]
        elif wrap == 'sum2':
            m = spec['m']
            res = pe.derived_observable(lambda x, **kw: kn(nn, x[0]) + kn(m, x[0]), obs)
            f = lambda v: K(n, v[0]) + K(m, v[0])  # noqa: E731
            g = [dK(n, vals[0]) + dK(m, vals[0])]
        elif wrap == 'product':
            res = pe.derived_observable(lambda x, **kw: kn(nn, x[0]) * x[1], obs)
            f = lambda v: K(n, v[0]) * v[1]  # noqa: E731
            g = [dK(n, vals[0]) * vals[1], K(n, vals[0])]
        else:
            raise ValueError(wrap)
        judge(what, res, f, g, [abs(x) for x in g], refs, hs)
    arg = vals[0] * spec.get('a', 1.0)
    nt = fluctuates(obs[0]) and ((n >= 1 and arg < 1.0) or n <= 0)
    labs = {'n:%d' % n, 'nform:' + spec['nform'], 'wrap:' + wrap, 'x<1' if arg < 1 else 'x>=1'} | layout_labels(spec['obs'])
    if not fluctuates(obs[0]):
        labs.add('no_fluctuation')
    return {'nt': nt, 'cls': sorted(labs)}


# =============================================================================================
# the other re-exported special functions
#
# argument kinds: 'x' differentiable real argument (observable or number), 'p' real parameter (number only: autograd
# defines no derivative), 'n' integer order (number only).  Domain = list of intervals (lo, hi, hard_lo, hard_hi, log):
# values are drawn from [lo, hi]; hard_* is the true boundary of the domain (None: unbounded) used to size the noise.

def I(lo, hi, hlo=None, hhi=None, log=False):  # noqa: E743
    return (lo, hi, hlo, hhi, log)


REAL20 = [I(-20.0, 20.0)]
REAL10 = [I(-10.0, 10.0)]
POS20 = [I(0.05, 20.0, 0.0, None, True)]
GAMMA_DOM = [I(0.05, 15.0, 0.0, None, True), I(0.05, 15.0, 0.0, None, True),
             I(-0.92, -0.08, -1.0, 0.0), I(-1.92, -1.08, -2.0, -1.0), I(-2.92, -2.08, -3.0, -2.0), I(-3.92, -3.08, -4.0, -3.0)]
UNIT01 = [I(0.002, 0.998, 0.0, 1.0)]
IV_X = [I(0.05, 15.0, 0.0, None, True), I(0.05, 15.0, 0.0, None, True), I(-15.0, -0.05, None, 0.0)]   # x < 0: integer orders only
RSQPI = 2.0 / math.sqrt(math.pi)


def _psi(x):
    return float(sp.psi(x))


def _pg(n, x):
    return float(sp.polygamma(n, x))


def _betapdf(a, b, x):
    return x ** (a - 1) * (1 - x) ** (b - 1) / float(sp.beta(a, b))


def _gammapdf(a, x):
    return math.exp(-x + (a - 1) * math.log(x) - float(sp.gammaln(a)))


# name -> (argument kinds, domains per argument, f(*args), [derivative terms(*args) or None per argument])
SPECIAL = {
    'j0': ('x', [REAL20], lambda x: sp.j0(x), [lambda x: [-sp.j1(x)]]),
    'j1': ('x', [REAL20], lambda x: sp.j1(x), [lambda x: [sp.j0(x), -sp.j1(x) / x]]),
    'y0': ('x', [POS20], lambda x: sp.y0(x), [lambda x: [-sp.y1(x)]]),
    'y1': ('x', [POS20], lambda x: sp.y1(x), [lambda x: [sp.y0(x), -sp.y1(x) / x]]),
    'jn': ('nx', [(-3, 6), REAL20], lambda n, x: sp.jv(n, x), [None, lambda n, x: [sp.jv(n - 1, x), -n / x * sp.jv(n, x)]]),
    'yn': ('nx', [(0, 6), POS20], lambda n, x: sp.yv(n, x), [None, lambda n, x: [sp.yv(n - 1, x), -n / x * sp.yv(n, x)]]),
    'i0': ('x', [REAL10], lambda x: sp.i0(x), [lambda x: [sp.i1(x)]]),
    'i1': ('x', [REAL10], lambda x: sp.i1(x), [lambda x: [sp.i0(x), -sp.i1(x) / x]]),
    'iv': ('px', [[I(-3.0, 6.0)], IV_X], lambda v, x: sp.iv(v, x),
           [None, lambda v, x: [sp.iv(v + 1, x), v / x * sp.iv(v, x)]]),
    'ive': ('px', [[I(-3.0, 6.0)], IV_X], lambda v, x: sp.ive(v, x),
            [None, lambda v, x: [sp.ive(v + 1, x), v / x * sp.ive(v, x), -math.copysign(1.0, x) * sp.ive(v, x)]]),
    'erf': ('x', [[I(-4.0, 4.0)]], lambda x: sp.erf(x), [lambda x: [RSQPI * math.exp(-x * x)]]),
    'erfc': ('x', [[I(-4.0, 4.0)]], lambda x: sp.erfc(x), [lambda x: [-RSQPI * math.exp(-x * x)]]),
    'erfinv': ('x', [[I(-0.998, 0.998, -1.0, 1.0)]], lambda y: sp.erfinv(y), [lambda y: [math.exp(sp.erfinv(y) ** 2) / RSQPI]]),
    'erfcinv': ('x', [[I(0.002, 1.998, 0.0, 2.0)]], lambda y: sp.erfcinv(y), [lambda y: [-math.exp(sp.erfcinv(y) ** 2) / RSQPI]]),
    'logit': ('x', [UNIT01], lambda x: sp.logit(x), [lambda x: [1.0 / x, 1.0 / (1.0 - x)]]),
    'expit': ('x', [REAL20], lambda x: sp.expit(x), [lambda x: [sp.expit(x), -sp.expit(x) ** 2]]),     # s - s^2: for large |x| only defined up to eps * s
    'gamma': ('x', [GAMMA_DOM], lambda x: sp.gamma(x), [lambda x: [sp.gamma(x) * _psi(x)]]),
    'gammaln': ('x', [GAMMA_DOM + [I(15.0, 60.0, 0.0, None)]], lambda x: sp.gammaln(x), [lambda x: [_psi(x)]]),
    'rgamma': ('x', [GAMMA_DOM], lambda x: sp.rgamma(x), [lambda x: [-_psi(x) * sp.rgamma(x)]]),
    'gammasgn': ('x', [GAMMA_DOM], lambda x: sp.gammasgn(x), [lambda x: [0.0]]),
    'psi': ('x', [GAMMA_DOM], lambda x: sp.psi(x), [lambda x: [_pg(1, x)]]),
    'digamma': ('x', [GAMMA_DOM], lambda x: sp.digamma(x), [lambda x: [_pg(1, x)]]),
    'polygamma': ('nx', [(0, 4), POS20], lambda n, x: _pg(n, x), [None, lambda n, x: [_pg(n + 1, x)]]),
    'multigammaln': ('xn', [[I(1.6, 15.0, 1.5, None)], (1, 4)], lambda a, d: sp.multigammaln(a, d),
                     [lambda a, d: [_psi(a - 0.5 * j) for j in range(d)], None]),
    'beta': ('xx', [[I(0.1, 10.0, 0.0, None, True)]] * 2, lambda a, b: sp.beta(a, b),
             [lambda a, b: [sp.beta(a, b) * _psi(a), -sp.beta(a, b) * _psi(a + b)],
              lambda a, b: [sp.beta(a, b) * _psi(b), -sp.beta(a, b) * _psi(a + b)]]),
    'betaln': ('xx', [[I(0.1, 30.0, 0.0, None, True)]] * 2, lambda a, b: sp.betaln(a, b),
               [lambda a, b: [_psi(a), -_psi(a + b)], lambda a, b: [_psi(b), -_psi(a + b)]]),
    'betainc': ('ppx', [[I(0.2, 8.0)], [I(0.2, 8.0)], [I(0.02, 0.98, 0.0, 1.0)]], lambda a, b, x: sp.betainc(a, b, x),
                [None, None, lambda a, b, x: [_betapdf(a, b, x)]]),
    'gammainc': ('px', [[I(0.2, 10.0)], [I(0.02, 20.0, 0.0, None, True)]], lambda a, x: sp.gammainc(a, x),
                 [None, lambda a, x: [_gammapdf(a, x)]]),
    'gammaincc': ('px', [[I(0.2, 10.0)], [I(0.02, 20.0, 0.0, None, True)]], lambda a, x: sp.gammaincc(a, x),
                  [None, lambda a, x: [-_gammapdf(a, x)]]),
    'logsumexp': ('v', [[I(-5.0, 5.0)]], None, None),
}
# kn has its own sub-property; everything else that pyerrors.special exports must be in the table
EXPORTED = ["beta", "betainc", "betaln", "polygamma", "psi", "digamma", "gamma", "gammaln", "gammainc", "gammaincc",
            "gammasgn", "rgamma", "multigammaln", "kn", "j0", "y0", "j1", "y1", "jn", "yn", "i0", "i1", "iv", "ive",
            "erf", "erfc", "erfinv", "erfcinv", "logit", "expit", "logsumexp"]
assert sorted(SPECIAL) == sorted(set(EXPORTED) - {'kn'})
# joint restrictions of the domain
VALID = {'iv': lambda v, x: x > 0 or v == round(v), 'ive': lambda v, x: x > 0 or v == round(v),
         'multigammaln': lambda a, d: a > 0.5 * (d - 1) + 0.05}


def lse(v):
    m = max(v)
    return m + math.log(math.fsum(math.exp(x - m) for x in v))


def _room(x, iv):
    """distance of x to the true boundary of its domain (half line: x - boundary, i.e. relative noise; unbounded: 1)"""
    lo, hi, hlo, hhi, _ = iv
    if hlo is None and hhi is None:
        return 1.0
    if hhi is None:
        return x - hlo
    if hlo is None:
        return hhi - x
    return min(x - hlo, hhi - x)


def _pick_interval(x, dom):
    for iv in dom:
        if iv[0] <= x <= iv[1]:
            return iv
    raise ValueError((x, dom))


@st.composite
def draw_real(draw, dom):
    iv = draw(st.sampled_from(dom))
    lo, hi, hlo, hhi, log = iv
    if log:
        x = draw(logu(lo, hi))
    else:
        x = draw(st.one_of(gen.fl(lo, hi), st.sampled_from([lo, hi, 0.5 * (lo + hi), lo + 0.25 * (hi - lo)])))
    if abs(x) < 1e-3:
        x = math.copysign(1e-3, x) if lo < 0 else max(lo, 1e-3)     # several derivative formulas of the reference are written with 1/x
    return x, _room(x, iv)


def _selfcheck_special():
    """analytic derivative table against central differences on a fixed grid of arguments inside the domains"""
    n = 0
    for name, (kinds, doms, f, d) in SPECIAL.items():
        if f is None:
            continue
        grids = []
        for k, dom in zip(kinds, doms):
            if k == 'n':
                grids.append(list(range(dom[0], dom[1] + 1)))
            else:
                pts = []
                for (lo, hi, hlo, hhi, log) in dom:
                    for t in (0.0, 0.13, 0.5, 0.81, 1.0):
                        x = math.exp(math.log(lo) + t * (math.log(hi) - math.log(lo))) if log else lo + t * (hi - lo)
                        pts.append(min(hi, max(lo, x)))
                grids.append([p for p in pts if p != 0.0])
        for args in itertools.product(*grids):
            if name in VALID and not VALID[name](*args):
                continue
            for i, k in enumerate(kinds):
                if k != 'x':
                    continue
                iv = _pick_interval(args[i], doms[i])
                h = 1e-5 * min(_room(args[i], iv), max(abs(args[i]), 1e-3))
                terms = [float(t) for t in d[i](*args)]
                an = math.fsum(terms)
                sc = math.fsum(abs(t) for t in terms)
                fi = lambda v, i=i, args=args: float(f(*[v[0] if j == i else a for j, a in enumerate(args)]))  # noqa: E731
                assert fd_ok(fi, [args[i]], [an], [sc], [h]), ('derivative table', name, args, i, an)
                n += 1
    assert n > 400, n


_selfcheck_special()

SP_WRAPS = ['plain', 'plain', 'scaled', 'square']


@st.composite
def special_case(draw, tier):
    nmax = 12 if tier == 'quick' else 60
    name = draw(st.sampled_from(sorted(SPECIAL)))
    kinds, doms, f, d = SPECIAL[name]
    spec = {'fn': name, 'wrap': draw(st.sampled_from(SP_WRAPS)), 'c': draw(st.one_of(gen.fl(0.1, 3.0), gen.fl(-3.0, -0.1)))}
    args, obs = [], []
    pool = draw(gen.cov_pool(1))
    if name == 'logsumexp':
        k = draw(st.integers(2, 4))
        for _ in range(k):
            x, room = draw(draw_real(doms[0]))
            args.append({'v': x, 'room': room, 'obs': len(obs)})
            obs.append(draw(obs_near(x, room, nmax, pool, ens_max=1)))
        spec['args'], spec['obs'] = args, obs
        # scipy's optional weights: logsumexp(x, b=w) = log(sum w_i exp(x_i)); keepdims returns a one-element array
        spec['b'] = [draw(gen.fl(0.2, 3.0)) for _ in range(k)] if draw(st.booleans()) else None
        spec['keepdims'] = draw(st.sampled_from([False, False, True]))
        return spec
    nx = sum(1 for k in kinds if k == 'x')
    forced = draw(st.integers(0, nx - 1))
    ix = 0
    ordv = None
    for k, dom in zip(kinds, doms):
        if k == 'n':
            ordv = draw(st.integers(dom[0], dom[1]))
            args.append({'v': ordv, 'obs': None, 'int': True})
            continue
        if name == 'multigammaln' and k == 'x':
            # a > (d-1)/2: the order is drawn after a in the table; draw it here first
            dd = draw(st.integers(1, 4))
            lo = 0.5 * (dd - 1)
            x = draw(logu(lo + 0.1, lo + 15.0))
            args.append({'v': x, 'room': x - lo, 'obs': 0})
            obs.append(draw(obs_near(x, x - lo, nmax, pool)))
            args.append({'v': dd, 'obs': None, 'int': True})
            break
        x, room = draw(draw_real(dom))
        if k == 'p':
            if name in ('iv', 'ive') and draw(st.booleans()):
                x = float(round(x))     # integer orders as well as real ones
            args.append({'v': x, 'obs': None})
            continue
        as_obs = (ix == forced) or draw(st.integers(0, 3)) > 0
        ix += 1
        if as_obs:
            args.append({'v': x, 'room': room, 'obs': len(obs)})
            obs.append(draw(obs_near(x, room, nmax, pool, ens_max=2 if nx == 1 else 1)))
        else:
            args.append({'v': x, 'obs': None})
    if name in ('iv', 'ive') and args[1]['v'] < 0:
        args[0]['v'] = float(round(args[0]['v']))      # negative argument: integer order
    spec['args'], spec['obs'] = args, obs
    return spec


def special_oracle(spec):
    import pyerrors as pe
    import autograd.numpy as anp
    name = spec['fn']
    kinds, doms, fref, dref = SPECIAL[name]
    fun = getattr(pe.special, name)
    obs, refs = build_inputs(spec['obs'])
    vals = [r.value for r in refs]
    args = spec['args']
    wrap, c = spec['wrap'], spec['c']
    pos = [a['obs'] for a in args]                      # argument -> index of the observable (None: number)
    consts = [(int(a['v']) if a.get('int') else float(a['v'])) for a in args]
    hs = [None] * len(obs)
    for a in args:
        if a['obs'] is not None:
            hs[a['obs']] = 1e-5 * min(a['room'], max(abs(a['v']), 1e-3))

    def full(v):
        return [v[p] if p is not None else cst for p, cst in zip(pos, consts)]

    # the central values must still be inside the domain (the noise is at most a few per cent of the room)
    for a in args:
        if a['obs'] is not None and abs(vals[a['obs']] - a['v']) > 0.5 * a['room']:
            raise Skip('argument left the domain')

    if name == 'logsumexp':
        w = spec.get('b')
        lw = [math.log(t) for t in w] if w else [0.0] * len(vals)

        def base(v):
            return lse([x + t for x, t in zip(v, lw)])
        L = base(vals)
        gterms = [[math.exp(x + t - L)] for x, t in zip(vals, lw)]
        kw = {}
        if w:
            kw['b'] = np.array(w)
        if spec.get('keepdims'):
            kw['keepdims'] = True
            call = lambda x: fun(x, **kw)[0]  # noqa: E731
        else:
            call = lambda x: fun(x, **kw)  # noqa: E731
    else:
        def base(v):
            try:
                return float(fref(*full(v)))
            except (ValueError, OverflowError, ZeroDivisionError):
                return float('nan')
        gterms = [None] * len(obs)
        for i, a in enumerate(args):
            if a['obs'] is not None:
                try:
                    gterms[a['obs']] = [float(t) for t in dref[i](*full(vals))]
                except (ValueError, OverflowError, ZeroDivisionError):
                    raise Skip('non-finite reference')
        call = lambda x: fun(*[x[p] if p is not None else cst for p, cst in zip(pos, consts)])  # noqa: E731
        if name in ('gammainc', 'gammaincc') and pos[0] is None and pos[1] is not None and int(spec_hash(spec), 16) % 3 == 0:
            # broadcasting layout: an array of shape parameters at one observable argument, summed
            avec = [consts[0], consts[0] + 0.5, consts[0] + 1.3]
            k1 = pos[1]

            def base(v):        # noqa: F811
                return float(sum(fref(a_, v[k1]) for a_ in avec))
            gterms = [None] * len(obs)
            gterms[k1] = [float(t) for a_ in avec for t in dref[1](a_, vals[k1])]
            call = lambda x: anp.sum(fun(np.array(avec), x[k1]))  # noqa: E731
            spec = dict(spec, _parray=True)
        if name == 'multigammaln' and int(spec_hash(spec), 16) % 2 == 0:
            # the argument as an array built from the observable (weighted sum over its elements): every element has its own
            # d digamma terms (C20-m20)
            offs, wts = [0.0, 0.7, 1.9], [1.0, -0.5, 2.0]
            dd = consts[1]

            def base(v):        # noqa: F811
                return float(sum(w_ * fref(v[0] + o_, dd) for o_, w_ in zip(offs, wts)))
            gterms = [[w_ * float(t) for o_, w_ in zip(offs, wts) for t in dref[0](vals[0] + o_, dd)]]
            call = lambda x: anp.sum(anp.array(wts) * fun(anp.array([x[0] + o_ for o_ in offs]), dd))  # noqa: E731
            spec = dict(spec, _aarray=True)
    g0 = [math.fsum(t) for t in gterms]
    s0 = [math.fsum(abs(x) for x in t) for t in gterms]
    f0 = base(vals)
    if not math.isfinite(f0):
        raise Skip('non-finite reference')
    if wrap == 'plain':
        res = pe.derived_observable(lambda x, **kw: call(x), obs)
        f, g, s = base, g0, s0
    elif wrap == 'scaled':
        res = pe.derived_observable(lambda x, **kw: c * call(x), obs)
        f = lambda v: c * base(v)  # noqa: E731
        g, s = [c * x for x in g0], [abs(c) * x for x in s0]
    else:
        res = pe.derived_observable(lambda x, **kw: call(x) ** 2, obs)
        f = lambda v: base(v) ** 2  # noqa: E731
        g, s = [2 * f0 * x for x in g0], [2 * abs(f0) * x for x in s0]
    what = '%s(%s) [%s]' % (name, ', '.join(('Obs(%r)' % vals[p]) if p is not None else repr(cst) for p, cst in zip(pos, consts)), wrap)
    judge(what, res, f, g, s, refs, hs)
    fl = any(fluctuates(o) for o in obs)
    labs = {'fn:' + name, 'wrap:' + wrap, 'nobs:%d' % len(obs)} | layout_labels(spec['obs'])
    if spec.get('_parray'):
        labs.add('array_of_shape_parameters')
    if spec.get('_aarray'):
        labs.add('array_argument')
    if any(p is None and k == 'x' for p, k in zip(pos, kinds)):
        labs.add('number_in_differentiable_slot')
    return {'nt': fl, 'cls': sorted(labs)}


# =============================================================================================
# interior point x = 0 of the entire functions: the analytic derivative has a finite limit there that formulas written with
# 1/x do not give; the operand has a central value of exactly 0.0

RSQPI2 = 2.0 / math.sqrt(math.pi)
ORIGIN = {      # name -> (takes an integer order, f(0), f'(0)) as functions of the order
    'j0': (False, lambda n: 1.0, lambda n: 0.0), 'j1': (False, lambda n: 0.0, lambda n: 0.5),
    'i0': (False, lambda n: 1.0, lambda n: 0.0), 'i1': (False, lambda n: 0.0, lambda n: 0.5),
    'erf': (False, lambda n: 0.0, lambda n: RSQPI2), 'erfc': (False, lambda n: 1.0, lambda n: -RSQPI2),
    'expit': (False, lambda n: 0.5, lambda n: 0.25), 'erfinv': (False, lambda n: 0.0, lambda n: 1.0 / RSQPI2),
    'jn': (True, lambda n: 1.0 if n == 0 else 0.0, lambda n: 0.5 if n == 1 else (-0.5 if n == -1 else 0.0)),
    'iv': (True, lambda n: 1.0 if n == 0 else 0.0, lambda n: 0.5 if abs(n) == 1 else 0.0),
}


@st.composite
def origin_case(draw, tier):
    name = draw(st.sampled_from(sorted(ORIGIN)))
    src = draw(st.sampled_from(['cov', 'mc', 'mc', 'both']))
    spec = {'fn': name, 'n': draw(st.integers(-3, 5)) if ORIGIN[name][0] else None, 'src': src,
            'wrap': draw(st.sampled_from(['plain', 'plain', 'scaled', 'shifted'])), 'c': draw(st.one_of(gen.fl(0.1, 3.0), gen.fl(-3.0, -0.1)))}
    if src in ('mc', 'both'):
        k = draw(st.integers(3, 20))
        amp = [draw(gen.fl(0.001, 0.5)) for _ in range(k)]
        spec['amp'] = amp
        spec['name'] = draw(st.sampled_from(['A|r1', 'B', 'ens|r02']))
        spec['idl'] = draw(st.sampled_from(['range', 'strided', 'irregular']))
    if src in ('cov', 'both'):
        spec['var'] = draw(gen.fl(0.01, 1.0))
    return spec


def origin_oracle(spec):
    import pyerrors as pe
    name = spec['fn']
    has_n, f0, d0 = ORIGIN[name]
    n = spec['n']
    fun = getattr(pe.special, name)
    o = None
    if spec['src'] in ('mc', 'both'):
        x = []
        for a in spec['amp']:
            x += [a, -a]                   # adjacent +/- pairs: the mean is exactly 0.0 in floating point
        N = len(x)
        idl = {'range': range(1, N + 1), 'strided': range(3, 3 + 4 * N, 4), 'irregular': [1 + i + (i * i) // 3 for i in range(N)]}[spec['idl']]
        o = pe.Obs([np.array(x)], [spec['name']], idl=[idl])
    if spec['src'] in ('cov', 'both'):
        cpart = pe.cov_Obs(0.0, spec['var'], 'c0')
        o = cpart if o is None else o + cpart
    if float(o.value) != 0.0:
        raise Skip('operand mean is not exactly zero')
    c = spec['c']
    if has_n:
        call = lambda t: fun(n, t)  # noqa: E731
    else:
        call = lambda t: fun(t)  # noqa: E731
    if spec['wrap'] == 'scaled':
        res = pe.derived_observable(lambda v, **kw: c * call(v[0]), [o])
        fv, dv = c * f0(n), c * d0(n)
    elif spec['wrap'] == 'shifted':
        # the function of (x - c) at an operand with central value c: the same interior point, reached through arithmetic
        oc = o + c
        res = pe.derived_observable(lambda v, **kw: call(v[0] - c), [oc])
        if float(oc.value) - c != 0.0:
            raise Skip('shifted operand does not return to zero exactly')
        o = oc
        fv, dv = f0(n), d0(n)
    else:
        res = pe.derived_observable(lambda v, **kw: call(v[0]), [o])
        fv, dv = f0(n), d0(n)
    what = '%s(%sObs with central value exactly 0) [%s]' % (name, ('%d, ' % n) if has_n else '', spec['wrap'])
    require(isinstance(res, pe.Obs), what + ': result is not an Obs', type(res).__name__)
    rf = combine(lambda v: fv, [dv], [RefObs.from_pe(o)], value=fv)
    # floor: a vanishing derivative is compared on the scale of the operand's own fluctuations
    ro = RefObs.from_pe(o)
    rf.mag = {k: max(rf.mag.get(k, 0.0), ro.mag.get(k, 0.0)) for k in ro.mag}
    rf.cgmag = {k: max(rf.cgmag.get(k, 0.0), ro.cgmag.get(k, 0.0)) for k in ro.cgmag}
    cmp_obs(rf, res, what, rtol=1e-10, vtol=1e-12, atol_scale=1e-12, check_rv=False)
    return {'nt': True, 'cls': ['fn:' + name + (':n=%d' % n if has_n else ''), 'src:' + spec['src'], 'wrap:' + spec['wrap']]}


SUBS = [
    Sub('dirac', None, dirac_oracle, {'quick': 0, 'thorough': 0}, {'quick': 1, 'thorough': 1}, kind='enum',
        enum=make_enum(dirac_cases, dirac_oracle), doc='Clifford algebra, hermiticity, gamma5 (complete)'),
    Sub('grid', None, tag_oracle, {'quick': 0, 'thorough': 0}, {'quick': 1, 'thorough': 1}, kind='enum',
        enum=make_enum(grid_cases, tag_oracle), doc='16 Grid tags vs products / commutators, fixed unknown tags (complete)'),
    Sub('epsilon', None, eps_oracle, {'quick': 0, 'thorough': 0}, {'quick': 1, 'thorough': 1}, kind='enum',
        enum=make_enum(eps_cases, eps_oracle), doc='epsilon tensors on {0..4}^3 and {0..4}^4 (complete)'),
    Sub('tags', tag_case, tag_oracle, {'quick': 1000, 'thorough': 10000}, {'quick': 1, 'thorough': 2},
        doc='generated tag strings: known -> stated matrix, unknown -> rejected'),
    Sub('eps_forms', eps_case, eps_oracle, {'quick': 1000, 'thorough': 15000}, {'quick': 1, 'thorough': 2},
        doc='index tuples from -3..8 as int / numpy int / float'),
    Sub('kn', kn_case, kn_oracle, {'quick': 400, 'thorough': 12000}, {'quick': 6, 'thorough': 16},
        doc='K_n on observables: exact derivative -(K_{n-1}+K_{n+1})/2', max_skip_frac=0.05),
    Sub('special', special_case, special_oracle, {'quick': 500, 'thorough': 20000}, {'quick': 8, 'thorough': 16},
        doc='re-exported special functions: analytic derivatives', max_skip_frac=0.05),
    Sub('origin', origin_case, origin_oracle, {'quick': 300, 'thorough': 5000}, {'quick': 1, 'thorough': 4},
        doc='entire functions (j0, j1, i0, i1, jn, iv of integer order, erf, erfc, expit, erfinv) at an operand whose central value '
            'is exactly 0.0: value f(0) and derivative f\'(0)', max_skip_frac=0.3),
]
