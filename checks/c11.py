"""C11  JSON serialisation round-trips losslessly and conforms to the shipped schema.

Sub-properties (every one: build structures from a plain-data spec, snapshot every public attribute of every
observable, send the structures through a transport, compare what comes back with the snapshot, re-run the error
analysis on both sides; every JSON document that was emitted is parsed and validated against
<repo>/examples/json_schema.json)
  json    1-4 structures Obs | list | ndarray | Corr through create_json_string/import_json_string,
          dump_to_json/load_json (gz on/off, indent 0/1/None, file-name forms, full_output on/off),
          Obs.dump and Corr.dump (json.gz)
  dict    nested dictionaries (string keys; values: structures, plain JSON leaves, nested dicts, mixed python lists)
          through dump_dict_to_json/load_json_dict
  frame   pandas data frames with Obs / Corr / list-of-Obs columns and plain columns through dump_df/load_df
          (csv, gz on/off) and to_sql/read_sql (sqlite, gz on/off), auto_gamma on/off
  pickle  any of the above structures through dump_object/load_object, Obs.dump(datatype='pickle'),
          Corr.dump(datatype='pickle'): everything bit-identical, including a previous error analysis
The structures of one case pick their layout from 1-2 independent layouts plus (two thirds of the cases) a sibling layout =
the same replicas with equally many but other configurations (other start, other stride, irregular sub-sample), so that one
document holds structures on different parts of the same Monte-Carlo history; every structure must come back on its own
configuration lists (class labels doc:*).

Recorded findings (known/F-C11-n.json; the input class is kept out of the generators only while findings.is_open(id),
every replaced draw is labelled 'excluded:<id>' in the class histogram):
  F-C11-1  falsy tag of a stand-alone Obs is dropped          F-C11-2  Corr tag 'None' comes back as None
  F-C11-3  empty list inside an exported dictionary crashes   F-C11-4  0-dimensional ndarray cannot be read back
  F-C11-5  one-element list in a data-frame cell comes back as a bare Obs
"""
import copy
import gzip
import json as stdjson
import os
import tempfile

import numpy as np
from hypothesis import strategies as st

from vlib import gen, findings
from vlib.build import build_obs, chain_samples, ens_of
from vlib.util import common_spacing
from vlib.core import Sub, Violation, require
from vlib.wellformed import wellformed_obs

PROPERTY = 'C11'
LEVEL = 'exploration'
RULE = ('Hypothesis-generated structures (single Obs, list, ndarray of 1-3 dimensions, Corr with N=1..3, paddings, interior '
        'undefined slices, prange and tag, nested dictionaries and mixed lists of these with plain JSON leaves, data frames); '
        'all observables of one structure share a layout drawn from 1-3 ensembles x 1-3 replicas with contiguous / strided / '
        'irregular configuration lists (as range, list or array) and 0-2 covariance inputs of dimension 1-3 (also '
        'covariance-only observables); data magnitudes 1e-8..1e8 (uniform, mixed per chain, mean >> spread); tags of every '
        'JSON type per observable; reweighted flag both; transports and their options as listed per sub-property. '
        'A case draws 1-2 independent layouts and in two thirds of the cases a sibling of one of them: the same replica names '
        'with equally many but other configurations per replica (shifted with overlap, right behind the first part, other '
        'stride, irregular sub-sample of equal length), so that the structures of one document / dictionary / data-frame cell '
        'live on different parts of the same replica (labels doc:same_replica_equal_length_other_configs, doc:parts_*: about a '
        'third of the multi-structure documents of json and frame, nearly half of the dictionaries). '
        'Non-trivial: the case contains >= 2 observables and (>= 2 ensembles or an irregular configuration list or a '
        'covariance input or an undefined Corr slice or two structures of one document on the same replica with equally many '
        'but different configurations); distinct = distinct spec hash.')
ASSUMPTIONS = [
    'fluctuations compared with absolute tolerance 1e-14 * (largest |raw sample| of the ensemble + |replica mean - value|): '
    'the format stores fluctuation + (replica mean - value) and the reader subtracts the column average, i.e. three roundings at '
    'the magnitude of the raw samples (DESIGN 3.4); replica means to 1e-14 * (that scale + |value|); central values, covariance '
    'matrices, gradients, configuration numbers, names, tags, flags, shapes: exact; range-vs-list form of configuration lists equal',
    'pickle transports: everything bit-identical',
    'subsequent analysis: gamma_method() with default parameters on both sides; per ensemble rtol = 1e-10 + 100*N*eps*scale/rms(fluctuation) '
    '(first-order bound of the effect of the admitted fluctuation differences on Gamma(t) summed over the window); ensembles with '
    'rtol > 1e-3 (fluctuations are rounding noise of sample-mean) and ensembles whose window differs (tie) are labelled and not judged',
    'emitted documents are parsed with the standard-library json module, which accepts the NaN literals by which the format marks '
    'undefined Corr slices; validation uses the jsonschema validator class selected by the $schema of the shipped file',
    'integers inside tags and leaves are limited to |i| <= 2**53; strings contain no surrogate code points; dictionary keys are strings; '
    'leaf strings do not start with the placeholder DICTOBS<digit>; empty lists / size-0 arrays of observables are not structures',
    'plain (non-observable) data-frame columns are written but their content is not compared (pandas csv float parsing is outside C11); '
    'with auto_gamma=True the loader is expected to have analysed the objects, a missing analysis is made up for, not reported',
]

EPS = 2.220446049250313e-16
TOL = 1e-14

_SCHEMA = None


def schema_validator():
    global _SCHEMA
    if _SCHEMA is None:
        import jsonschema
        path = os.path.join(os.environ.get('VERIF_REPO', '/repo'), 'examples', 'json_schema.json')
        sch = stdjson.load(open(path))
        cls = jsonschema.validators.validator_for(sch)
        cls.check_schema(sch)
        _SCHEMA = cls(sch)
    return _SCHEMA


def validate_document(text, what):
    """The emitted text must parse and validate against the shipped schema."""
    try:
        doc = stdjson.loads(text)
    except Exception as e:
        raise Violation('%s: emitted document does not parse as JSON: %s' % (what, e))
    errs = sorted(schema_validator().iter_errors(doc), key=lambda e: list(e.absolute_path))
    if errs:
        e = errs[0]
        raise Violation('%s: emitted document violates examples/json_schema.json at %s: %s'
                        % (what, '/'.join(str(p) for p in e.absolute_path), e.message[:300]))
    return doc


# ==============================================================================================
# generators (plain data)

def _text(max_size=6):
    return st.one_of(st.sampled_from(['x', 'tag', 'a b', 'None', 'null', 'true', '0', 'é"\\', 'DICT', '\n']),
                     st.text(alphabet=st.characters(blacklist_categories=('Cs',)), max_size=max_size))


def _keys():
    return st.one_of(st.sampled_from(['a', 'b', 'key', 'tag', 'prange', 'OBSDICT', 'description', '1', '']),
                     st.text(alphabet=st.characters(blacklist_categories=('Cs',)), max_size=4))


def json_leaf():
    return st.one_of(st.none(), st.booleans(), st.integers(-2 ** 53, 2 ** 53), st.sampled_from([0, 1, -1, 0.0, 1.0, -0.0, 1e-300, 1.7976931348623157e308, 5e-324, 0.1]),
                     st.floats(allow_nan=False, allow_infinity=False, width=64), _text())


def json_value(max_leaves=4):
    return st.recursive(json_leaf(), lambda ch: st.one_of(st.lists(ch, max_size=3), st.dictionaries(_keys(), ch, max_size=3)),
                        max_leaves=max_leaves)


def falsy(tag):
    return tag is not None and not tag


@st.composite
def tag_value(draw, single):
    """tag of one observable; `single`: the observable is written as a structure of type Obs"""
    t = draw(st.one_of(st.none(), st.none(), json_value(), st.sampled_from([0, '', False, [], {}, 0.0, 'T']), _text()))
    if single and falsy(t) and findings.is_open('F-C11-1'):
        return {'tag': 'excl', 'excl': 'F-C11-1'}
    return {'tag': t}


MAG_REGIMES = ['unit', 'unit', 'unit', 'tiny', 'huge', 'wide', 'wide', 'offset']


def mag_strategies(regime):
    if regime == 'unit':
        return gen.fl(-3, 3), gen.fl(0.01, 2.0)
    if regime == 'tiny':
        return gen.fl(-3e-8, 3e-8), gen.fl(1e-10, 2e-8)
    if regime == 'huge':
        return gen.fl(-3e8, 3e8), gen.fl(1e6, 2e8)
    if regime == 'offset':   # mean >> spread: stored fluctuations are rounding limited
        return st.builds(lambda m, s: s * m, gen.fl(1e5, 3e8), st.sampled_from([1.0, -1.0])), gen.fl(1e-4, 2e-2)
    ex = st.integers(-8, 8)
    return (st.builds(lambda m, k: m * 10.0 ** k, gen.fl(-3, 3), ex),
            st.builds(lambda s, k: s * 10.0 ** k, gen.fl(0.01, 2.0), ex))


@st.composite
def layout(draw, tier):
    nmax = 30 if tier == 'quick' else 200
    mode = draw(st.sampled_from(['mc', 'mc', 'mc', 'mc+cov', 'mc+cov', 'cov']))
    chains = []
    if mode != 'cov':
        for e in draw(gen.ensemble_names(1, 3)):
            reps = draw(gen.replica_names(e, 1, 3))
            g = draw(st.sampled_from([1, 1, 1, 2, 3, 5]))
            for r in reps:
                chains.append({'name': r, 'idl': draw(gen.idl_list(5, nmax, gap=g)), 'form': draw(gen.idl_form())})
    cov = []
    if mode != 'mc':
        pool = draw(gen.cov_pool(2))
        if not pool:
            pool = {'sys': {'cov': [[0.25]], 'means': [1.0]}}
        cov = [{'name': nm, 'cov': pool[nm]['cov'], 'means': pool[nm]['means']} for nm in sorted(pool)]
    return {'chains': chains, 'cov': cov, 'mag': draw(st.sampled_from(MAG_REGIMES))}


@st.composite
def obs_data(draw, lay, single=False):
    mean, sigma = mag_strategies(lay['mag'])
    data = [draw(gen.recipe(len(c['idl']), mean=mean, sigma=sigma)) for c in lay['chains']]
    grad = [[draw(st.one_of(gen.fl(-2, 2), st.sampled_from([0.0, 1.0, 1e-8, -3e8]))) for _ in cv['means']] for cv in lay['cov']]
    od = {'data': data, 'grad': grad}
    od.update(draw(tag_value(single)))
    return od


ARRAY_SHAPES = [[1], [2], [3], [5], [1, 1], [2, 2], [1, 3], [3, 1], [2, 3], [1, 1, 1], [2, 1, 2], [1, 2, 2], [2, 2, 2], [3, 1, 1]]


@st.composite
def corr_tag(draw, fmt=True):
    t = draw(st.one_of(st.none(), _text(), st.sampled_from(['C_pp', 'None', 'none', ''])))
    if fmt and t == 'None' and findings.is_open('F-C11-2'):
        return {'tag': 'excl', 'excl': 'F-C11-2'}
    return {'tag': t}


@st.composite
def structure(draw, lays, kinds=('obs', 'list', 'array', 'corr'), small=False, fmt=True, li=None):
    """fmt: the structure goes through the json format (open findings of the format are excluded), False for pickle;
    li: index of the layout (None = drawn)"""
    t = draw(st.sampled_from(list(kinds)))
    if li is None:
        li = draw(st.integers(0, len(lays) - 1))
    lay = lays[li]
    node = {'t': t, 'lay': li, 'rw': draw(st.sampled_from([False, False, True])), 'gm': draw(st.sampled_from([False, False, True]))}
    if t == 'obs':
        node['o'] = draw(obs_data(lay, single=fmt))
    elif t == 'list':
        node['items'] = [draw(obs_data(lay)) for _ in range(draw(st.integers(1, 3 if small else 4)))]
    elif t == 'array':
        shapes = list(ARRAY_SHAPES[:9] if small else ARRAY_SHAPES)
        if not (fmt and findings.is_open('F-C11-4')):
            shapes.append([])
        shape = draw(st.sampled_from(shapes))
        node['shape'] = shape
        node['items'] = [draw(obs_data(lay)) for _ in range(int(np.prod(shape, dtype=int)))]
        # same logical array, other memory layout (a transposed view of a C-ordered array)
        node['memorder'] = draw(st.sampled_from(['C', 'C', 'F'])) if len(shape) >= 2 else 'C'
    else:
        N = draw(st.sampled_from([1, 1, 1, 2] if small else [1, 1, 2, 3]))
        T = draw(st.integers(1, {1: 6, 2: 3, 3: 2}[N]))
        defined = [draw(st.integers(0, 3)) > 0 for _ in range(T)]
        if not any(defined):
            defined[draw(st.integers(0, T - 1))] = True
        node['N'] = N
        node['slices'] = [[draw(obs_data(lay)) for _ in range(N * N)] if d else None for d in defined]
        node['pad'] = draw(st.sampled_from([[0, 0], [0, 0], [1, 0], [0, 2], [2, 1]]))
        Ttot = T + sum(node['pad'])
        if draw(st.booleans()):
            a = draw(st.integers(0, Ttot))
            node['prange'] = [a, draw(st.integers(a, Ttot))]
        else:
            node['prange'] = None
        node['ctag'] = draw(corr_tag(fmt))
    return node


def analysable(lay):
    """documented precondition of gamma_method: the replicas of an ensemble have a common spacing"""
    gaps = {}
    for c in lay['chains']:
        gaps.setdefault(ens_of(c['name']), []).append(min(b - a for a, b in zip(c['idl'], c['idl'][1:])))
    return all(all(g % min(v) == 0 for g in v) for v in gaps.values())


SIBLING_HOWS = ['shift', 'shift', 'behind', 'stride', 'stride', 'irregular', 'irregular', 'same']


@st.composite
def sibling_layout(draw, base):
    """Another part of the same Monte-Carlo history: the replica names and the number of configurations per replica of `base`,
    but other configuration numbers (per replica: shifted so that the two parts overlap, placed right behind the first part,
    spread with another stride, an irregular sub-sample of equal length, or unchanged).  Spacings stay multiples of the
    replica's smallest spacing."""
    m = draw(st.sampled_from([2, 2, 3]))
    chains = []
    for c in base['chains']:
        il = c['idl']
        n = len(il)
        g = min(b - a for a, b in zip(il, il[1:]))
        how = draw(st.sampled_from(SIBLING_HOWS))
        if how == 'shift':
            k = draw(st.integers(1, n)) * draw(st.sampled_from([1, 1, -1]))
            new = [x + g * k for x in il]
            if new[0] < 0:
                new = [x + g * abs(k) for x in il]
        elif how == 'behind':       # second half of the chain: starts where the first part ends
            off = il[-1] + g - il[0]
            new = [x + off for x in il]
        elif how == 'stride':       # e.g. all configurations -> every second one, even -> a coarser grid
            a = draw(st.sampled_from([il[0], il[0] + g, draw(st.integers(0, 20))]))
            new = [a + m * (x - il[0]) for x in il]
        elif how == 'irregular':    # irregular sub-sample of equal length on the grid of the replica
            inc = draw(st.lists(st.sampled_from([1, 1, 1, 2, 3]), min_size=n - 1, max_size=n - 1))
            j = draw(st.integers(0, n - 2))
            k = draw(st.integers(0, n - 3))
            if k >= j:
                k += 1
            inc[j], inc[k] = 1, max(inc[k], 2)
            new = [draw(st.sampled_from([il[0], il[0] + g, il[-1] + g]))]
            for i in inc:
                new.append(new[-1] + g * i)
        else:
            new = list(il)
        chains.append({'name': c['name'], 'idl': new, 'form': draw(gen.idl_form())})
    return {'chains': chains, 'cov': copy.deepcopy(base['cov']) if draw(st.booleans()) else [],
            'mag': draw(st.sampled_from([base['mag'], base['mag'], 'unit', 'wide'])), 'sibling': True}


@st.composite
def _layouts(draw, tier, nmax=2):
    """1..nmax independent layouts; in two thirds of the cases one more layout that is a sibling of one of them (same replicas, equally
    many but other configurations), so that the structures of one document / dictionary / cell can live on different parts of
    the same replica."""
    lays = draw(st.lists(layout(tier), min_size=1, max_size=nmax))
    with_mc = [i for i, la in enumerate(lays) if la['chains']]
    if with_mc and draw(st.integers(0, 2)) > 0:
        sib = draw(sibling_layout(lays[draw(st.sampled_from(with_mc))]))
        lays.insert(draw(st.integers(0, len(lays))), sib)
    return lays


def sibling_pair(lays):
    """indices (sibling, layout it was derived from) or None"""
    for i, la in enumerate(lays):
        if la.get('sibling'):
            sig = [(c['name'], len(c['idl'])) for c in la['chains']]
            for j, lb in enumerate(lays):
                if j != i and [(c['name'], len(c['idl'])) for c in lb['chains']] == sig:
                    return [i, j]
    return None


@st.composite
def json_case(draw, tier):
    lays = draw(_layouts(tier))
    how = draw(st.sampled_from(['string', 'string', 'file', 'file', 'file', 'obs_dump', 'corr_dump']))
    tr = {'how': how, 'indent': draw(st.sampled_from([1, 1, 0, None, 2])), 'full': draw(st.booleans()),
          'desc': draw(st.one_of(st.just(''), _text(10), st.dictionaries(_keys(), json_leaf(), max_size=2)))}
    if how == 'obs_dump':
        structs = [draw(structure(lays, kinds=('obs',)))]
        tr['path'] = draw(st.booleans())
        tr['desc'] = draw(st.one_of(st.just(''), _text(10)))
    elif how == 'corr_dump':
        structs = [draw(structure(lays, kinds=('corr',)))]
        tr['path'] = draw(st.booleans())
    else:
        n = draw(st.sampled_from([1, 1, 2, 3, 4]))
        fixed = [None] * n
        pair = sibling_pair(lays)
        if n > 1 and pair and draw(st.booleans()):
            # two structures of the document on the two parts of the same replicas, in either order, at any two positions
            pos = draw(st.lists(st.integers(0, n - 1), min_size=2, max_size=2, unique=True))
            fixed[pos[0]], fixed[pos[1]] = pair
        structs = [draw(structure(lays, small=n > 2, li=fixed[k])) for k in range(n)]
        tr['bare'] = n == 1 and structs[0]['t'] != 'list' and draw(st.booleans())   # pass the structure itself, not [structure]
        if how == 'file':
            tr['gz'] = draw(st.booleans())
            tr['ext'] = draw(st.sampled_from(['', '', '.json', '.json.gz'] if tr['gz'] else ['', '', '.json']))
            tr['load_full_name'] = draw(st.booleans())
    return {'layouts': lays, 'structs': structs, 'tr': tr}


def _bad_leaf_string(v):
    return isinstance(v, str) and v.startswith('DICTOBS') and len(v) > 7 and v[7].isdigit()


@st.composite
def plain_leaf(draw):
    v = draw(json_leaf())
    if _bad_leaf_string(v):
        v = 'x' + v
    return {'t': 'leaf', 'v': v}


@st.composite
def dict_node(draw, lays, depth, fmt=True):
    """{'t': 'dict', 'items': [[key, node]]}; nodes: structures, leaves, nested dicts, mixed python lists"""
    keys = draw(st.lists(_keys(), min_size=1, max_size=4, unique=True))
    items = []
    for k in keys:
        items.append([k, draw(dict_value(lays, depth, fmt))])
    return {'t': 'dict', 'items': items}


@st.composite
def plist_node(draw, lays, depth, fmt=True):
    n = draw(st.integers(0, 3))
    items = [draw(dict_value(lays, depth + 1, fmt)) for _ in range(n)]
    if draw(st.integers(0, 4)) == 0:
        # a list made only of observables *nested inside a list* is exported element by element (one Obs structure each),
        # so its members may live on different layouts
        inner = [draw(structure(lays, kinds=('obs',), small=True, fmt=fmt)) for _ in range(draw(st.integers(2, 3)))]
        items.append({'t': 'plist', 'items': inner})
    node = {'t': 'plist', 'items': items}
    for it in items:
        # a list of Obs nested directly inside a python list is exported element by element as single-Obs structures
        if fmt and it['t'] == 'list' and findings.is_open('F-C11-1'):
            for od in it['items']:
                if 'excl' not in od and falsy(od['tag']):
                    od['tag'], od['excl'] = 'excl', 'F-C11-1'
    if fmt and not items and findings.is_open('F-C11-3'):
        node['items'] = [{'t': 'leaf', 'v': 'excl'}]
        node['excl'] = 'F-C11-3'
    if items and all(i['t'] == 'obs' for i in items):
        # a python list that contains only Obs *is* a list structure (shared layout required): keep this one mixed
        node['items'] = items + [draw(plain_leaf())]
    return node


@st.composite
def dict_value(draw, lays, depth, fmt=True):
    kinds = ['leaf', 'leaf', 'struct', 'struct', 'struct']
    if depth < 2:
        kinds += ['dict', 'plist']
    k = draw(st.sampled_from(kinds))
    if k == 'leaf':
        return draw(plain_leaf())
    if k == 'struct':
        return draw(structure(lays, small=True, fmt=fmt))
    if k == 'dict':
        return draw(dict_node(lays, depth + 1, fmt))
    return draw(plist_node(lays, depth, fmt))


def count_structs(node):
    if node['t'] in ('obs', 'list', 'array', 'corr'):
        return 1
    if node['t'] == 'dict':
        return sum(count_structs(v) for _, v in node['items'])
    if node['t'] == 'plist':
        return sum(count_structs(v) for v in node['items'])
    return 0


@st.composite
def dict_case(draw, tier):
    lays = draw(_layouts(tier))
    root = draw(dict_node(lays, 0))
    if count_structs(root) == 0:     # load_json_dict documents that at least one placeholder must be present
        root['items'][0][1] = draw(structure(lays, small=True))
    if draw(st.integers(0, 4)) == 0:
        # more than ten structures: the placeholders DICTOBS10, DICTOBS11 ... have DICTOBS1 as a prefix
        nw = draw(st.integers(11 - min(count_structs(root), 5), 14))
        have = set(k for k, _ in root['items'])
        key = 'wide' if 'wide' not in have else 'wide_%d' % len(have)
        root['items'].append([key, {'t': 'dict', 'items': [['w%02d' % i, draw(structure(lays, small=True))] for i in range(nw)]}])
    tr = {'how': 'dict', 'gz': draw(st.booleans()), 'indent': draw(st.sampled_from([1, 1, 0, None])), 'full': draw(st.booleans()),
          'desc': draw(st.one_of(st.just(''), _text(10))), 'ext': draw(st.sampled_from(['', '.json'])),
          # the documented placeholder option (alphanumeric text), None = default
          'reps': draw(st.sampled_from([None, None, 'XOBS', 'P', 'placeholder', 'dictobs']))}
    return {'layouts': lays, 'root': root, 'tr': tr}


@st.composite
def frame_case(draw, tier):
    lays = draw(_layouts(tier))
    nrow = draw(st.integers(1, 3))
    ncol = draw(st.integers(1, 3))
    cols = []
    names = draw(st.lists(st.sampled_from(['o', 'c', 'l', 'obs col', 'Σ', 'x,y', 'q"']), min_size=ncol, max_size=ncol, unique=True))
    for nm in names:
        kind = draw(st.sampled_from(['obs', 'obs', 'corr', 'olist']))
        cells = []
        for _ in range(nrow):
            if kind == 'olist':
                k = draw(st.integers(1, 3))
                excl = None
                if k == 1 and findings.is_open('F-C11-5'):
                    k, excl = 2, 'F-C11-5'
                cell = {'t': 'olist', 'items': [draw(structure(lays, kinds=('obs',))) for _ in range(k)]}
                if excl:
                    cell['excl'] = excl
                cells.append(cell)
            else:
                cells.append(draw(structure(lays, kinds=(kind,), small=True)))
        cols.append({'name': nm, 'kind': kind, 'cells': cells})
    plain = []
    for nm in draw(st.lists(st.sampled_from(['i', 'f', 's']), max_size=2, unique=True)):
        if nm == 'i':
            plain.append({'name': 'i', 'values': [draw(st.integers(-1000, 1000)) for _ in range(nrow)]})
        elif nm == 'f':
            plain.append({'name': 'f', 'values': [draw(gen.fl(-10, 10)) for _ in range(nrow)]})
        else:
            plain.append({'name': 's', 'values': [draw(st.sampled_from(['a', 'b c', 'x,"y', 'None'])) for _ in range(nrow)]})
    tr = {'how': draw(st.sampled_from(['csv', 'sql'])), 'gz': draw(st.booleans()),
          'auto_gamma': draw(st.sampled_from([False, False, True])) and all(analysable(la) for la in lays),
          'first': draw(st.booleans()), 'ext': draw(st.booleans())}
    return {'layouts': lays, 'cols': cols, 'plain': plain, 'tr': tr}


@st.composite
def pickle_case(draw, tier):
    lays = draw(_layouts(tier))
    how = draw(st.sampled_from(['object', 'object', 'obs_dump', 'corr_dump']))
    if how == 'obs_dump':
        root = draw(structure(lays, kinds=('obs',), fmt=False))
    elif how == 'corr_dump':
        root = draw(structure(lays, kinds=('corr',), fmt=False))
    else:
        root = draw(st.one_of(structure(lays, fmt=False), structure(lays, fmt=False), dict_node(lays, 1, fmt=False), plist_node(lays, 1, fmt=False)))
    return {'layouts': lays, 'root': root, 'tr': {'how': how, 'path': draw(st.booleans())}}


# ==============================================================================================
# building and snapshots

class Ctx:
    def __init__(self, lays, single_falsy_ok=True):
        self.lays = lays
        self.nobs = 0
        self.labels = set()
        self.nt_feature = False


def build_single(ctx, lay, od, rw, gm):
    spec = {'chains': [dict(c, data=d) for c, d in zip(lay['chains'], od['data'])],
            'cov': [dict(cv, grad=g) for cv, g in zip(lay['cov'], od['grad'])]}
    o = build_obs(spec)
    if od.get('excl'):
        ctx.labels.add('excluded:' + od['excl'])
        o.tag = 'excluded'
    else:
        o.tag = copy.deepcopy(od['tag'])
    if rw:
        o.reweighted = True
    if gm:
        try:
            o.gamma_method()
        except Exception:      # replicas without common spacing: the analysis is not defined for this layout
            if common_spacing(o):
                raise
    # magnitude of the raw samples per ensemble
    emag = {}
    for c in spec['chains']:
        e = ens_of(c['name'])
        emag[e] = max(emag.get(e, 0.0), float(np.max(np.abs(chain_samples(c)))))
    ctx.nobs += 1
    return o, Snap(o, emag)


class Snap:
    """Copy of every public attribute of an observable, taken before it is handed to the writer."""

    def __init__(self, o, emag):
        self.value = o.value
        self.names = list(o.names)
        self.cov_names = list(o.cov_names)
        self.mc_names = list(o.mc_names)       # ensembles with Monte-Carlo data
        self.chains = [n for n in o.names if n not in o.covobs]
        self.e_names = list(o.e_names)
        self.idl = {n: (isinstance(il, range), [int(c) for c in il]) for n, il in o.idl.items()}
        self.deltas = {n: np.array(d, dtype=float, copy=True) for n, d in o.deltas.items()}
        self.rv = {n: float(v) for n, v in o.r_values.items()}
        self.cov = {k: (np.array(c.cov, copy=True), np.array(c.grad, copy=True)) for k, c in o.covobs.items()}
        self.tag = copy.deepcopy(o.tag)
        self.rw = o.reweighted
        self.N = o.N
        self.shape = dict(o.shape)
        self.e_content = copy.deepcopy(o.e_content)
        self.emag = dict(emag)
        self.analysed = hasattr(o, 'e_dvalue')
        if self.analysed:
            self.analysis = grab_analysis(o)


def grab_analysis(o):
    d = {'dvalue': float(o.dvalue), 'ddvalue': float(o.ddvalue)}
    for f in ('e_dvalue', 'e_ddvalue', 'e_tauint', 'e_dtauint', 'e_windowsize'):
        d[f] = {k: (int(v) if f == 'e_windowsize' else float(v)) for k, v in getattr(o, f).items()}
    return d


def strict_json_equal(a, b):
    """equality of JSON values that distinguishes bool / int / float and is exact on floats"""
    if type(a) is not type(b):
        return False
    if isinstance(a, dict):
        return sorted(a) == sorted(b) and all(strict_json_equal(a[k], b[k]) for k in a)
    if isinstance(a, list):
        return len(a) == len(b) and all(strict_json_equal(x, y) for x, y in zip(a, b))
    if isinstance(a, float):
        return a == b and np.signbit(a) == np.signbit(b)
    return a == b


def cmp_obs_snap(s, r, what, exact=False):
    import pyerrors as pe
    pre = what + ': '
    require(isinstance(r, pe.Obs), pre + 'expected an Obs, got %s' % type(r).__name__)
    require(isinstance(r.value, (float, np.floating)) and r.value == s.value, pre + 'central value %r, written %r' % (r.value, s.value))
    require(sorted(r.names) == sorted(s.names), pre + 'names %r, written %r' % (r.names, s.names))
    require(sorted(r.mc_names) == sorted(s.mc_names) and sorted(r.cov_names) == sorted(s.cov_names),
            pre + 'Monte-Carlo ensembles %r / covariance inputs %r, written %r / %r' % (r.mc_names, r.cov_names, s.mc_names, s.cov_names))
    for attr in ('deltas', 'idl', 'r_values', 'shape'):
        require(sorted(getattr(r, attr)) == sorted(s.chains), pre + 'keys of %s are %r, chains %r' % (attr, sorted(getattr(r, attr)), s.chains))
    for n in s.chains:
        isr, cfg = s.idl[n]
        got = [int(c) for c in r.idl[n]]
        if got != cfg:
            k = next((i for i, (a, b) in enumerate(zip(got, cfg)) if a != b), min(len(got), len(cfg)))
            raise Violation(pre + 'configuration list of %s differs from position %d: %r..., written %r... (lengths %d / %d)'
                            % (n, k, got[k:k + 4], cfg[k:k + 4], len(got), len(cfg)))
        require(isinstance(r.idl[n], range) == isr, pre + 'configuration list of %s is held as %s, was %s'
                % (n, type(r.idl[n]).__name__, 'range' if isr else 'list'))
        a = s.deltas[n]
        b = np.asarray(r.deltas[n])
        require(b.shape == a.shape and b.dtype.kind == 'f', pre + 'fluctuations of %s have shape %r dtype %s, written shape %r'
                % (n, b.shape, b.dtype, a.shape))
        off = abs(s.rv[n] - s.value)
        scale = s.emag[ens_of(n)] + off
        tol = 0.0 if exact else TOL * scale
        dev = np.abs(a - b)
        if not np.all(dev <= tol):
            i = int(np.argmax(dev))
            raise Violation(pre + 'fluctuation of %s at configuration %d is %r, written %r (max deviation %.3g = %.3g x raw-sample scale %.3g; %d of %d entries beyond tolerance)'
                            % (n, cfg[i], float(b[i]), float(a[i]), float(dev[i]), float(dev[i]) / (scale + 1e-300), scale, int(np.sum(~(dev <= tol))), len(a)))
        rtol = 0.0 if exact else TOL * (scale + abs(s.value))
        require(abs(float(r.r_values[n]) - s.rv[n]) <= rtol, pre + 'replica mean of %s is %r, written %r' % (n, float(r.r_values[n]), s.rv[n]))
        require(r.shape[n] == s.shape[n], pre + 'shape[%s] = %r, written %r' % (n, r.shape[n], s.shape[n]))
    for k in s.cov_names:
        cov, grad = s.cov[k]
        co = r.covobs[k]
        require(co.name == k, pre + 'covariance input stored under %r is named %r' % (k, co.name))
        c2 = np.asarray(co.cov)
        require(c2.shape == cov.shape and np.array_equal(c2, cov), pre + 'covariance matrix of %s is %r, written %r' % (k, c2.tolist(), cov.tolist()))
        g2 = np.asarray(co.grad)
        require(g2.shape == grad.shape and np.array_equal(g2, grad), pre + 'gradient w.r.t. %s is %r (shape %r), written %r (shape %r)'
                % (k, g2.ravel().tolist(), g2.shape, grad.ravel().tolist(), grad.shape))
    require(strict_json_equal(r.tag, s.tag), pre + 'tag is %r, written %r' % (r.tag, s.tag))
    require(isinstance(r.reweighted, (bool, np.bool_)) and bool(r.reweighted) == bool(s.rw), pre + 'reweighted flag is %r, written %r' % (r.reweighted, s.rw))
    require(r.N == s.N, pre + 'N = %r, written %r' % (r.N, s.N))
    require(r.e_content == s.e_content, pre + 'e_content %r, written %r' % (r.e_content, s.e_content))
    require(sorted(r.e_names) == sorted(s.e_names), pre + 'e_names %r, written %r' % (r.e_names, s.e_names))
    wellformed_obs(r, what)


def cmp_analysis(o, s, r, what, ctx, exact=False, r_analysed=False):
    """'any subsequent analysis gives identical results': default gamma_method on the original and on the re-imported observable"""
    pre = what + ': '
    if exact and s.analysed:
        require(hasattr(r, 'e_dvalue'), pre + 'results of the error analysis were lost')
        require(grab_analysis(r) == s.analysis, pre + 'stored results of the error analysis changed', grab_analysis(r), s.analysis)
    try:
        o.gamma_method()
    except Exception as e:
        # the layout violates the precondition of the Gamma method (no common spacing): identical behaviour = the same refusal
        if common_spacing(o):
            raise
        try:
            r.gamma_method()
        except Exception:
            ctx.labels.add('analysis:undefined_on_both')
            return
        raise Violation(pre + 'gamma_method refuses the original (%r) but accepts the re-imported observable' % (e,))
    if not (r_analysed and hasattr(r, 'e_dvalue')):
        # r_analysed: the loader was asked to run the default analysis itself (auto_gamma=True); whether it did is a
        # promise of its docstring, not of C11, so a missing analysis is only made up for here
        r.gamma_method()
    a, b = grab_analysis(o), grab_analysis(r)
    require(sorted(a['e_dvalue']) == sorted(b['e_dvalue']), pre + 'analysed ensembles differ', sorted(a['e_dvalue']), sorted(b['e_dvalue']))
    if exact:
        require(a == b, pre + 'error analysis differs after the round trip', a, b)
        return
    worst = 1e-10
    atol_tot = 0.0
    judged_all = True
    for e in sorted(a['e_dvalue']):
        if e in s.cov:
            for f in ('e_dvalue', 'e_ddvalue'):
                require(abs(a[f][e] - b[f][e]) <= 1e-12 * abs(a[f][e]), pre + '%s[%s] is %r, original %r' % (f, e, b[f][e], a[f][e]))
            continue
        reps = s.e_content[e]
        N = sum(len(s.deltas[n]) for n in reps)
        rms = float(np.sqrt(sum(float(np.sum(s.deltas[n] ** 2)) for n in reps) / N))
        scale = s.emag[e] + max(abs(s.rv[n] - s.value) for n in reps)
        rt = 1e-10 + (100 * N * EPS * scale / rms if rms > 0 else np.inf)
        atol_tot += TOL * scale
        if rt > 1e-3:
            ctx.labels.add('analysis:rounding_limited')
            judged_all = False
            continue
        if a['e_windowsize'][e] != b['e_windowsize'][e]:
            ctx.labels.add('analysis:window_tie')
            judged_all = False
            continue
        worst = max(worst, rt)
        for f in ('e_dvalue', 'e_ddvalue', 'e_tauint', 'e_dtauint'):
            x, y = a[f][e], b[f][e]
            require(abs(x - y) <= rt * max(abs(x), abs(y)), pre + '%s[%s] is %r after the round trip, original %r (rtol %.2g)' % (f, e, y, x, rt))
    if judged_all:
        ctx.labels.add('analysis:judged')
        for f in ('dvalue', 'ddvalue'):
            require(abs(a[f] - b[f]) <= worst * max(abs(a[f]), abs(b[f])), pre + '%s is %r after the round trip, original %r' % (f, b[f], a[f]))
    else:
        require(abs(a['dvalue'] - b['dvalue']) <= 1e-3 * max(abs(a['dvalue']), abs(b['dvalue'])) + 100 * atol_tot,
                pre + 'dvalue is %r after the round trip, original %r' % (b['dvalue'], a['dvalue']))


def note_layout(ctx, lay, n_obs):
    enss = set(ens_of(c['name']) for c in lay['chains'])
    if len(enss) > 1:
        ctx.labels.add('lay:multi_ensemble')
        ctx.nt_feature = True
    if len(lay['chains']) > len(enss):
        ctx.labels.add('lay:multi_replica')
    for c in lay['chains']:
        k = gen.classify_idl(c['idl'])
        ctx.labels.add('idl:' + k)
        if k.startswith('irregular'):
            ctx.nt_feature = True
    if lay['cov']:
        ctx.nt_feature = True
        for cv in lay['cov']:
            ctx.labels.add('cov:dim%d' % len(cv['means']))
    if not lay['chains']:
        ctx.labels.add('lay:cov_only')
    ctx.labels.add('mag:' + lay['mag'])


def struct_layouts(node):
    """layout indices of the structures below a spec node, in document order"""
    if node['t'] in ('obs', 'list', 'array', 'corr'):
        return [node['lay']]
    if node['t'] == 'dict':
        return [i for _, v in node['items'] for i in struct_layouts(v)]
    if node['t'] in ('plist', 'olist'):
        return [i for v in node['items'] for i in struct_layouts(v)]
    return []


def note_document(ctx, lay_indices):
    """Measures what one document (all structures written into the same json text) holds: structures on the same replica
    with equally many but different configurations (parts of one Monte-Carlo history), and how the parts are related."""
    if len(lay_indices) > 1:
        ctx.labels.add('doc:multi_structure')
    seen = {}
    for li in lay_indices:
        for c in ctx.lays[li]['chains']:
            seen.setdefault((c['name'], len(c['idl'])), [])
            if c['idl'] not in seen[(c['name'], len(c['idl']))]:
                seen[(c['name'], len(c['idl']))].append(c['idl'])
    for ils in seen.values():
        for a in ils[1:]:
            b = ils[0]
            ctx.labels.add('doc:same_replica_equal_length_other_configs')
            ctx.nt_feature = True
            da, db = [y - x for x, y in zip(a, a[1:])], [y - x for x, y in zip(b, b[1:])]
            if da == db:
                rel = 'disjoint' if (a[0] > b[-1] or b[0] > a[-1]) else 'shifted_overlapping'
            elif len(set(da)) == 1 and len(set(db)) == 1:
                rel = 'other_stride'
            else:
                rel = 'irregular'
            ctx.labels.add('doc:parts_' + rel)
    if len(set(lay_indices)) > 1 and any(ctx.lays[i].get('sibling') for i in lay_indices):
        ctx.labels.add('doc:uses_sibling_layout')


def tag_label(t):
    if t is None:
        return 'tag:none'
    if falsy(t):
        return 'tag:falsy'
    return 'tag:' + type(t).__name__


def build_node(ctx, node):
    """returns (python object handed to the writer, expectation tree)"""
    import pyerrors as pe
    t = node['t']
    if t == 'leaf':
        return copy.deepcopy(node['v']), ('leaf', copy.deepcopy(node['v']))
    if t == 'dict':
        d, exp = {}, {}
        for k, v in node['items']:
            d[k], exp[k] = build_node(ctx, v)
        ctx.labels.add('struct:dict')
        return d, ('dict', exp)
    if t == 'plist':
        if node.get('excl'):
            ctx.labels.add('excluded:' + node['excl'])
        pairs = [build_node(ctx, v) for v in node['items']]
        ctx.labels.add('struct:mixed_list' if pairs else 'struct:empty_list_leaf')
        return [p[0] for p in pairs], ('plist', [p[1] for p in pairs])
    if t == 'olist':
        if node.get('excl'):
            ctx.labels.add('excluded:' + node['excl'])
        pairs = [build_node(ctx, v) for v in node['items']]
        ctx.labels.add('struct:cell_list')
        return [p[0] for p in pairs], ('plist', [p[1] for p in pairs])
    lay = ctx.lays[node['lay']]
    rw, gm = node['rw'], node.get('gm', False)
    if rw:
        ctx.labels.add('reweighted')
    if gm:
        ctx.labels.add('analysed_before')
    ctx.labels.add('struct:' + t)
    if t == 'obs':
        o, s = build_single(ctx, lay, node['o'], rw, gm)
        ctx.labels.add('single_' + tag_label(s.tag))
        note_layout(ctx, lay, 1)
        return o, ('obs', o, s)
    if t == 'list':
        pairs = [build_single(ctx, lay, od, rw, gm) for od in node['items']]
        for _, s in pairs:
            ctx.labels.add(tag_label(s.tag))
        note_layout(ctx, lay, len(pairs))
        return [p[0] for p in pairs], ('list', [('obs', p[0], p[1]) for p in pairs])
    if t == 'array':
        pairs = [build_single(ctx, lay, od, rw, gm) for od in node['items']]
        for _, s in pairs:
            ctx.labels.add(tag_label(s.tag))
        arr = np.empty(len(pairs), dtype=object)
        for i, p in enumerate(pairs):
            arr[i] = p[0]
        arr = arr.reshape(tuple(node['shape']))
        if node.get('memorder') == 'F':
            tmp = np.empty(tuple(node['shape'])[::-1], dtype=object)
            for idx in np.ndindex(*tuple(node['shape'])):
                tmp[idx[::-1]] = arr[idx]
            arr = tmp.T
            ctx.labels.add('array:F-ordered')
        ctx.labels.add('array:%dd' % len(node['shape']))
        note_layout(ctx, lay, len(pairs))
        return arr, ('array', tuple(node['shape']), [('obs', p[0], p[1]) for p in pairs])
    # corr
    N = node['N']
    content, exp = [], []
    for sl in node['slices']:
        if sl is None:
            content.append(None)
            exp.append(None)
            continue
        pairs = [build_single(ctx, lay, od, rw, gm) for od in sl]
        for _, s in pairs:
            ctx.labels.add(tag_label(s.tag))
        if N == 1:
            content.append(pairs[0][0])
        else:
            m = np.empty(N * N, dtype=object)
            for i, p in enumerate(pairs):
                m[i] = p[0]
            content.append(m.reshape(N, N))
        exp.append([('obs', p[0], p[1]) for p in pairs])
    c = pe.Corr(content, padding=list(node['pad']), prange=copy.deepcopy(node['prange']))
    ct = node['ctag']
    if ct.get('excl'):
        ctx.labels.add('excluded:' + ct['excl'])
        c.tag = 'excluded'
    else:
        c.tag = ct['tag']
    exp = [None] * node['pad'][0] + exp + [None] * node['pad'][1]
    ctx.labels.add('corr:N=%d' % N)
    if any(e is None for e in exp):
        ctx.labels.add('corr:undefined_slices')
        ctx.nt_feature = True
    if any(e is None for e in node['slices']):
        ctx.labels.add('corr:interior_none')
    if node['prange'] is not None:
        ctx.labels.add('corr:prange')
    ctx.labels.add('corr:tag_' + ('none' if c.tag is None else 'str'))
    note_layout(ctx, lay, 0)
    return c, ('corr', {'N': N, 'T': len(exp), 'tag': c.tag, 'prange': copy.deepcopy(node['prange']), 'content': exp})


def compare(exp, got, what, ctx, exact=False, analysed=False):
    import pyerrors as pe
    k = exp[0]
    if k == 'leaf':
        require(strict_json_equal(exp[1], got), what + ': leaf is %r, written %r' % (got, exp[1]))
    elif k == 'obs':
        cmp_obs_snap(exp[2], got, what, exact)
        cmp_analysis(exp[1], exp[2], got, what, ctx, exact, analysed)
    elif k == 'list':
        require(isinstance(got, list), what + ': expected a list, got %s' % type(got).__name__)
        require(len(got) == len(exp[1]), what + ': list of length %d, written %d' % (len(got), len(exp[1])))
        for i, (e, g) in enumerate(zip(exp[1], got)):
            compare(e, g, '%s[%d]' % (what, i), ctx, exact, analysed)
    elif k == 'plist':
        require(isinstance(got, list), what + ': expected a list, got %s (%r)' % (type(got).__name__, got))
        require(len(got) == len(exp[1]), what + ': list of length %d, written %d' % (len(got), len(exp[1])))
        for i, (e, g) in enumerate(zip(exp[1], got)):
            compare(e, g, '%s[%d]' % (what, i), ctx, exact, analysed)
    elif k == 'array':
        require(isinstance(got, np.ndarray), what + ': expected an ndarray, got %s' % type(got).__name__)
        require(got.shape == exp[1], what + ': array of shape %r, written %r' % (got.shape, exp[1]))
        flat = got.ravel() if got.ndim else [got.item()]
        for i, (e, g) in enumerate(zip(exp[2], flat)):
            compare(e, g, '%s.flat[%d]' % (what, i), ctx, exact, analysed)
    elif k == 'corr':
        d = exp[1]
        require(isinstance(got, pe.Corr), what + ': expected a Corr, got %s' % type(got).__name__)
        require(got.T == d['T'] and len(got.content) == d['T'], what + ': T = %r (content length %d), written %d' % (got.T, len(got.content), d['T']))
        require(got.N == d['N'], what + ': N = %r, written %d' % (got.N, d['N']))
        pat_g = [c is None for c in got.content]
        pat_e = [c is None for c in d['content']]
        require(pat_g == pat_e, what + ': undefined timeslices %r, written %r' % ([i for i, x in enumerate(pat_g) if x], [i for i, x in enumerate(pat_e) if x]))
        require(type(got.tag) is type(d['tag']) and got.tag == d['tag'], what + ': Corr tag is %r, written %r' % (got.tag, d['tag']))
        require(type(got.prange) is type(d['prange']) and got.prange == d['prange'], what + ': prange is %r, written %r' % (got.prange, d['prange']))
        want_shape = (1,) if d['N'] == 1 else (d['N'], d['N'])
        for t, (e, g) in enumerate(zip(d['content'], got.content)):
            if e is None:
                continue
            require(isinstance(g, np.ndarray) and g.shape == want_shape, what + ': content[%d] has shape %r, expected %r' % (t, getattr(g, 'shape', None), want_shape))
            for i, (ee, gg) in enumerate(zip(e, g.ravel())):
                compare(ee, gg, '%s[t=%d].flat[%d]' % (what, t, i), ctx, exact, analysed)
    elif k == 'dict':
        require(isinstance(got, dict), what + ': expected a dict, got %s' % type(got).__name__)
        require(sorted(got) == sorted(exp[1]), what + ': keys %r, written %r' % (sorted(got), sorted(exp[1])))
        for key in exp[1]:
            compare(exp[1][key], got[key], '%s[%r]' % (what, key), ctx, exact, analysed)
    else:
        raise RuntimeError(k)


def result(ctx, extra=()):
    ctx.labels.update(extra)
    return {'nt': ctx.nobs >= 2 and ctx.nt_feature, 'cls': sorted(ctx.labels)}


def read_text(path):
    raw = open(path, 'rb').read()
    if raw[:2] == b'\x1f\x8b':
        raw = gzip.decompress(raw)
    return raw.decode('utf-8')


# ==============================================================================================
# oracles

def json_oracle(spec):
    import pyerrors.input.json as pj
    ctx = Ctx(spec['layouts'])
    tr = spec['tr']
    built = [build_node(ctx, n) for n in spec['structs']]
    objs = [b[0] for b in built]
    exps = [b[1] for b in built]
    how = tr['how']
    ctx.labels.add('via:' + how)
    ctx.labels.add('n_structs:%d' % len(objs))
    note_document(ctx, [i for n in spec['structs'] for i in struct_layouts(n)])
    with tempfile.TemporaryDirectory(prefix='c11_') as tmp:
        if how == 'string':
            arg = objs[0] if tr.get('bare') else objs
            text = pj.create_json_string(arg, tr['desc'], tr['indent'])
            require(isinstance(text, str), 'create_json_string returned %s' % type(text).__name__)
            got = pj.import_json_string(text, verbose=False, full_output=tr['full'])
        elif how == 'file':
            arg = objs[0] if tr.get('bare') else objs
            base = os.path.join(tmp, 'out' + tr['ext'])
            pj.dump_to_json(arg, base, description=tr['desc'], indent=tr['indent'], gz=tr['gz'])
            full = base
            if not (full.endswith('.json') or full.endswith('.gz')):
                full += '.json'
            if tr['gz'] and not full.endswith('.gz'):
                full += '.gz'
            require(os.listdir(tmp) == [os.path.basename(full)], 'dump_to_json(%r, gz=%r) created %r, documented name %r'
                    % ('out' + tr['ext'], tr['gz'], os.listdir(tmp), os.path.basename(full)))
            raw = open(full, 'rb').read()
            require((raw[:2] == b'\x1f\x8b') == tr['gz'], 'gz=%r but the file %s gzip-compressed' % (tr['gz'], 'is' if raw[:2] == b'\x1f\x8b' else 'is not'))
            text = read_text(full)
            got = pj.load_json(full if tr['load_full_name'] else base, verbose=False, gz=tr['gz'], full_output=tr['full'])
            ctx.labels.add('gz:%s' % tr['gz'])
        elif how == 'obs_dump':
            kw = {'path': tmp} if tr['path'] else {}
            objs[0].dump('o1' if tr['path'] else os.path.join(tmp, 'o1'), description=tr['desc'], **kw)
            full = os.path.join(tmp, 'o1.json.gz')
            require(os.path.exists(full), 'Obs.dump did not create o1.json.gz: %r' % os.listdir(tmp))
            text = read_text(full)
            got = pj.load_json(os.path.join(tmp, 'o1'), verbose=False, full_output=tr['full'])
        else:
            kw = {'path': tmp} if tr['path'] else {}
            objs[0].dump('c1' if tr['path'] else os.path.join(tmp, 'c1'), **kw)
            full = os.path.join(tmp, 'c1.json.gz')
            require(os.path.exists(full), 'Corr.dump did not create c1.json.gz: %r' % os.listdir(tmp))
            text = read_text(full)
            got = pj.load_json(os.path.join(tmp, 'c1'), verbose=False, full_output=tr['full'])
    doc = validate_document(text, how)
    require(len(doc['obsdata']) == len(objs), 'document holds %d structures, %d were written' % (len(doc['obsdata']), len(objs)))
    ctx.labels.add('indent:%r' % (tr['indent'],))
    if tr['full']:
        require(isinstance(got, dict) and 'obsdata' in got, 'full_output=True did not return a dictionary with obsdata')
        got = got['obsdata']
        require(isinstance(got, list) and len(got) == len(exps), 'full_output: obsdata has %r entries, %d structures written'
                % (len(got) if isinstance(got, list) else got, len(exps)))
        ctx.labels.add('full_output')
    elif len(exps) == 1:
        got = [got]        # documented: a single structure is unpacked
    else:
        require(isinstance(got, list) and len(got) == len(exps), 'import returned %s of length %r, %d structures written'
                % (type(got).__name__, len(got) if hasattr(got, '__len__') else None, len(exps)))
    for i, (e, g) in enumerate(zip(exps, got)):
        compare(e, g, 'structure %d (%s)' % (i, e[0]), ctx)
    return result(ctx)


def dict_oracle(spec):
    import pyerrors.input.json as pj
    ctx = Ctx(spec['layouts'])
    tr = spec['tr']
    od, exp = build_node(ctx, spec['root'])
    note_document(ctx, struct_layouts(spec['root']))
    with tempfile.TemporaryDirectory(prefix='c11_') as tmp:
        base = os.path.join(tmp, 'd' + tr['ext'])
        rk = {'reps': tr['reps']} if tr.get('reps') else {}
        pj.dump_dict_to_json(od, base, description=tr['desc'], indent=tr['indent'], gz=tr['gz'], **rk)
        files = os.listdir(tmp)
        require(len(files) == 1, 'dump_dict_to_json created %r' % files)
        text = read_text(os.path.join(tmp, files[0]))
        got = pj.load_json_dict(base, verbose=False, gz=tr['gz'], full_output=tr['full'], **rk)
    validate_document(text, 'dump_dict_to_json')
    if tr['full']:
        require(isinstance(got, dict) and 'obsdata' in got, 'full_output=True did not return a dictionary with obsdata')
        got = got['obsdata']
    compare(exp, got, 'dict', ctx)
    return result(ctx, ['via:dict', 'gz:%s' % tr['gz'], 'indent:%r' % (tr['indent'],)] + (['full_output'] if tr['full'] else [])
                  + (['reps:custom'] if tr.get('reps') else []))


def frame_oracle(spec):
    import pandas as pd
    import sqlite3
    import pyerrors.input.pandas as pp
    ctx = Ctx(spec['layouts'])
    tr = spec['tr']
    data, exps = {}, {}
    cols = [dict(c, obs=True) for c in spec['cols']] + [dict(p, obs=False) for p in spec['plain']]
    if not tr['first']:
        cols = cols[::-1]
    for c in cols:
        if c['obs']:
            pairs = [build_node(ctx, n) for n in c['cells']]
            for n in c['cells']:          # every cell is a document of its own
                note_document(ctx, struct_layouts(n))
            data[c['name']] = [p[0] for p in pairs]
            exps[c['name']] = [p[1] for p in pairs]
            ctx.labels.add('col:' + c['kind'])
        else:
            data[c['name']] = list(c['values'])
            ctx.labels.add('col:plain')
    df = pd.DataFrame(data)
    texts = []
    with tempfile.TemporaryDirectory(prefix='c11_') as tmp:
        if tr['how'] == 'csv':
            base = os.path.join(tmp, 'frame' + ('.csv' if tr['ext'] else ''))
            pp.dump_df(df, base, gz=tr['gz'])
            files = os.listdir(tmp)
            want = 'frame.csv' + ('.gz' if tr['gz'] else '')
            require(files == [want], 'dump_df(gz=%r) created %r, documented name %r' % (tr['gz'], files, want))
            raw = pd.read_csv(os.path.join(tmp, want), keep_default_na=False, compression='gzip' if tr['gz'] else None)
            for c in exps:
                texts += [str(x) for x in raw[c]]
            got = pp.load_df(base, auto_gamma=tr['auto_gamma'], gz=tr['gz'])
        else:
            db = os.path.join(tmp, 'db.sqlite')
            pp.to_sql(df, 'tab', db, gz=tr['gz'])
            con = sqlite3.connect(db)
            for c in exps:
                for (x,) in con.execute('SELECT "%s" FROM tab' % c.replace('"', '""')):
                    require(isinstance(x, bytes) == tr['gz'], 'to_sql(gz=%r) stored a %s' % (tr['gz'], type(x).__name__))
                    texts.append(gzip.decompress(x).decode('utf-8') if isinstance(x, bytes) else x)
            con.close()
            got = pp.read_sql('SELECT * FROM tab', db, auto_gamma=tr['auto_gamma'])
    for t in texts:
        validate_document(t, 'data-frame cell')
    require(isinstance(got, pd.DataFrame), 'expected a DataFrame, got %s' % type(got).__name__)
    require(list(got.columns) == list(df.columns), 'columns %r, written %r' % (list(got.columns), list(df.columns)))
    require(len(got) == len(df), '%d rows, written %d' % (len(got), len(df)))
    for c in exps:
        for i, e in enumerate(exps[c]):
            compare(e, got[c][i], 'column %r row %d' % (c, i), ctx, analysed=tr['auto_gamma'])
    return result(ctx, ['via:' + tr['how'], 'gz:%s' % tr['gz'], 'auto_gamma:%s' % tr['auto_gamma']])


def pickle_oracle(spec):
    import pyerrors as pe
    ctx = Ctx(spec['layouts'])
    tr = spec['tr']
    obj, exp = build_node(ctx, spec['root'])
    with tempfile.TemporaryDirectory(prefix='c11_') as tmp:
        if tr['how'] == 'object':
            if tr['path']:
                pe.misc.dump_object(obj, 'pk', path=tmp)
            else:
                pe.misc.dump_object(obj, os.path.join(tmp, 'pk'))
        elif tr['how'] == 'obs_dump':
            kw = {'path': tmp} if tr['path'] else {}
            obj.dump('pk' if tr['path'] else os.path.join(tmp, 'pk'), datatype='pickle', **kw)
        else:
            kw = {'path': tmp} if tr['path'] else {}
            obj.dump('pk' if tr['path'] else os.path.join(tmp, 'pk'), datatype='pickle', **kw)
        require(os.listdir(tmp) == ['pk.p'], 'pickle transport %s created %r, documented name pk.p' % (tr['how'], os.listdir(tmp)))
        got = pe.misc.load_object(os.path.join(tmp, 'pk.p'))
    compare(exp, got, 'pickle', ctx, exact=True)
    return result(ctx, ['via:pickle_' + tr['how']])


# ---------------------------------------------------------------------------------------------- structures on mixed layouts
# One structure (matrix-valued Corr, array, list) whose members live on different configuration lists of equal length: the
# format stores one configuration list per structure, so the request is either refused or every member comes back on its own
# configurations - never on another member's.

@st.composite
def mixed_case(draw, tier):
    n = draw(st.integers(8, 20))
    name = draw(st.sampled_from(['A|r1', 'B', 'ens|r02']))
    a0, b0 = draw(st.integers(0, 50)), draw(st.integers(0, 50))
    il_a = [a0 + k for k in range(n)]
    how = draw(st.sampled_from(['stride', 'shift', 'irregular']))
    if how == 'stride':
        il_b = [b0 + 2 * k for k in range(n)]
    elif how == 'shift':
        il_b = [a0 + n // 2 + k for k in range(n)]
    else:
        il_b = sorted(set([a0 + 3 * k + (k * k) % 3 for k in range(n)]))
        il_b = il_b + [il_b[-1] + 1 + j for j in range(n - len(il_b))]
    return {'name': name, 'idl_a': il_a, 'idl_b': il_b, 'kind': draw(st.sampled_from(['corr_matrix', 'corr_matrix', 'array', 'list'])),
            'T': draw(st.integers(1, 3)), 'seed': draw(st.integers(0, 10 ** 6)), 'how': how}


def mixed_oracle(spec):
    import pyerrors as pe
    import pyerrors.input.json as pj
    rng = np.random.RandomState(spec['seed'])
    n = len(spec['idl_a'])

    def mk(il):
        return pe.Obs([rng.normal(1.0, 0.3, n)], [spec['name']], idl=[il])
    if spec['kind'] == 'corr_matrix':
        content = []
        for t in range(spec['T']):
            m = np.empty((2, 2), dtype=object)
            m[0, 0], m[1, 1] = mk(spec['idl_a']), mk(spec['idl_a'])
            m[0, 1], m[1, 0] = mk(spec['idl_b']), mk(spec['idl_b'])
            content.append(m)
        obj = pe.Corr(content)
        members = [x for m in content for x in m.ravel()]
    elif spec['kind'] == 'array':
        arr = np.empty((2, 2), dtype=object)
        arr[0, 0], arr[1, 1], arr[0, 1], arr[1, 0] = mk(spec['idl_a']), mk(spec['idl_a']), mk(spec['idl_b']), mk(spec['idl_b'])
        obj = arr
        members = list(arr.ravel())
    else:
        obj = [mk(spec['idl_a']), mk(spec['idl_b']), mk(spec['idl_a'])]
        members = list(obj)
    what = 'a %s whose members live on different configuration lists of equal length (%s)' % (spec['kind'], spec['how'])
    try:
        text = pj.create_json_string([obj])
    except Exception as e:
        return {'nt': True, 'cls': ['mixed:%s:%s:rejected:%s' % (spec['kind'], spec['how'], type(e).__name__)]}
    back = pj.import_json_string(text, verbose=False)
    if spec['kind'] == 'corr_matrix':
        require(isinstance(back, pe.Corr), what + ': came back as %s' % type(back).__name__)
        got = [x for m in back.content for x in np.asarray(m).ravel()]
    elif spec['kind'] == 'array':
        got = list(np.asarray(back).ravel())
    else:
        got = list(back)
    require(len(got) == len(members), what + ': %d members came back for %d' % (len(got), len(members)))
    for k, (o, r) in enumerate(zip(members, got)):
        want = [int(c) for c in o.idl[spec['name']]]
        have = [int(c) for c in r.idl[spec['name']]] if spec['name'] in r.idl else None
        require(have == want, what + ' was written without an exception, but member %d comes back on configurations %r..., it was measured on %r...'
                % (k, None if have is None else have[:5], want[:5]))
        require(np.allclose(np.asarray(r.deltas[spec['name']]), np.asarray(o.deltas[spec['name']]), rtol=1e-12, atol=1e-14) and abs(r.value - o.value) <= 1e-14 * max(1.0, abs(o.value)),
                what + ': member %d changed in the round trip' % k)
    return {'nt': True, 'cls': ['mixed:%s:%s:written_faithfully' % (spec['kind'], spec['how'])]}


SUBS = [
    Sub('json', json_case, json_oracle, {'quick': 300, 'thorough': 3000}, {'quick': 8, 'thorough': 16},
        doc='structures through string / file / Obs.dump / Corr.dump, schema validation'),
    Sub('dict', dict_case, dict_oracle, {'quick': 250, 'thorough': 2000}, {'quick': 3, 'thorough': 8},
        doc='nested dictionaries through dump_dict_to_json / load_json_dict, schema validation'),
    Sub('frame', frame_case, frame_oracle, {'quick': 150, 'thorough': 1500}, {'quick': 3, 'thorough': 8},
        doc='data frames through csv(.gz) and sqlite (gz on/off), schema validation of every cell'),
    Sub('pickle', pickle_case, pickle_oracle, {'quick': 250, 'thorough': 2000}, {'quick': 2, 'thorough': 4},
        doc='pickle transports, bit-identical'),
    Sub('mixed', mixed_case, mixed_oracle, {'quick': 150, 'thorough': 1500}, {'quick': 1, 'thorough': 4},
        doc='one structure (matrix Corr / array / list) whose members live on different configuration lists of equal length: '
            'refused, or every member comes back on its own configurations'),
]
