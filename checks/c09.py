"""C09  Roots and integrals of observable-dependent functions propagate errors exactly.

Sub-properties
  root    find_root(d, f, guess) for monotone families with closed-form inverse (powers, exp, log, tanh, cubic and
          their scaled / multi-parameter variants), d a scalar observable or a vector of observables living on
          related layouts (same / partly shared / different ensembles, replica subsets, different configuration
          sets, covariance inputs, pure covariance observables, the same observable in two slots):
          (a) the central value is the root: it agrees with the closed-form inverse within the solver's step
              tolerance (fsolve xtol = 1.49e-8 relative);
          (b) every fluctuation and covariance gradient equals RefObs.combine of the operands with the gradient
              -(df/dd_i)/(df/dx) from hand-written partial derivatives (1e-10);
          (c) the result equals the observable obtained by applying the explicit inverse directly (overloaded Obs
              arithmetic for scalar d, one derived_observable call for vector d), up to what the accepted inaccuracy of
              the root does to the gradient.
  quad    integrate.quad(f, p, a, b) with any non-empty subset of parameters and limits being observables
          (polynomials, exponentials, trigonometric, 1/x and Gaussian-type integrands; finite, reversed, coinciding
          and infinite limits; the same observable as parameter and limit): value = F(b) - F(a) from the analytic
          antiderivative, fluctuations = combine with (dF/dp_i(b) - dF/dp_i(a), -f(a), +f(b)).
  scipy   with plain numbers only the call returns scipy.integrate.quad's tuple (all pass-through keyword
          arguments, oscillatory integrands that need subdivision, infinite limits).
"""
import math

import numpy as np
from hypothesis import strategies as st

from vlib import findings, gen
from vlib.build import build_obs
from vlib.core import Skip, Sub, Violation, require
from vlib.refobs import RefObs, cmp_obs, combine

PROPERTY = 'C09'
LEVEL = 'exploration'
RULE = ('Hypothesis-generated calls of find_root and integrate.quad. Observable arguments live on subsets of one base '
        'layout (1-2 ensembles x 1-2 replicas, identical / nested / overlapping / disjoint configuration sets, missing '
        'replicas, optional shared covariance inputs) or are pure covariance observables; their central values are '
        'moved into the domain of the function family by adding a constant. Roots: 10 monotone families, d passed as '
        'Obs / list / tuple / array, guesses inside the monotone domain. Integrals: 15 integrand families (3 of them '
        'parameter-free) with closed-form antiderivative, every subset of (parameters, lower limit, upper limit) observable. A case is '
        'non-trivial if d is a vector (roots) or if at least two observable arguments live on different sets of '
        'ensembles or an observable limit occurs together with an observable parameter (integrals); the scipy '
        'sub-property counts cases that pass a keyword argument or an infinite limit; distinct = distinct spec hash.')
ASSUMPTIONS = ['RefObs.combine is the statement of C01 (vlib/refobs.py); operands enter through RefObs.from_pe',
               'analytic partial derivatives, inverses and antiderivatives are self-checked by finite differences at import',
               'root value: |x - x*| <= 1e-7|x*| + 1e-10 (1e-3|x*| for the family with roots of size 1e-8) (fsolve stops at a relative step of 1.49e-8); fluctuations of the '
               'root 1e-10 with partials taken at the returned root; explicit inverse: 1e-9 + the change of the gradient under a '
               'shift of the root by the accepted inaccuracy',
               'integral: value and each gradient entry within 10 x the error estimate QUADPACK reports for that integrand '
               '(recomputed here with scipy on the analytic derivative) + 1e-11 x integral of the absolute integrand + '
               '1e-14 x magnitude of the terms of the antiderivative (rounding of the reference); on infinite ranges '
               'additionally 10 x the requested accuracy max(epsabs, epsrel |I|), because QUADPACK underestimates its error there',
               'root cases where fsolve itself reports non-convergence are skipped',
               'replica means of roots and integrals are not compared (not stated by the property)']


def _anp():
    import autograd.numpy as anp
    return anp


# =================================================================================================
# root families
#
# n     number of components of d
# kind  'pos' (root > 0, guess = root * factor) or 'real' (guess = root + offset)
# dom   per component a list of closed intervals for the central value
# pe    f(anp, x, D, k) as handed to find_root (D(i) = i-th component of d)
# f, fx, fd, root   plain-number versions: function, df/dx, [df/dd_i], closed-form inverse
# inv   the explicit inverse as a function of (m, d, k): m = numpy when applied to observables with overloaded arithmetic,
#       m = autograd.numpy inside one derived_observable call

POW_K = [2, 3, 0.5, 1.5, -1, -2, 2.0, 4, -0.5]


def _cardano(p, q):
    """real root of x^3 + p x + q = 0 for p > 0"""
    if q > 0:
        return -_cardano(p, -q)
    u = (-q / 2 + math.sqrt(q * q / 4 + p ** 3 / 27)) ** (1.0 / 3)
    return u - p / (3 * u)


ROOT = {
    'pow': dict(n=1, kind='pos', dom=[[(0.2, 5.0)]],
                pe=lambda anp, x, D, k: x ** k - D(0),
                f=lambda x, v, k: x ** k - v[0], fx=lambda x, v, k: k * x ** (k - 1), fd=lambda x, v, k: [-1.0],
                root=lambda v, k: v[0] ** (1.0 / k),
                inv=lambda m, d, k: d[0] ** (1.0 / k)),
    'exp': dict(n=1, kind='real', dom=[[(0.1, 8.0)]],
                pe=lambda anp, x, D, k: anp.exp(x) - D(0),
                f=lambda x, v, k: np.exp(x) - v[0], fx=lambda x, v, k: np.exp(x), fd=lambda x, v, k: [-1.0],
                root=lambda v, k: math.log(v[0]),
                inv=lambda m, d, k: m.log(d[0])),
    'log': dict(n=1, kind='pos', dom=[[(-2.0, 2.0)]],
                pe=lambda anp, x, D, k: anp.log(x) - D(0),
                f=lambda x, v, k: np.log(x) - v[0], fx=lambda x, v, k: 1.0 / x, fd=lambda x, v, k: [-1.0],
                root=lambda v, k: math.exp(v[0]),
                inv=lambda m, d, k: m.exp(d[0])),
    'tanh': dict(n=1, kind='real', dom=[[(-0.9, 0.9)]],
                 pe=lambda anp, x, D, k: anp.tanh(x) - D(0),
                 f=lambda x, v, k: np.tanh(x) - v[0], fx=lambda x, v, k: 1.0 / np.cosh(x) ** 2, fd=lambda x, v, k: [-1.0],
                 root=lambda v, k: math.atanh(v[0]),
                 inv=lambda m, d, k: m.arctanh(d[0])),
    # roots of very small magnitude (1e-8): a solver that stops on an absolute step is off there; the operand is built in
    # units of `scale` (domain below is d / scale) so that its central value keeps its relative precision
    'cubetiny': dict(n=1, kind='pos', dom=[[(0.2e-24, 5.0e-24)]], scale=1e-24,
                     pe=lambda anp, x, D, k: x ** 3 - D(0),
                     f=lambda x, v, k: x ** 3 - v[0], fx=lambda x, v, k: 3 * x * x, fd=lambda x, v, k: [-1.0],
                     root=lambda v, k: v[0] ** (1.0 / 3.0),
                     inv=lambda m, d, k: d[0] ** (1.0 / 3.0)),
    'cubic': dict(n=1, kind='real', dom=[[(-5.0, 5.0)]],
                  pe=lambda anp, x, D, k: x ** 3 + x - D(0),
                  f=lambda x, v, k: x ** 3 + x - v[0], fx=lambda x, v, k: 3 * x * x + 1.0, fd=lambda x, v, k: [-1.0],
                  root=lambda v, k: _cardano(1.0, -v[0]),
                  inv=lambda m, d, k: _inv_cubic(m, 1.0, d[0])),
    'gcubic': dict(n=3, kind='real', dom=[[(0.3, 3.0)], [(0.3, 3.0)], [(-4.0, 4.0)]], alias=[(0, 1)],
                   pe=lambda anp, x, D, k: D(0) * x ** 3 + D(1) * x - D(2),
                   f=lambda x, v, k: v[0] * x ** 3 + v[1] * x - v[2], fx=lambda x, v, k: 3 * v[0] * x * x + v[1],
                   fd=lambda x, v, k: [x ** 3, x, -1.0],
                   root=lambda v, k: _cardano(v[1] / v[0], -v[2] / v[0]),
                   inv=lambda m, d, k: _inv_cubic(m, d[1] / d[0], d[2] / d[0])),
    'linear2': dict(n=2, kind='real', dom=[[(-3.0, 3.0)], [(-3.0, -0.3), (0.3, 3.0)]],
                    pe=lambda anp, x, D, k: D(0) + D(1) * x,
                    f=lambda x, v, k: v[0] + v[1] * x, fx=lambda x, v, k: v[1], fd=lambda x, v, k: [1.0, x],
                    root=lambda v, k: -v[0] / v[1],
                    inv=lambda m, d, k: -d[0] / d[1]),
    'lin4': dict(n=4, kind='real', dom=[[(-2.0, 2.0)], [(-3.0, 3.0)], [(-3.0, 3.0)], [(-3.0, 3.0)]],
                 pe=lambda anp, x, D, k: x * (1.0 + D(0) ** 2) - (D(1) + 2.0 * D(2) - D(3)),
                 f=lambda x, v, k: x * (1.0 + v[0] ** 2) - (v[1] + 2.0 * v[2] - v[3]), fx=lambda x, v, k: 1.0 + v[0] ** 2,
                 fd=lambda x, v, k: [2.0 * v[0] * x, -1.0, -2.0, 1.0],
                 root=lambda v, k: (v[1] + 2.0 * v[2] - v[3]) / (1.0 + v[0] ** 2),
                 inv=lambda m, d, k: (d[1] + 2.0 * d[2] - d[3]) / (1.0 + d[0] ** 2)),
    'powscale': dict(n=2, kind='pos', dom=[[(0.3, 3.0)], [(0.2, 5.0)]], alias=[(0, 1)],
                     pe=lambda anp, x, D, k: D(0) * x ** k - D(1),
                     f=lambda x, v, k: v[0] * x ** k - v[1], fx=lambda x, v, k: v[0] * k * x ** (k - 1),
                     fd=lambda x, v, k: [x ** k, -1.0],
                     root=lambda v, k: (v[1] / v[0]) ** (1.0 / k),
                     inv=lambda m, d, k: (d[1] / d[0]) ** (1.0 / k)),
    'expscale': dict(n=3, kind='real', dom=[[(0.3, 3.0)], [(-2.0, -0.3), (0.3, 2.0)], [(0.2, 5.0)]], alias=[(0, 2)],
                     pe=lambda anp, x, D, k: D(0) * anp.exp(D(1) * x) - D(2),
                     f=lambda x, v, k: v[0] * np.exp(v[1] * x) - v[2], fx=lambda x, v, k: v[0] * v[1] * np.exp(v[1] * x),
                     fd=lambda x, v, k: [np.exp(v[1] * x), v[0] * x * np.exp(v[1] * x), -1.0],
                     root=lambda v, k: math.log(v[2] / v[0]) / v[1],
                     inv=lambda m, d, k: m.log(d[2] / d[0]) / d[1]),
    'tanh2': dict(n=2, kind='real', dom=[[(0.3, 2.0)], [(-0.9, 0.9)]], alias=[(0, 1)],
                  pe=lambda anp, x, D, k: anp.tanh(D(0) * x) - D(1),
                  f=lambda x, v, k: np.tanh(v[0] * x) - v[1], fx=lambda x, v, k: v[0] / np.cosh(v[0] * x) ** 2,
                  fd=lambda x, v, k: [x / np.cosh(v[0] * x) ** 2, -1.0],
                  root=lambda v, k: math.atanh(v[1]) / v[0],
                  inv=lambda m, d, k: m.arctanh(d[1]) / d[0]),
}


def _inv_cubic(m, P, Q):
    """root of x^3 + P x - Q = 0 (P > 0) through overloaded arithmetic: Cardano with u > 0"""
    u = (Q / 2 + m.sqrt(Q * Q / 4 + P * P * P / 27)) ** (1.0 / 3)
    return u - P / (3 * u)


EPS = float(np.finfo(np.float64).eps)


def in_dom(v, dom):
    return any(lo <= v <= hi for lo, hi in dom)


def in_doms(v, doms):
    return all(in_dom(v, d) for d in doms)


def arg_doms(doms, idx, alias):
    """per built operand the domains of all argument slots it fills (two slots if it is used twice)"""
    return [[doms[i]] + ([doms[alias[1]]] if alias and i == alias[0] else []) for i in idx]


def polish(fam, x, v, k):
    for _ in range(3):
        x = x - float(fam['f'](x, v, k)) / float(fam['fx'](x, v, k))
    return float(x)


def _selfcheck_roots():
    rs = np.random.RandomState(7)
    h = 1e-6
    for name, fam in ROOT.items():
        if fam.get('scale'):
            continue      # (finite differences with h = 1e-6 make no sense there; the formulas are those of 'pow' with k = 3)
        for k in (POW_K if 'pow' in name else [None]):
            for _ in range(6):
                v = []
                for dom in fam['dom']:
                    lo, hi = dom[rs.randint(len(dom))]
                    v.append(float(rs.uniform(lo, hi)))
                x = fam['root'](v, k)
                sc = 1.0 + sum(abs(t) for t in v)
                assert abs(fam['f'](x, v, k)) <= 1e-9 * sc, (name, k, v, x, fam['f'](x, v, k))
                assert (x > 0) or fam['kind'] == 'real', (name, k, v, x)
                num = (fam['f'](x + h, v, k) - fam['f'](x - h, v, k)) / (2 * h)
                assert abs(num - fam['fx'](x, v, k)) <= 1e-6 * max(1.0, abs(num)), (name, k, 'fx')
                for i in range(fam['n']):
                    vp = list(v)
                    vm = list(v)
                    vp[i] += h
                    vm[i] -= h
                    num = (fam['f'](x, vp, k) - fam['f'](x, vm, k)) / (2 * h)
                    assert abs(num - fam['fd'](x, v, k)[i]) <= 1e-6 * max(1.0, abs(num)), (name, k, 'fd', i)
                # the overloaded inverse, evaluated on plain numbers, is the same function
                assert abs(float(fam['inv'](np, v, k)) - x) <= 1e-7 * max(1.0, abs(x)), (name, k, 'inv')


_selfcheck_roots()


# -------------------------------------------------------------------------------------------------
# operands shared by roots and integrals

# central value of d for a preceding call with the same function object (root far from every root of the family's domain,
# still reached by fsolve from the default start 1.0)
DECOY = {'exp': 1e-9, 'log': 20.0}


def chance(k):
    """True with probability 1/k (st.integers would favour the boundary values)"""
    return st.sampled_from([True] + [False] * (k - 1))


def dom_value(dom):
    parts = [gen.fl(lo, hi) for lo, hi in dom]
    corners = [c for c in (0.0, 1.0, -1.0, 2.0, 0.5, -EPS) if in_dom(c, dom)]
    if corners:
        parts.append(st.sampled_from(corners))
    return st.one_of(*parts)


@st.composite
def operand_specs(draw, targets, tier):
    """One obs spec per target central value: subsets of a common base layout; now and then a pure covariance observable."""
    n = len(targets)
    lmax = 30 if tier == 'quick' else 120
    ops = draw(gen.related_obs_specs(n, ens_max=2, rep_max=2, lmin=8, lmax=lmax, sigma=gen.fl(0.001, 0.3),
                                     mean=[st.just(float(t)) for t in targets]))
    for i in range(n):
        if draw(chance(12)):
            d = draw(st.integers(1, 2))
            B = [[draw(gen.fl(-1, 1)) for _ in range(d)] for _ in range(d)]
            cov = [[sum(B[r][k] * B[c][k] for k in range(d)) + (0.1 if r == c else 0.0) for c in range(d)] for r in range(d)]
            grad = [draw(st.one_of(gen.fl(0.2, 2), gen.fl(-2, -0.2))) for _ in range(d)]
            ops[i] = {'chains': [], 'cov': [{'name': 'cD%d' % i, 'cov': cov, 'means': [float(targets[i])] + [0.5] * (d - 1), 'grad': grad}]}
    return ops


def make_operands(specs, targets, raw, doms):
    """Build the observables; the central value is the raw one if that lies in the family's domain and the case
    asks for it, otherwise it is moved to the target by adding a constant.  doms: per operand a list of domains."""
    out, labs = [], set()
    for sp, t, r, dom in zip(specs, targets, raw, doms):
        o = build_obs(sp)
        v = float(o.value)
        if r and in_doms(v, dom):
            labs.add('operand:raw')
        else:
            o = o + float(float(t) - v)
            labs.add('operand:shifted')
            if not in_doms(float(o.value), dom):   # rounding at the edge of an interval
                raise Skip('central value outside the domain after the shift')
        if not sp['chains']:
            labs.add('operand:covariance_only')
        elif sp['cov']:
            labs.add('operand:with_cov')
        if float(o.value) == 0.0:
            labs.add('operand:value_zero')
        out.append(o)
    return out, labs


def ens_sets(specs):
    return [frozenset([c['name'].split('|')[0] for c in sp['chains']] + ['cov:' + c['name'] for c in sp['cov']]) for sp in specs]


# -------------------------------------------------------------------------------------------------
# root: strategy and oracle

@st.composite
def root_case(draw, tier):
    name = draw(st.sampled_from(sorted(ROOT) + ['gcubic', 'linear2', 'powscale', 'expscale', 'tanh2', 'lin4']))
    forced_default = draw(chance(12))
    if forced_default:
        name = draw(st.sampled_from(sorted(DECOY)))      # default start value, preceded by a call with the same function object
    fam = ROOT[name]
    n = fam['n']
    k = draw(st.sampled_from(POW_K)) if 'pow' in name else None
    sc = fam.get('scale')
    targets = [draw(dom_value([(lo / sc, hi / sc) for lo, hi in dom] if sc else dom)) for dom in fam['dom']]
    if forced_default:
        targets = [draw(gen.fl(1.6, 4.5)) if name == 'exp' else draw(gen.fl(-0.5, 0.5))]      # root within reach of the default start 1.0
    excluded = []
    if targets[0] == -EPS and findings.is_open('F-C09-2'):
        targets[0] = 0.0      # known finding: central value of d[0] exactly -eps gives a NaN root
        excluded.append('F-C09-2')
    alias = None
    if fam.get('alias') and draw(chance(5)):
        s, d = draw(st.sampled_from(fam['alias']))
        if in_dom(targets[s], fam['dom'][d]):
            alias = [s, d]
    idx = [i for i in range(n) if not (alias and i == alias[1])]
    ops = draw(operand_specs([targets[i] for i in idx], tier))
    if sc:
        targets = [t * sc for t in targets]
        for o in ops:
            for c in o['chains']:
                c['data'] = dict(c['data'], scale=sc)
            for cv in o['cov']:
                cv['means'] = [m * sc for m in cv['means']]
                cv['cov'] = [[v * sc * sc for v in row] for row in cv['cov']]
    if n == 1:
        dform = draw(st.sampled_from(['scalar', 'scalar', 'list', 'array', 'tuple']))
    else:
        dform = draw(st.sampled_from(['list', 'list', 'array', 'tuple'] + (['array2d', 'array2d_F'] if n == 4 else [])))
    if fam['kind'] == 'pos':
        g = {'fac': draw(gen.fl(0.6, 1.7))}
    else:
        g = {'off': draw(gen.fl(-0.5, 0.5))}
    g['mode'] = draw(st.sampled_from(['float', 'float', 'int', 'default', 'exact']))
    g['decoy'] = draw(st.booleans())
    if forced_default:
        g['mode'], g['decoy'] = 'default', True
    return {'fam': name, 'k': k, 'targets': targets, 'alias': alias, 'ops': ops,
            'raw': [draw(st.booleans()) for _ in idx], 'dform': dform, 'guess': g, 'excluded': excluded}


def root_oracle(spec):
    import pyerrors as pe
    import scipy.optimize
    anp = _anp()
    name = spec['fam']
    fam = ROOT[name]
    n, k = fam['n'], spec['k']
    alias = spec.get('alias')
    idx = [i for i in range(n) if not (alias and i == alias[1])]
    obs, labs = make_operands(spec['ops'], [spec['targets'][i] for i in idx], spec['raw'], arg_doms(fam['dom'], idx, alias))
    ds = [None] * n
    for i, o in zip(idx, obs):
        ds[i] = o
    if alias:
        ds[alias[1]] = ds[alias[0]]
        labs.add('alias')
    vals = [float(o.value) for o in ds]
    for i in range(n):
        if not in_dom(vals[i], fam['dom'][i]):
            raise Skip('central value outside the domain')
    xs = polish(fam, fam['root'](vals, k), vals, k)

    # the guess: inside the monotone domain, near the root
    g = spec['guess']
    guess = xs * g['fac'] if fam['kind'] == 'pos' else xs + g['off']
    mode = g['mode']
    near = (lambda t: 0.55 * xs <= t <= 1.9 * xs) if fam['kind'] == 'pos' else (lambda t: abs(t - xs) <= 0.6)
    if mode == 'int':
        # (an integer start value with a negative integer power is rejected by numpy inside scipy: outside 'guess : float')
        if near(round(guess)) and not (isinstance(k, int) and k < 0):
            guess = int(round(guess))
        else:
            mode = 'float'
    elif mode == 'default':
        if near(1.0):
            guess = None
        else:
            mode = 'float'
    elif mode == 'exact':
        guess = xs
    labs.add('guess:' + mode)

    # would the solver converge at all?  (non-convergence is outside the property)
    def plain(x, v):
        return fam['f'](x[0], v, k)
    try:
        sol, info, ier, msg = scipy.optimize.fsolve(plain, 1.0 if guess is None else guess, args=(vals,), full_output=True)
    except Exception:
        raise Skip('reference fsolve failed')
    if ier != 1 or not np.isfinite(sol[0]):
        raise Skip('fsolve does not converge from this guess')

    scalar = spec['dform'] == 'scalar'

    two_d = spec['dform'] in ('array2d', 'array2d_F')

    def func(x, d):
        if two_d:      # d handed over as a 2 x 2 array (the reader flattens it row by row)
            return fam['pe'](anp, x, lambda i: d[i // 2, i % 2], k)
        return fam['pe'](anp, x, (lambda i: d) if scalar else (lambda i: d[i]), k)
    if scalar:
        darg = ds[0]
    elif spec['dform'] == 'list':
        darg = list(ds)
    elif spec['dform'] == 'tuple':
        darg = tuple(ds)
    elif two_d:
        darg = np.empty((2, 2), dtype=object)
        for i in range(4):
            darg[i // 2, i % 2] = ds[i]
        if spec['dform'] == 'array2d_F':       # same logical matrix held in Fortran order (a transposed view)
            tmp = np.empty((2, 2), dtype=object)
            for i in range(4):
                tmp[i % 2, i // 2] = ds[i]
            darg = tmp.T
    else:
        darg = np.array(ds)
    if guess is None:
        if g.get('decoy') and name in DECOY and n == 1:
            # state between calls: the same function object was used just before for a d whose root lies far away
            # (the documented default start is 1.0 in every call)
            dec = ds[0] - float(ds[0].value) + DECOY[name]
            try:
                pe.find_root(dec if scalar else (np.array([dec]) if spec['dform'] == 'array' else [dec]), func)
                labs.add('decoy_call_before')
            except Exception:
                labs.add('decoy_call_failed')
        res = pe.find_root(darg, func)
    else:
        res = pe.roots.find_root(darg, func, guess)
    require(isinstance(res, pe.Obs), 'find_root did not return an Obs', type(res).__name__)
    xr = float(res.value)
    what = 'find_root[%s%s]' % (name, '' if k is None else ', k=%r' % k)

    # (a) central value
    floor = 1e-3 * abs(xs) if fam.get('scale') else 1e-10      # (absolute floor: roots at or near zero of the O(1) families)
    if not (abs(xr - xs) <= 1e-7 * abs(xs) + floor):
        if name in ('pow', 'powscale') and float(k) == int(k) and int(k) % 2 == 0 and abs(xr + xs) <= 1e-7 * abs(xs):
            raise Skip('solver went to the other branch of an even power')
        raise Violation('%s: central value %r is not the root %r of f(x, d) = 0 (f there = %r; d = %r)'
                        % (what, xr, xs, float(fam['f'](xr, vals, k)), vals))
    if abs(xr - xs) > 1e-10 * abs(xs) + 1e-13:
        labs.add('root_accuracy:>1e-10')

    # (b) fluctuations: -(df/dd_i)/(df/dx) at the returned root times the fluctuations of d_i
    fx = float(fam['fx'](xr, vals, k))
    grad = [-float(t) / fx for t in fam['fd'](xr, vals, k)]
    refs = [RefObs.from_pe(o) for o in ds]
    rf = combine(lambda v: xr, grad, refs, value=xr)
    cmp_obs(rf, res, what + ' vs -(df/dd)/(df/dx) * fluctuations of d', rtol=1e-10, check_rv=False)

    # (c) the explicit inverse applied directly: overloaded arithmetic for a single observable; one derived_observable
    # call for a vector d (a chain of binary operations is a different statement when replicas are missing, see C01)
    if n == 1:
        inv = fam['inv'](np, ds, k)
    else:
        inv = pe.derived_observable(lambda x, **kw: fam['inv'](anp, x, k), ds)
    require(isinstance(inv, pe.Obs), 'oracle problem: inverse is not an Obs')
    require(abs(float(inv.value) - xr) <= 1e-7 * abs(xs) + floor, what + ': central value differs from the explicit inverse',
            xr, float(inv.value))
    # the library knows the root only to the solver's tolerance: allow what a shift of the root by that much does to the gradient
    dx = 1e-7 * abs(xs) + floor
    gp = [-float(t) / float(fam['fx'](xs + dx, vals, k)) for t in fam['fd'](xs + dx, vals, k)]
    gm = [-float(t) / float(fam['fx'](xs - dx, vals, k)) for t in fam['fd'](xs - dx, vals, k)]
    # ... and rounding in the differentiated closed form (terms of the size of the largest gradient entry cancel)
    err = [abs(u - w) + 1e-9 * abs(g0) + 1e-12 * max(abs(t) for t in grad) for u, w, g0 in zip(gp, gm, grad)]
    rerr = combine(lambda v: xr, err, refs, value=xr)
    ri = RefObs.from_pe(inv)
    ri.value = xr
    atol = 1e-12
    ri.mag = {c: rf.mag[c] + rerr.mag[c] / atol for c in rf.mag}          # scale of the summed terms (they may cancel)
    ri.cgmag = {c: rf.cgmag[c] + rerr.cgmag[c] / atol for c in rf.cgmag}
    cmp_obs(ri, res, what + ' vs explicit inverse applied to d', rtol=1e-9, atol_scale=atol, check_rv=False)

    labs.update('excluded:' + x for x in spec.get('excluded', []))
    labs.update(['fam:' + name, 'dform:' + spec['dform'], 'n_d:%d' % n])
    if k is not None:
        labs.add('k:%r' % k)
    if len(spec['ops']) > 1:
        labs.update('rel:' + x for x in gen.relation_labels(spec['ops']))
        if len(set(ens_sets(spec['ops']))) > 1:
            labs.add('different_ensembles')
    return {'nt': n >= 2, 'cls': sorted(labs)}


# =================================================================================================
# integrand families:  np parameters, pdom / ldom domains, pe(anp, p, x), and with plain numbers
# f(p, x), F(p, x) antiderivative, df(p, x) = [df/dp_i], G(p, x) = [dF/dp_i]; inf: admissible sets of infinite limits

def _poly(n):
    return dict(np=n, pdom=[[(-3.0, 3.0)]] * n, ldom=[(-3.0, 3.0)],
                pe=lambda anp, p, x: sum(p[k] * x ** k for k in range(n)),
                f=lambda p, x: sum(p[k] * x ** k for k in range(n)),
                F=lambda p, x: sum(p[k] * x ** (k + 1) / (k + 1) for k in range(n)),
                df=lambda p, x: [x ** k for k in range(n)],
                G=lambda p, x: [x ** (k + 1) / (k + 1) for k in range(n)],
                Bf=lambda p, x: sum(abs(p[k] * x ** k) for k in range(n)),
                BF=lambda p, x: sum(abs(p[k] * x ** (k + 1) / (k + 1)) for k in range(n)),
                BG=lambda p, x: [abs(x ** (k + 1) / (k + 1)) for k in range(n)])


def _expdec(inf):
    return dict(np=2, pdom=[[(-3.0, 3.0)], [(0.3, 2.0)] if inf else [(-2.0, -0.2), (0.2, 2.0)]], ldom=[(-3.0, 3.0)],
                inf=[['b']] if inf else None,
                pe=lambda anp, p, x: p[0] * anp.exp(-p[1] * x),
                f=lambda p, x: p[0] * np.exp(-p[1] * x),
                F=lambda p, x: -p[0] / p[1] * np.exp(-p[1] * x),
                df=lambda p, x: [np.exp(-p[1] * x), -x * p[0] * np.exp(-p[1] * x)],
                G=lambda p, x: [-np.exp(-p[1] * x) / p[1], p[0] * (x / p[1] + 1 / p[1] ** 2) * np.exp(-p[1] * x)],
                Bf=lambda p, x: abs(p[0] * np.exp(-p[1] * x)),
                BF=lambda p, x: abs(p[0] / p[1] * np.exp(-p[1] * x)),
                BG=lambda p, x: [abs(np.exp(-p[1] * x) / p[1]), abs(p[0]) * (abs(x / p[1]) + 1 / p[1] ** 2) * np.exp(-p[1] * x)])


def _gauss(inf):
    return dict(np=2, pdom=[[(-3.0, 3.0)], [(0.2, 2.0)]], ldom=[(-3.0, 3.0)],
                inf=[['b'], ['a'], ['a', 'b']] if inf else None,
                pe=lambda anp, p, x: p[0] * x * anp.exp(-p[1] * x ** 2),
                f=lambda p, x: p[0] * x * np.exp(-p[1] * x ** 2),
                F=lambda p, x: -p[0] / (2 * p[1]) * np.exp(-p[1] * x ** 2),
                df=lambda p, x: [x * np.exp(-p[1] * x ** 2), -p[0] * x ** 3 * np.exp(-p[1] * x ** 2)],
                G=lambda p, x: [-np.exp(-p[1] * x ** 2) / (2 * p[1]),
                                p[0] * np.exp(-p[1] * x ** 2) * (1 / (2 * p[1] ** 2) + x ** 2 / (2 * p[1]))],
                Bf=lambda p, x: abs(p[0] * x * np.exp(-p[1] * x ** 2)),
                BF=lambda p, x: abs(p[0] / (2 * p[1]) * np.exp(-p[1] * x ** 2)),
                BG=lambda p, x: [abs(np.exp(-p[1] * x ** 2) / (2 * p[1])),
                                 abs(p[0]) * np.exp(-p[1] * x ** 2) * (1 / (2 * p[1] ** 2) + x ** 2 / (2 * abs(p[1])))])


def _nopar(pe, f, F, Bf, BF):
    return dict(np=0, pdom=[], ldom=[(-3.0, 3.0)], pe=pe, f=f, F=F, df=lambda p, x: [], G=lambda p, x: [],
                Bf=Bf, BF=BF, BG=lambda p, x: [])


# Bf / BF / BG: magnitude of the terms summed in f / F / G with |sin|, |cos| replaced by 1.  They scale the rounding
# allowance of the analytic reference itself (terms cancel on tiny intervals and near zeros of the trigonometric factors).
QUAD = {
    'poly1': _poly(1), 'poly2': _poly(2), 'poly3': _poly(3), 'poly4': _poly(4),
    'expdec': _expdec(False), 'expdec_inf': _expdec(True),
    'gauss': _gauss(False), 'gauss_inf': _gauss(True),
    'sinoff': dict(np=3, pdom=[[(-3.0, 3.0)], [(-3.0, -0.2), (0.2, 3.0)], [(-3.0, 3.0)]], ldom=[(-3.0, 3.0)],
                   pe=lambda anp, p, x: p[0] * anp.sin(p[1] * x) + p[2],
                   f=lambda p, x: p[0] * np.sin(p[1] * x) + p[2],
                   F=lambda p, x: -p[0] / p[1] * np.cos(p[1] * x) + p[2] * x,
                   df=lambda p, x: [np.sin(p[1] * x), p[0] * x * np.cos(p[1] * x), 1.0],
                   G=lambda p, x: [-np.cos(p[1] * x) / p[1],
                                   p[0] * (x * np.sin(p[1] * x) / p[1] + np.cos(p[1] * x) / p[1] ** 2), x],
                   Bf=lambda p, x: abs(p[0]) + abs(p[2]),
                   BF=lambda p, x: abs(p[0] / p[1]) + abs(p[2] * x),
                   BG=lambda p, x: [abs(1 / p[1]), abs(p[0]) * (abs(x / p[1]) + 1 / p[1] ** 2), abs(x)]),
    'cosmix': dict(np=3, pdom=[[(-3.0, 3.0)], [(-3.0, -0.2), (0.2, 3.0)], [(-3.0, 3.0)]], ldom=[(-3.0, 3.0)],
                   pe=lambda anp, p, x: p[0] * anp.cos(p[1] * x + p[2]),
                   f=lambda p, x: p[0] * np.cos(p[1] * x + p[2]),
                   F=lambda p, x: p[0] / p[1] * np.sin(p[1] * x + p[2]),
                   df=lambda p, x: [np.cos(p[1] * x + p[2]), -p[0] * x * np.sin(p[1] * x + p[2]), -p[0] * np.sin(p[1] * x + p[2])],
                   G=lambda p, x: [np.sin(p[1] * x + p[2]) / p[1],
                                   -p[0] / p[1] ** 2 * np.sin(p[1] * x + p[2]) + p[0] * x / p[1] * np.cos(p[1] * x + p[2]),
                                   p[0] / p[1] * np.cos(p[1] * x + p[2])],
                   Bf=lambda p, x: abs(p[0]),
                   BF=lambda p, x: abs(p[0] / p[1]),
                   BG=lambda p, x: [abs(1 / p[1]), abs(p[0]) * (1 / p[1] ** 2 + abs(x / p[1])), abs(p[0] / p[1])]),
    # two parameters whose derivative integrals differ by ten orders of magnitude, the small one sharply peaked at 0: each
    # derivative integral has to be resolved on its own scale
    'twoscale': dict(np=2, pdom=[[(0.5, 3.0)], [(0.5, 3.0)]], ldom=[(0.0, 1.5)], selfcheck_scale=1e7,
                     pe=lambda anp, p, x: p[0] * 1e7 * x + p[1] * anp.exp(-2000.0 * x),
                     f=lambda p, x: p[0] * 1e7 * x + p[1] * np.exp(-2000.0 * x),
                     F=lambda p, x: p[0] * 1e7 * x ** 2 / 2 - p[1] * np.exp(-2000.0 * x) / 2000.0,
                     df=lambda p, x: [1e7 * x, np.exp(-2000.0 * x)],
                     G=lambda p, x: [1e7 * x ** 2 / 2, -np.exp(-2000.0 * x) / 2000.0],
                     Bf=lambda p, x: abs(p[0] * 1e7 * x) + abs(p[1] * np.exp(-2000.0 * x)),
                     BF=lambda p, x: abs(p[0] * 1e7 * x ** 2 / 2) + abs(p[1] * np.exp(-2000.0 * x) / 2000.0),
                     BG=lambda p, x: [abs(1e7 * x ** 2 / 2), abs(np.exp(-2000.0 * x) / 2000.0)]),
    'laurent': dict(np=3, pdom=[[(-3.0, 3.0)]] * 3, ldom=[(0.2, 3.0)],          # the integrand of the repository's own test
                    pe=lambda anp, p, x: p[0] * x + p[1] * x ** 2 - p[2] / x,
                    f=lambda p, x: p[0] * x + p[1] * x ** 2 - p[2] / x,
                    F=lambda p, x: p[0] * x ** 2 / 2 + p[1] * x ** 3 / 3 - p[2] * np.log(x),
                    df=lambda p, x: [x, x ** 2, -1.0 / x],
                    G=lambda p, x: [x ** 2 / 2, x ** 3 / 3, -np.log(x)],
                    Bf=lambda p, x: abs(p[0] * x) + abs(p[1] * x ** 2) + abs(p[2] / x),
                    BF=lambda p, x: abs(p[0] * x ** 2 / 2) + abs(p[1] * x ** 3 / 3) + abs(p[2]) * (abs(np.log(x)) + 1e-2),
                    BG=lambda p, x: [x ** 2 / 2, abs(x ** 3 / 3), abs(np.log(x)) + 1e-2]),
    'sinhdoc': dict(np=3, pdom=[[(-3.0, 3.0)]] * 3, ldom=[(-3.0, 3.0)],         # the integrand of the docstring
                    pe=lambda anp, p, x: p[0] + p[1] * x + p[2] * anp.sinh(x),
                    f=lambda p, x: p[0] + p[1] * x + p[2] * np.sinh(x),
                    F=lambda p, x: p[0] * x + p[1] * x ** 2 / 2 + p[2] * np.cosh(x),
                    df=lambda p, x: [1.0, x, np.sinh(x)],
                    G=lambda p, x: [x, x ** 2 / 2, np.cosh(x)],
                    Bf=lambda p, x: abs(p[0]) + abs(p[1] * x) + abs(p[2] * np.sinh(x)),
                    BF=lambda p, x: abs(p[0] * x) + abs(p[1] * x ** 2 / 2) + abs(p[2] * np.cosh(x)),
                    BG=lambda p, x: [abs(x), x ** 2 / 2, np.cosh(x)]),
    # parameter-free integrands (only the limits can be observables)
    'nopar_sq': _nopar(lambda anp, p, x: x ** 2, lambda p, x: x ** 2, lambda p, x: x ** 3 / 3,
                       lambda p, x: x ** 2, lambda p, x: abs(x ** 3 / 3)),
    'nopar_exp': _nopar(lambda anp, p, x: anp.exp(-x), lambda p, x: np.exp(-x), lambda p, x: -np.exp(-x),
                        lambda p, x: np.exp(-x), lambda p, x: np.exp(-x)),
    'nopar_sin': _nopar(lambda anp, p, x: anp.sin(2 * x), lambda p, x: np.sin(2 * x), lambda p, x: -np.cos(2 * x) / 2,
                        lambda p, x: 1.0, lambda p, x: 0.5),
}
NOPAR = [k for k in QUAD if k.startswith('nopar')]


def _selfcheck_quad():
    rs = np.random.RandomState(11)
    h = 1e-5
    for name, fam in QUAD.items():
        for _ in range(5):
            p = []
            for dom in fam['pdom']:
                lo, hi = dom[rs.randint(len(dom))]
                p.append(float(rs.uniform(lo, hi)))
            lo, hi = fam['ldom'][0]
            x = float(rs.uniform(lo, hi))
            sc = 10.0 * fam.get('selfcheck_scale', 1.0)
            assert abs((fam['F'](p, x + h) - fam['F'](p, x - h)) / (2 * h) - fam['f'](p, x)) <= 1e-7 * sc, (name, 'F')
            for i in range(fam['np']):
                pp, pm = list(p), list(p)
                pp[i] += h
                pm[i] -= h
                assert abs((fam['F'](pp, x) - fam['F'](pm, x)) / (2 * h) - fam['G'](p, x)[i]) <= 1e-7 * sc, (name, 'G', i)
                assert abs((fam['f'](pp, x) - fam['f'](pm, x)) / (2 * h) - fam['df'](p, x)[i]) <= 1e-7 * sc, (name, 'df', i)
                assert abs((fam['G'](p, x + h)[i] - fam['G'](p, x - h)[i]) / (2 * h) - fam['df'](p, x)[i]) <= 1e-7 * sc, (name, 'dG', i)
                assert abs(fam['G'](p, x)[i]) <= fam['BG'](p, x)[i] * (1 + 1e-12), (name, 'BG', i)
            assert abs(fam['f'](p, x)) <= fam['Bf'](p, x) * (1 + 1e-12) and abs(fam['F'](p, x)) <= fam['BF'](p, x) * (1 + 1e-12), (name, 'Bf/BF')


_selfcheck_quad()


def num(v):
    """limits are stored as numbers or as the strings 'inf' / '-inf'"""
    if v == 'inf':
        return float('inf')
    if v == '-inf':
        return float('-inf')
    return v


def maybe_int(draw, v, dom):
    """plain arguments are sometimes handed over as Python ints"""
    if draw(chance(4)):
        w = int(round(v))
        if in_dom(w, dom):
            return w
    return v


@st.composite
def quad_kwargs(draw, wide=False):
    kw = {}
    what = draw(st.sampled_from(['none', 'none', 'none', 'eps', 'limit', 'full', 'points', 'mixed'] +
                                (['weight', 'eps', 'limit', 'full', 'eps0', 'eps0', 'weight0'] if wide else [])))
    if what == 'eps0':
        # option values that are "falsy" but meaningful: a purely relative (or purely absolute) accuracy request
        if draw(st.booleans()):
            kw['epsabs'] = draw(st.sampled_from([0, 0.0]))
            kw['epsrel'] = draw(st.sampled_from([1e-10, 1e-12, 1e-6]))
        else:
            kw['epsrel'] = draw(st.sampled_from([0, 0.0]))
            kw['epsabs'] = draw(st.sampled_from([1e-10, 1e-13, 1e-6]))
        if draw(st.booleans()):
            kw['full_output'] = draw(st.sampled_from([1, True]))
    if what == 'weight0':
        kw['weight'] = draw(st.sampled_from(['cos', 'sin']))
        kw['wvar'] = draw(st.sampled_from([0, 0.0]))
    if what in ('eps', 'mixed'):
        kw['epsabs'] = draw(st.sampled_from([1e-11, 1e-12, 1e-3] if wide else [1e-11, 1e-12]))
        kw['epsrel'] = draw(st.sampled_from([1e-11, 1e-12, 1e-3] if wide else [1e-11, 1e-12]))
    if what in ('limit', 'mixed'):
        kw['limit'] = draw(st.sampled_from([1, 2, 3, 200] if wide else [100, 200]))
    if what in ('full', 'mixed'):
        kw['full_output'] = draw(st.sampled_from([1, True]))
    if what == 'points':
        kw['points_frac'] = sorted(draw(st.lists(gen.fl(0.1, 0.9), min_size=1, max_size=2, unique=True)))
    if what == 'weight':
        kw['weight'] = draw(st.sampled_from(['cos', 'sin']))
        kw['wvar'] = draw(gen.fl(0.5, 5.0))
    return kw


def real_kwargs(kw, a, b):
    kw = dict(kw)
    pf = kw.pop('points_frac', None)
    if pf is not None and math.isfinite(a) and math.isfinite(b) and a != b:
        kw['points'] = [a + f * (b - a) for f in pf]
    return kw


@st.composite
def quad_case(draw, tier):
    name = draw(st.sampled_from(sorted(QUAD)))
    fam = QUAD[name]
    n = fam['np']
    dummy = False
    if n == 0 and findings.is_open('F-C09-1'):
        dummy = True     # known finding: empty parameter list + observable limit; searched with an unused plain parameter instead
    vals = [draw(dom_value(dom)) for dom in fam['pdom']] + [draw(dom_value(fam['ldom'])), draw(dom_value(fam['ldom']))]
    doms = list(fam['pdom']) + [fam['ldom'], fam['ldom']]
    if vals[n] == vals[n + 1] and not draw(chance(8)):        # coinciding limits only now and then
        vals[n + 1] = vals[n] + 0.75 if in_dom(vals[n] + 0.75, fam['ldom']) else vals[n] - 0.75
    mask = [draw(st.booleans()) for _ in range(n + 2)]
    infl = []
    if fam.get('inf'):
        infl = draw(st.sampled_from(fam['inf']))
        if 'a' in infl:
            vals[n], mask[n] = '-inf', False
        if 'b' in infl:
            vals[n + 1], mask[n + 1] = 'inf', False
    cand = [i for i in range(n + 2) if not isinstance(vals[i], str)]
    if not any(mask):
        mask[draw(st.sampled_from(cand))] = True
    alias = None
    if draw(chance(7)) and len(cand) >= 2:
        s = draw(st.sampled_from(cand[:-1]))
        d = draw(st.sampled_from([i for i in cand if i > s]))
        if in_dom(vals[s], doms[d]):
            alias = [s, d]
            mask[s] = mask[d] = True
            vals[d] = vals[s]
    for i in range(n + 2):
        if not mask[i] and not isinstance(vals[i], str):
            vals[i] = maybe_int(draw, vals[i], doms[i])
    idx = [i for i in range(n + 2) if mask[i] and not (alias and i == alias[1])]
    if name == 'twoscale':
        # both parameters observables, the limits plain numbers around the peak: [0 or small, beyond the peak]
        mask = [True, True, False, False]
        alias = None
        vals[2] = draw(st.sampled_from([0.0, 0.0, 1e-4]))
        vals[3] = draw(gen.fl(0.05, 1.5))
        idx = [0, 1]
    ops = draw(operand_specs([vals[i] for i in idx], tier))
    if name == 'twoscale':
        for c in ops[1]['chains']:       # the second parameter on an ensemble of its own: its fluctuations are visible by themselves
            c['name'] = 'ZQ' + c['name']
    spec = {'fam': name, 'vals': vals, 'mask': mask, 'alias': alias, 'ops': ops, 'raw': [draw(st.booleans()) for _ in idx],
            'pform': draw(st.sampled_from(['list', 'list', 'tuple', 'array'])), 'kw': draw(quad_kwargs())}
    if dummy:
        spec['dummy_p'] = draw(st.sampled_from([2.0, 1, -0.5]))
    return spec


def sq(scipy_quad, h, a, b, kw):
    kw = {k: v for k, v in kw.items() if k != 'full_output'}
    r = scipy_quad(h, a, b, **kw)
    return float(r[0]), float(r[1])


def quad_oracle(spec):
    import pyerrors as pe
    from scipy.integrate import quad as squad
    anp = _anp()
    name = spec['fam']
    fam = QUAD[name]
    n = fam['np']
    mask, alias = spec['mask'], spec.get('alias')
    doms = list(fam['pdom']) + [fam['ldom'], fam['ldom']]
    idx = [i for i in range(n + 2) if mask[i] and not (alias and i == alias[1])]
    obs, labs = make_operands(spec['ops'], [spec['vals'][i] for i in idx], spec['raw'], arg_doms(doms, idx, alias))
    args = [num(v) for v in spec['vals']]
    for i, o in zip(idx, obs):
        args[i] = o
    if alias:
        args[alias[1]] = args[alias[0]]
        labs.add('alias:%s=%s' % tuple('p' if i < n else 'ab'[i - n] for i in alias))
    isobs = [isinstance(x, pe.Obs) for x in args]
    cv = [float(x.value) if io else float(x) for x, io in zip(args, isobs)]
    pv, a, b = cv[:n], cv[n], cv[n + 1]
    p_arg = args[:n]
    if n == 0 and 'dummy_p' in spec:
        p_arg = [spec['dummy_p']]
        labs.add('excluded:F-C09-1(empty p replaced by an unused plain parameter)')
    if spec['pform'] == 'tuple':
        p_arg = tuple(p_arg)
    elif spec['pform'] == 'array' and len(p_arg):
        p_arg = np.array(p_arg, dtype=object) if any(isobs[:n]) else np.array(p_arg)
    kw = real_kwargs(spec['kw'], a, b)

    def func(p, x):
        return fam['pe'](anp, p, x)
    out = pe.integrate.quad(func, p_arg, args[n], args[n + 1], **kw)
    require(isinstance(out, tuple) and len(out) >= 2, 'quad did not return a tuple (value, abserr, ...)', type(out).__name__)
    res = out[0]
    require(isinstance(res, pe.Obs), 'quad with an observable argument did not return an Obs as first element', type(res).__name__)
    what = 'quad[%s]' % name

    # analytic reference
    def at(fn, x):
        if math.isinf(x):       # families with infinite limits: antiderivatives vanish there
            r = fn(pv, 0.0)
            return [0.0] * len(r) if isinstance(r, list) else 0.0
        return fn(pv, x)
    Fa, Fb = float(at(fam['F'], a)), float(at(fam['F'], b))
    want = Fb - Fa
    infinite = math.isinf(a) or math.isinf(b)

    def asked(exact):
        # On infinite ranges QUADPACK's error estimate is not a bound (measured: int_0^inf exp(-1.459 x) dx is off by
        # 1.5e-8 with a reported 7e-10); what can be relied on there is the accuracy that was asked for.
        return 10 * max(kw.get('epsabs', 1.49e-8), kw.get('epsrel', 1.49e-8) * abs(exact)) if infinite else 0.0
    # (family 'twoscale': the narrow peak is far below the accuracy requested for the *value*, QUADPACK does not see it and
    # its error estimate does not know; the derivative integrals are judged on their own scales below)
    asked_value = (10 * max(kw.get('epsabs', 1.49e-8), kw.get('epsrel', 1.49e-8) * abs(want)) + 2.0 * abs(pv[1]) / 2000.0) if spec['fam'] == 'twoscale' else asked(want)
    _, e0 = sq(squad, lambda x: fam['f'](pv, x), a, b, kw)
    s0, _ = sq(squad, lambda x: abs(fam['f'](pv, x)), min(a, b), max(a, b), {})
    tol = 10 * e0 + 1e-11 * s0 + 1e-14 * (float(at(fam['BF'], a)) + float(at(fam['BF'], b))) + asked_value + 1e-290   # denormal floor
    require(abs(float(res.value) - want) <= tol, what + ': value of the integral differs from F(b) - F(a)', float(res.value), want,
            'tolerance %.3g' % tol, {'p': pv, 'a': a, 'b': b})
    Ga, Gb = at(fam['G'], a), at(fam['G'], b)
    BGa, BGb = at(fam['BG'], a), at(fam['BG'], b)
    ops, grad, err = [], [], []
    for i in range(n):
        if isobs[i]:
            _, ei = sq(squad, lambda x, i=i: fam['df'](pv, x)[i], a, b, kw)
            si, _ = sq(squad, lambda x, i=i: abs(fam['df'](pv, x)[i]), min(a, b), max(a, b), {})
            ops.append(args[i])
            grad.append(float(Gb[i]) - float(Ga[i]))
            err.append(10 * ei + 1e-11 * si + 1e-14 * (float(BGa[i]) + float(BGb[i])) + asked(grad[-1]) + 1e-15 * max(1.0, abs(b - a) if math.isfinite(b - a) else 1.0))
    if isobs[n]:
        ops.append(args[n])
        grad.append(-float(fam['f'](pv, a)))
        err.append(1e-13 * float(fam['Bf'](pv, a)) + 1e-15 * max([1.0] + [abs(q) for q in pv]))      # f of a limit at rounding level
    if isobs[n + 1]:
        ops.append(args[n + 1])
        grad.append(float(fam['f'](pv, b)))
        err.append(1e-13 * float(fam['Bf'](pv, b)) + 1e-15 * max([1.0] + [abs(q) for q in pv]))
    refs = [RefObs.from_pe(o) for o in ops]
    v = float(res.value)
    rf = combine(lambda x: v, grad, refs, value=v)           # the value was judged above with the quadrature tolerance
    rerr = combine(lambda x: v, err, refs, value=v)           # what the quadrature tolerance of the gradient allows per chain
    atol = 1e-12
    for k_ in rf.mag:
        rf.mag[k_] += rerr.mag[k_] / atol
    for k_ in rf.cgmag:
        rf.cgmag[k_] += rerr.cgmag[k_] / atol
    cmp_obs(rf, res, what + ' vs analytic antiderivative', rtol=1e-10, atol_scale=atol, check_rv=False)

    nobs = len(ops)
    labs.update(['fam:' + name, 'pform:' + spec['pform'], 'observable:p%d%s%s' % (sum(isobs[:n]), 'a' if isobs[n] else '', 'b' if isobs[n + 1] else '')])
    labs.add('kw:' + ('+'.join(sorted(spec['kw'])) or 'none'))
    if math.isinf(a) or math.isinf(b):
        labs.add('infinite_limit')
    elif b < a:
        labs.add('reversed_limits')
    elif a == b:
        labs.add('coinciding_limits')
    if any(isinstance(x, int) for x in spec['vals']):
        labs.add('int_argument')
    diff_ens = False
    if len(spec['ops']) > 1:
        labs.update('rel:' + x for x in gen.relation_labels(spec['ops']))
        diff_ens = len(set(ens_sets(spec['ops']))) > 1
        if diff_ens:
            labs.add('different_ensembles')
    lim_and_par = any(isobs[:n]) and (isobs[n] or isobs[n + 1])
    if lim_and_par:
        labs.add('limit_and_parameter_observable')
    return {'nt': bool((nobs >= 2 and diff_ens) or lim_and_par), 'cls': sorted(labs)}


# -------------------------------------------------------------------------------------------------
# nothing is an observable: scipy's tuple

@st.composite
def scipy_case(draw, tier):
    name = draw(st.sampled_from(sorted(QUAD)))
    fam = QUAD[name]
    n = fam['np']
    vals = [draw(dom_value(dom)) for dom in fam['pdom']] + [draw(dom_value(fam['ldom'])), draw(dom_value(fam['ldom']))]
    doms = list(fam['pdom']) + [fam['ldom'], fam['ldom']]
    if name in ('sinoff', 'cosmix') and draw(st.booleans()):
        vals[1] = vals[1] * draw(gen.fl(3.0, 15.0))       # oscillatory: needs subdivision, so limit / eps matter
    kw = draw(quad_kwargs(wide=True))
    if fam.get('inf'):
        for s in draw(st.sampled_from(fam['inf'])):
            vals[n + (s == 'b')] = '-inf' if s == 'a' else 'inf'
        kw.pop('points_frac', None)
        kw.pop('weight', None)
        kw.pop('wvar', None)
    for i in range(n + 2):
        if not isinstance(vals[i], str) and not (name in ('sinoff', 'cosmix') and i == 1):
            vals[i] = maybe_int(draw, vals[i], doms[i])
    cplx = draw(chance(5)) and 'weight' not in kw
    return {'fam': name, 'vals': vals, 'kw': kw, 'pform': draw(st.sampled_from(['list', 'tuple', 'array'])), 'cplx': bool(cplx)}


def scipy_oracle(spec):
    import pyerrors as pe
    from scipy.integrate import quad as squad
    anp = _anp()
    fam = QUAD[spec['fam']]
    n = fam['np']
    vals = [num(v) for v in spec['vals']]
    p, a, b = vals[:n], vals[n], vals[n + 1]
    kw = real_kwargs(spec['kw'], float(a), float(b))
    p_arg = {'list': list, 'tuple': tuple, 'array': np.array}[spec['pform']](p)

    cplx = bool(spec.get('cplx'))
    cfac = (1.0 + 0.5j) if cplx else 1.0
    if cplx:
        kw['complex_func'] = True      # scipy's option for complex-valued integrands

    def func(p, x):
        return cfac * fam['pe'](anp, p, x)
    pv = np.array(p)
    exc = None
    try:
        want = squad(lambda x: cfac * fam['f'](pv, x), a, b, **kw)
    except Exception as e:
        exc = e
    try:
        got = pe.integrate.quad(func, p_arg, a, b, **kw)
    except Exception as e:
        if exc is not None and type(e) is type(exc):
            return {'nt': False, 'cls': ['both_raise:' + type(e).__name__]}
        raise
    require(exc is None, 'quad returned although scipy.integrate.quad raises', repr(exc))
    require(isinstance(got, tuple) and len(got) == len(want), 'result is not the tuple scipy returns', type(got).__name__,
            len(got) if isinstance(got, tuple) else None, len(want))
    require(not isinstance(got[0], pe.Obs) and isinstance(got[0], (complex, float) if cplx else float) and
            isinstance(got[0], complex) == isinstance(want[0], complex), 'first element must be the plain number scipy returns',
            type(got[0]).__name__, type(want[0]).__name__)
    # same routine on the same integrand: identical up to the last bits of a differently associated evaluation
    require(abs(got[0] - want[0]) <= 1e-13 * abs(want[0]) + 1e-3 * abs(want[1]) + 1e-300, 'value differs from scipy.integrate.quad', got[0], want[0])
    require(abs(got[1] - want[1]) <= 1e-3 * abs(want[1]) + 1e-13 * abs(want[0]) + 1e-300, 'abserr differs from scipy.integrate.quad', got[1], want[1])
    if len(want) > 2 and not cplx:
        for key in ('neval', 'last'):
            require(got[2][key] == want[2][key], 'infodict[%r] differs from scipy.integrate.quad' % key, got[2][key], want[2][key])
        if len(want) > 3:
            require(got[3] == want[3], 'message differs from scipy', got[3], want[3])
    labs = ['fam:' + spec['fam'], 'kw:' + ('+'.join(sorted(spec['kw'])) or 'none'), 'pform:' + spec['pform'], 'len:%d' % len(want)] + (['complex_func'] if cplx else [])
    inf = any(isinstance(v, str) for v in spec['vals'])
    if inf:
        labs.append('infinite_limit')
    return {'nt': bool(spec['kw']) or inf, 'cls': labs}


# -------------------------------------------------------------------------------------------------
# quad with scipy's weight option and observable parameters: the keyword arguments that define the integrand
# (weight, wvar) must reach the derivative-under-the-integral terms as well

@st.composite
def weight_case(draw, tier):
    p = [draw(gen.fl(0.5, 2.0)), draw(gen.fl(0.2, 2.0))]
    a = draw(gen.fl(0.0, 1.5))
    b = a + draw(gen.fl(0.3, 2.5))
    mask = draw(st.sampled_from([[True, True], [True, False], [False, True]]))
    ops = draw(operand_specs([p[i] for i in range(2) if mask[i]], tier))
    return {'p': p, 'a': a, 'b': b, 'mask': mask, 'ops': ops, 'weight': draw(st.sampled_from(['cos', 'sin'])), 'w': draw(gen.fl(0.5, 5.0)),
            'reverse': draw(st.booleans())}


def weight_oracle(spec):
    import cmath
    import pyerrors as pe
    anp = _anp()
    p0, p1 = spec['p']
    a, b = (spec['b'], spec['a']) if spec['reverse'] else (spec['a'], spec['b'])
    idx = [i for i in range(2) if spec['mask'][i]]
    obs, labs = make_operands(spec['ops'], [spec['p'][i] for i in idx], [False] * len(idx), [[[(0.05, 10.0)]]] * len(idx))
    args = [p0, p1]
    for i, o in zip(idx, obs):
        args[i] = o
    pv = [float(x.value) if isinstance(x, pe.Obs) else float(x) for x in args]
    w = spec['w']
    out = pe.integrate.quad(lambda p, x: p[0] * anp.exp(-p[1] * x), args, a, b, weight=spec['weight'], wvar=w, epsabs=1e-12, epsrel=1e-12)
    res = out[0]
    require(isinstance(res, pe.Obs), 'quad with observable parameters did not return an Obs', type(res).__name__)
    sc = complex(-pv[1], w)
    base = (cmath.exp(sc * b) - cmath.exp(sc * a)) / sc                       # int_a^b exp((-p1 + i w) x) dx
    dbase = -((b * cmath.exp(sc * b) - a * cmath.exp(sc * a)) / sc - (cmath.exp(sc * b) - cmath.exp(sc * a)) / sc ** 2)   # d/dp1
    part = (lambda z: z.real) if spec['weight'] == 'cos' else (lambda z: z.imag)
    want = pv[0] * part(base)
    grads = [part(base), pv[0] * part(dbase)]
    scale = abs(pv[0]) * abs(b - a)
    require(abs(float(res.value) - want) <= 1e-9 * scale, 'quad(weight=%s): value differs from the closed form' % spec['weight'], float(res.value), want)
    refs = [RefObs.from_pe(o) for o in obs]
    v = float(res.value)
    rf = combine(lambda x: v, [grads[i] for i in idx], refs, value=v)
    for k_ in rf.mag:
        rf.mag[k_] += 1e3 * sum(abs(scale) * r.mag.get(k_, 0.0) for r in refs)
    cmp_obs(rf, res, 'quad(weight=%s, wvar=%.3g) with observable parameters vs closed form' % (spec['weight'], w), rtol=1e-8, atol_scale=1e-12, check_rv=False)
    labs.update(['weight:' + spec['weight'], 'observable:' + ''.join('p%d' % i for i in idx), 'reversed' if spec['reverse'] else 'ascending'])
    return {'nt': True, 'cls': sorted(labs)}


SUBS = [
    Sub('root', root_case, root_oracle, {'quick': 400, 'thorough': 12000}, {'quick': 7, 'thorough': 16},
        doc='find_root: root, -(df/dd)/(df/dx) propagation through RefObs.combine, explicit inverse', max_skip_frac=0.2),
    Sub('quad', quad_case, quad_oracle, {'quick': 400, 'thorough': 10000}, {'quick': 8, 'thorough': 16},
        doc='integrate.quad with observable parameters / limits vs analytic antiderivative through RefObs.combine', max_skip_frac=0.2),
    Sub('weight', weight_case, weight_oracle, {'quick': 150, 'thorough': 3000}, {'quick': 2, 'thorough': 4},
        doc='integrate.quad with weight= / wvar= and observable parameters vs closed form'),
    Sub('scipy', scipy_case, scipy_oracle, {'quick': 500, 'thorough': 10000}, {'quick': 1, 'thorough': 2},
        doc='integrate.quad without observables returns the tuple of scipy.integrate.quad'),
]
