"""C01  Linear error propagation is exact and aligned by configuration number.

Sub-properties
  tree     expression trees over + - * / ** abs neg and the 15 elementary functions with Obs and
           plain-number operands in either position; every node is judged against RefObs.combine
           with the analytic gradient of the table below; leaves against RefObs.from_spec.
  derived  explicit derived_observable calls: multi-input scalar and array-valued functions through
           autograd, num_grad, man_grad and array_mode; agreement with RefObs.combine and between paths.
  split    f(a,b,c) in one call equals any binary bracketing when the operands share replica sets
           or per-replica configuration sets.
  cobs     complex observables: + - * / between CObs, Obs, complex and real numbers in both orders
           against the real-pair formulas.
  ndarray  Obs (op) ndarray in both orders is the element-wise operation.
"""
import cmath
import math

import numpy as np
from hypothesis import strategies as st

from vlib import gen
from vlib.build import build_obs, to_complex
from vlib.core import Sub, Violation, Skip, require
from vlib.refobs import RefObs, combine, cmp_obs

PROPERTY = 'C01'
LEVEL = 'exploration'
RULE = ('Hypothesis-generated expression trees / derived_observable calls / complex operations over observables on '
        'related layouts (subsets of a common base grid per replica, replica subsets, 1-2 ensembles, optional shared '
        'covariance inputs). A case is non-trivial if at least one operation had to re-align its operands (different '
        'configuration sets or a missing replica) or had a non-Obs left operand; distinct = distinct spec hash.')
ASSUMPTIONS = ['RefObs.combine is the statement of C01 written as dictionary code (vlib/refobs.py)',
               'analytic gradient table self-checked against central finite differences at import',
               'tolerances: fluctuations 1e-10 relative + 1e-12 of the summed term magnitude; values 1e-11']

# ---------------------------------------------------------------------------------------------
# analytic table: name -> (f, f', domain)
UN = {
    'neg': (lambda x: -x, lambda x: -1.0, 'any'),
    'abs': (abs, lambda x: 1.0 if x > 0 else -1.0, 'nonzero'),
    'sqrt': (math.sqrt, lambda x: 0.5 / math.sqrt(x), 'pos'),
    'log': (math.log, lambda x: 1.0 / x, 'pos'),
    'exp': (math.exp, math.exp, 'bounded'),
    'sin': (math.sin, math.cos, 'any'),
    'cos': (math.cos, lambda x: -math.sin(x), 'any'),
    'tan': (math.tan, lambda x: 1.0 + math.tan(x) ** 2, 'unit'),
    'arcsin': (math.asin, lambda x: 1.0 / math.sqrt(1 - x * x), 'unit'),
    'arccos': (math.acos, lambda x: -1.0 / math.sqrt(1 - x * x), 'unit'),
    'arctan': (math.atan, lambda x: 1.0 / (1 + x * x), 'any'),
    'sinh': (math.sinh, math.cosh, 'bounded'),
    'cosh': (math.cosh, math.sinh, 'bounded'),
    'tanh': (math.tanh, lambda x: 1.0 / math.cosh(x) ** 2, 'any'),
    'arcsinh': (math.asinh, lambda x: 1.0 / math.sqrt(1 + x * x), 'any'),
    'arccosh': (math.acosh, lambda x: 1.0 / math.sqrt(x * x - 1), 'gt1'),
    'arctanh': (math.atanh, lambda x: 1.0 / (1 - x * x), 'unit'),
}
ELEMENTARY = [k for k in UN if k not in ('neg', 'abs')]
assert len(ELEMENTARY) == 15

BIN = {
    '+': (lambda a, b: a + b, lambda a, b: (1.0, 1.0)),
    '-': (lambda a, b: a - b, lambda a, b: (1.0, -1.0)),
    '*': (lambda a, b: a * b, lambda a, b: (b, a)),
    '/': (lambda a, b: a / b, lambda a, b: (1.0 / b, -a / (b * b))),
    '**': (lambda a, b: a ** b, lambda a, b: (b * a ** (b - 1), a ** b * math.log(a) if a > 0 else float('nan'))),
}


def _selfcheck_table():
    pts = {'any': [-1.3, 0.4, 2.2], 'nonzero': [-1.3, 0.7], 'pos': [0.3, 2.5], 'bounded': [-2.0, 0.5, 3.0],
           'unit': [-0.8, 0.1, 0.85], 'gt1': [1.2, 3.0]}
    h = 1e-6
    for k, (f, df, dom) in UN.items():
        for x in pts[dom]:
            num = (f(x + h) - f(x - h)) / (2 * h)
            assert abs(num - df(x)) <= 1e-7 * max(1, abs(num)), (k, x, num, df(x))
    for k, (f, df) in BIN.items():
        for a, b in [(1.3, 0.7), (2.1, -1.2), (0.4, 2.0)]:
            ga, gb = df(a, b)
            na = (f(a + h, b) - f(a - h, b)) / (2 * h)
            nb = (f(a, b + h) - f(a, b - h)) / (2 * h)
            assert abs(na - ga) <= 1e-6 * max(1, abs(na)) and abs(nb - gb) <= 1e-6 * max(1, abs(nb)), (k, a, b)


_selfcheck_table()


def safe(f, *a):
    try:
        r = f(*a)
    except (ValueError, OverflowError, ZeroDivisionError):
        return float('nan')
    if isinstance(r, complex):
        return float('nan')
    return r


# ---------------------------------------------------------------------------------------------
# evaluation of a tree on the pyerrors side with per-node judgement

class Ctx:
    def __init__(self):
        self.labels = set()
        self.nt = False
        self.nodes = 0


def is_obs(x):
    import pyerrors as pe
    return isinstance(x, pe.Obs)


def ref_of(x):
    """RefObs view of a pyerrors object or of a plain number."""
    if is_obs(x):
        return RefObs.from_pe(x)
    return RefObs(float(x), {}, {})


def layout_differs(a, b):
    if sorted(a.names) != sorted(b.names):
        return 'replicas'
    for n in a.idl:
        if n in b.idl and list(a.idl[n]) != list(b.idl[n]):
            return 'cfgs'
    return None


def judge(ctx, what, res, f, grad, operands, rtol=1e-10):
    """res (pyerrors) must equal combine(f, grad, ref(operands))."""
    refs = [ref_of(o) for o in operands]
    rf = combine(lambda v: safe(f, *v), grad, refs)
    if not math.isfinite(rf.value):
        raise Skip('non-finite reference value')
    # replica means outside the domain of f are NaN on both sides: compare only finite ones
    skip = set()
    for n in list(rf.rv):
        if not math.isfinite(rf.rv[n]):
            if is_obs(res) and n in res.r_values and np.isfinite(res.r_values[n]):
                raise Violation('%s: replica mean of %s is %r although f of the replica means is undefined' % (what, n, res.r_values[n]))
            skip.add(n)
    cmp_obs(rf, res, what, rtol=rtol, check_form=True, rv_skip=skip)


def adapt(ctx, x, dom):
    """Bring the central value of x into the (interior of the) domain by a fixed smooth map built from
    overloaded operations themselves (which are judged like every other node)."""
    v = float(x.value) if is_obs(x) else float(x)
    if dom == 'pos' and v < 0.2:
        return node_bin(ctx, '+', node_bin(ctx, '*', x, x), 0.3)
    if dom == 'unit' and abs(v) > 0.85:
        return node_bin(ctx, '/', x, node_bin(ctx, '+', 1.0, node_bin(ctx, '*', x, x)))
    if dom == 'gt1' and v < 1.2:
        return node_bin(ctx, '+', node_bin(ctx, '*', x, x), 1.3)
    if dom == 'bounded' and abs(v) > 4.0:
        return node_bin(ctx, '/', x, node_bin(ctx, '+', 1.0, node_bin(ctx, '*', x, x)))
    if dom == 'nonzero' and abs(v) < 0.1:
        return node_bin(ctx, '+', x, 0.5)
    return x


def node_un(ctx, name, x, style='np'):
    f, df, dom = UN[name]
    if not is_obs(x):
        v = float(x)
        if dom == 'pos' and v < 0.2:
            v = v * v + 0.3
        elif dom == 'unit' and abs(v) > 0.85:
            v = v / (1 + v * v)
        elif dom == 'gt1' and v < 1.2:
            v = v * v + 1.3
        elif dom == 'bounded' and abs(v) > 4.0:
            v = v / (1 + v * v)
        elif dom == 'nonzero' and abs(v) < 0.1:
            v = v + 0.5
        return f(v)
    x = adapt(ctx, x, dom)
    if name == 'neg':
        res = -x
    elif name == 'abs':
        res = abs(x)
    elif style == 'method':
        res = getattr(x, name)()
    else:
        res = getattr(np, name)(x)
    ctx.nodes += 1
    ctx.labels.add('fn:' + name)
    judge(ctx, name, res, f, [df(float(x.value))], [x])
    return res


def node_bin(ctx, op, a, b):
    f, df = BIN[op]
    oa, ob = is_obs(a), is_obs(b)
    if not oa and not ob:
        try:
            r = f(float(a), float(b))
        except (ZeroDivisionError, OverflowError, ValueError):
            raise Skip('plain-number subtree undefined')
        if isinstance(r, complex) or not math.isfinite(r):
            raise Skip('plain-number subtree undefined')
        return r
    va = float(a.value) if oa else float(a)
    vb = float(b.value) if ob else float(b)
    if op == '/' and abs(vb) < 0.1:
        b = adapt(ctx, b, 'pos') if ob else (vb * vb + 0.3)
    if op == '**':
        if ob:   # Obs exponent: base must be positive, exponent moderate
            if abs(vb) > 4:
                b = adapt(ctx, b, 'bounded')
            if oa:
                a = adapt(ctx, a, 'pos')
            else:
                a = va if va >= 0.2 else va * va + 0.3
        else:    # number exponent
            if float(vb) != int(vb) or abs(vb) > 4:
                if abs(vb) > 4:
                    b = vb = vb / (1 + vb * vb)
                a = adapt(ctx, a, 'pos')
            elif vb <= 0 and abs(va) < 0.2:       # 0 ** 0 and negative powers of (almost) zero are singular points
                a = adapt(ctx, a, 'pos')
        va = float(a.value) if is_obs(a) else float(a)
        if abs(va) > 6:
            a = adapt(ctx, a, 'bounded') if is_obs(a) else va / (1 + va * va)
            if is_obs(a):
                a = adapt(ctx, a, 'pos')
            else:
                a = a if a >= 0.2 else a * a + 0.3
    va = float(a.value) if is_obs(a) else float(a)
    vb = float(b.value) if is_obs(b) else float(b)
    if op == '+':
        res = a + b
    elif op == '-':
        res = a - b
    elif op == '*':
        res = a * b
    elif op == '/':
        res = a / b
    else:
        res = a ** b
    ctx.nodes += 1
    oa, ob = is_obs(a), is_obs(b)
    ctx.labels.add('op:%s:%s%s' % (op, 'O' if oa else 'n', 'O' if ob else 'n'))
    ga, gb = df(va, vb)
    if oa and ob:
        diff = layout_differs(a, b)
        if diff:
            ctx.nt = True
            ctx.labels.add('realign:' + diff)
        judge(ctx, 'Obs %s Obs' % op, res, f, [ga, gb], [a, b])
    elif oa:
        judge(ctx, 'Obs %s number' % op, res, lambda x, vb=vb: f(x, vb), [ga], [a])
    else:
        ctx.nt = True
        judge(ctx, 'number %s Obs' % op, res, lambda x, va=va: f(va, x), [gb], [b])
    if abs(float(res.value)) > 1e8:
        raise Skip('magnitude')
    return res


def eval_tree(ctx, node, leaves):
    if 'leaf' in node:
        return leaves[node['leaf'] % len(leaves)]
    if 'num' in node:
        return node['num']
    if 'un' in node:
        return node_un(ctx, node['un'], eval_tree(ctx, node['a'], leaves), node.get('style', 'np'))
    return node_bin(ctx, node['bin'], eval_tree(ctx, node['a'], leaves), eval_tree(ctx, node['b'], leaves))


def has_leaf(node):
    if 'leaf' in node:
        return True
    if 'num' in node:
        return False
    return has_leaf(node['a']) or ('b' in node and has_leaf(node['b']))


def tree_strategy():
    leaf = st.one_of(st.builds(lambda i: {'leaf': i}, st.integers(0, 5)),
                     st.builds(lambda i: {'leaf': i}, st.integers(0, 5)),
                     st.builds(lambda x: {'num': x}, st.one_of(st.integers(-3, 3), gen.fl(-3, 3),
                                                               st.sampled_from([2, 0.5, 1.5, -1, 3, 10.0]))))

    def extend(ch):
        return st.one_of(
            st.builds(lambda n, a, s: {'un': n, 'a': a, 'style': s}, st.sampled_from(sorted(UN)), ch,
                      st.sampled_from(['np', 'method'])),
            st.builds(lambda o, a, b: {'bin': o, 'a': a, 'b': b}, st.sampled_from(['+', '-', '*', '/', '**']), ch, ch),
            st.builds(lambda o, a, b: {'bin': o, 'a': a, 'b': b}, st.sampled_from(['+', '-', '*', '/', '**']), ch, ch))
    return st.recursive(leaf, extend, max_leaves=6).filter(lambda t: 'leaf' not in t and 'num' not in t and has_leaf(t))


@st.composite
def tree_case(draw, tier):
    n = draw(st.integers(1, 3))
    lmax = 40 if tier == 'quick' else 120
    ops = draw(gen.related_obs_specs(n, lmax=lmax, sigma=gen.fl(0.001, 0.3)))
    return {'ops': ops, 'tree': draw(tree_strategy())}


def build_leaves(ops, ctx=None):
    leaves = []
    for sp in ops:
        o = build_obs(sp)
        cmp_obs(RefObs.from_spec(sp), o, 'constructed operand', check_form=True)
        leaves.append(o)
    return leaves


def tree_oracle(spec):
    ctx = Ctx()
    leaves = build_leaves(spec['ops'])
    eval_tree(ctx, spec['tree'], leaves)
    for lab in gen.relation_labels(spec['ops']):
        ctx.labels.add('rel:' + lab)
    return {'nt': ctx.nt, 'cls': sorted(ctx.labels)}


# ---------------------------------------------------------------------------------------------
# derived_observable called directly

def _anp():
    import autograd.numpy as anp
    return anp


# name -> (n_inputs, output shape or None, f(anp, x), analytic jacobian J(values) with shape out+(n,))
def _fun_table():
    return {
        'lin3': (3, None, lambda anp, x: 2.0 * x[0] - 0.5 * x[1] + x[2],
                 lambda v: np.array([2.0, -0.5, 1.0])),
        'prodsum': (3, None, lambda anp, x: x[0] * x[1] + x[2],
                    lambda v: np.array([v[1], v[0], 1.0])),
        'ratioexp': (3, None, lambda anp, x: x[0] / (2.0 + x[1] ** 2) * anp.exp(0.3 * x[2]),
                     lambda v: np.array([math.exp(0.3 * v[2]) / (2 + v[1] ** 2),
                                         -v[0] * 2 * v[1] / (2 + v[1] ** 2) ** 2 * math.exp(0.3 * v[2]),
                                         0.3 * v[0] / (2 + v[1] ** 2) * math.exp(0.3 * v[2])])),
        'sumsq': (4, None, lambda anp, x: anp.sum(x ** 2), lambda v: 2 * np.array(v)),
        'sincos2': (2, None, lambda anp, x: anp.sin(x[0]) * anp.cos(x[1]),
                    lambda v: np.array([math.cos(v[0]) * math.cos(v[1]), -math.sin(v[0]) * math.sin(v[1])])),
        'single': (1, None, lambda anp, x: anp.tanh(x[0]) + x[0] ** 3,
                   lambda v: np.array([1 / math.cosh(v[0]) ** 2 + 3 * v[0] ** 2])),
        'vec2': (3, (2,), lambda anp, x: anp.array([x[0] * x[1], x[1] - x[2] ** 2]),
                 lambda v: np.array([[v[1], v[0], 0.0], [0.0, 1.0, -2 * v[2]]])),
        'cumsum3': (3, (3,), lambda anp, x: anp.cumsum(x), lambda v: np.tril(np.ones((3, 3)))),
    }


@st.composite
def derived_case(draw, tier):
    tab = _fun_table()
    name = draw(st.sampled_from(sorted(tab)))
    n = tab[name][0]
    lmax = 30 if tier == 'quick' else 100
    ops = draw(gen.related_obs_specs(n, lmax=lmax, sigma=gen.fl(0.001, 0.3), rep_max=2))
    path = draw(st.sampled_from(['autograd', 'num_grad', 'man_grad', 'array_mode', 'matrix_data', 'array_mode2']))
    if path == 'array_mode2' and n % 2:
        path = 'array_mode'
    # keyword arguments of derived_observable are handed on to the function (value, replica means and derivative alike)
    kw = {'scale': draw(gen.fl(0.3, 3.0)), 'lin': draw(gen.fl(-2.0, 2.0))} if draw(st.integers(0, 2)) == 0 else None
    spec = {'fn': name, 'ops': ops, 'path': path, 'kw': kw}
    if path == 'num_grad' and name in ('lin3', 'prodsum') and kw is None and draw(st.booleans()):
        # a function of tiny magnitude (a correlator at large distance, an inverse volume): its derivatives are tiny numbers,
        # which finite differences resolve as well as large ones (their absolute accuracy is proportional to |f|; for
        # polynomials of degree <= 2 central differences have no truncation error)
        spec['tiny'] = draw(st.sampled_from([1e-9, 1e-12, 1e-15, 1e-30]))
    return spec


def derived_oracle(spec):
    import pyerrors as pe
    anp = _anp()
    n, oshape, f, jac = _fun_table()[spec['fn']]
    leaves = build_leaves(spec['ops'])
    vals = [float(o.value) for o in leaves]
    J = jac(vals)
    path = spec['path']
    kwd = spec.get('kw')
    if kwd:
        f0, J0 = f, np.array(J, dtype=float)
        sc_, lin_ = float(kwd['scale']), (float(kwd['lin']) if oshape is None else 0.0)

        def f(m, x, _kw=None):      # noqa: F811  (the function of the table evaluated with the keyword arguments of the call)
            return sc_ * f0(m, x) + (lin_ * x[0] if oshape is None else 0.0)
        J = sc_ * J0
        if oshape is None:
            J = np.array(J, dtype=float)
            J[0] += lin_
        call_kw = {'scale': sc_, 'lin': lin_}
        func = lambda x, **kw: kw.get('scale', 1.0) * f0(anp, x) + (kw.get('lin', 0.0) * x[0] if oshape is None else 0.0)  # noqa: E731
    else:
        call_kw = {}
        func = lambda x, **kw: f(anp, x)  # noqa: E731
    tiny = float(spec.get('tiny') or 1.0)
    if tiny != 1.0:
        f1 = f      # (only generated without keyword arguments)
        f = lambda m, x: tiny * f1(m, x)  # noqa: E731
        func = lambda x, **kw: tiny * f1(anp, x)  # noqa: E731
        J = tiny * np.array(J, dtype=float)
    rtol = 1e-10
    if path == 'num_grad':
        if oshape is not None:
            raise Skip('num_grad is documented as scalar-output only')
        res = pe.derived_observable(func, leaves, num_grad=True, **call_kw)
        rtol = 1e-6
    elif path == 'man_grad':
        res = pe.derived_observable(func, leaves, man_grad=J, **call_kw)
    elif path == 'array_mode':
        if oshape is None:
            # array_mode contracts gradient and data over the trailing axes: use shape (1,) output
            # array_mode is written for lists of matrices: data of shape (k, n, m)
            func1 = lambda x, **kw: anp.array([func(x[0][0], **kw)])  # noqa: E731
            res = pe.derived_observable(func1, np.array([[leaves]]), array_mode=True, man_grad=np.array([[[J]]]), **call_kw)[0]
        else:
            func1 = lambda x, **kw: func(x[0][0], **kw)  # noqa: E731
            res = pe.derived_observable(func1, np.array([[leaves]]), array_mode=True, **call_kw)
    elif path == 'array_mode2':
        # array_mode with two matrix operands (1 x n/2 each): the leaves of the second operand may live on replicas / ensembles
        # that no entry of the first operand has (C01-m12, C10-m19: Jacobian blocks indexed by position among the operands
        # that have data on a replica)
        h = len(leaves) // 2
        A_, B_ = np.array([leaves[:h]]), np.array([leaves[h:]])
        if oshape is None:
            func2 = lambda x, **kw: anp.array([func(anp.concatenate([x[0][0], x[1][0]]), **kw)])  # noqa: E731
            res = pe.derived_observable(func2, [A_, B_], array_mode=True, **call_kw)[0]
        else:
            func2 = lambda x, **kw: func(anp.concatenate([x[0][0], x[1][0]]), **kw)  # noqa: E731
            res = pe.derived_observable(func2, [A_, B_], array_mode=True, **call_kw)
        na_, nb_ = set().union(*[set(o.names) for o in leaves[:h]]), set().union(*[set(o.names) for o in leaves[h:]])
        labels_extra = 'second_operand_has_further_chains' if nb_ - na_ else 'operands_share_chains'
    elif path == 'matrix_data':
        # scalar mode (no array_mode) on data handed over as a 2-d array of observables: one row, or two rows when possible
        nl = len(leaves)
        shp = (2, nl // 2) if (nl % 2 == 0 and nl >= 4) else (1, nl)
        M = np.empty(shp, dtype=object)
        for i_, o_ in enumerate(leaves):
            M[i_ // shp[1], i_ % shp[1]] = o_
        func2 = lambda x, **kw: func(anp.reshape(x, (-1,)), **kw)  # noqa: E731
        res = pe.derived_observable(func2, M, **call_kw)
        labels_extra = 'data_shape:%dx%d' % shp
    else:
        res = pe.derived_observable(func, leaves, **call_kw)
    refs = [RefObs.from_pe(o) for o in leaves]
    labels = {'fn:' + spec['fn'], 'path:' + path}
    if kwd:
        labels.add('with_kwargs')
    if tiny != 1.0:
        labels.add('tiny_function')
    if path in ('matrix_data', 'array_mode2'):
        labels.add(labels_extra)
    if oshape is None:
        require(is_obs(res), 'scalar function did not return an Obs', type(res).__name__)
        rf = combine(lambda v: float(f(np, np.array(v))), list(J), refs)
        if path == 'num_grad':
            # finite differences with steps of order 0.1 resolve a gradient only to an absolute accuracy of about 1e-10
            # (in units of the magnitude of f: `tiny` for the scaled polynomials)
            for n_ in rf.mag:
                rf.mag[n_] += 1e-3 * tiny * max([r.mag.get(n_, 0.0) for r in refs] + [0.0])
            for n_ in rf.cgmag:
                rf.cgmag[n_] += 1e-3 * tiny * max([r.cgmag.get(n_, 0.0) for r in refs] + [0.0])
        cmp_obs(rf, res, '%s via %s' % (spec['fn'], path), rtol=rtol, atol_scale=1e-12 if rtol < 1e-8 else 1e-7,
                vtol=1e-11, check_form=True)
    else:
        require(isinstance(res, np.ndarray) and res.shape == oshape, 'array function returned wrong shape',
                getattr(res, 'shape', None))
        for k in range(oshape[0]):
            rf = combine(lambda v, k=k: float(f(np, np.array(v))[k]), list(J[k]), refs)
            cmp_obs(rf, res[k], '%s[%d] via %s' % (spec['fn'], k, path), rtol=rtol, check_form=True)
    nt = gen.needs_realign(spec['ops'])
    for lab in gen.relation_labels(spec['ops']):
        labels.add('rel:' + lab)
    return {'nt': nt, 'cls': sorted(labels)}


# ---------------------------------------------------------------------------------------------
# split invariance

@st.composite
def split_case(draw, tier):
    mode = draw(st.sampled_from(['same_replicas', 'same_cfgs']))
    lmax = 30 if tier == 'quick' else 100
    ops = draw(gen.precond_specs(3, mode, lmax=lmax, sigma=gen.fl(0.001, 0.3)))
    fn = draw(st.sampled_from(['a+b+c', 'a*b*c', 'a*b+c', 'a/(2+b*b)-c']))
    br = draw(st.sampled_from(['left', 'right']))
    return {'mode': mode, 'ops': ops, 'fn': fn, 'bracket': br}


def split_oracle(spec):
    import pyerrors as pe
    a, b, c = build_leaves(spec['ops'])
    fn = spec['fn']
    if fn == 'a+b+c':
        one = pe.derived_observable(lambda x, **kw: x[0] + x[1] + x[2], [a, b, c])
        two = (a + b) + c if spec['bracket'] == 'left' else a + (b + c)
    elif fn == 'a*b*c':
        one = pe.derived_observable(lambda x, **kw: x[0] * x[1] * x[2], [a, b, c])
        two = (a * b) * c if spec['bracket'] == 'left' else a * (b * c)
    elif fn == 'a*b+c':
        one = pe.derived_observable(lambda x, **kw: x[0] * x[1] + x[2], [a, b, c])
        two = (a * b) + c if spec['bracket'] == 'left' else c + (b * a)
    else:
        one = pe.derived_observable(lambda x, **kw: x[0] / (2 + x[1] * x[1]) - x[2], [a, b, c])
        two = a / (2 + b * b) - c if spec['bracket'] == 'left' else -(c - a / (b * b + 2))
    cmp_obs(RefObs.from_pe(one), two, 'binary bracketing of %s vs one derived_observable call' % fn, rtol=1e-9,
            atol_scale=1e-11, check_rv=True)
    labs = ['mode:' + spec['mode'], 'fn:' + fn] + ['rel:' + x for x in gen.relation_labels(spec['ops'])]
    return {'nt': gen.needs_realign(spec['ops']), 'cls': labs}


# ---------------------------------------------------------------------------------------------
# complex observables

def cnum():
    # numeric parts are kept away from zero: whether "Obs * 0.0" contributes chains to a complex product is
    # not fixed by the statement (the library does both, depending on the operand type)
    nz = st.one_of(gen.fl(0.1, 3), gen.fl(-3, -0.1))
    return st.builds(lambda r, i: {'__complex__': [r, i]}, nz, nz)


@st.composite
def cobs_case(draw, tier):
    lmax = 30 if tier == 'quick' else 100
    mode = draw(st.sampled_from(['same_replicas', 'same_cfgs']))
    ops = draw(gen.precond_specs(4, mode, lmax=lmax, sigma=gen.fl(0.001, 0.3), rep_max=2, mean=gen.fl(0.5, 3)))
    left = draw(st.sampled_from(['cobs', 'cobs', 'obs', 'complex', 'float', 'int', 'cobs_num_imag', 'cobs_zero_imag', 'cobs_zero_real']))
    right = draw(st.sampled_from(['cobs', 'cobs', 'obs', 'complex', 'float', 'int', 'cobs_num_imag', 'cobs_zero_imag', 'cobs_zero_real']))
    if not left.startswith('cobs') and not right.startswith('cobs'):
        left = 'cobs'
    op = draw(st.sampled_from(['+', '-', '*', '/']))
    if draw(st.integers(0, 9)) == 0:
        # the mixed-type paths (one side carries a plain number as a part) meeting a part with central value exactly zero
        left, right = draw(st.sampled_from([('cobs_num_imag', 'cobs_zero_imag'), ('cobs_num_imag', 'cobs_zero_real'),
                                            ('cobs_zero_imag', 'cobs_num_imag'), ('cobs_zero_imag', 'complex'), ('complex', 'cobs_zero_imag'),
                                            ('obs', 'cobs_zero_imag'), ('cobs_zero_real', 'float')]))
        op = draw(st.sampled_from(['*', '*', '/', '+']))
    pow_order = None
    if draw(st.integers(0, 11)) == 0:
        op, left, right = '**', 'obs', 'complex'
        pow_order = draw(st.sampled_from(['obs_base', 'obs_base', 'obs_exponent']))
    return {'ops': ops, 'mode': mode, 'left': left, 'right': right, 'op': op, 'pow_order': pow_order,
            'lnum': draw(cnum()), 'rnum': draw(cnum())}


def _mk_operand(pe, kind, o1, o2, num):
    z = to_complex(num)
    if kind == 'cobs':
        return pe.CObs(o1, o2), (o1, o2)
    if kind == 'cobs_num_imag':
        im = z.imag if abs(z.imag) > 0.1 else 0.5
        return pe.CObs(o1, im), (o1, im)
    if kind in ('cobs_zero_imag', 'cobs_zero_real'):
        # a part that fluctuates around a central value of exactly zero (it is an observable, not the number 0)
        zo = o2 - float(o2.value)
        if float(zo.value) != 0.0:
            zo = zo - float(zo.value)
        if float(zo.value) != 0.0:
            return pe.CObs(o1, o2), (o1, o2)
        return (pe.CObs(o1, zo), (o1, zo)) if kind == 'cobs_zero_imag' else (pe.CObs(zo, o1), (zo, o1))
    if kind == 'obs':
        return o1, (o1, 0.0)
    if kind == 'complex':
        if abs(z.imag) < 0.1:
            z = complex(z.real, 0.5)
        return z, (z.real, z.imag)
    if kind == 'float':
        v = z.real if abs(z.real) > 0.2 else 0.7
        return v, (v, 0.0)
    v = int(round(z.real)) or 2
    return v, (v, 0.0)


def _cformula(op, which, vals, isnum):
    """Real-pair formula of (a+ib) op (c+id) for part `which`, with terms that contain a literal
    numeric zero dropped.  Returns (f(values), gradient list, indices of parts the result depends on)."""
    a, b, c, d = vals
    zero = [isnum[k] and vals[k] == 0 for k in range(4)]
    if op in '+-':
        sg = 1.0 if op == '+' else -1.0
        i, j = (0, 2) if which == 'real' else (1, 3)
        used = [k for k in (i, j) if not zero[k]]
        g = [0.0] * 4
        g[i], g[j] = 1.0, sg
        return (lambda x: x[i] + sg * x[j]), g, used
    if op == '*':
        terms = [(1.0, 0, 2), (-1.0, 1, 3)] if which == 'real' else [(1.0, 0, 3), (1.0, 1, 2)]
        terms = [t for t in terms if not (zero[t[1]] or zero[t[2]])]
        used = sorted(set(k for t in terms for k in t[1:]))
        g = [0.0] * 4
        for sgn, i, j in terms:
            g[i] += sgn * vals[j]
            g[j] += sgn * vals[i]
        return (lambda x: sum(sgn * x[i] * x[j] for sgn, i, j in terms)), g, used
    # division: numerator terms / (c^2 + d^2)
    terms = [(1.0, 0, 2), (1.0, 1, 3)] if which == 'real' else [(1.0, 1, 2), (-1.0, 0, 3)]
    terms = [t for t in terms if not (zero[t[1]] or zero[t[2]])]
    used = sorted(set([k for t in terms for k in t[1:]] + [k for k in (2, 3) if not zero[k]]))
    n2 = c * c + d * d
    num = sum(sgn * vals[i] * vals[j] for sgn, i, j in terms)
    g = [0.0] * 4
    for sgn, i, j in terms:
        g[i] += sgn * vals[j] / n2
        g[j] += sgn * vals[i] / n2
    g[2] -= num * 2 * c / n2 ** 2
    g[3] -= num * 2 * d / n2 ** 2
    return (lambda x: sum(sgn * x[i] * x[j] for sgn, i, j in terms) / (x[2] ** 2 + x[3] ** 2)), g, used


def judge_complex(pe, res, parts, op, lname, rname):
    """res must be the CObs (lr + i li) op (rr + i ri) given the four parts (Obs or plain numbers)."""
    isnum = [not is_obs(p) for p in parts]
    refs = [ref_of(p) for p in parts]
    vals = [r.value for r in refs]
    if op == '/' and vals[2] ** 2 + vals[3] ** 2 < 0.05:
        raise Skip('divisor near zero')
    for nm, part in (('real', res.real), ('imag', res.imag)):
        f, g, used = _cformula(op, nm, vals, isnum)
        used_obs = [k for k in used if not isnum[k]]

        def fr(x, f=f, used_obs=used_obs):
            full = list(vals)
            for k, xv in zip(used_obs, x):
                full[k] = xv
            return f(full)
        rf = combine(fr, [g[k] for k in used_obs], [refs[k] for k in used_obs])
        what = '%s part of %s %s %s' % (nm, lname, op, rname)
        if is_obs(part):
            try:
                cmp_obs(rf, part, what, rtol=1e-9, atol_scale=1e-11, check_rv=True)
            except Violation:
                # A structural zero (imaginary part of a real partner) times an observable: whether "0 * Obs"
                # counts as an input (and extends the union) is not fixed by the statement, and the library
                # does both depending on the partner type.  Accept the reading with all four parts as inputs.
                all_obs = [k for k in range(4) if not isnum[k]]
                f2, g2, _ = _cformula(op, nm, vals, [False] * 4)

                def fr2(x, f2=f2, all_obs=all_obs):
                    full = list(vals)
                    for k, xv in zip(all_obs, x):
                        full[k] = xv
                    return f2(full)
                rf2 = combine(fr2, [g2[k] for k in all_obs], [refs[k] for k in all_obs])
                # the structurally vanishing derivative is computed by the library as a cancellation between the
                # non-vanishing partial derivatives of intermediate results: rounding floor from those magnitudes
                gmax = max(abs(x) for w in ('real', 'imag') for x in _cformula(op, w, vals, [False] * 4)[1])
                for k in all_obs:
                    for n, m in refs[k].mag.items():
                        rf2.mag[n] = rf2.mag.get(n, 0.0) + gmax * m
                    for cn, m in refs[k].cgmag.items():
                        rf2.cgmag[cn] = rf2.cgmag.get(cn, 0.0) + gmax * m
                try:
                    cmp_obs(rf2, part, what, rtol=1e-9, atol_scale=1e-11, check_rv=True)
                except Violation:
                    pass
                else:
                    continue
                raise
        else:
            require(not rf.d and not rf.cg, what + ' is a plain number although it depends on observables', part)
            require(not isinstance(part, complex), what + ' is complex', part)
            require(abs(float(part) - rf.value) <= 1e-11 * max(1.0, abs(rf.value)), what + ' has wrong value', part, rf.value)


def cobs_oracle(spec):
    import pyerrors as pe
    l1, l2, r1, r2 = build_leaves(spec['ops'])
    L, (lr, li) = _mk_operand(pe, spec['left'], l1, l2, spec['lnum'])
    R, (rr, ri) = _mk_operand(pe, spec['right'], r1, r2, spec['rnum'])
    op = spec['op']
    if op == '**':
        # real observable to a complex power (and complex number to an observable power): x**z = exp(z log x)
        z = to_complex(spec['rnum'])
        if abs(z.imag) < 0.1:
            z = complex(z.real, 0.5)
        a_, b_ = z.real, z.imag
        x0 = float(l1.value)
        if not x0 > 0.05:
            raise Skip('base not safely positive')
        ref = RefObs.from_pe(l1)
        if spec.get('pow_order', 'obs_base') == 'obs_base':
            res = l1 ** z
            lx = math.log(x0)
            fr_, fi_ = x0 ** a_ * math.cos(b_ * lx), x0 ** a_ * math.sin(b_ * lx)
            gr_ = x0 ** (a_ - 1) * (a_ * math.cos(b_ * lx) - b_ * math.sin(b_ * lx))
            gi_ = x0 ** (a_ - 1) * (a_ * math.sin(b_ * lx) + b_ * math.cos(b_ * lx))
            what = 'Obs ** complex'
        else:
            res = z ** l1
            w_ = cmath.log(z)
            val = cmath.exp(w_ * x0)
            der = w_ * val
            fr_, fi_, gr_, gi_ = val.real, val.imag, der.real, der.imag
            what = 'complex ** Obs'
        require(isinstance(res, pe.CObs), what + ' did not return a CObs', type(res).__name__)
        for nm, part, fv, gv in (('real', res.real, fr_, gr_), ('imag', res.imag, fi_, gi_)):
            rf = combine(lambda v, fv=fv: fv, [gv], [ref], value=fv)
            rf.mag = {k: max(rf.mag.get(k, 0.0), (abs(gr_) + abs(gi_)) * m) for k, m in ref.mag.items()}
            rf.cgmag = {k: max(rf.cgmag.get(k, 0.0), (abs(gr_) + abs(gi_)) * m) for k, m in ref.cgmag.items()}
            rf.vmag = max(rf.vmag, abs(fr_) + abs(fi_))
            cmp_obs(rf, part, '%s part of %s (exponent %r)' % (nm, what, z), rtol=1e-9, atol_scale=1e-11, vtol=1e-11, check_rv=False)
        return {'nt': True, 'cls': ['pair:' + what, 'mode:' + spec.get('mode', '')]}
    if op == '+':
        res = L + R
    elif op == '-':
        res = L - R
    elif op == '*':
        res = L * R
    else:
        res = L / R
    require(isinstance(res, pe.CObs), 'complex arithmetic %s %s %s did not return a CObs' % (spec['left'], op, spec['right']),
            type(res).__name__)
    judge_complex(pe, res, [lr, li, rr, ri], op, spec['left'], spec['right'])
    labs = ['pair:%s%s%s' % (spec['left'], op, spec['right']), 'mode:' + spec.get('mode', '')]
    nt = spec['left'] not in ('cobs', 'cobs_num_imag') or gen.needs_realign(spec['ops'])
    return {'nt': nt, 'cls': labs}


# ---------------------------------------------------------------------------------------------
# ndarray operands

@st.composite
def ndarray_case(draw, tier):
    ops = draw(gen.precond_specs(2, 'same_replicas', lmax=20, sigma=gen.fl(0.001, 0.3), mean=gen.fl(0.5, 3)))
    arr = draw(st.lists(st.one_of(gen.fl(0.3, 3), gen.fl(-3, -0.3)), min_size=1, max_size=4))
    return {'ops': ops, 'arr': arr, 'op': draw(st.sampled_from(['+', '-', '*', '/'])), 'order': draw(st.sampled_from(['obs_first', 'array_first'])),
            'cobs': draw(st.sampled_from([False, False, True])), 'carr': draw(st.booleans())}


def ndarray_oracle(spec):
    import pyerrors as pe
    o, o2 = build_leaves(spec['ops'])
    arr = np.array(spec['arr'])
    if spec.get('cobs'):
        # complex observable (op) ndarray of real or complex numbers, both orders: element-wise complex arithmetic
        co = pe.CObs(o, o2)
        if spec.get('carr'):
            arr = arr + 1j * arr[::-1] * 0.5
        fn = {'+': lambda a, b: a + b, '-': lambda a, b: a - b, '*': lambda a, b: a * b, '/': lambda a, b: a / b}[spec['op']]
        res = fn(co, arr) if spec['order'] == 'obs_first' else fn(arr, co)
        require(isinstance(res, np.ndarray) and res.shape == arr.shape, 'CObs (op) ndarray must be an array of the same shape',
                type(res).__name__, getattr(res, 'shape', None))
        for k, y in enumerate(arr):
            y = complex(y)
            num = (float(y.real), float(y.imag))
            require(isinstance(res[k], pe.CObs), 'element %d of CObs (op) ndarray is a %s' % (k, type(res[k]).__name__))
            if spec['order'] == 'obs_first':
                judge_complex(pe, res[k], [o, o2, num[0], num[1]], spec['op'], 'cobs', 'ndarray[%d]' % k)
            else:
                judge_complex(pe, res[k], [num[0], num[1], o, o2], spec['op'], 'ndarray[%d]' % k, 'cobs')
        return {'nt': True, 'cls': ['nd:cobs:' + spec['op'] + ':' + spec['order'] + (':complex' if spec.get('carr') else ':real')]}
    f, df = BIN[spec['op']]
    res = {'+': lambda a, b: a + b, '-': lambda a, b: a - b, '*': lambda a, b: a * b, '/': lambda a, b: a / b}[spec['op']](
        *((o, arr) if spec['order'] == 'obs_first' else (arr, o)))
    require(isinstance(res, np.ndarray) and res.shape == arr.shape, 'Obs (op) ndarray must be an array of the same shape',
            type(res).__name__, getattr(res, 'shape', None))
    ctx = Ctx()
    v = float(o.value)
    for k, y in enumerate(arr):
        if spec['order'] == 'obs_first':
            judge(ctx, 'Obs %s ndarray[%d]' % (spec['op'], k), res[k], lambda x, y=y: f(x, y), [df(v, y)[0]], [o])
        else:
            judge(ctx, 'ndarray[%d] %s Obs' % (k, spec['op']), res[k], lambda x, y=y: f(y, x), [df(y, v)[1]], [o])
    return {'nt': spec['order'] == 'array_first', 'cls': ['nd:' + spec['op'] + ':' + spec['order']]}


SUBS = [
    Sub('tree', tree_case, tree_oracle, {'quick': 700, 'thorough': 6000}, {'quick': 8, 'thorough': 16},
        doc='expression trees, every node vs RefObs.combine with analytic gradients'),
    Sub('derived', derived_case, derived_oracle, {'quick': 300, 'thorough': 2500}, {'quick': 3, 'thorough': 8},
        doc='derived_observable: autograd / num_grad / man_grad / array_mode'),
    Sub('split', split_case, split_oracle, {'quick': 350, 'thorough': 3000}, {'quick': 2, 'thorough': 8},
        doc='one call vs binary bracketing under the shared-replica / shared-configuration precondition'),
    Sub('cobs', cobs_case, cobs_oracle, {'quick': 450, 'thorough': 4000}, {'quick': 2, 'thorough': 8},
        doc='complex observables against real-pair formulas'),
    Sub('ndarray', ndarray_case, ndarray_oracle, {'quick': 250, 'thorough': 1500}, {'quick': 2, 'thorough': 4},
        doc='Obs (op) ndarray element-wise'),
]
