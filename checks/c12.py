"""C12  dobs / pobs XML export and import are mutually inverse.

Sub-properties
  dobs    lists of 1-4 observables (1-2 ensembles x 1-3 replicas, configuration sets that may differ between the
          observables, covariance inputs of dimension 1-3, continuous data over a wide magnitude range, primary and
          derived observables) -> create_dobs_string / write_dobs -> import_dobs_string / read_dobs, through every
          transport (bytes, str, .xml.gz file, plain .xml file) and every separator_insertion mode
          (True / None / False / int / str, optional enstags).  Round-trip oracle: central value exact (%1.16e),
          chain names by the documented separator rule, every configuration number, every fluctuation and replica
          mean (1e-14 of the sample magnitude), covariance inputs (matrix and gradient 2e-14 per entry); subsequent
          gamma_method identical whenever the renaming keeps every chain in its ensemble.
  zeros   the same oracle on integer-valued (count-like) data: exact zeros, samples exactly equal to the mean,
          constant chains.
  pobs    lists of 1-4 primary observables of one ensemble on identical chains -> write_pobs -> read_pobs
          (gz on/off, separator_insertion None / int / str); lists whose chains differ (which the format cannot hold)
          must be rejected or reproduced, never be relabelled silently.
"""
import os
import shutil
import tempfile

import numpy as np
from hypothesis import strategies as st

from vlib import gen, findings
from vlib.build import build_obs
from vlib.core import Sub, Violation, Skip, require, spec_hash

PROPERTY = 'C12'
LEVEL = 'exploration'
RULE = ('Hypothesis-generated lists of 1-4 observables living on subsets of one base layout (1-2 ensembles x 1-3 replicas; '
        'per observable and replica the configuration list is the full grid, a window, a stride, a random mask or a '
        'nearly-regular list; replica and ensemble subsets may be missing), covariance inputs of dimension 1-3 from a '
        'shared pool, data kinds white / AR(1) / alternating / explicit lists over magnitudes 1e-8..1e8 (sub dobs), '
        'integer-valued count-like / constant data (sub zeros); observables are primary or derived (square, sine, '
        'product with the neighbour in the list).  Each list is written with create_dobs_string / write_dobs '
        '(gz on/off, optional symbol / enstags, three file-name forms) and read with import_dobs_string / read_dobs in one of '
        'the separator_insertion modes True / None / False / int / str (sub pobs: write_pobs / read_pobs on identical '
        'chains, and lists with one deviating chain).  Non-trivial: the observables of the file differ in configuration '
        'sets, replicas or ensembles, or the data contain an exactly vanishing sample (pobs: more than one observable or '
        'replica, or a non-contiguous list); distinct = distinct spec hash.')
ASSUMPTIONS = [
    'round-trip oracle: the reference is the exported pyerrors object itself (its value, idl, deltas, r_values, covobs)',
    'chain names are expected by the documented rule only: the writer removes "|", the reader re-inserts it per mode '
    '(True: after len(enstag) if the name starts with the enstag; int: at that position; str: before every occurrence; '
    'None/False: not at all) - a bare replica name "A" therefore comes back as "A|" under the default mode',
    'central value of dobs files bitwise (%1.16e holds 17 digits); fluctuations and replica means within 1e-14 * '
    '(|value| + |replica mean| + max|fluctuation|) + |mean of the exported fluctuations|: the reader rebuilds sample = '
    '(delta + offset) + value, takes a new replica mean and subtracts it, i.e. 3 roundings plus a pairwise mean of <= 500 '
    'numbers, each relative to the sample magnitude; the rounding-level mean of the exported fluctuations (inherited '
    'from the primary data) legitimately moves into the replica mean; measured on 3000 cases: <= 3.3e-16 of the sample magnitude',
    'covariance matrices and gradients are written with %1.14e (relative rounding <= 5e-15): 2e-14 relative per entry, zeros exact; a covariance input whose '
    'gradient is identically zero is equivalent to an absent one (the reader drops it)',
    'pobs holds primary observables of one ensemble only (value and replica means are recomputed from the samples): '
    'central value within 1e-14 of the sample magnitude; a reader that would have to build a primary Obs over several '
    'ensembles after the documented renaming may raise ValueError instead',
    'error analysis is compared (rtol 1e-9 + 1e3 * rounding level of the fluctuations) only when every chain stays in '
    'its ensemble under the documented renaming (results are per ensemble), the windows agree (otherwise counted as near-tie, not compared) and the fluctuations are not rounding-limited',
]

TOL_DATA = 1e-14
TOL_COV = 2e-14

F_ZERO = 'F-C12-1'      # sample that is exactly 0 lost by the dobs reader
F_FALSE = 'F-C12-2'     # separator_insertion=False inserts a separator
F_TEXT = 'F-C12-3'      # read_dobs / read_pobs with gz=False hand text to lxml, which rejects it
F_MEAN = 'F-C12-4'      # sample exactly equal to the central value collides with the "not measured" marker 0
F_POBS = 'F-C12-5'      # create_pobs_string labels all observables with the chains of the first one
F_STR = 'F-C12-6'       # import_dobs_string rejects the str that create_dobs_string returns


def _open_ids():
    return [f for f in (F_ZERO, F_FALSE, F_TEXT, F_MEAN, F_POBS, F_STR) if findings.is_open(f)]


# ---------------------------------------------------------------------------------------------- generators
def _pow10(lo, hi):
    return st.builds(lambda m, e: m * 10.0 ** e, gen.fl(1.0, 9.99), st.integers(lo, hi))


MEAN_WIDE = st.one_of(st.just(0.0), _pow10(-8, 8), _pow10(-8, 8).map(lambda x: -x), gen.fl(-3, 3))
SIGMA_WIDE = st.one_of(gen.fl(0.01, 2.0), _pow10(-8, 7))

DOBS_MODES = [True, True, True, True, None, False, 'len', 'len', 1, 2, 3, 5, 'r', 'r', 'r1', 'x', '1', '_']
POBS_MODES = [None, 'len', 'len', 'len', 'len', 1, 2, 4, 'r', 'r', 'r', 'r1', 'x', '1']
TRANSPORTS = ['bytes', 'bytes', 'str', 'gz', 'gz', 'plain']
TRANSFORMS = [None, None, None, 'sq', 'sin', 'mulprev']


def _enss(obs):
    return sorted(set(c['name'].split('|')[0] for o in obs for c in o['chains']))


@st.composite
def io_options(draw, obs, modes, open_ids, pobs=False):
    enss = _enss(obs)
    excluded = []
    mode = draw(st.sampled_from(modes))
    if mode == 'len':
        mode = len(draw(st.sampled_from(enss)))
    if mode is False and F_FALSE in open_ids:
        mode = None
        excluded.append(F_FALSE)
    tr = draw(st.sampled_from(['gz', 'gz', 'plain'] if pobs else TRANSPORTS))
    if tr == 'plain' and F_TEXT in open_ids:
        tr = 'gz'
        excluded.append(F_TEXT)
    if tr == 'str' and F_STR in open_ids:
        tr = 'bytes'
        excluded.append(F_STR)
    opt = {'mode': mode, 'transport': tr,
           'ext': draw(st.sampled_from(['', '.xml', '.xml.gz'] if tr == 'gz' else ['', '.xml'])),
           'full': draw(st.booleans()), 'symbol': draw(st.booleans())}
    if not pobs:
        opt['enstags'] = None
        if draw(st.integers(0, 5)) == 0:
            sub = draw(st.lists(st.sampled_from(enss), min_size=1, max_size=len(enss), unique=True))
            opt['enstags'] = {e: draw(st.sampled_from(['T_' + e, e + 'x', e[:1]])) for e in sorted(sub)}
            if draw(st.booleans()):
                # a tag dictionary that also knows ensembles which are not in this list (one dictionary for several exports)
                opt['enstags']['ZZ_not_in_list'] = 'T_ZZ'
    opt['excl'] = list(open_ids)
    opt['excluded'] = excluded
    return opt


@st.composite
def dobs_case(draw, tier):
    open_ids = _open_ids()
    n = draw(st.integers(1, 4))
    lmax = 40 if tier == 'quick' else 300
    wide = draw(st.integers(0, 2)) == 0
    obs = draw(gen.related_obs_specs(n, ens_max=2, rep_max=3, lmin=8, lmax=lmax, with_cov=True,
                                     mean=MEAN_WIDE if wide else None, sigma=SIGMA_WIDE if wide else None,
                                     data_kinds=('white', 'ar1', 'alt', 'list')))
    tf = [draw(st.sampled_from(TRANSFORMS)) for _ in range(n)]
    if wide:
        tf = [t if t != 'mulprev' else None for t in tf]
    tf[0] = None if tf[0] == 'mulprev' else tf[0]
    # with low probability one further member of the list carries covariance inputs only
    if n < 4 and draw(st.integers(0, 9)) == 0:
        pool = draw(gen.cov_pool(1))
        cp = draw(gen.cov_part(pool, 1.0))
        known = set(c['name'] for o in obs for c in o['cov'])
        if cp and cp[0]['name'] not in known:
            obs.append({'chains': [], 'cov': cp})
            tf.append(None)
    spec = {'obs': obs, 'tf': tf}
    spec.update(draw(io_options(obs, DOBS_MODES, open_ids)))
    return spec


def _integerize(rec, n):
    """integer-valued variant of a data recipe"""
    if rec['kind'] == 'list':
        return {'kind': 'list', 'x': [float(round(2.0 * x)) for x in rec['x']]}
    if rec['kind'] in ('count', 'const'):
        return dict(rec, mean=float(round(rec['mean'])))
    return {'kind': 'count', 'seed': rec['seed'], 'mean': float(round(rec['mean'])), 'sigma': 1.0}


@st.composite
def zeros_case(draw, tier):
    open_ids = _open_ids()
    n = draw(st.integers(1, 4))
    lmax = 25 if tier == 'quick' else 200
    obs = draw(gen.related_obs_specs(n, ens_max=2, rep_max=3, lmin=8, lmax=lmax, with_cov=draw(st.booleans()),
                                     mean=st.sampled_from([0.0, 0.0, 1.0, -1.0, 2.0, 3.0]), sigma=st.just(1.0),
                                     data_kinds=('count', 'count', 'list', 'list', 'const')))
    for o in obs:
        for c in o['chains']:
            c['data'] = _integerize(c['data'], len(c['idl']))
    spec = {'obs': obs, 'tf': [None] * n}
    spec.update(draw(io_options(obs, DOBS_MODES, open_ids)))
    return spec


@st.composite
def pobs_case(draw, tier):
    open_ids = _open_ids()
    nmax = 40 if tier == 'quick' else 300
    e = draw(st.sampled_from(gen.ENSEMBLES))
    kinds = ('white', 'ar1', 'alt', 'count', 'list', 'const')
    wide = draw(st.integers(0, 3)) == 0
    chains = draw(gen.single_ensemble_chains(e, 5, nmax, rep_max=3, data_kinds=kinds,
                                             mean=MEAN_WIDE if wide else None, sigma=SIGMA_WIDE if wide else None))
    n = draw(st.integers(1, 4))
    obs = [{'chains': chains, 'cov': []}]
    for i in range(1, n):
        obs.append({'chains': [dict(c, data=draw(gen.recipe(len(c['idl']), kinds=kinds, mean=MEAN_WIDE if wide else None,
                                                             sigma=SIGMA_WIDE if wide else None))) for c in chains], 'cov': []})
    differ = None
    if n > 1 and draw(st.integers(0, 5)) == 0:
        k = draw(st.integers(1, n - 1))
        j = draw(st.integers(0, len(chains) - 1))
        how = draw(st.sampled_from(['shift', 'shift', 'shorter', 'longer', 'rename']))
        if F_POBS in open_ids:
            differ = 'excluded'
        else:
            differ = how
            if how == 'with_cov':
                # a member that also depends on a covariance input: the pobs format has no place for it
                cp = draw(gen.cov_part(draw(gen.cov_pool(1)), 1.0))
                if cp:
                    obs[k] = {'chains': obs[k]['chains'], 'cov': cp}
                else:
                    differ = None
            c = dict(obs[k]['chains'][j])
            il = list(c['idl'])
            step = il[1] - il[0]
            if how == 'with_cov':
                pass
            elif how == 'shift':
                d = step * draw(st.integers(1, 3))
                c['idl'] = [x + d for x in il]
            elif how == 'shorter' and len(il) > 5:
                c['idl'] = il[:-1]
            elif how == 'longer':
                c['idl'] = il + [il[-1] + step]
            else:
                differ = 'rename'
                c['name'] = e + '|zz'
            if len(c['idl']) != len(il):
                c['data'] = {'kind': 'white', 'seed': 7 + len(c['idl']), 'mean': 0.5, 'sigma': 1.0}
            if how != 'with_cov':
                obs[k] = {'chains': [c if i == j else cc for i, cc in enumerate(obs[k]['chains'])], 'cov': []}
    if differ is None and draw(st.integers(0, 7)) == 0:
        # a member that also depends on a covariance input: the pobs format has no place for it (refused, never dropped)
        cp = draw(gen.cov_part(draw(gen.cov_pool(1)), 1.0))
        if cp:
            k = draw(st.integers(0, n - 1))
            obs[k] = {'chains': obs[k]['chains'], 'cov': cp}
            differ = 'with_cov'
    spec = {'obs': obs, 'differ': differ}
    spec.update(draw(io_options(obs, POBS_MODES, open_ids, pobs=True)))
    if differ == 'excluded':
        spec['excluded'] = spec['excluded'] + [F_POBS]
        spec['differ'] = None
    return spec


# ---------------------------------------------------------------------------------------------- documented name rule
def stripped(name):
    return name.replace('|', '')


def reinsert(s, mode, enstag=None):
    """Name the reader documents for the stored (separator-free) replica name s."""
    if mode is None or mode is False:
        return s
    if mode is True:
        if enstag is not None and s.startswith(enstag):
            return s[:len(enstag)] + '|' + s[len(enstag):]
        return s
    if isinstance(mode, int):
        return s[:mode] + '|' + s[mode:]
    return s.replace(mode, '|' + mode)


# ---------------------------------------------------------------------------------------------- building
def build_list(spec):
    prim = [build_obs(o) for o in spec['obs']]
    out = []
    for i, (o, t) in enumerate(zip(prim, spec.get('tf') or [None] * len(prim))):
        if t == 'sq':
            o = o * o
        elif t == 'sin':
            o = np.sin(o)
        elif t == 'mulprev':
            o = o * prim[i - 1]
        out.append(o)
    return out


def mc_chains(o):
    return [n for n in o.names if n not in o.covobs]


def marker_hits(o):
    """(samples whose fluctuation about the central value is exactly 0, samples that are exactly 0):
    the two input classes of the findings F-C12-4 / F-C12-1, evaluated in the arithmetic of the format
    (stored number = fluctuation + (replica mean - central value); sample = stored number + central value)."""
    at_value, at_zero = 0, 0
    for n in mc_chains(o):
        num = np.asarray(o.deltas[n], dtype=float) + (o.r_values[n] - o.value)
        at_value += int(np.sum(num == 0))
        at_zero += int(np.sum((num != 0) & (num + o.value == 0)))
    return at_value, at_zero


def magnitude(o, n):
    return abs(float(o.value)) + abs(float(o.r_values[n])) + float(np.max(np.abs(o.deltas[n]), initial=0.0))


def data_tol(o, n):
    """Tolerance for fluctuations and replica mean of chain n.  Both formats store samples (fluctuation + offset) and the
    readers take a new replica mean of them, so the rounding-level mean of the exported fluctuations (inherited from
    the primary data, whose magnitude a derived observable no longer shows) is legitimately moved from the
    fluctuations into the replica mean."""
    d = np.asarray(o.deltas[n], dtype=float)
    return TOL_DATA * magnitude(o, n) + (abs(float(np.mean(d))) if len(d) else 0.0)


# ---------------------------------------------------------------------------------------------- comparison
def compare(o, r, what, namemap, exact_value, check_cov=True):
    """o exported, r imported; namemap: original chain name -> expected chain name."""
    import pyerrors as pe
    require(isinstance(r, pe.Obs), what + ': imported object is %s, not an Obs' % type(r).__name__)
    mc = mc_chains(o)
    M = max([magnitude(o, n) for n in mc] + [abs(float(o.value))])
    if exact_value:
        require(float(r.value) == float(o.value), what + ': central value %r, exported %r' % (r.value, o.value))
    else:
        require(abs(float(r.value) - float(o.value)) <= max([TOL_DATA * M] + [data_tol(o, n) for n in mc]), what + ': central value %r, exported %r' % (r.value, o.value))
    want = sorted(namemap[n] for n in mc)
    got = sorted(mc_chains(r))
    require(got == want, what + ': Monte-Carlo chains %r, expected %r (exported %r)' % (got, want, sorted(mc)))
    require(sorted(r.mc_names) == sorted(set(w.split('|')[0] for w in want)), what + ': mc_names %r do not belong to the chains %r' % (r.mc_names, want))
    for n in mc:
        m = namemap[n]
        a, b = [int(c) for c in o.idl[n]], [int(c) for c in r.idl[m]]
        if a != b:
            raise Violation(what + ': configuration list of %s (exported as %s) has %d entries, exported %d; lost %r, unexpected %r'
                            % (m, n, len(b), len(a), sorted(set(a) - set(b))[:6], sorted(set(b) - set(a))[:6]))
        require(r.shape[m] == len(a), what + ': shape[%s] = %r, expected %d' % (m, r.shape[m], len(a)))
        da, db = np.asarray(o.deltas[n], dtype=float), np.asarray(r.deltas[m], dtype=float)
        require(da.shape == db.shape, what + ': fluctuation array of %s has shape %r, expected %r' % (m, db.shape, da.shape))
        tol = data_tol(o, n)
        bad = np.where(~(np.abs(da - db) <= tol))[0]
        if len(bad):
            i = int(bad[0])
            raise Violation(what + ': fluctuation of %s at configuration %d is %r, exported %r (%d of %d entries differ, tolerance %.3g)'
                            % (m, a[i], float(db[i]), float(da[i]), len(bad), len(da), tol))
        require(abs(float(r.r_values[m]) - float(o.r_values[n])) <= tol,
                what + ': replica mean of %s is %r, exported %r' % (m, r.r_values[m], o.r_values[n]))
    if not check_cov:
        return
    cw = sorted(k for k, v in o.covobs.items() if np.any(np.asarray(v.grad) != 0))
    require(sorted(r.covobs) == cw, what + ': covariance inputs %r, expected %r' % (sorted(r.covobs), cw))
    require(sorted(n for n in r.names if n in r.covobs) == cw, what + ': covariance inputs are not listed in names', r.names, cw)
    for k in cw:
        ca, cb = np.asarray(o.covobs[k].cov, dtype=float), np.asarray(r.covobs[k].cov, dtype=float)
        require(ca.shape == cb.shape and bool(np.all(np.abs(ca - cb) <= TOL_COV * np.abs(ca))),
                what + ': covariance matrix of %s is %r, exported %r' % (k, cb.tolist(), ca.tolist()))
        ga, gb = np.asarray(o.covobs[k].grad, dtype=float), np.asarray(r.covobs[k].grad, dtype=float)
        require(ga.shape == gb.shape and bool(np.all(np.abs(ga - gb) <= TOL_COV * np.abs(ga))),
                what + ': gradient w.r.t. covariance input %s is %r, exported %r' % (k, gb.ravel().tolist(), ga.ravel().tolist()))


def compare_analysis(ol, rl, labs):
    """A subsequent error analysis of the imported objects equals that of the originals (names restored)."""
    for i, (o, r) in enumerate(zip(ol, rl)):
        what = 'observable %d' % i
        mc = mc_chains(o)
        eps = 0.0
        for n in mc:
            md = float(np.max(np.abs(o.deltas[n]), initial=0.0))
            eps = max(eps, np.inf if md == 0 else data_tol(o, n) / md)
        if eps > 1e-7:
            labs.add('analysis:rounding_limited')
            continue
        e1 = e2 = None
        try:
            o.gamma_method()
        except Exception as e:
            e1 = e
        try:
            r.gamma_method()
        except Exception as e:
            e2 = e
        if e1 is not None or e2 is not None:
            require(e1 is not None and e2 is not None and type(e1) is type(e2),
                    what + ': gamma_method raises on one side only: exported %r, imported %r' % (e1, e2))
            labs.add('analysis:undefined')
            continue
        require(sorted(o.e_windowsize) == sorted(r.e_windowsize), what + ': analysed ensembles differ', sorted(o.e_windowsize), sorted(r.e_windowsize))
        if any(o.e_windowsize[e] != r.e_windowsize[e] for e in o.e_windowsize):
            labs.add('analysis:window_tie')
            continue
        rtol = 1e-9 + 1e3 * eps
        for f in ('e_dvalue', 'e_ddvalue', 'e_tauint', 'e_dtauint'):
            for e, v in getattr(o, f).items():
                if e in o.covobs and not np.any(np.asarray(o.covobs[e].grad) != 0):
                    continue   # covariance input with vanishing gradient: equivalent to an absent one
                require(e in getattr(r, f), what + ': %s[%s] missing after import' % (f, e))
                w = getattr(r, f)[e]
                require(abs(v - w) <= rtol * max(abs(v), abs(w)) + 1e-300, what + ': %s[%s] of the imported object is %r, of the exported %r' % (f, e, w, v))
        for f in ('dvalue', 'ddvalue'):
            v, w = getattr(o, f), getattr(r, f)
            require(abs(v - w) <= rtol * max(abs(v), abs(w)) + 1e-300, what + ': %s of the imported object is %r, of the exported %r' % (f, w, v))
        labs.add('analysis:compared')


# ---------------------------------------------------------------------------------------------- dobs oracle
STEMS = ['f', 'f', 'obs_b3.85_k0.1366', 'run2.v1']


def _stem(spec):
    # file names whose last component contains dots (a pure function of the spec)
    return STEMS[int(spec_hash({k: v for k, v in spec.items() if k != 'excluded'}), 16) % len(STEMS)]


def _fname(d, spec):
    return os.path.join(d, _stem(spec) + spec['ext'])


def dobs_roundtrip(ol, spec, d):
    import pyerrors.input.dobs as dio
    kw = {}
    if spec.get('symbol'):
        kw['symbol'] = ['o%d' % i for i in range(len(ol))]
    if spec.get('enstags'):
        kw['enstags'] = dict(spec['enstags'])
    tr = spec['transport']
    rkw = {'full_output': bool(spec['full']), 'separator_insertion': spec['mode']}
    if tr in ('bytes', 'str'):
        s = dio.create_dobs_string(ol, 'obsname', **kw)
        require(isinstance(s, str), 'create_dobs_string returned %s' % type(s).__name__)
        res = dio.import_dobs_string(s.encode('utf-8') if tr == 'bytes' else s, **rkw)
    else:
        gz = tr == 'gz'
        dio.write_dobs(ol, _fname(d, spec), 'obsname', gz=gz, **kw)
        files = sorted(os.listdir(d))
        require(files == [_stem(spec) + ('.xml.gz' if gz else '.xml')], 'write_dobs(%r, gz=%r) created %r' % (_stem(spec) + spec['ext'], gz, files))
        res = dio.read_dobs(_fname(d, spec), gz=gz, **rkw)
    if spec['full']:
        require(isinstance(res, dict) and 'obsdata' in res, 'full_output=True did not return a dictionary with obsdata')
        res = res['obsdata']
    return res


def layout_labels(spec, ol):
    labs = set(gen.relation_labels([o for o in spec['obs'] if o['chains']])) if len(spec['obs']) > 1 else set()
    for o in spec['obs']:
        for c in o['chains']:
            labs.add('idl:' + gen.classify_idl(c['idl']))
            labs.add('data:' + c['data']['kind'])
            if c['name'] == c['name'].split('|')[0]:
                labs.add('bare_name')
        for cv in o['cov']:
            labs.add('covdim:%d' % len(cv['means']))
        if not o['chains']:
            labs.add('cov_only_member')
    labs.add('nobs:%d' % len(ol))
    labs.add('ens:%d' % len(_enss(spec['obs'])))
    for t in spec.get('tf') or []:
        if t:
            labs.add('derived:' + t)
    m = spec['mode']
    labs.add('mode:' + ('int' if isinstance(m, int) and not isinstance(m, bool) else 'str' if isinstance(m, str) else repr(m)))
    labs.add('transport:' + spec['transport'])
    for f in spec.get('excluded', []):
        labs.add('excluded:' + f)
    return labs


def dobs_oracle(spec):
    ol = build_list(spec)
    excl = spec.get('excl', [])
    nv = nz = 0
    for o in ol:
        a, b = marker_hits(o)
        nv, nz = nv + a, nz + b
    if nv and F_MEAN in excl:
        raise Skip('excluded known finding %s (sample equal to the central value)' % F_MEAN)
    if nz and F_ZERO in excl:
        raise Skip('excluded known finding %s (sample exactly zero)' % F_ZERO)
    d = tempfile.mkdtemp(prefix='c12_')
    try:
        rl = dobs_roundtrip(ol, spec, d)
    finally:
        shutil.rmtree(d, ignore_errors=True)
    require(isinstance(rl, list) and len(rl) == len(ol), 'import returned %d objects for %d exported' % (len(rl) if isinstance(rl, list) else -1, len(ol)))
    tags = spec.get('enstags') or {}
    restored = same_ens = True
    for i, (o, r) in enumerate(zip(ol, rl)):
        nm = {n: reinsert(stripped(n), spec['mode'], tags.get(n.split('|')[0], n.split('|')[0])) for n in mc_chains(o)}
        restored = restored and all(k == v for k, v in nm.items())
        same_ens = same_ens and all(k.split('|')[0] == v.split('|')[0] for k, v in nm.items())
        compare(o, r, 'observable %d of %d' % (i, len(ol)), nm, exact_value=True)
    labs = layout_labels(spec, ol)
    labs.add('names:restored' if restored else 'names:changed_same_ensembles' if same_ens else 'names:changed')
    if nz:
        labs.add('zero_sample')
    if nv:
        labs.add('sample_equals_value')
    if same_ens:
        compare_analysis(ol, rl, labs)
    nt = bool(nz) or any(x in labs for x in ('cfg_nested', 'cfg_overlap', 'cfg_disjoint', 'missing_replica',
                                             'partial_ensembles', 'disjoint_ensembles'))
    return {'nt': nt, 'cls': sorted(labs)}


# ---------------------------------------------------------------------------------------------- pobs oracle
def pobs_oracle(spec):
    import pyerrors.input.dobs as dio
    ol = build_list(spec)
    gz = spec['transport'] == 'gz'
    kw = {'symbol': ['o%d' % i for i in range(len(ol))]} if spec.get('symbol') else {}
    labs = layout_labels(spec, ol)
    differ = spec.get('differ')
    names0 = mc_chains(ol[0])
    nm = {n: reinsert(stripped(n), spec['mode']) for o in ol for n in mc_chains(o)}
    d = tempfile.mkdtemp(prefix='c12_')
    try:
        try:
            dio.write_pobs(ol, _fname(d, spec), 'obsname', gz=gz, **kw)
        except Exception as e:
            if differ:
                # the format holds one configuration column per replica: refusing such a list is a correct answer
                labs.add('differ:%s:rejected' % differ)
                return {'nt': True, 'cls': sorted(labs)}
            raise Violation('write_pobs raised %s: %s on a list of primary observables with identical chains' % (type(e).__name__, e))
        files = sorted(os.listdir(d))
        require(files == [_stem(spec) + ('.xml.gz' if gz else '.xml')], 'write_pobs(%r, gz=%r) created %r' % (_stem(spec) + spec['ext'], gz, files))
        multi = len(set(v.split('|')[0] for v in (nm[n] for n in names0))) > 1
        try:
            res = dio.read_pobs(_fname(d, spec), full_output=bool(spec['full']), gz=gz, separator_insertion=spec['mode'])
        except Exception:
            if multi:      # a pobs file holds one ensemble; the refusal is identified by the layout, not by its wording
                labs.add('renamed_into_several_ensembles:raises')
                return {'nt': False, 'cls': sorted(labs)}
            raise
    finally:
        shutil.rmtree(d, ignore_errors=True)
    if spec['full']:
        require(isinstance(res, dict) and 'obsdata' in res, 'full_output=True did not return a dictionary with obsdata')
        res = res['obsdata']
    require(isinstance(res, list) and len(res) == len(ol), 'read_pobs returned %d objects for %d exported' % (len(res) if isinstance(res, list) else -1, len(ol)))
    restored = same_ens = True
    for i, (o, r) in enumerate(zip(ol, res)):
        nmi = {n: nm[n] for n in mc_chains(o)}
        restored = restored and all(k == v for k, v in nmi.items())
        same_ens = same_ens and all(k.split('|')[0] == v.split('|')[0] for k, v in nmi.items())
        require(not o.covobs, 'observable %d of %d depends on the covariance inputs %r; write_pobs accepted it and read_pobs returns it without them'
                % (i, len(ol), sorted(o.covobs)))
        compare(o, r, 'observable %d of %d' % (i, len(ol)), nmi, exact_value=False, check_cov=False)
        require(not r.covobs, 'observable %d: covariance inputs appear in a pobs import' % i, sorted(r.covobs))
    labs.add('names:restored' if restored else 'names:changed_same_ensembles' if same_ens else 'names:changed')
    if differ:
        labs.add('differ:%s:reproduced' % differ)
    if same_ens:
        compare_analysis(ol, res, labs)
    nt = len(ol) > 1 or len(names0) > 1 or 'idl:contig' not in labs or len(labs & {'idl:strided', 'idl:irregular', 'idl:irregular_rangelike'}) > 0
    return {'nt': nt, 'cls': sorted(labs)}


# ---------------------------------------------------------------------------------------------- clashing covariance inputs
# Two members of one list carry a covariance input of the same name with different matrices.  The format stores one matrix
# per name: the export either refuses the list or every member comes back with its own matrix - never with another one's.

@st.composite
def covclash_case(draw, tier):
    dim = draw(st.integers(1, 3))

    def mat():
        B = [[draw(gen.fl(-1, 1)) for _ in range(dim)] for _ in range(dim)]
        return [[sum(B[r][k] * B[c][k] for k in range(dim)) + (0.05 if r == c else 0.0) for c in range(dim)] for r in range(dim)]
    c1 = mat()
    how = draw(st.sampled_from(['scaled', 'other', 'same']))
    if how == 'scaled':
        f = draw(st.sampled_from([1.0 + 1e-6, 1.5, 4.0, 9.0, 0.25]))
        c2 = [[v * f for v in row] for row in c1]
    elif how == 'other':
        c2 = mat()
    else:
        c2 = [list(r) for r in c1]
    members = []
    for i in range(draw(st.integers(2, 3))):
        m = {'grad': [draw(st.one_of(gen.fl(0.2, 2), gen.fl(-2, -0.2))) for _ in range(dim)], 'mean': draw(gen.fl(-3, 3)),
             'mc': draw(st.sampled_from([None, 'A', 'A', 'B'])), 'n': draw(st.integers(8, 20)), 'seed': draw(st.integers(0, 10 ** 6))}
        members.append(m)
    which = draw(st.integers(1, len(members) - 1))      # first member that carries the second matrix
    return {'dim': dim, 'c1': c1, 'c2': c2, 'how': how, 'members': members, 'which': which,
            'transport': draw(st.sampled_from(['str', 'file', 'gz'])), 'name': draw(st.sampled_from(['sys', 'scale', 'Z_A']))}


def covclash_oracle(spec):
    import pyerrors as pe
    import pyerrors.input.dobs as dio
    dim = spec['dim']
    ol, mats = [], []
    for i, m in enumerate(spec['members']):
        C = np.array(spec['c2'] if i >= spec['which'] else spec['c1'])
        parts = pe.cov_Obs([m['mean']] + [0.0] * (dim - 1), C, spec['name']) if dim > 1 else [pe.cov_Obs(m['mean'], C[0][0], spec['name'])]
        o = None
        for g, p in zip(m['grad'], parts):
            o = g * p if o is None else o + g * p
        if m['mc']:
            rng = np.random.RandomState(m['seed'])
            o = o + pe.Obs([rng.normal(1.0, 0.3, m['n'])], [m['mc'] + '|r1'])
        ol.append(o)
        mats.append(C)
    clash = not np.allclose(spec['c1'], spec['c2'], rtol=1e-14, atol=0)
    d = tempfile.mkdtemp(prefix='c12_')
    try:
        try:
            if spec['transport'] == 'str':
                rl = dio.import_dobs_string(dio.create_dobs_string(ol, 'obsname'))
            else:
                gz = spec['transport'] == 'gz'
                dio.write_dobs(ol, os.path.join(d, 'f'), 'obsname', gz=gz)
                rl = dio.read_dobs(os.path.join(d, 'f'), gz=gz)
        except Exception as e:
            if clash:
                return {'nt': True, 'cls': ['clash:%s:rejected' % spec['how']]}
            raise Violation('export / import of observables that share one covariance input raised %s: %s' % (type(e).__name__, e))
    finally:
        shutil.rmtree(d, ignore_errors=True)
    require(isinstance(rl, list) and len(rl) == len(ol), 'import returned %r objects for %d exported' % (len(rl) if isinstance(rl, list) else None, len(ol)))
    for i, (o, r, C) in enumerate(zip(ol, rl, mats)):
        what = 'member %d of a list whose members %s one covariance matrix for %r' % (i, 'do not share' if clash else 'share', spec['name'])
        require(spec['name'] in r.covobs, what + ': covariance input missing after the round trip', sorted(r.covobs))
        co = r.covobs[spec['name']]
        require(np.asarray(co.cov).shape == C.shape and np.allclose(co.cov, C, rtol=1e-12, atol=0),
                what + ': came back with the covariance matrix %r, it was exported with %r' % (np.asarray(co.cov).tolist(), C.tolist()))
        g0 = np.asarray(o.covobs[spec['name']].grad, dtype=float).ravel()
        g1 = np.asarray(co.grad, dtype=float).ravel()
        require(g0.shape == g1.shape and np.allclose(g0, g1, rtol=1e-12, atol=1e-15), what + ': gradient %r, exported %r' % (g1.tolist(), g0.tolist()))
        require(abs(r.value - o.value) <= 1e-14 * max(1.0, abs(o.value)), what + ': central value %r, exported %r' % (r.value, o.value))
    return {'nt': True, 'cls': ['clash:%s:%s' % (spec['how'], 'accepted' if clash else 'consistent'), 'dim:%d' % dim]}


SUBS = [
    Sub('dobs', dobs_case, dobs_oracle, {'quick': 200, 'thorough': 3000}, {'quick': 10, 'thorough': 16},
        doc='dobs round trip: differing layouts, covariance inputs, all transports and separator modes; analysis identical',
        max_skip_frac=0.5),
    Sub('zeros', zeros_case, dobs_oracle, {'quick': 200, 'thorough': 3000}, {'quick': 3, 'thorough': 8},
        doc='dobs round trip of integer-valued data with exact zeros / samples equal to the mean / constant chains',
        max_skip_frac=1.0),
    Sub('pobs', pobs_case, pobs_oracle, {'quick': 200, 'thorough': 3000}, {'quick': 3, 'thorough': 8},
        doc='pobs round trip of primary single-ensemble lists; lists with deviating chains are rejected or reproduced'),
    Sub('covclash', covclash_case, covclash_oracle, {'quick': 150, 'thorough': 2000}, {'quick': 1, 'thorough': 4},
        doc='members of one list carrying a covariance input of one name with different matrices: refused, or every member '
            'comes back with its own matrix; with one common matrix the round trip is exact'),
]
