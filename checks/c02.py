"""C02  Gamma-method error estimate equals Wolff's estimator on every chain layout.

Sub-properties
  gamma   every e_* result of gamma_method against ref_gamma (vlib/refgamma.py) for generated layouts,
          data kinds and parameter sources (argument / per-ensemble dictionary / global default); exceptions
          must agree in kind (no common spacing, too short for tau_exp).
  naive   S=0 on a single replica equals std(ddof=1)/sqrt(N) computed with numpy from the raw samples.
"""
import math

import numpy as np
from hypothesis import strategies as st

from vlib import gen
from vlib.build import build_obs, chain_samples
from vlib.core import Sub, Violation, Skip, require
from vlib.refgamma import ref_gamma, min_margin

PROPERTY = 'C02'
LEVEL = 'exploration'
RULE = ('Hypothesis-generated observables (1-3 ensembles x 1-3 replicas; contiguous / strided / irregular configuration '
        'lists on a common grid; white, AR(1), constant, alternating, count-like data; optional covariance inputs) and '
        'analysis parameters S, tau_exp, N_sigma supplied as argument, per-ensemble dictionary entry or global default, '
        'fft on/off. Non-trivial: more than one replica, or a non-contiguous list, or tau_exp>0, or a parameter taken '
        'from a dictionary; distinct = distinct spec hash. Cases whose window decision is an exact tie '
        '(|margin| < 1e-8) are counted as skipped.')
ASSUMPTIONS = ['ref_gamma is written from hep-lat/0306017 and arXiv:1009.5228 and the statement of C02 (vlib/refgamma.py)',
               'exact ties of the windowing criterion are not judged',
               'tolerances: 1e-9 relative on errors and tau_int, 1e-9 absolute on rho (normalised to 1)']

TIE = 1e-8


@st.composite
def params(draw, enss, allow_texp=True):
    """Analysis parameters with their sources.  Returns dict usable by apply_params."""
    out = {}
    for name, strat, zero_ok in (('S', st.one_of(gen.fl(0.3, 6.0), st.sampled_from([1.0, 1.5, 2.0, 3, 0, 0.0]),
                                                  st.sampled_from([1e-3, 1e-9, 1e-12, 1e-200])), True),
                                 ('tau_exp', st.one_of(st.just(0.0), st.just(0.0), gen.fl(0.1, 20.0), st.sampled_from([1, 5.0])), True),
                                 ('N_sigma', st.one_of(gen.fl(0.0, 3.0), st.sampled_from([1.0, 2, 0.0])), True)):
        src = draw(st.sampled_from(['default', 'default', 'arg', 'dict', 'global']))
        ent = {'src': src}
        if name == 'tau_exp' and not allow_texp:
            ent = {'src': 'default'}
            src = 'default'
        if src == 'arg':
            ent['value'] = draw(strat)
        elif src == 'global':
            ent['value'] = draw(strat)
        elif src == 'dict':
            sub = draw(st.lists(st.sampled_from(sorted(enss)), min_size=1, max_size=len(enss), unique=True))
            ent['dict'] = {e: draw(strat) for e in sorted(sub)}
            if draw(st.booleans()):
                ent['value'] = draw(strat)   # global set as well: the dictionary must win
        out[name] = ent
    out['fft'] = draw(st.sampled_from([True, True, False, None]))
    return out


DEFAULTS = {'S': 2.0, 'tau_exp': 0.0, 'N_sigma': 1.0}


def apply_params(pe, par, enss):
    """Sets class-level state, returns (kwargs for gamma_method, effective {param: {ens: value}})."""
    kw = {}
    eff = {}
    for name in ('S', 'tau_exp', 'N_sigma'):
        ent = par[name]
        glob = DEFAULTS[name]
        if ent['src'] in ('global', 'dict') and 'value' in ent:
            setattr(pe.Obs, name + '_global', ent['value'])
            glob = ent['value']
        d = {}
        if ent['src'] == 'dict':
            d = dict(ent['dict'])
            setattr(pe.Obs, name + '_dict', dict(d))
        if ent['src'] == 'arg':
            kw[name] = ent['value']
            eff[name] = {e: ent['value'] for e in enss}
        else:
            eff[name] = {e: d.get(e, glob) for e in enss}
    if par.get('fft') is not None:
        kw['fft'] = par['fft']
    return kw, eff


@st.composite
def gamma_case(draw, tier):
    nmax = 40 if tier == 'quick' else 300
    if draw(st.integers(0, 7)) == 0:
        # many short replicas of one ensemble: N is large compared with the largest admissible lag, so that the windowing
        # criterion of mildly autocorrelated data stays positive at every lag and the window has to be that largest lag
        e = draw(st.sampled_from(gen.ENSEMBLES))
        chains = []
        for k in range(3):
            n = draw(st.integers(6, 11))
            i0 = draw(st.integers(1, 50))
            chains.append({'name': '%s|r%02d' % (e, k + 1), 'idl': list(range(i0, i0 + n)), 'form': draw(gen.idl_form()),
                           'data': {'kind': 'ar1', 'seed': draw(st.integers(0, 2 ** 31 - 1)), 'mean': draw(gen.fl(-2.0, 2.0)),
                                    'sigma': draw(gen.fl(0.1, 1.0)), 'rho': draw(gen.fl(0.2, 0.8))}})
        spec = {'chains': chains, 'cov': []}
    else:
        spec = draw(gen.obs_spec(ens_max=3, rep_max=3, nmin=5, nmax=nmax, sigma=gen.fl(0.01, 2.0)))
    enss = sorted(set(c['name'].split('|')[0] for c in spec['chains']))
    if draw(st.integers(0, 3)) == 0:
        # whole ensembles at another order of magnitude: the estimator is scale covariant, absolute thresholds are not
        for e in enss:
            k = draw(st.integers(-30, 30))
            for c in spec['chains']:
                if c['name'].split('|')[0] == e:
                    c['data'] = dict(c['data'], scale=10.0 ** k)
    return {'obs': spec, 'par': draw(params(enss))}


def raw_chains(spec):
    ch = {}
    for c in spec['chains']:
        x = chain_samples(c)
        m = math.fsum(x) / len(x)
        ch[c['name']] = (list(c['idl']), np.array([v - m for v in x]))
    return ch


def close(a, b, rtol=1e-9, atol=0.0):
    return abs(a - b) <= atol + rtol * max(abs(a), abs(b))


def compare_analysis(o, per, dv, ddv, what=''):
    pre = what + ': ' if what else ''
    for e, r in per.items():
        if r.get('undefined'):
            continue
        for key, attr in (('dvalue', 'e_dvalue'), ('ddvalue', 'e_ddvalue'), ('tauint', 'e_tauint'), ('dtauint', 'e_dtauint')):
            got = getattr(o, attr).get(e)
            require(got is not None, pre + '%s[%s] missing' % (attr, e))
            require(close(float(got), r[key], 1e-9, 1e-300), pre + '%s[%s] = %r, Gamma-method reference %r (window ref %d, got %r; N=%d, w_max=%d)'
                    % (attr, e, float(got), r[key], r['window'], o.e_windowsize.get(e), r['N'], r['wmax']))
        require(int(o.e_windowsize[e]) == r['window'], pre + 'window of %s is %r, reference %d' % (e, o.e_windowsize[e], r['window']))
        rho = np.asarray(o.e_rho[e], dtype=float)
        require(len(rho) == r['wmax'], pre + 'length of e_rho[%s] is %d, largest admissible lag is %d' % (e, len(rho), r['wmax']))
        if not r.get('degenerate'):
            ref_rho = np.array(r['rho'])
            bad = np.where(~(np.abs(rho - ref_rho) <= 1e-9))[0]
            require(len(bad) == 0, pre + 'rho[%s] differs at lag %s: %r vs reference %r'
                    % (e, bad[:3].tolist(), rho[bad[:3]].tolist(), ref_rho[bad[:3]].tolist()))
            dr = np.asarray(o.e_drho[e], dtype=float)
            for lag, v in r['drho'].items():
                require(close(float(dr[lag]), v, 1e-8, 1e-12), pre + 'drho[%s][%d] = %r, reference %r' % (e, lag, float(dr[lag]), v))
    require(close(float(o.dvalue), dv, 1e-9, 1e-300), pre + 'dvalue = %r, reference %r' % (float(o.dvalue), dv))
    require(close(float(o.ddvalue), ddv, 1e-9, 1e-300), pre + 'ddvalue = %r, reference %r' % (float(o.ddvalue), ddv))


def gamma_oracle(spec):
    import pyerrors as pe
    o = build_obs(spec['obs'])
    chains = raw_chains(spec['obs'])
    enss = sorted(set(n.split('|')[0] for n in chains))
    kw, eff = apply_params(pe, spec['par'], enss)
    covparts = [(cv['cov'], cv['grad']) for cv in spec['obs'].get('cov', [])]
    # ensembles whose fluctuations are pure rounding noise of `sample - mean` (constant data): the
    # estimate must be zero at rounding level, nothing else is defined (not even whether a length
    # requirement is enforced, since the library skips ensembles with exactly vanishing variance)
    noise = {}
    scale = {}
    for c in spec['obs']['chains']:
        e = c['name'].split('|')[0]
        x = chain_samples(c)
        sc = float(np.max(np.abs(x)))
        scale[e] = max(scale.get(e, 0.0), sc)
        noise[e] = noise.get(e, True) and float(np.max(np.abs(chains[c['name']][1]))) <= 1e-13 * sc
    has_noise = any(noise.values())
    ref_exc = None
    try:
        per, dv, ddv = ref_gamma(chains, covparts, eff['S'], eff['tau_exp'], eff['N_sigma'])
    except ValueError as e:
        ref_exc = e
    try:
        o.gamma_method(**kw)
    except Exception as e:
        if ref_exc is None:
            if has_noise and isinstance(e, ValueError):
                raise Skip('constant data: length requirement')
            raise Violation('gamma_method raised %s: %s although the analysis is defined' % (type(e).__name__, e))
        return {'nt': True, 'cls': ['exception:' + str(ref_exc)[:30]]}
    if ref_exc is not None:
        if has_noise:
            raise Skip('constant data: length requirement')
        raise Violation('gamma_method returned although the reference rejects the layout: %s' % ref_exc)
    if any(min_margin(r) < TIE for r in per.values()):
        raise Skip('near-tie of the windowing criterion')
    if has_noise:
        for e in noise:
            if noise[e]:
                require(float(o.e_dvalue[e]) <= 1e-12 * scale[e], 'error of constant data on %s is not zero at rounding level' % e, o.e_dvalue[e])
        return {'nt': False, 'cls': ['constant_data']}
    compare_analysis(o, per, dv, ddv)
    for cv in spec['obs'].get('cov', []):
        g = np.array(cv['grad']).reshape(-1, 1)
        want = math.sqrt(float((g.T @ np.array(cv['cov']) @ g).item()))
        require(close(float(o.e_dvalue[cv['name']]), want, 1e-10, 1e-300), 'e_dvalue of covariance input %s' % cv['name'],
                o.e_dvalue[cv['name']], want)
    labs = set()
    nt = False
    for c in spec['obs']['chains']:
        k = gen.classify_idl(c['idl'])
        labs.add('idl:' + k)
        labs.add('data:' + c['data']['kind'])
        if k != 'contig':
            nt = True
    reps = {}
    for n in chains:
        reps.setdefault(n.split('|')[0], []).append(n)
    if any(len(v) > 1 for v in reps.values()):
        nt = True
        labs.add('multi_replica')
    if len(reps) > 1:
        labs.add('multi_ensemble')
    for name in ('S', 'tau_exp', 'N_sigma'):
        labs.add('%s:%s' % (name, spec['par'][name]['src']))
        if spec['par'][name]['src'] == 'dict':
            nt = True
    if any(v > 0 for v in eff['tau_exp'].values()):
        nt = True
        labs.add('tau_exp>0')
    if any(v == 0 for v in eff['S'].values()):
        labs.add('S=0')
    if any(0 < v < 1e-2 for v in eff['S'].values()):
        labs.add('S:tiny')
    for e, r in per.items():
        if not r.get('undefined') and not r.get('degenerate'):
            lim = (r['wmax'] - 1) if eff['tau_exp'][e] == 0 else (r['wmax'] // 2 - 2)
            labs.add('window:' + ('at_limit' if r['window'] >= lim else 'interior'))
            if eff['tau_exp'][e] == 0 and eff['S'][e] > 0 and r['window'] >= 2 and all(m >= 0 for m in r.get('margins', [])):
                labs.add('window:criterion_never_negative')
        if r.get('degenerate'):
            labs.add('zero_variance')
    labs.add('fft:%s' % spec['par'].get('fft'))
    sc = [c['data'].get('scale') for c in spec['obs']['chains'] if c['data'].get('scale') is not None]
    if sc:
        nt = True
        labs.add('scaled:' + ('tiny' if min(sc) < 1e-12 else 'huge' if max(sc) > 1e12 else 'moderate'))
    if covparts:
        labs.add('with_cov')
    return {'nt': nt, 'cls': sorted(labs)}


@st.composite
def naive_case(draw, tier):
    nmax = 60 if tier == 'quick' else 500
    e = draw(st.sampled_from(gen.ENSEMBLES))
    chains = draw(gen.single_ensemble_chains(e, 5, nmax, rep_max=1))
    return {'obs': {'chains': chains, 'cov': []}, 'how': draw(st.sampled_from(['arg', 'global', 'dict']))}


def naive_oracle(spec):
    import pyerrors as pe
    o = build_obs(spec['obs'])
    c = spec['obs']['chains'][0]
    x = chain_samples(c)
    if spec['how'] == 'arg':
        o.gamma_method(S=0)
    elif spec['how'] == 'global':
        pe.Obs.S_global = 0
        o.gamma_method()
    else:
        pe.Obs.S_dict[c['name'].split('|')[0]] = 0.0
        o.gamma_method()
    want = float(np.std(x, ddof=1) / np.sqrt(len(x)))
    scale = float(np.max(np.abs(x)))
    require(abs(float(o.dvalue) - want) <= 1e-9 * want + 1e-13 * scale, 'S=0 error is not the standard error of the mean',
            float(o.dvalue), want)
    e = c['name'].split('|')[0]
    require(o.e_tauint[e] == 0.5 and o.e_dtauint[e] == 0.0 and o.e_windowsize[e] == 0, 'S=0 must give tau_int=1/2, window 0',
            o.e_tauint[e], o.e_windowsize[e])
    k = gen.classify_idl(c['idl'])
    return {'nt': k != 'contig', 'cls': ['idl:' + k, 'how:' + spec['how'], 'data:' + c['data']['kind']]}


SUBS = [
    Sub('gamma', gamma_case, gamma_oracle, {'quick': 800, 'thorough': 6000}, {'quick': 12, 'thorough': 16},
        doc='all e_* results vs ref_gamma', max_skip_frac=0.3),
    Sub('naive', naive_case, naive_oracle, {'quick': 500, 'thorough': 3000}, {'quick': 2, 'thorough': 4},
        doc='S=0 equals the naive standard error (numpy)'),
]
