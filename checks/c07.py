"""C07  Linear least-squares fits reproduce the closed-form GLS estimator.

Sub-properties
  gls      least_squares with the default minimiser (Levenberg-Marquardt) on generated linear-basis models
           (1-4 parameters, 1-2 abscissa dimensions, 1-3 data sets sharing parameters, plain and dictionary call
           form), data on related layouts of one or several ensembles (cross- and autocorrelated, optional
           covariance inputs), priors as list / dict of 'value(err)' strings and Obs, correlated_fit off / estimated
           covariance / supplied inverse Cholesky factor, autograd and num_grad.  Every fit parameter is judged in
           value, in every per-configuration fluctuation and in every covariance-input gradient against
           p = (A^T W A + P)^-1 (A^T W y + P pi) propagated with RefObs.combine; chisquare, dof, chisquare/dof,
           p-value, Hotelling t2 p-value and chisquare/expected chisquare are recomputed from their definitions.
  methods  the same oracle for migrad, Nelder-Mead and Powell (values within the accuracy the stopping rule of
           the minimiser promises, fluctuations exact because the Hessian of a linear model does not depend on p).
  perm     the same fit with permuted data points (per data set), permuted insertion order of the x / y / func /
           prior dictionaries: both fits obey the oracle and agree with each other.
  corrfit  Corr.fit: inclusive fit range (argument, prange or all timeslices), undefined timeslices skipped,
           result equals the GLS solution on exactly those timeslices; the options of the fit requested through
           Corr.fit (priors as list / dict of strings and Obs on any parameter subset in about 40 % of the cases,
           correlated_fit, method, expected_chisquare) are those of the fit: prior rows, dof, chisquare and
           p-values as for least_squares (labels priors:*, prior:*, chiexp:*).
  chain    2-3 fits in one process that are handed identical 'value(err)' prior strings, a parameter of the earlier
           fit being a datum of the later one: each fit's priors are its own independent Gaussian inputs.
"""
import math

import numpy as np
from hypothesis import strategies as st

from vlib import gen
from vlib.build import build_obs
from vlib import findings
from vlib.core import Sub, Skip, Violation, require, spec_hash
from vlib.refobs import RefObs, combine, cmp_obs

PROPERTY = 'C07'
LEVEL = 'exploration'
RULE = ('Hypothesis-generated fits: model f_key(p,x) = sum_j c_j p[i_j] phi_j(x) with phi from '
        '{1, x, x^2, x^3, sin x, exp(-x), x2, x1*x2, x2^2}, 1-4 parameters (every index used by a data set, or '
        'constrained by a prior only), 1-3 data sets, 1-2 abscissa dimensions on jittered grids; data = observables on '
        'subsets of a common layout (1-2 ensembles x 1-2 replicas, identical / nested / overlapping configuration '
        'lists, white / AR(1) / count / listed data, optional shared covariance inputs), optionally mixed linearly '
        'to create strong cross-correlations, analysed with S in {2, 1, 3, 0}, shifted to model + z*error; priors '
        '(string / Obs, list / dict, any subset and insertion order); correlated_fit off / estimated / supplied '
        'lower-triangular factor; minimiser; num_grad; insertion orders of all dictionaries and point permutations. '
        'Corr.fit (sub corrfit): correlators of 4-10 timeslices (some undefined, optional padding) with 1-3 parameter models in '
        '{1, t, exp(-t/4), sin t}, range by argument / prange / default, and the fit options handed through Corr.fit: '
        'priors (list / dict, string / Obs, any subset), correlated_fit, method LM / migrad, expected_chisquare. '
        'Non-trivial: a parameter shared by >= 2 data sets, or a prior, or a correlated fit, or data points on '
        'different ensembles; distinct = distinct spec hash. Cases with cond(A^T W A + P) > 1e6, a non-invertible '
        'estimated correlation matrix, inputs without error or a non-converged minimiser are counted as skipped.')
ASSUMPTIONS = ['errors (dvalue) of data and priors are taken from pyerrors as present when the fit is called (C02 judges them)',
               'RefObs.combine is the statement of C01 (vlib/refobs.py); the inputs are read back with RefObs.from_pe',
               'estimated correlation: Pearson correlation on the common configurations when every data point lives on '
               'one chain (statement of C06), otherwise pyerrors.covariance(correlation=True) is trusted (C06 judges it)',
               'tolerances: fluctuations / gradients 1e-9 relative to the summed term magnitude (1e-6 with num_grad); '
               'values, in units of the GLS parameter error sigma_p = sqrt(diag (A^T W A + P)^-1): Levenberg-Marquardt '
               '1e-6*(1+sqrt(chisquare)) (MINPACK stops on ftol=1e-15, i.e. (dp/sigma_p)^2/chisquare < 1e-15, dp < 3.2e-8 '
               'sqrt(chisquare) sigma_p, plus the rounding of its forward-difference Jacobian; measured maximum over 500 fits '
               '1.4e-7*(1+sqrt(chisquare))); migrad 2e-3 (stopping rule EDM < 0.002*tol*errordef = 1e-7 means dp < 3.2e-4 sigma_p '
               'with an EDM that is itself an estimate; measured maximum 3.7e-4); Nelder-Mead and Powell 1e-4 (chisquare is resolved '
               'to 1e-16 relative, dp ~ 1e-8 sqrt(chisquare) sigma_p; measured maximum 3.3e-7). Reported chisquare equals the '
               'weighted residual norm at the returned parameters to 1e-9; p-values 1e-12 absolute',
               'scipy.stats distributions are trusted']

BASIS1 = ['one', 'x', 'x2', 'x3', 'sin', 'exp']
BASIS2 = ['one', 'x', 'y', 'xy', 'x2', 'sin', 'y2', 'exp']
BASIS_T = ['one', 'x', 'exq', 'sin']      # integer abscissae 0..12 (Corr.fit): exp(-x/4) instead of exp(-x)
KEYS = ['a', 'b', 'c', 'B', 'a10', 'a2', 'Z', 'key_1']
METHOD_NAME = {'LM': 'Levenberg-Marquardt', 'migrad': 'migrad', 'Nelder-Mead': 'Nelder-Mead', 'Powell': 'Powell'}
# value tolerance in units of the GLS parameter error, see ASSUMPTIONS
VTOL = {'LM': 1e-5, 'migrad': 5e-3, 'Nelder-Mead': 5e-3, 'Powell': 5e-3}   # widened after the thorough tier (rare outliers at 2.5e-6 / 1.7e-3)
COND_MAX = 1e6


# ---------------------------------------------------------------------------------------------
# model: numeric design matrix (math) and the function handed to pyerrors (autograd.numpy)

def phi_num(name, pt):
    x = float(pt[0])
    y = float(pt[1]) if len(pt) > 1 else 0.0
    if name == 'one':
        return 1.0
    if name == 'x':
        return x
    if name == 'x2':
        return x * x
    if name == 'x3':
        return x * x * x
    if name == 'sin':
        return math.sin(x)
    if name == 'exp':
        return math.exp(-x)
    if name == 'exq':
        return math.exp(-0.25 * x)
    if name == 'y':
        return y
    if name == 'xy':
        return x * y
    if name == 'y2':
        return y * y
    raise ValueError(name)


def make_func(terms, xdim):
    """f(p, x) = sum_j c_j * p[i_j] * phi_j(x) written the way a user would (autograd.numpy).
    A constant term is the bare parameter when the function has an x-dependent term as well, otherwise it is
    given the shape of x by adding 0*x (as the error message of least_squares recommends)."""
    import autograd.numpy as anp
    bare = any(t[1] != 'one' for t in terms)

    def f(p, x):
        if xdim == 2:
            (x1, x2) = x
        else:
            x1, x2 = x, None
        out = None
        for idx, name, c in terms:
            if name == 'one':
                ph = 1.0 if bare else 1.0 + 0.0 * x1
            elif name == 'x':
                ph = x1
            elif name == 'x2':
                ph = x1 ** 2
            elif name == 'x3':
                ph = x1 ** 3
            elif name == 'sin':
                ph = anp.sin(x1)
            elif name == 'exp':
                ph = anp.exp(-x1)
            elif name == 'exq':
                ph = anp.exp(-0.25 * x1)
            elif name == 'y':
                ph = x2
            elif name == 'xy':
                ph = x1 * x2
            elif name == 'y2':
                ph = x2 * x2
            else:
                raise ValueError(name)
            t = c * p[idx] * ph
            out = t if out is None else out + t
        return out
    return f


def design_row(terms, pt, nparm):
    row = [0.0] * nparm
    for idx, name, c in terms:
        row[idx] += c * phi_num(name, pt)
    return row


# ---------------------------------------------------------------------------------------------
# generators (plain data only)

@st.composite
def abscissae(draw, n, xdim, integer=False):
    lo = draw(gen.fl(0.1, 0.6))
    step = draw(gen.fl(0.25, 0.6))
    x1 = [lo + step * (k + draw(gen.fl(-0.3, 0.3))) for k in range(n)]
    if xdim == 1:
        return [[v] for v in x1]
    x2 = [draw(gen.fl(0.0, 2.0)) for _ in range(n)]
    return [[a, b] for a, b in zip(x1, x2)]


def _cond_unit(sets, nparm):
    rows = [design_row(s['terms'], pt, nparm) for s in sets for pt in s['x']]
    A = np.array(rows)
    H = A.T @ A
    used = np.diag(H) > 0
    if not used.any():
        return float('inf')
    H = H[np.ix_(used, used)]
    try:
        return float(np.linalg.cond(H))
    except Exception:
        return float('inf')


@st.composite
def prior_item(draw, k, tier):
    kind = draw(st.sampled_from(['str', 'str', 'obs']))
    it = {'k': k, 'kind': kind, 'w': draw(gen.fl(0.3, 10.0)), 'z': draw(gen.fl(-2.0, 2.0))}
    if kind == 'str':
        it['errform'] = draw(st.sampled_from(['int', 'int', 'dot']))
    else:
        it['obs'] = draw(gen.obs_spec(ens_max=1, rep_max=1, nmin=6, nmax=20, with_cov=False,
                                      data_kinds=('white', 'ar1', 'count'), sigma=gen.fl(0.2, 1.0)))
        it['S'] = draw(st.sampled_from([2.0, 2.0, 1.0, 0]))
    return it


@st.composite
def family_specs(draw, n, lmin, lmax, ens_max, rep_max, with_cov):
    """n observables on one family of chains (1..ens_max ensembles x 1..rep_max replicas): every observable has the
    full configuration list of a chain or the list with a few configurations removed, so that the estimated
    correlation matrix is positive definite in most cases (needed by correlated fits)."""
    enss = draw(gen.ensemble_names(1, ens_max))
    base = []
    for e in enss:
        reps = draw(gen.replica_names(e, 1, rep_max))
        g = draw(st.sampled_from([1, 1, 2, 3]))
        kinds = ('contig', 'strided', 'irregular') if len(reps) == 1 else ('contig',)
        for r in reps:
            base.append((e, r, draw(gen.idl_list(lmin, lmax, kinds=kinds, gap=g))))
    pool = draw(gen.cov_pool(2)) if with_cov else {}
    out = []
    for i in range(n):
        use = list(enss)
        if len(enss) > 1 and draw(st.integers(0, 2)) == 0:
            use = [draw(st.sampled_from(enss))]
        chains = []
        for e, r, il in base:
            if e not in use:
                continue
            il = list(il)
            if draw(st.integers(0, 4)) == 0:
                for pos in sorted(draw(st.lists(st.integers(1, len(il) - 2), min_size=1, max_size=3, unique=True)), reverse=True):
                    del il[pos]
            chains.append({'name': r, 'idl': il, 'form': draw(gen.idl_form()),
                           'data': draw(gen.recipe(len(il), kinds=('white', 'ar1', 'count'), sigma=gen.fl(0.2, 1.0)))})
        out.append({'chains': chains, 'cov': draw(gen.cov_part(pool, 0.4)) if pool else []})
    return out


def exclude_vanishing_solution(spec):
    """Known finding F-C07-1 (and its siblings 1b, 1c): a correlated fit starts its second minimisation at the solution of the
    uncorrelated fit.  Where that solution has a component that vanishes at rounding level / at the stopping accuracy of the
    first minimisation (a true parameter that is exactly zero, determined by data that lie exactly on the model), the
    step-size heuristics of all three minimiser families are relative to |x| and starve that direction: MINPACK's first step
    bound factor*|D x| (all components zero), scipy's Nelder-Mead initial simplex (5 % of each coordinate), Minuit's initial
    step (10 % of each value).  The start point is returned as the result and reported as converged.  While the finding is
    open, correlated fits are generated with all true parameters of modulus >= 0.05 (label excluded:F-C07-1); the replays in
    known/ probe the excluded class."""
    if spec['correlated'] and findings.is_open('F-C07-1'):
        small = [k for k, v in enumerate(spec['ptrue']) if abs(v) < 0.05]
        if small:
            for k in small:
                spec['ptrue'][k] = (0.3 + 0.1 * k) * (-1.0 if k % 2 else 1.0)
            spec['excluded'] = ['F-C07-1']


@st.composite
def fit_case(draw, tier, methods=('LM',), num_grad_ok=True, force_perm=False):
    xdim = draw(st.sampled_from([1, 1, 2]))
    basis = BASIS1 if xdim == 1 else BASIS2
    nparm = draw(st.integers(1, 4))
    nsets = draw(st.sampled_from([1, 1, 2, 2, 3]))
    keys = draw(st.lists(st.sampled_from(KEYS), min_size=nsets, max_size=nsets, unique=True))
    method = draw(st.sampled_from(list(methods)))
    num_grad = num_grad_ok and draw(st.integers(0, 4)) == 0

    # which parameter enters which data set
    prior_only = None
    if nparm >= 2 and draw(st.integers(0, 9)) == 0:
        prior_only = draw(st.integers(0, nparm - 2))      # the highest index must be used by a function
    data_params = [k for k in range(nparm) if k != prior_only]
    member = []
    for s in range(nsets):
        sub = draw(st.lists(st.sampled_from(data_params), min_size=1, max_size=len(data_params), unique=True))
        member.append(sorted(sub))
    for k in data_params:
        if not any(k in m for m in member):
            i = draw(st.integers(0, nsets - 1))
            member[i] = sorted(member[i] + [k])

    # priors
    pmode = draw(st.sampled_from([None, None, 'dict', 'dict', 'list']))
    if prior_only is not None and pmode is None:
        pmode = 'dict'
    priors = None
    if pmode == 'list':
        priors = {'form': 'list', 'items': [draw(prior_item(k, tier)) for k in range(nparm)]}
    elif pmode == 'dict':
        ks = draw(st.lists(st.integers(0, nparm - 1), min_size=1, max_size=nparm, unique=True))
        if prior_only is not None and prior_only not in ks:
            ks.append(prior_only)
        priors = {'form': 'dict', 'items': [draw(prior_item(k, tier)) for k in ks]}
    npri = len(priors['items']) if priors else 0

    # terms and points
    sets = []
    for s in range(nsets):
        order = draw(st.permutations(basis))
        terms = []
        for j, k in enumerate(member[s]):
            terms.append([k, order[j], draw(st.sampled_from([1.0, 1.0, 1.0, -1.0, 2.0, 0.5]))])
        if len(member[s]) < len(order) and draw(st.integers(0, 4)) == 0:
            terms.append([draw(st.sampled_from(member[s])), order[len(member[s])], draw(st.sampled_from([1.0, -0.5]))])
        npts = max(1, min(6, len(member[s]) + draw(st.sampled_from([-1, 0, 0, 1, 1, 2, 3]))))
        sets.append({'key': keys[s], 'terms': terms, 'n': npts})
    # dof >= 0 (occasionally exactly 0)
    while sum(s['n'] for s in sets) - nparm + npri < 0:
        sets[draw(st.integers(0, nsets - 1))]['n'] += 1
    if sum(s['n'] for s in sets) - nparm + npri == 0 and draw(st.integers(0, 3)) != 0:
        sets[0]['n'] += 1
    for attempt in range(6):
        for s in sets:
            s['x'] = draw(abscissae(s['n'], xdim))
        if _cond_unit(sets, nparm) < 1e3:
            break
    ntot = sum(s['n'] for s in sets)

    correlated = draw(st.sampled_from([None, None, 'estimated', 'estimated', 'supplied']))
    nmax = 30 if tier == 'quick' else 120
    single_chain = correlated == 'estimated' and draw(st.booleans())
    if correlated == 'estimated':
        lmin = max(8, 2 * ntot + 4)
        lmax = max(nmax, lmin + 10)
    else:
        lmin, lmax = 8, nmax
    if single_chain:
        ys = draw(family_specs(ntot, lmin, lmax, 1, 1, False))
    elif correlated == 'estimated' and draw(st.integers(0, 9)) < 7:
        ys = draw(family_specs(ntot, lmin, lmax, 2, 2, draw(st.booleans())))
    else:
        ys = draw(gen.related_obs_specs(ntot, ens_max=2, rep_max=2, lmin=lmin, lmax=lmax,
                                        with_cov=draw(st.booleans()), sigma=gen.fl(0.2, 1.0),
                                        p_same=0.9 if correlated == 'estimated' else 0.35))
    # Hypothesis likes to repeat small seeds; identical recipes would make data points exactly equal (singular correlation)
    cnt = 0
    for sp in ys:
        for ch in sp['chains']:
            if 'seed' in ch['data']:
                cnt += 1
                ch['data']['seed'] = (ch['data']['seed'] * 131 + cnt) % (2 ** 31 - 1)
    mix = []
    if ntot >= 2:
        for _ in range(draw(st.sampled_from([0, 0, 1, 2, 3]))):
            i = draw(st.integers(0, ntot - 1))
            j = draw(st.integers(0, ntot - 2))
            if j >= i:
                j += 1
            mix.append([i, j, draw(st.sampled_from([-0.8, -0.5, -0.2, 0.1, 0.3, 0.6, 0.8]))])
    spec = {
        'xdim': xdim, 'nparm': nparm, 'sets': sets, 'y': ys, 'mix': mix,
        'S': [draw(st.sampled_from([2.0, 2.0, 2.0, 1.0, 3.0, 0])) for _ in range(ntot)],
        'ptrue': [draw(gen.fl(-2.0, 2.0)) for _ in range(nparm)],
        'z': [draw(gen.fl(-2.0, 2.0)) for _ in range(ntot)],
        'zscale': draw(st.sampled_from([1.0, 1.0, 1.0, 1.0, 10.0, 0.0])),
        'priors': priors,
        'correlated': correlated,
        'method': method,
        'num_grad': num_grad,
        'single_call': nsets == 1 and draw(st.booleans()),
        'xform': draw(st.sampled_from(['list', 'array'])),
        'yform': draw(st.sampled_from(['list', 'array'])),
        'order_x': draw(st.permutations(list(range(nsets)))),
        'order_y': draw(st.permutations(list(range(nsets)))),
        'order_f': draw(st.permutations(list(range(nsets)))),
        'expected_chisquare': correlated is None and priors is None and draw(st.booleans()),
        # initial guesses on a grid of tenths: start values like 1e-20 make MINPACK stop at once (step bound
        # proportional to |x0|); that is about the minimiser's start-up, not about this property
        'guess': draw(st.one_of(st.none(), st.none(), st.lists(st.integers(-30, 30).map(lambda i: i / 10.0), min_size=nparm, max_size=nparm))),
        'method_explicit': draw(st.booleans()),
        # eigenvalue smoothing of the estimated correlation matrix (keyword arguments are forwarded to pyerrors.obs.covariance,
        # to which the docstring of correlated_fit refers): E with 2 < E < n - 1
        'smooth': draw(st.integers(3, ntot - 2)) if (correlated == 'estimated' and ntot >= 5 and draw(st.integers(0, 2)) == 0) else None,
    }
    exclude_vanishing_solution(spec)
    if correlated == 'supplied':
        spec['T'] = [[(draw(gen.fl(0.5, 2.0)) if i == j else (draw(gen.fl(-0.5, 0.5)) if j < i else 0.0))
                      for j in range(ntot)] for i in range(ntot)]
    if force_perm:
        spec['perm'] = {
            'points': [draw(st.permutations(list(range(s['n'])))) for s in sets],
            'order_x': draw(st.permutations(list(range(nsets)))),
            'order_y': draw(st.permutations(list(range(nsets)))),
            'order_f': draw(st.permutations(list(range(nsets)))),
            'priors': draw(st.permutations(list(range(npri)))) if priors and priors['form'] == 'dict' else None,
        }
    return spec


# ---------------------------------------------------------------------------------------------
# building the inputs

def analyse(o, S, what):
    try:
        o.gamma_method(S=S)
    except Exception:
        raise Skip('analysis of an input undefined (%s)' % what)
    dv = float(o.dvalue)
    if not (math.isfinite(dv) and dv > 0.0):
        raise Skip('input without error (%s)' % what)
    if not (1e-12 < dv < 1e12):
        # data whose fluctuations are of vanishing (or astronomical) size: the weights 1/dy^2 over- or underflow and the
        # stopping rules of the minimisers (absolute tolerances) decide the result - conditioning, not a property of the fit
        raise Skip('input with an error outside 1e-12 .. 1e12 (%s)' % what)
    return dv


def prior_string(v, dp, form):
    """'value(err)' in the documented notations 0.548(23), 500(40), 0.5(0.4); returns the text and the numbers it denotes."""
    dec = min(12, max(0, 1 - int(math.floor(math.log10(dp)))))
    vt = '%.*f' % (dec, v)
    if form == 'dot' and dec > 0:
        et = '%.*f' % (dec, dp)
    else:
        et = '%d' % int(round(dp * 10 ** dec))
    val = float(vt)
    if '.' in et:
        err = float(et)
    else:
        ndec = len(vt.split('.')[1]) if '.' in vt else 0
        err = int(et) * 10.0 ** (-ndec)
    return vt + '(' + et + ')', val, err


def check_invertible(corr, kind):
    """The estimated correlation matrix of generated data need not be positive definite (partly overlapping
    configuration lists, fewer samples than points); what a correlated fit does then is outside the property."""
    if not np.all(np.isfinite(corr)):
        raise Skip('estimated correlation matrix not finite (%s)' % kind)
    ev = np.linalg.eigvalsh((corr + corr.T) / 2)
    if not (ev[0] > 1e-7 and ev[-1] / ev[0] < 1e8):
        raise Skip('estimated correlation matrix not safely invertible (%s)' % kind)


class Case:
    """Everything of one generated fit that does not depend on the order in which it is handed to pyerrors."""

    def __init__(self, spec):
        import pyerrors as pe
        self.pe = pe
        self.spec = spec
        self.nparm = spec['nparm']
        self.sets = spec['sets']
        self.flat = [(si, pi) for si, s in enumerate(self.sets) for pi in range(s['n'])]
        self.ntot = len(self.flat)
        bs = [build_obs(s) for s in spec['y']]
        ys = list(bs)
        for i, j, c in spec['mix']:
            ys[i] = ys[i] + c * bs[j]
        self.A = np.array([design_row(self.sets[si]['terms'], self.sets[si]['x'][pi], self.nparm) for si, pi in self.flat])
        dy = [analyse(o, S, 'data') for o, S in zip(ys, spec['S'])]
        target = self.A @ np.array(spec['ptrue']) + spec['zscale'] * np.array(spec['z']) * np.array(dy)
        self.ys = []
        for o, S, t in zip(ys, spec['S'], target):
            o2 = o + (float(t) - o.value)
            analyse(o2, S, 'data')
            self.ys.append(o2)
        self.dy = np.array([float(o.dvalue) for o in self.ys])
        self.yv = np.array([float(o.value) for o in self.ys])
        self.yref = [RefObs.from_pe(o) for o in self.ys]
        self.build_priors(spec['priors'], spec['ptrue'], spec)
        # weights in flat order
        self.corr_kind = None
        self.corr = None
        if spec['correlated'] == 'supplied':
            L = np.tril(np.array(spec['T'], dtype=float)) @ np.diag(1.0 / self.dy)
            self.L = L
            self.W = L.T @ L
        elif spec['correlated'] == 'estimated':
            self.corr, self.corr_kind = self.reference_correlation()
            if spec.get('smooth'):
                # hep-lat/9412087 as documented in pyerrors.obs.covariance: eigenvalues below the mean of all but the E largest
                # are raised to that mean, then the spectrum is rescaled to unit mean
                E_ = int(spec['smooth'])
                vals, vec = np.linalg.eigh(self.corr)
                lam = float(np.mean(vals[:-E_]))
                vals = np.where(vals < lam, lam, vals)
                vals = vals / np.mean(vals)
                self.corr = vec @ np.diag(vals) @ vec.T
            check_invertible(self.corr, self.corr_kind)
            cov = np.diag(self.dy) @ self.corr @ np.diag(self.dy)
            self.W = np.linalg.inv(cov)
        else:
            self.W = np.diag(1.0 / self.dy ** 2)

    def build_priors(self, pspec, ptrue, hspec):
        """The prior arguments ('value(err)' strings / observables) of the items of pspec: centred at the true parameter plus
        z times the prior width, the width being w times the error the data alone give to that parameter (column norm)."""
        self.priors = []
        if pspec:
            col = np.sqrt(np.sum((self.A / self.dy[:, None]) ** 2, axis=0))
            for it in pspec['items']:
                k = it['k']
                scale = 1.0 / col[k] if col[k] > 0 else 1.0
                dp = it['w'] * scale
                v = ptrue[k] + it['z'] * dp
                if it['kind'] == 'str':
                    text, pv, pdv = prior_string(v, dp, it['errform'])
                    self.priors.append({'k': k, 'arg': text, 'v': pv, 'dv': pdv, 'ref': None})
                else:
                    o = build_obs(it['obs'])
                    d0 = analyse(o, 2.0, 'prior')
                    po = v + (o - o.value) * (dp / d0)
                    pdv = analyse(po, it['S'], 'prior')
                    self.priors.append({'k': k, 'arg': po, 'v': float(po.value), 'dv': pdv, 'ref': RefObs.from_pe(po)})
            # the same observable *object* as prior of two parameters (every fourth case that has two Obs priors; a pure
            # function of the spec): each prior row has its own sensitivity, the contributions add up
            obs_pri = [q for q in self.priors if q['ref'] is not None]
            if len(obs_pri) >= 2 and int(spec_hash(hspec), 16) % 4 == 0:
                a_, b_ = obs_pri[0], obs_pri[1]
                b_['arg'], b_['v'], b_['dv'], b_['ref'] = a_['arg'], a_['v'], a_['dv'], a_['ref']
                self.same_prior_object = True

    def prior_argument(self, form, order=None):
        """priors= argument: list (one entry per parameter) or dict (insertion order = order of the items / given order)."""
        items = self.priors
        if form == 'list':
            return [it['arg'] for it in sorted(items, key=lambda it: it['k'])]
        order = list(range(len(items))) if order is None else list(order)
        return {items[i]['k']: items[i]['arg'] for i in order}

    def reference_correlation(self):
        n = self.ntot
        if all(len(r.d) == 1 and not r.cg for r in self.yref):
            C = np.eye(n)
            for i in range(n):
                (ni, di), = self.yref[i].d.items()
                for j in range(i):
                    (nj, dj), = self.yref[j].d.items()
                    if ni != nj:
                        continue
                    common = sorted(set(di) & set(dj))
                    if not common:
                        continue
                    a = np.array([di[c] for c in common])
                    b = np.array([dj[c] for c in common])
                    den = math.sqrt(float(a @ a) * float(b @ b))
                    if den > 0:
                        C[i, j] = C[j, i] = float(a @ b) / den
            return C, 'cov:pearson'
        return np.array(self.pe.covariance(self.ys, correlation=True), dtype=float), 'cov:pe'


def call_fit(case, variant=None):
    """Hand the case to least_squares in the order described by the spec (variant = permuted order).
    Returns (Fit_result, sigma) with sigma[r] = flat index of the r-th data point as seen by pyerrors (sorted keys)."""
    pe = case.pe
    spec = case.spec
    sets = case.sets
    nsets = len(sets)
    xdim = spec['xdim']
    pv = spec.get('perm') if variant == 'perm' else None
    pts = [list(pv['points'][si]) if pv else list(range(s['n'])) for si, s in enumerate(sets)]
    off = np.cumsum([0] + [s['n'] for s in sets])
    src = pv if pv else spec

    def xarg(si):
        p = [sets[si]['x'][pi] for pi in pts[si]]
        if xdim == 1:
            v = [q[0] for q in p]
        else:
            v = [[q[0] for q in p], [q[1] for q in p]]
        return np.array(v) if spec['xform'] == 'array' else v

    def yarg(si):
        v = [case.ys[off[si] + pi] for pi in pts[si]]
        if spec['yform'] == 'array':
            a = np.empty(len(v), dtype=object)
            for i, o in enumerate(v):
                a[i] = o
            return a
        return v

    funcs = [make_func([tuple(t) for t in s['terms']], xdim) for s in sets]
    kw = {}
    if spec['method'] != 'LM' or spec.get('method_explicit'):
        kw['method'] = METHOD_NAME[spec['method']]
    if spec['num_grad']:
        kw['num_grad'] = True
    if spec.get('guess') is not None:
        kw['initial_guess'] = list(spec['guess'])
    if spec.get('expected_chisquare'):
        kw['expected_chisquare'] = True

    if spec['single_call']:
        x, y, f = xarg(0), yarg(0), funcs[0]
        key_sorted = [0]
        klist = ['']
    else:
        x = {sets[si]['key']: xarg(si) for si in src['order_x']}
        y = {sets[si]['key']: yarg(si) for si in src['order_y']}
        f = {sets[si]['key']: funcs[si] for si in src['order_f']}
        key_sorted = sorted(range(nsets), key=lambda si: sets[si]['key'])
        klist = [sets[si]['key'] for si in key_sorted]
    sigma = [int(off[si] + pi) for si in key_sorted for pi in pts[si]]

    Wcall = case.W[np.ix_(sigma, sigma)]
    if spec['correlated']:
        kw['correlated_fit'] = True
    if spec.get('smooth'):
        kw['smooth'] = int(spec['smooth'])
    if spec['correlated'] == 'supplied':
        if sigma == list(range(case.ntot)):
            Lc = case.L
        else:
            # the unique lower-triangular factor with positive diagonal of the permuted weight matrix
            Lc = np.tril(np.linalg.inv(np.linalg.cholesky(np.linalg.inv(Wcall))))
        kw['inv_chol_cov_matrix'] = [Lc, klist]
        Wcall = Lc.T @ Lc

    parg = None
    if spec['priors']:
        parg = case.prior_argument(spec['priors']['form'], pv['priors'] if (pv and pv.get('priors') is not None) else None)
    ref = reference(case, sigma, Wcall)          # raises Skip for ill-conditioned normal equations (before fitting)
    try:
        res = pe.least_squares(x, y, f, priors=parg, silent=True, **kw)
    except Exception as e:
        if 'did not converge' in str(e):
            raise Skip('minimiser did not converge (%s)' % spec['method'])
        raise
    if spec['correlated'] == 'supplied' and isinstance(y, dict) and len(klist) > 1:
        # the key list handed over with the factor states the order of its rows; it is documented to be the alphabetical
        # order of the keys - a factor labelled in another order must not be applied to the alphabetically ordered residuals
        bad = list(reversed(klist))
        try:
            pe.least_squares(x, y, f, priors=parg, silent=True, **dict(kw, inv_chol_cov_matrix=[Lc, bad]))
        except Exception:
            pass
        else:
            raise Violation('an inverse Cholesky factor labelled %r was accepted for data ordered %r' % (bad, klist))
    return res, sigma, Wcall, ref


# ---------------------------------------------------------------------------------------------
# the oracle

def nan_close(a, b, atol):
    a, b = float(a), float(b)
    if math.isnan(a) or math.isnan(b):
        return math.isnan(a) and math.isnan(b)
    return abs(a - b) <= atol


def reference(case, sigma, Wcall):
    """Closed-form GLS solution and its sensitivities for the data in call order."""
    P = case.nparm
    A = case.A[sigma]
    yv = case.yv[sigma]
    col = np.max(np.abs(A), axis=0)
    if not (np.all(col > 1e-6) and np.all(col < 1e6)):
        # a basis function that (almost) vanishes on all abscissae: the parameter is of astronomical size (or undetermined);
        # this is the conditioning of the problem, not a property of the fit
        raise Skip('basis function of vanishing or huge size on the abscissae')
    npri = len(case.priors)
    Pm = np.zeros((P, P))
    Psel = np.zeros((P, npri))
    pi = np.zeros(npri)
    for j, it in enumerate(case.priors):
        if not (it['dv'] > 0.0 and math.isfinite(1.0 / it['dv'] ** 2)):
            raise Skip('prior with vanishing error (data of vanishing magnitude)')
        Pm[it['k'], it['k']] += 1.0 / it['dv'] ** 2
        Psel[it['k'], j] = 1.0 / it['dv'] ** 2
        pi[j] = it['v']
    H = A.T @ Wcall @ A + Pm
    if not np.all(np.isfinite(H)):
        raise Skip('ill-conditioned normal equations')
    ev = np.linalg.eigvalsh((H + H.T) / 2)
    if not (ev[0] > 0 and ev[-1] / ev[0] < COND_MAX):
        raise Skip('ill-conditioned normal equations')
    Hi = np.linalg.inv(H)
    My = Hi @ A.T @ Wcall            # d p / d y   (rows: parameters, columns: data points in call order)
    Mp = Hi @ Psel                   # d p / d pi
    phat = My @ yv + Mp @ pi
    sig = np.sqrt(np.diag(Hi))
    r0 = yv - A @ phat
    chi_min = float(r0 @ Wcall @ r0) + float(sum(((phat[it['k']] - it['v']) / it['dv']) ** 2 for it in case.priors))
    return {'My': My, 'Mp': Mp, 'phat': phat, 'sig': sig, 'chi_min': chi_min}


def value_tolerance(method, chi_min):
    """Allowed distance between returned and exact minimum in units of the GLS parameter error (see ASSUMPTIONS).
    Levenberg-Marquardt stops when the relative reduction of chisquare falls below ftol = 1e-15; near the minimum
    chisquare(p) - chisquare_min = (dp/sigma_p)^2, hence dp < 3.2e-8 * sqrt(chisquare) sigma_p."""
    vt = VTOL[method]
    if method == 'LM':
        vt = vt * (1.0 + math.sqrt(max(chi_min, 0.0)))
    return vt


def judge(case, res, sigma, Wcall, ref, what=''):
    from scipy import stats
    pe = case.pe
    spec = case.spec
    pre = (what + ': ') if what else ''
    n, P = case.ntot, case.nparm
    A = case.A[sigma]
    yv = case.yv[sigma]
    npri = len(case.priors)
    My, Mp, phat, sig = ref['My'], ref['Mp'], ref['phat'], ref['sig']
    case.scales = {}

    require(isinstance(res, pe.fits.Fit_result), pre + 'result is not a Fit_result', type(res).__name__)
    fp = res.fit_parameters
    require(len(fp) == P and len(res) == P, pre + 'number of fit parameters', len(fp), P)
    got = np.array([float(o.value) for o in fp])
    vt = value_tolerance(spec['method'], ref['chi_min'])
    for k in range(P):
        require(abs(got[k] - phat[k]) <= vt * sig[k] + 1e-10 * abs(phat[k]),
                pre + 'central value of parameter %d is %r, GLS solution %r (difference %.3g sigma_p, allowed %.1g)'
                % (k, got[k], float(phat[k]), abs(got[k] - phat[k]) / sig[k], vt))

    # fluctuations and covariance-input gradients: first-order propagation with the rows of (A^T W A + P)^-1 A^T W
    tol = 1e-6 if spec['num_grad'] else 1e-9
    ops = [case.yref[g] for g in sigma]
    names_seen = set()
    for j, it in enumerate(case.priors):
        if it['ref'] is not None:
            ops.append(it['ref'])
        else:
            nm = [c for c in fp[0].covobs if c.startswith('#prior%d_' % it['k'])]
            require(len(nm) == 1, pre + 'string prior of parameter %d must appear as exactly one covariance input' % it['k'],
                    sorted(fp[0].covobs))
            require(nm[0] not in names_seen, pre + 'two priors share one covariance input', nm[0])
            names_seen.add(nm[0])
            ops.append(RefObs(it['v'], {}, {}, {nm[0]: (np.array([[it['dv'] ** 2]]), np.array([[1.0]]))}))
    dyc = case.dy[sigma]
    for k in range(P):
        coef = [float(v) for v in My[k]] + [float(v) for v in Mp[k]]
        rk = combine(lambda v: 0.0, coef, ops, value=float(fp[k].value))
        # absolute part of the tolerance: relative to the largest sensitivity a parameter can have, |dp_k/dy_j| <= sigma_k/dy_j
        # (leverage <= 1); the solve with the Hessian and numerical differentiation err relative to that scale,
        # not relative to a coefficient that happens to vanish
        bound = combine(lambda v: 0.0, [float(sig[k] / d) for d in dyc] + [float(sig[k] / it['dv']) for it in case.priors], ops, value=0.0)
        for nme in rk.mag:
            rk.mag[nme] = rk.mag[nme] + bound.mag.get(nme, 0.0)
        for nme in rk.cgmag:
            rk.cgmag[nme] = rk.cgmag[nme] + bound.cgmag.get(nme, 0.0)
        cmp_obs(rk, fp[k], pre + 'parameter %d' % k, rtol=tol, check_rv=False, atol_scale=tol)
        case.scales[k] = (dict(rk.mag), {_strip(c): v for c, v in rk.cgmag.items()})

    # chisquare = weighted residual norm at the returned parameters
    r = yv - A @ got
    chi_at = float(r @ Wcall @ r) + float(sum(((got[it['k']] - it['v']) / it['dv']) ** 2 for it in case.priors))
    chi = float(res.chisquare)
    # rounding of the residuals y - A p (eps * (|y| + |A||p|)) is amplified by the weights when a datum has a tiny error
    rnd = 1e-14 * float(np.abs(r) @ np.abs(Wcall) @ (np.abs(yv) + np.abs(A) @ np.abs(got)))
    require(abs(chi - chi_at) <= 1e-9 * (1.0 + chi_at) + rnd,
            pre + 'chisquare %r is not the weighted residual norm at the returned parameters %r' % (chi, chi_at))
    chi_min = ref['chi_min']
    # (the returned parameters are allowed |dp_k| <= vt sigma_k + 1e-10 |p_k| above: the same distance in units of sigma, squared)
    vt_eff = max(vt + 1e-10 * abs(float(phat[k])) / float(sig[k]) for k in range(P))
    require(abs(chi - chi_min) <= 1e-9 * (1.0 + chi_min) + 10 * P * vt_eff ** 2 + rnd,
            pre + 'chisquare %r, weighted residual norm at the GLS solution %r' % (chi, chi_min))
    dof = n - P + npri
    require(res.dof == dof, pre + 'dof is %r, points - parameters + priors = %d - %d + %d' % (res.dof, n, P, npri))
    if dof > 0:
        require(nan_close(res.chisquare_by_dof, chi / dof, 1e-12 * (1 + abs(chi / dof))), pre + 'chisquare_by_dof', res.chisquare_by_dof, chi / dof)
    want_p = float(stats.chi2.sf(chi, dof)) if dof > 0 else float('nan')
    require(nan_close(res.p_value, want_p, 1e-12),
            pre + 'p_value is %r, chi2 survival function(%r, %d) = %r' % (res.p_value, chi, dof, want_p))
    labs = []
    if spec['correlated']:
        ncov = min(int(case.ys[g].N) for g in sigma)
        require(hasattr(res, 't2_p_value'), pre + 'correlated fit without t2_p_value')
        if dof > 0 and ncov > dof:
            want_t = float(stats.f.sf((ncov - dof) / (dof * (ncov - 1)) * chi, dof, ncov - dof))
            require(nan_close(res.t2_p_value, want_t, 1e-12),
                    pre + 't2_p_value is %r, Hotelling value %r (n=%d, dof=%d)' % (res.t2_p_value, want_t, ncov, dof))
            labs.append('t2:checked')
    if spec.get('expected_chisquare') and dof > 0:
        require(hasattr(res, 'chisquare_by_expected_chisquare'), pre + 'expected chisquare requested but not reported')
        corr, kind = case.reference_correlation()
        corr = corr[np.ix_(sigma, sigma)]
        dyc = case.dy[sigma]
        # tr[(1 - P_A) C_w],  C_w = D^-1 cov D^-1 = correlation matrix,  P_A projector on the weighted design matrix
        Aw = A / dyc[:, None]
        Pa = Aw @ np.linalg.pinv(Aw.T @ Aw) @ Aw.T
        exp_chi = float(np.trace((np.eye(n) - Pa) @ corr))
        if exp_chi > 1e-6:
            want = chi / exp_chi
            require(abs(res.chisquare_by_expected_chisquare - want) <= 1e-8 * abs(want) + 1e-12,
                    pre + 'chisquare/expected chisquare is %r, definition gives %r' % (res.chisquare_by_expected_chisquare, want))
            labs.append('chiexp:' + kind)
    return labs


def case_labels(case, extra=()):
    spec = case.spec
    sets = case.sets
    labs = set(extra)
    labs.add('method:' + spec['method'])
    labs.add('grad:' + ('num' if spec['num_grad'] else 'auto'))
    labs.add('corr:' + str(spec['correlated']) + (':smooth' if spec.get('smooth') else ''))
    if getattr(case, 'same_prior_object', False):
        labs.add('prior:same_object_twice')
    if case.corr_kind:
        labs.add(case.corr_kind)
    labs.add('nparm:%d' % case.nparm)
    labs.add('nsets:%d' % len(sets))
    labs.add('xdim:%d' % spec['xdim'])
    labs.add('call:' + ('plain' if spec['single_call'] else 'dict'))
    used = [set(t[0] for t in s['terms']) for s in sets]
    shared = any(used[i] & used[j] for i in range(len(used)) for j in range(i))
    if shared:
        labs.add('shared_parameter')
    allused = set().union(*used)
    if len(allused) < case.nparm:
        labs.add('prior_only_parameter')
    if spec['priors']:
        labs.add('priors:' + spec['priors']['form'])
        for it in spec['priors']['items']:
            labs.add('prior:' + it['kind'] + (':' + it['errform'] if it['kind'] == 'str' else ''))
        dnames = set(n.split('|')[0] for r in case.yref for n in r.d)
        if any(it['ref'] is not None and (set(n.split('|')[0] for n in it['ref'].d) & dnames) for it in case.priors):
            labs.add('prior_shares_ensemble')
    ens = [frozenset(n.split('|')[0] for n in r.d) for r in case.yref]
    multi = len(set(ens)) > 1 or any(len(e) > 1 for e in ens)
    if multi:
        labs.add('several_ensembles')
    if any(r.cg for r in case.yref):
        labs.add('cov_inputs')
    if spec['mix']:
        labs.add('mixed_data')
    rel = gen.relation_labels(spec['y']) if len(spec['y']) > 1 else []
    for x in rel:
        if x.startswith('cfg_') or x == 'missing_replica':
            labs.add(x)
    dof = case.ntot - case.nparm + len(case.priors)
    labs.add('dof:0' if dof == 0 else 'dof:>0')
    if spec['zscale'] != 1.0:
        labs.add('zscale:%g' % spec['zscale'])
    if spec.get('guess') is not None:
        labs.add('initial_guess')
    for fid in spec.get('excluded', []):
        labs.add('excluded:' + fid)
    if any(S != 2.0 for S in spec['S']):
        labs.add('S_varied')
    nt = shared or bool(spec['priors']) or bool(spec['correlated']) or multi
    return nt, sorted(labs)


def gls_oracle(spec):
    case = Case(spec)
    res, sigma, Wcall, ref = call_fit(case)
    extra = judge(case, res, sigma, Wcall, ref)
    nt, labs = case_labels(case, extra)
    return {'nt': nt, 'cls': labs}


# ---------------------------------------------------------------------------------------------
# permutation of points and dictionary keys

def _strip(name):
    return name.split('_')[0] if name.startswith('#prior') else name


def same_obs(a, b, what, tol, scales):
    """Two pyerrors observables agree (names of string priors carry a random suffix and are compared without it);
    absolute tolerance relative to the same magnitudes as in the comparison with the closed form."""
    mag, cgmag = scales
    na = sorted(n for n in a.names if n not in a.covobs)
    nb = sorted(n for n in b.names if n not in b.covobs)
    require(na == nb, what + ': chains differ', na, nb)
    for n in na:
        require([int(c) for c in a.idl[n]] == [int(c) for c in b.idl[n]], what + ': configuration list of %s differs' % n)
        da, db = np.asarray(a.deltas[n], dtype=float), np.asarray(b.deltas[n], dtype=float)
        sc = mag.get(n, 0.0)
        require(da.shape == db.shape and bool(np.all(np.abs(da - db) <= tol * sc + 1e-300)),
                what + ': fluctuations on %s differ by up to %.3g (scale %.3g)' % (n, float(np.max(np.abs(da - db))), sc))
    ca = {_strip(k): v for k, v in a.covobs.items()}
    cb = {_strip(k): v for k, v in b.covobs.items()}
    require(sorted(ca) == sorted(cb), what + ': covariance inputs differ', sorted(ca), sorted(cb))
    for k in ca:
        ga, gb = np.asarray(ca[k].grad, dtype=float), np.asarray(cb[k].grad, dtype=float)
        sc = cgmag.get(k, 0.0)
        require(ga.shape == gb.shape and bool(np.all(np.abs(ga - gb) <= tol * sc + 1e-300)), what + ': gradient w.r.t. %s differs' % k,
                ga.ravel().tolist(), gb.ravel().tolist())


def perm_case(tier):
    return fit_case(tier, methods=('LM', 'LM', 'LM', 'migrad'), force_perm=True)


def perm_oracle(spec):
    case = Case(spec)
    res1, s1, W1, ref1 = call_fit(case)
    e1 = judge(case, res1, s1, W1, ref1, 'original order')
    case2 = Case(spec)
    res2, s2, W2, ref2 = call_fit(case2, 'perm')
    judge(case2, res2, s2, W2, ref2, 'permuted order')
    vt = value_tolerance(spec['method'], ref1['chi_min'])
    # direct comparison: same central values (within twice the minimiser accuracy), same fluctuations, same statistics
    sig = ref1['sig']
    tol = 1e-6 if spec['num_grad'] else 1e-9
    for k in range(case.nparm):
        a, b = res1[k], res2[k]
        require(abs(a.value - b.value) <= 2 * vt * sig[k] + 1e-10 * abs(a.value),
                'parameter %d changes with the order of points / keys: %r vs %r' % (k, a.value, b.value))
        same_obs(a, b, 'parameter %d, original vs permuted order' % k, 2 * tol, case.scales[k])
    require(abs(res1.chisquare - res2.chisquare) <= 1e-9 * (1 + abs(res1.chisquare)) + 20 * case.nparm * vt ** 2,
            'chisquare changes with the order of points / keys', res1.chisquare, res2.chisquare)
    require(res1.dof == res2.dof, 'dof changes with the order of points / keys', res1.dof, res2.dof)
    pv = spec['perm']
    moved = (s1 != s2 or any(list(pv[k]) != list(spec[k]) for k in ('order_x', 'order_y', 'order_f'))
             or (pv.get('priors') is not None and list(pv['priors']) != sorted(pv['priors'])))
    nt, labs = case_labels(case, e1)
    labs = sorted(set(labs) | {'order:changed' if moved else 'order:same'})
    return {'nt': nt and moved, 'cls': labs}


# ---------------------------------------------------------------------------------------------
# other minimisers

def methods_case(tier):
    return fit_case(tier, methods=('migrad', 'Nelder-Mead', 'Powell'), num_grad_ok=False)


# ---------------------------------------------------------------------------------------------
# Corr.fit

@st.composite
def corrfit_case(draw, tier):
    T = draw(st.integers(4, 10))
    nparm = draw(st.integers(1, 3))
    order = draw(st.permutations(BASIS_T))
    terms = [[k, order[k], draw(st.sampled_from([1.0, 1.0, -1.0, 2.0]))] for k in range(nparm)]
    defined = [draw(st.integers(0, 4)) != 0 for _ in range(T)]
    a = draw(st.integers(0, T - 1))
    b = draw(st.integers(a, T - 1))
    how = draw(st.sampled_from(['arg', 'arg', 'prange_ctor', 'prange_set', 'all', 'arg_over_prange']))
    if how == 'all':
        a, b = 0, T - 1
    # the fit needs at least nparm defined timeslices inside the range
    while sum(defined[a:b + 1]) < nparm + draw(st.integers(0, 1)):
        und = [t for t in range(a, b + 1) if not defined[t]]
        if und:
            defined[draw(st.sampled_from(und))] = True
        elif a > 0 and how != 'all':
            a -= 1
        elif b < T - 1 and how != 'all':
            b += 1
        else:
            break
    tmpl = draw(gen.obs_spec(ens_max=2, rep_max=2, nmin=max(8, 2 * T + 4), nmax=40, with_cov=False,
                             data_kinds=('white',), sigma=gen.fl(0.2, 1.0)))
    slices = []
    for t in range(T):
        if not defined[t]:
            slices.append(None)
        else:
            slices.append([draw(gen.recipe(len(c['idl']), kinds=('white', 'ar1', 'count'), sigma=gen.fl(0.2, 1.0)))
                           for c in tmpl['chains']])
    pad = draw(st.sampled_from([[0, 0], [0, 0], [1, 0], [0, 2], [1, 1]]))
    spec = {'T': T, 'nparm': nparm, 'terms': terms, 'template': tmpl, 'slices': slices, 'range': [a, b], 'how': how,
            'pad': pad, 'ptrue': [draw(gen.fl(-2.0, 2.0)) for _ in range(nparm)], 'z': [draw(gen.fl(-2.0, 2.0)) for _ in range(T)],
            'correlated': draw(st.sampled_from([False, False, True])),
            'method': draw(st.sampled_from(['LM', 'LM', 'LM', 'migrad']))}
    # options of least_squares requested through Corr.fit (the documented way to fit the data of a correlator; the fit
    # is the one least_squares defines): Gaussian priors of every form, chisquare / expected chisquare
    pmode = draw(st.sampled_from([None, None, None, 'dict', 'dict', 'list']))
    priors = None
    if pmode == 'list':
        priors = {'form': 'list', 'items': [draw(prior_item(k, tier)) for k in range(nparm)]}
    elif pmode == 'dict':
        ks = draw(st.lists(st.integers(0, nparm - 1), min_size=1, max_size=nparm, unique=True))
        priors = {'form': 'dict', 'items': [draw(prior_item(k, tier)) for k in ks]}
    spec['priors'] = priors
    spec['expected_chisquare'] = (not spec['correlated']) and priors is None and draw(st.integers(0, 2)) == 0
    exclude_vanishing_solution(spec)
    return spec


def corrfit_oracle(spec):
    import pyerrors as pe
    T, nparm = spec['T'], spec['nparm']
    pad = spec['pad']
    terms = [tuple(t) for t in spec['terms']]
    chains = spec['template']['chains']
    content = []
    for t in range(T):
        if spec['slices'][t] is None:
            content.append(None)
            continue
        sp = {'chains': [dict(c, data=rc) for c, rc in zip(chains, spec['slices'][t])], 'cov': []}
        o = build_obs(sp)
        dv = analyse(o, 2.0, 'data')
        # timeslice index as seen by the correlator includes the front padding
        tt = t + pad[0]
        target = sum(c * spec['ptrue'][k] * phi_num(nm, [tt]) for k, nm, c in terms) + spec['z'][t] * dv
        o = o + (float(target) - o.value)
        analyse(o, 2.0, 'data')
        content.append(o)
    a, b = spec['range'][0] + pad[0], spec['range'][1] + pad[0]
    Tfull = T + pad[0] + pad[1]
    kw = {}
    if spec['correlated']:
        kw['correlated_fit'] = True
    if spec['method'] != 'LM':
        kw['method'] = METHOD_NAME[spec['method']]
    if spec['how'] == 'prange_ctor':
        corr = pe.Corr(content, padding=list(pad), prange=[a, b])
    else:
        corr = pe.Corr(content, padding=list(pad))
    if spec['how'] == 'prange_set':
        corr.set_prange([a, b])
    if spec['how'] == 'arg_over_prange':
        # a stored plateau range that differs from the explicitly requested fit range: the argument decides
        other = [0, Tfull - 1] if [a, b] != [0, Tfull - 1] else [0, max(0, Tfull - 2)]
        corr.set_prange(other)
    if spec['how'] in ('arg', 'arg_over_prange'):
        kw['fitrange'] = [a, b]
    if spec['how'] == 'all':
        a, b = 0, Tfull - 1
    want_t = [t + pad[0] for t in range(T) if content[t] is not None and a <= t + pad[0] <= b]
    # closed-form solution on exactly the defined timeslices of the inclusive range
    pspec = spec.get('priors')
    fake = {'xdim': 1, 'nparm': nparm, 'sets': [{'key': '', 'terms': spec['terms'], 'n': len(want_t), 'x': [[float(t)] for t in want_t]}],
            'priors': pspec, 'correlated': 'estimated' if spec['correlated'] else None, 'method': spec['method'], 'num_grad': False,
            'mix': [], 'zscale': 1.0, 'S': [2.0] * len(want_t), 'single_call': True,
            'expected_chisquare': bool(spec.get('expected_chisquare'))}
    case = Case.__new__(Case)
    case.pe = pe
    case.spec = fake
    case.nparm = nparm
    case.sets = fake['sets']
    case.ntot = len(want_t)
    case.ys = [content[t - pad[0]] for t in want_t]
    case.A = np.array([design_row(spec['terms'], [float(t)], nparm) for t in want_t])
    case.dy = np.array([float(o.dvalue) for o in case.ys])
    case.yv = np.array([float(o.value) for o in case.ys])
    case.yref = [RefObs.from_pe(o) for o in case.ys]
    # priors handed to Corr.fit are the priors of the fit: one extra row each in the closed form
    case.build_priors(pspec, spec['ptrue'], spec)
    npri = len(case.priors)
    if pspec:
        kw['priors'] = case.prior_argument(pspec['form'])
    if spec.get('expected_chisquare'):
        kw['expected_chisquare'] = True
    case.corr_kind = None
    if spec['correlated']:
        case.corr, case.corr_kind = case.reference_correlation()
        check_invertible(case.corr, case.corr_kind)
        case.W = np.linalg.inv(np.diag(case.dy) @ case.corr @ np.diag(case.dy))
    else:
        case.W = np.diag(1.0 / case.dy ** 2)
    n = case.ntot
    sigma = list(range(n))
    ref = reference(case, sigma, case.W)
    f = make_func(terms, 1)
    try:
        res = corr.fit(f, silent=True, **kw)
    except Exception as e:
        if 'did not converge' in str(e):
            raise Skip('minimiser did not converge (%s)' % spec['method'])
        raise
    if not npri:
        require(res.dof == n - nparm, 'Corr.fit used %d points, the inclusive range [%d, %d] contains %d defined timeslices'
                % (res.dof + nparm, a, b, n))
    extra = judge(case, res, sigma, case.W, ref, 'Corr.fit' + (' with priors=%r' % (kw['priors'],) if npri else ''))
    labs = ['range:' + spec['how'], 'method:' + spec['method'], 'corr:%s' % spec['correlated'], 'pad:%s' % (pad != [0, 0])]
    labs.append('priors:' + (pspec['form'] if pspec else 'None'))
    if pspec:
        for it in pspec['items']:
            labs.append('prior:' + it['kind'] + (':' + it['errform'] if it['kind'] == 'str' else ''))
        if npri < nparm:
            labs.append('priors:subset')
        if getattr(case, 'same_prior_object', False):
            labs.append('prior:same_object_twice')
    labs.extend(extra)
    skipped_inside = any(content[t - pad[0]] is None for t in range(max(a, pad[0]), min(b, pad[0] + T - 1) + 1))
    if skipped_inside:
        labs.append('undefined_slice_in_range')
    if case.corr_kind:
        labs.append(case.corr_kind)
    for fid in spec.get('excluded', []):
        labs.append('excluded:' + fid)
    return {'nt': bool(skipped_inside or spec['correlated'] or spec['how'] != 'all' or npri), 'cls': sorted(set(labs))}


# ---------------------------------------------------------------------------------------------- chained fits (history)
# Priors given as 'value(err)' strings are independent Gaussian inputs of *that* fit.  A later fit of the same process that
# is handed the same strings (and, as a data point, a parameter of the earlier fit) has its own, independent prior rows:
# its parameters are the GLS combination of the data (with everything they inherited) and of fresh prior inputs.

@st.composite
def chain_case(draw, tier):
    n = draw(st.integers(3, 6))
    xs = sorted(draw(st.lists(st.integers(-20, 40), min_size=n, max_size=n, unique=True)))
    nfit = draw(st.integers(2, 3))
    which = draw(st.sampled_from(['both', 'p0', 'p1']))
    pri = {}
    if which in ('both', 'p0'):
        pri[0] = (draw(st.integers(-30, 30)) / 10.0, draw(st.integers(5, 60)))
    if which in ('both', 'p1'):
        pri[1] = (draw(st.integers(-30, 30)) / 10.0, draw(st.integers(5, 60)))
    return {'x': [v / 10.0 for v in xs], 'nfit': nfit, 'priors': {str(k): list(v) for k, v in pri.items()},
            'form': draw(st.sampled_from(['list', 'dict'])) if which == 'both' else 'dict',
            'carry': [draw(st.integers(0, 1)) for _ in range(nfit - 1)], 'slot': [draw(st.integers(0, n - 1)) for _ in range(nfit - 1)],
            'a': [draw(st.integers(-20, 20)) / 10.0, draw(st.integers(-20, 20)) / 10.0],
            'seed': draw(st.integers(0, 10 ** 6)), 'N': draw(st.integers(20, 60)), 'sig': draw(st.sampled_from([0.05, 0.2, 0.5]))}


def chain_oracle(spec):
    import pyerrors as pe
    rng = np.random.RandomState(spec['seed'])
    x = np.array(spec['x'])
    n = len(x)
    pri = {int(k): (float(v[0]), int(v[1])) for k, v in spec['priors'].items()}
    strings = {k: '%.1f(%d)' % (v, e) for k, (v, e) in pri.items()}          # 'value(err)': err in units of the last digit
    pval = {k: float('%.1f' % v) for k, (v, e) in pri.items()}
    perr = {k: e * 0.1 for k, (v, e) in pri.items()}
    parg = [strings[0], strings[1]] if spec['form'] == 'list' else {k: strings[k] for k in sorted(strings)}

    def func(a, x):
        return a[0] + a[1] * x

    A = np.stack([np.ones(n), x], axis=1)
    prev = None
    seen_prior_names = set()
    for j in range(spec['nfit']):
        ys = []
        for i in range(n):
            ys.append(pe.Obs([spec['a'][0] + spec['a'][1] * x[i] + spec['sig'] * rng.normal(size=spec['N'])], ['CH%d' % j]))
        if prev is not None:
            ys[spec['slot'][j - 1]] = prev[spec['carry'][j - 1]] * 1.0
        for o in ys:
            o.gamma_method(S=0)
        dy = np.array([o.dvalue for o in ys])
        if not np.all(dy > 0):
            raise Skip('input without error')
        res = pe.least_squares(x, ys, func, priors=parg, silent=True)
        # closed form with fresh, independent prior inputs
        ks = sorted(pri)
        W = np.diag(1.0 / dy ** 2)
        H = A.T @ W @ A
        for k in ks:
            H[k, k] += 1.0 / perr[k] ** 2
        if np.linalg.cond(H) > 1e8:
            raise Skip('ill-conditioned normal equations')
        Hi = np.linalg.inv(H)
        My = Hi @ A.T @ W                      # 2 x n
        fresh = {k: pe.cov_Obs(pval[k], perr[k] ** 2, 'refprior%d_%d' % (j, k)) for k in ks}
        sig_p = np.sqrt(np.diag(Hi))
        for q in range(2):
            ref = None
            for i in range(n):
                t = float(My[q, i]) * ys[i]
                ref = t if ref is None else ref + t
            for k in ks:
                ref = ref + float(Hi[q, k] / perr[k] ** 2) * fresh[k]
            ref.gamma_method(S=0)
            r = res[q]
            r.gamma_method(S=0)
            what = 'fit %d of the process, parameter %d (priors %r)' % (j + 1, q, parg)
            require(abs(r.value - ref.value) <= 1e-5 * sig_p[q] * (1 + math.sqrt(max(res.chisquare, 0.0))), what + ': value %r, GLS %r' % (r.value, ref.value))
            require(abs(r.dvalue - ref.dvalue) <= 1e-6 * ref.dvalue, what + ': error %r, GLS with independent prior inputs gives %r (covariance inputs %r)'
                    % (r.dvalue, ref.dvalue, sorted(r.cov_names)))
            mine = set(nm for nm in r.cov_names if nm.startswith('#prior'))
            inherited = set(nm for o in ys for nm in o.cov_names if nm.startswith('#prior'))
            new = mine - inherited
            require(len(new) == len(ks), what + ': %d new prior inputs in the result, the fit has %d prior rows (inherited %r, result %r)'
                    % (len(new), len(ks), sorted(inherited), sorted(mine)))
            require(not (new & seen_prior_names), what + ': prior inputs of an earlier fit re-used: %r' % sorted(new & seen_prior_names))
        seen_prior_names |= set(nm for q in range(2) for nm in res[q].cov_names if nm.startswith('#prior'))
        prev = res
    return {'nt': True, 'cls': ['fits:%d' % spec['nfit'], 'priors:' + '+'.join(str(k) for k in sorted(pri)), 'form:' + spec['form']]}


SUBS = [
    Sub('gls', lambda tier: fit_case(tier), gls_oracle, {'quick': 150, 'thorough': 2500}, {'quick': 10, 'thorough': 16},
        doc='Levenberg-Marquardt fits vs closed-form GLS: values, fluctuations, gradients, chisquare, dof, p-values', max_skip_frac=0.2),
    Sub('methods', methods_case, gls_oracle, {'quick': 120, 'thorough': 2000}, {'quick': 3, 'thorough': 8},
        doc='migrad / Nelder-Mead / Powell vs closed-form GLS', max_skip_frac=0.3),
    Sub('perm', perm_case, perm_oracle, {'quick': 100, 'thorough': 1500}, {'quick': 2, 'thorough': 6},
        doc='permutation of data points and of dictionary insertion orders', max_skip_frac=0.3),
    Sub('corrfit', corrfit_case, corrfit_oracle, {'quick': 150, 'thorough': 1500}, {'quick': 1, 'thorough': 4},
        doc='Corr.fit: inclusive range, undefined timeslices skipped, equals GLS on those timeslices; priors / correlated_fit / '
            'method / expected_chisquare requested through Corr.fit act as in least_squares', max_skip_frac=0.25),
    Sub('chain', chain_case, chain_oracle, {'quick': 60, 'thorough': 1500}, {'quick': 1, 'thorough': 4},
        doc='2-3 fits in one process with identical prior strings, a parameter of the earlier fit as datum of the later: '
            'every fit has its own independent prior inputs (GLS with fresh covariance inputs)', max_skip_frac=0.3),
]
