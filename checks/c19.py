"""C19  Printed value(error) strings and scalar views agree with value and error.

Sub-properties
  string     str / repr / format(obs, spec) of an analysed observable with prescribed value and error: an independent
             value(error) reader (exact rational arithmetic) must recover value and error within half a unit of the
             last printed digit; the error shows `significance` digits (two by default; one more after a rounding
             carry, all integer digits if there are more than `significance` of them); the flags '+' and ' ', alone
             or combined with a significance, only add a leading character; the prior parser of the fit module and
             the prior observable built from the string carry exactly the printed value and error.
  general    the same reader on str / format of arbitrary analysed Monte-Carlo observables (several ensembles,
             replicas, covariance inputs).
  cobs       complex observables: '(' real imag 'j)' with both parts printed in this way, the imaginary part with
             an explicit sign, the flags acting on the real part only.
  noerror    observables without error (not analysed, or exactly constant data) print as the plain value.
  views      <, <=, >, >= (both operand orders; numbers and observables), float() and is_zero_within_error are the
             obvious expressions of .value and .dvalue.
  plottable  Corr.plottable() lists exactly the defined time slices with .value and .dvalue of their entries.
  prior_fit  a fit with a prior given as printed string is the fit with the prior observable of exactly the printed
             value and error (differential, same minimiser on both sides).
"""
import math
import re
from fractions import Fraction

import numpy as np
from hypothesis import strategies as st

from vlib import findings, gen
from vlib.build import build_obs
from vlib.util import common_spacing
from vlib.core import Sub, Violation, Skip, require

PROPERTY = 'C19'
LEVEL = 'exploration'
RULE = ('Hypothesis-generated (value, error, significance) triples: error and |value| over 30 decades each '
        '(1e-15 .. 1e15; log-uniform, errors k*(1 +- j*eps) around powers of ten, mantissas around rounding carries '
        '(9.5, 9.96, 9.996 ...) and rounding ties, values 0.0 / -0.0, much smaller / larger than the error, on '
        'half-unit ties, tiny negative), both signs, significance 1..6, observables built as covariance observable '
        '(value and error exact) or from a short Monte-Carlo chain; every case is printed through str, repr, '
        "format '', '<n>', '+<n>', ' <n>', '+', ' '. Non-trivial (string, general, cobs, prior_fit): the printed error "
        'differs from the shortest repr of the error, i.e. rounding happened; noerror: the value needs more than two '
        'significant digits; views: the other operand lies within three errors of the value or the zero test is '
        'within a factor two of its boundary; plottable: the correlator has undefined slices or padding. '
        'Distinct = distinct spec hash.')
ASSUMPTIONS = ['the reader is written from the notation itself: an error without decimal point next to a value with '
               'decimal point counts units of the last printed digit of the value, otherwise it is absolute',
               'half a unit is checked in exact rational arithmetic with a slack of 2 ulp of the value (Python prints '
               'floats correctly rounded) and 8 ulp of the error (the library scales the error by a power of ten in '
               'floating point before printing it)',
               'an error with more integer digits than the significance may be printed with all its integer digits '
               '(what the library does); zeros ending both printed integers beyond the requested digits are not counted '
               'as printed digits, so a printer that rounds 1234.5 to (1200) is judged with unit 100; a rounding carry '
               'shows one digit more (0.0996 -> (100))',
               'prior parser: value exactly float(printed value), error within 1e-15 relative (one product with a '
               'power of ten)',
               'is_zero_within_error also returns True for observables that are numerically zero within the documented '
               'absolute tolerance 1e-10 of is_zero() (pinned by tests/linalg_test.py); in that regime only a result '
               'False is judged',
               'prior_fit: fit results are compared to 1e-5 of the parameter error (accuracy of Levenberg-Marquardt with '
               'finite-difference Jacobian: up to 6e-8 observed); the prior observable kept by the fit is compared to 1e-15']

HALF = Fraction(1, 2)
ULP2 = Fraction(1, 2 ** 51)     # 2 ulp, relative
ULP8 = Fraction(1, 2 ** 49)     # 8 ulp, relative
REL15 = Fraction(1, 10 ** 15)

BODY = re.compile(r'(-?)(\d+)(?:\.(\d+))?\((\d+)(?:\.(\d+))?\)')
NUM = r'-?\d+(?:\.\d+)?\(\d+(?:\.\d+)?\)'
CBODY = re.compile(r'\(([+ ]?)(' + NUM + r')([+-])(' + NUM[2:] + r')j\)')


# ----------------------------------------------------------------------------------------------
# independent value(error) reader and the judgement of one printed string

def read_value_error(s):
    """'value(error)' -> dict or None.  pv, pe exact rationals, unit = 10^-decimals of the value."""
    m = BODY.fullmatch(s)
    if m is None:
        return None
    neg, vi, vf, ei, ef = m.groups()
    dec_v = len(vf) if vf else 0
    pv = Fraction(int(vi + (vf or '')), 10 ** dec_v)
    if neg:
        pv = -pv
    if ef is not None:
        pe = Fraction(int(ei + ef), 10 ** len(ef))
        dec_e = len(ef)
    else:
        pe = Fraction(int(ei), 10 ** dec_v)
        dec_e = None
    return {'pv': pv, 'pe': pe, 'dec_v': dec_v, 'dec_e': dec_e, 'digits': (ei + (ef or '')).lstrip('0'),
            'vi': vi, 'unit': Fraction(1, 10 ** dec_v), 'neg': bool(neg)}


def judge(s, V, E, sig, what):
    """s: printed string without flag character; V, E: .value and .dvalue (E > 0); returns class information."""
    r = read_value_error(s)
    require(r is not None, '%s = %r is not of the form value(error)' % (what, s), V, E, sig)
    require(len(r['vi']) == 1 or r['vi'][0] != '0', '%s = %r: value printed with leading zeros' % (what, s))
    if r['dec_e'] is not None:
        require(r['dec_e'] == r['dec_v'], '%s = %r: value and error are not rounded to the same decimal place' % (what, s), V, E, sig)
    fv, fe = Fraction(float(V)), Fraction(float(E))
    u = r['unit']
    L = len(r['digits'])
    if r['dec_v'] == 0 and L > sig:
        # integer form with more digits than requested: zeros that end both numbers beyond the requested digits of
        # the error are not "printed digits" in the sense of the statement (123500(1200) with two digits has unit 100)
        tz = min(L - sig, len(r['digits']) - len(r['digits'].rstrip('0')), len(r['vi']) - len(r['vi'].rstrip('0')) if r['pv'] != 0 else L)
        u = Fraction(10 ** tz)
    require(abs(fv - r['pv']) <= u * HALF + abs(fv) * ULP2,
            '%s = %r: reading the value back gives %s, more than half a unit of the last printed digit (%s) away from value %r'
            % (what, s, float(r['pv']), float(u), float(V)), E, sig)
    require(abs(fe - r['pe']) <= u * HALF + fe * ULP8,
            '%s = %r: reading the error back gives %s, more than half a unit of the last printed digit (%s) away from error %r'
            % (what, s, float(r['pe']), float(u), float(E)), V, sig)
    carry = L == sig + 1 and r['digits'] == '1' + '0' * sig
    if r['dec_v'] == 0:
        require(L >= sig, '%s = %r: error printed with %d significant digits, requested %d' % (what, s, L, sig), V, E)
    else:
        require(L == sig or carry, '%s = %r: error printed with %d significant digits, requested %d' % (what, s, L, sig), V, E)
    rounded = Fraction(repr(float(E))) != r['pe']
    if r['dec_e'] is None and r['dec_v'] > 0:
        branch = 'err<1'
    elif r['dec_v'] > 0:
        branch = 'err>=1,decimals'
    else:
        branch = 'integer'
    return {'carry': carry, 'rounded': rounded, 'branch': branch, 'more_int_digits': r['dec_v'] == 0 and L > sig,
            'pv': r['pv'], 'pe': r['pe'], 'value_prints_zero': r['pv'] == 0 and float(V) != 0.0,
            'neg_zero_print': r['neg'] and r['pv'] == 0}


def strip_flag(s, flag):
    """flagged string -> body; the flag may only add one leading character to a string that does not start with '-'."""
    return s[1:] if (flag and s[:1] == flag) else s


def check_flags(fmt, base, sigtxt, what, bare):
    """fmt(spec) -> string.  base = fmt(sigtxt) (already judged).  Flags only affect the leading character."""
    for flag in ('+', ' '):
        if sigtxt == '' and not bare:
            continue
        got = fmt(flag + sigtxt)
        want = base if base.startswith('-') else flag + base
        require(got == want, "%s: format spec %r gives %r, but %r gives %r: the flag must only add the leading character"
                % (what, flag + sigtxt, got, sigtxt, base))


def check_prior(s, info, what, construct=False):
    from pyerrors.fits import _extract_val_and_dval, _construct_prior_obs
    import pyerrors as pe
    xv, xe = _extract_val_and_dval(s)
    wv = float(info['pv'])
    require(float(xv) == wv, 'prior parser on %s %r: value %r, printed %r' % (what, s, xv, wv))
    require(abs(Fraction(float(xe)) - info['pe']) <= info['pe'] * REL15,
            'prior parser on %s %r: error %r, printed %r' % (what, s, xe, float(info['pe'])))
    if construct:
        po = _construct_prior_obs(s, 0)
        require(isinstance(po, pe.Obs), 'prior built from %r is not an Obs' % s)
        po.gamma_method()
        require(float(po.value) == wv, 'prior observable from %s %r has value %r, printed %r' % (what, s, po.value, wv))
        require(abs(Fraction(float(po.dvalue)) - info['pe']) <= info['pe'] * REL15,
                'prior observable from %s %r has error %r, printed %r' % (what, s, po.dvalue, float(info['pe'])))


# ----------------------------------------------------------------------------------------------
# building observables with prescribed value and error

def mk_obs(o, name='cv', analyse=True):
    """o = {'src': 'cov', 'v', 'e'} | {'src': 'mc', 'v', 'e', 'z': [...]}"""
    import pyerrors as pe
    if o['src'] == 'cov':
        r = pe.cov_Obs(float(o['v']), float(o['e']) ** 2, name)
    elif o.get('ar'):
        # autocorrelated chain (AR(1)), a pure function of the spec
        ar = o['ar']
        rng = np.random.RandomState(ar['seed'])
        xi = rng.normal(size=ar['n'])
        z = np.empty(ar['n'])
        z[0] = xi[0]
        for t in range(1, ar['n']):
            z[t] = ar['rho'] * z[t - 1] + math.sqrt(1 - ar['rho'] ** 2) * xi[t]
        r = pe.Obs([o['v'] + o['e'] * z], ['A'])
    else:
        r = pe.Obs([np.array([o['v'] + o['e'] * z for z in o['z']], dtype=float)], ['A'])
    if analyse:
        r.gamma_method()
    return r


def pw(k):
    return float('1e%d' % k)


SIG = st.sampled_from([1, 2, 2, 3, 4, 5, 6])
CARRY_T = [0.04, 0.5, 0.8, 0.99, 1 - 1e-9, 1.0, 1 + 1e-9, 1.01, 1.2, 2.0]
EPS = [2.0 ** -52, 2.0 ** -40, 2.0 ** -30, 1e-7]


@st.composite
def error_value(draw, sig):
    """error in [1e-15, 1e15) -> (e, family)"""
    fam = draw(st.sampled_from(['loguni', 'loguni', 'loguni', 'pow10', 'carry', 'carry', 'tie', 'round']))
    k = draw(st.integers(-15, 14))
    if fam == 'loguni':
        e = draw(gen.fl(1.0, 9.999999999)) * pw(k)
    elif fam == 'pow10':
        j = draw(st.integers(-3, 3))
        if k == -15 and j < 0:
            j = -j
        e = pw(k) * (1.0 + j * draw(st.sampled_from(EPS)))
    elif fam == 'carry':
        s = draw(st.sampled_from([sig, sig, sig, 1, 2, 3, 4, 5, 6]))
        e = (10.0 - 0.5 * 10.0 ** -(s - 1) * draw(st.sampled_from(CARRY_T))) * pw(k)
    elif fam == 'tie':
        n = draw(st.integers(10 ** (sig - 1), 10 ** sig - 1))
        e = (n + 0.5) * 10.0 ** -(sig - 1) * pw(k)
    else:
        e = float(draw(st.integers(1, 9))) * pw(k)
    e = float(min(max(e, 1e-15), 9.99999e14))
    return e, fam


@st.composite
def central_value(draw, e, sig):
    fam = draw(st.sampled_from(['loguni', 'loguni', 'near', 'near', 'zero', 'small', 'large', 'tie', 'tinyneg', 'int']))
    sgn = draw(st.sampled_from([1.0, 1.0, -1.0]))
    if fam == 'loguni':
        v = draw(gen.fl(1.0, 9.999999999)) * pw(draw(st.integers(-15, 14)))
    elif fam == 'near':
        v = e * draw(gen.fl(1.0, 9.999999999)) * pw(draw(st.integers(-2, 2)))
    elif fam == 'zero':
        return draw(st.sampled_from([0.0, -0.0])), fam
    elif fam == 'small':
        v = e * draw(gen.fl(1.0, 9.999999999)) * pw(-draw(st.integers(1, 20)))
    elif fam == 'large':
        v = e * draw(gen.fl(1.0, 9.999999999)) * pw(draw(st.integers(1, 20)))
    elif fam == 'tie':
        unit = pw(int(math.floor(math.log10(e))) - sig + 1)
        v = (draw(st.integers(0, 20000)) + 0.5) * unit
    elif fam == 'tinyneg':
        sgn = -1.0
        v = e * draw(gen.fl(0.0001, 0.6)) * pw(-(sig - 1))
    else:
        v = float(draw(st.integers(0, 100000)))
    if v != 0.0:
        v = min(max(v, 1e-15), 9.99999e14)
    return float(sgn * v), fam


@st.composite
def obs_ve(draw, sig, mc=0.15):
    e, efam = draw(error_value(sig))
    v, vfam = draw(central_value(e, sig))
    o = {'src': 'cov', 'v': v, 'e': e, 'efam': efam, 'vfam': vfam}
    if draw(st.integers(0, 99)) < int(100 * mc):
        n = draw(st.integers(5, 8))
        z = draw(st.lists(gen.fl(-1, 1), min_size=n, max_size=n))
        z[0], z[1] = 1.0, -1.0
        o.update({'src': 'mc', 'z': z})
    return o


def excluded_bare():
    return findings.is_open('F-C19-1')


@st.composite
def string_case(draw, tier):
    sig = draw(SIG)
    spec = {'obs': draw(obs_ve(sig)), 'sig': sig, 'bare_flags': True}
    if excluded_bare():
        spec['bare_flags'] = False
        spec['excluded'] = ['F-C19-1']
    return spec


def plain_value_ok(s, V, what):
    require('(' not in s, '%s = %r shows an error although the observable has none' % (what, s))
    try:
        back = float(s)
    except ValueError:
        raise Violation('%s = %r is not a plain number' % (what, s))
    require(back == float(V), '%s = %r is not the plain value %r' % (what, s, float(V)))


def check_plain(o, V, sig, bare):
    plain_value_ok(str(o), V, 'str of an observable without error')
    r = repr(o)
    require(r.startswith('Obs[') and r.endswith(']'), 'repr %r is not Obs[...]' % r)
    plain_value_ok(r[4:-1], V, 'repr of an observable without error')
    for sigtxt in ('', str(sig)):
        base = format(o, sigtxt)
        plain_value_ok(base, V, 'format %r of an observable without error' % sigtxt)
        check_flags(lambda sp: format(o, sp), base, sigtxt, 'observable without error', bare)


def string_checks(o, sig, bare, construct=True):
    """All printing routes of one analysed observable with positive error; returns the class information."""
    V, E = float(o.value), float(o.dvalue)
    s = str(o)
    info2 = judge(s, V, E, 2, 'str(obs)')
    r = repr(o)
    require(r == 'Obs[' + s + ']', 'repr(obs) = %r is not Obs[str(obs)] with str(obs) = %r' % (r, s))
    d = format(o, '')
    require(d == s, "format(obs, '') = %r differs from str(obs) = %r (two significant digits by default)" % (d, s))
    check_flags(lambda sp: format(o, sp), d, '', 'obs with value %r error %r' % (V, E), bare)
    base = format(o, str(sig))
    info = judge(base, V, E, sig, 'format(obs, %r)' % str(sig))
    check_flags(lambda sp: format(o, sp), base, str(sig), 'obs with value %r error %r' % (V, E), True)
    require('{:{}}'.format(o, sig) == base and ('%s' % o) == s, 'str.format / %-formatting differ from format()')
    check_prior(s, info2, 'str(obs)')
    check_prior(base, info, 'format(obs, %d)' % sig, construct=construct)
    if not base.startswith('-'):
        check_prior('+' + base, info, 'flagged string')
        check_prior(' ' + base, info, 'flagged string')
    return info, info2


def labels(info, info2, spec_obs, sig):
    cls = ['sig:%d' % sig, 'branch:' + info['branch'], 'src:' + spec_obs.get('src', 'gen')]
    if 'efam' in spec_obs:
        cls += ['efam:' + spec_obs['efam'], 'vfam:' + spec_obs['vfam']]
    if info['carry']:
        cls.append('carry')
    if info2['carry']:
        cls.append('carry_default')
    if info['more_int_digits']:
        cls.append('more_integer_digits_than_sig')
    if info['value_prints_zero']:
        cls.append('value_prints_as_zero')
    if info['neg_zero_print']:
        cls.append('prints_-0')
    if info['pv'] < 0:
        cls.append('negative')
    return cls


def string_oracle(spec):
    o = mk_obs(spec['obs'])
    sig = spec['sig']
    V, E = float(o.value), float(o.dvalue)
    require(math.isfinite(V) and math.isfinite(E), 'value / error not finite', V, E)
    cls = ['excluded:' + x for x in spec.get('excluded', [])]
    if spec['obs']['src'] == 'cov':
        require(V == float(spec['obs']['v']), 'cov_Obs does not carry the requested value', V, spec['obs']['v'])
    if E == 0.0:
        check_plain(o, V, sig, spec['bare_flags'])
        return {'nt': False, 'cls': cls + ['zero_error_after_analysis']}
    info, info2 = string_checks(o, sig, spec['bare_flags'])
    return {'nt': info['rounded'], 'cls': cls + labels(info, info2, spec['obs'], sig)}


# ----------------------------------------------------------------------------------------------
# general analysed observables

@st.composite
def general_case(draw, tier):
    nmax = 20 if tier == 'quick' else 60
    sc = draw(st.integers(-12, 12))
    mean = st.one_of(gen.fl(-3, 3), st.sampled_from([0.0, 1.0]), gen.fl(-3000, 3000))
    # contiguous / irregular lists on one grid per ensemble: a common spacing exists (precondition of the analysis)
    spec = {'obs': draw(gen.obs_spec(ens_max=2, rep_max=2, nmin=5, nmax=nmax, mean=mean, kinds=('contig', 'irregular'))),
            'scale': pw(sc),
            'sig': draw(SIG), 'bare_flags': not excluded_bare()}
    if excluded_bare():
        spec['excluded'] = ['F-C19-1']
    return spec


def general_oracle(spec):
    o = build_obs(spec['obs'])
    if o is None:
        raise Skip('empty observable')
    o = spec['scale'] * o
    try:
        o.gamma_method()
    except Exception:
        if not common_spacing(o):
            raise Skip('replicas without common spacing (precondition of the analysis)')
        raise
    V, E = float(o.value), float(o.dvalue)
    cls = ['excluded:' + x for x in spec.get('excluded', [])]
    if E == 0.0:
        check_plain(o, V, spec['sig'], spec['bare_flags'])
        return {'nt': False, 'cls': cls + ['zero_error_after_analysis']}
    info, info2 = string_checks(o, spec['sig'], spec['bare_flags'], construct=False)
    return {'nt': info['rounded'], 'cls': cls + labels(info, info2, {}, spec['sig'])}


# ----------------------------------------------------------------------------------------------
# complex observables

@st.composite
def cobs_case(draw, tier):
    sig = draw(SIG)
    re_, im_ = draw(obs_ve(sig, mc=0.1)), draw(obs_ve(sig, mc=0.1))
    spec = {'re': re_, 'im': im_, 'sig': sig, 'bare_flags': True}
    exc = []
    if excluded_bare():
        spec['bare_flags'] = False
        exc.append('F-C19-1')
    if findings.is_open('F-C19-2') and im_['v'] == 0.0 and math.copysign(1.0, im_['v']) < 0:
        im_['v'] = 0.0
        exc.append('F-C19-2')
    if exc:
        spec['excluded'] = exc
    return spec


def judge_complex(s, c, sigr, sigi, flag, what):
    """'(' [flag] real sign imag 'j)'"""
    m = CBODY.fullmatch(s)
    require(m is not None, '%s = %r is not of the form (value(error)+-value(error)j)' % (what, s))
    fl_, re_s, sign, im_s = m.groups()
    want_flag = '' if re_s.startswith('-') else flag
    require(fl_ == want_flag, '%s = %r: leading character of the real part is %r, expected %r' % (what, s, fl_, want_flag))
    ir = judge(re_s, float(c.real.value), float(c.real.dvalue), sigr, what + ' real part')
    ii = judge(('-' if sign == '-' else '') + im_s, float(c.imag.value), float(c.imag.dvalue), sigi, what + ' imaginary part')
    return ir, ii


def cobs_oracle(spec):
    import pyerrors as pe
    c = pe.CObs(mk_obs(spec['re'], 're', analyse=False), mk_obs(spec['im'], 'im', analyse=False))
    c.gamma_method()
    sig = spec['sig']
    cls = ['excluded:' + x for x in spec.get('excluded', [])]
    if float(c.real.dvalue) == 0.0 or float(c.imag.dvalue) == 0.0:
        raise Skip('a part has zero error after the analysis')
    s = str(c)
    ir2, ii2 = judge_complex(s, c, 2, 2, '', 'str(cobs)')
    require(repr(c) == 'CObs[' + s + ']', 'repr(cobs) = %r is not CObs[str(cobs)]' % repr(c), s)
    d = format(c, '')
    require(d == s, "format(cobs, '') = %r differs from str(cobs) = %r" % (d, s))
    base = format(c, str(sig))
    ir, ii = judge_complex(base, c, sig, sig, '', 'format(cobs, %r)' % str(sig))
    for flag in ('+', ' '):
        got = format(c, flag + str(sig))
        judge_complex(got, c, sig, sig, flag, 'format(cobs, %r)' % (flag + str(sig)))
        require(got.replace('(' + flag, '(', 1) == base or got == base,
                'format(cobs, %r) = %r differs from format(cobs, %r) = %r in more than the leading character'
                % (flag + str(sig), got, str(sig), base))
        if spec['bare_flags']:
            got = format(c, flag)
            judge_complex(got, c, 2, 2, flag, 'format(cobs, %r)' % flag)
    cls += ['sig:%d' % sig, 'imag:' + ('-' if ii['pv'] < 0 or ii['neg_zero_print'] else '+'),
            'real:' + ('-' if ir['pv'] < 0 or ir['neg_zero_print'] else '+')]
    if ir['carry'] or ii['carry']:
        cls.append('carry')
    if float(c.imag.value) == 0.0:
        cls.append('imag_zero:' + ('-0.0' if math.copysign(1.0, float(c.imag.value)) < 0 else '0.0'))
    if ii['neg_zero_print']:
        cls.append('imag_prints_-0')
    return {'nt': ir['rounded'] or ii['rounded'], 'cls': cls}


# ----------------------------------------------------------------------------------------------
# observables without error

@st.composite
def noerror_case(draw, tier):
    sig = draw(SIG)
    kind = draw(st.sampled_from(['not_analysed', 'not_analysed', 'constant', 'difference']))
    v = draw(st.one_of(gen.fl(1.0, 9.999999999), st.sampled_from([0.0, -0.0, 1.0, 5.0, 1.25, 1.23456])))
    v = float(v * pw(draw(st.integers(-15, 14))) * draw(st.sampled_from([1.0, -1.0])))
    n = draw(st.integers(5, 8))
    z = draw(st.lists(gen.fl(-1, 1), min_size=n, max_size=n))
    z[0], z[1] = 1.0, -1.0
    spec = {'kind': kind, 'v': v, 'e': abs(v) * draw(st.sampled_from([1e-3, 0.1, 2.0])) + draw(st.sampled_from([0.0, 1e-12, 1.0])),
            'z': z, 'sig': sig, 'bare_flags': not excluded_bare()}
    if spec['e'] == 0.0:
        spec['e'] = 1.0
    if excluded_bare():
        spec['excluded'] = ['F-C19-1']
    return spec


def noerror_oracle(spec):
    import pyerrors as pe
    k = spec['kind']
    if k == 'not_analysed':
        o = mk_obs({'src': 'mc', 'v': spec['v'], 'e': spec['e'], 'z': spec['z']}, analyse=False)
    elif k == 'constant':
        o = pe.Obs([np.full(len(spec['z']), spec['v'])], ['A'])
        o.gamma_method()
    else:
        a = mk_obs({'src': 'mc', 'v': spec['v'], 'e': spec['e'], 'z': spec['z']}, analyse=False)
        o = a - a + spec['v']
        o.gamma_method()
    V = float(o.value)
    if k != 'not_analysed':
        if float(o.dvalue) != 0.0:
            raise Skip('error not exactly zero')
    check_plain(o, V, spec['sig'], spec['bare_flags'])
    nt = V != float('%.1e' % V)
    return {'nt': nt, 'cls': ['excluded:' + x for x in spec.get('excluded', [])] + ['kind:' + k]}


# ----------------------------------------------------------------------------------------------
# scalar views

SIGMAS = [1, 1, 2, 3, 5, 0.1, 0.5, 1.5, 0.001]


@st.composite
def views_case(draw, tier):
    sig = 2
    a = draw(obs_ve(sig, mc=0.25))
    sigma = draw(st.sampled_from(SIGMAS))
    zfam = draw(st.sampled_from(['free', 'boundary', 'boundary', 'inside', 'outside']))
    if zfam != 'free' and a['src'] == 'cov':
        sgn = draw(st.sampled_from([1.0, -1.0]))
        if zfam == 'boundary':
            a['v'] = sgn * (sigma * a['e']) * (1.0 + draw(st.integers(-2, 2)) * draw(st.sampled_from(EPS)))
        elif zfam == 'inside':
            a['v'] = sgn * sigma * a['e'] * draw(gen.fl(0.0, 0.999))
        else:
            a['v'] = sgn * sigma * a['e'] * draw(gen.fl(1.001, 30.0))
        a['vfam'] = 'zero_test:' + zfam
    other = {'kind': draw(st.sampled_from(['float', 'float', 'int', 'npfloat', 'obs', 'obs'])),
             'rel': draw(st.sampled_from(['indep', 'equal', 'up', 'down', 'within_error', 'zero']))}
    if other['rel'] == 'indep':
        other['x'], _ = draw(central_value(a['e'], sig))
    elif other['rel'] == 'within_error':
        other['t'] = draw(gen.fl(-3, 3))
    if other['kind'] == 'int' and other['rel'] not in ('indep', 'zero'):
        other['kind'] = 'float'
    if other['kind'] == 'int':
        other['x'] = int(max(min(other.get('x', 0.0), 1e15), -1e15))
    if other['kind'] == 'obs':
        other['e'], _ = draw(error_value(sig))
        other['analysed'] = draw(st.booleans())
    spec = {'a': a, 'other': other, 'sigma': sigma, 'analysed': draw(st.sampled_from([True, True, False]))}
    if draw(st.integers(0, 5)) == 0:
        # an autocorrelated chain analysed with the user's own parameters: the views use the errors of *that* analysis
        a.update({'src': 'mc', 'z': [], 'ar': {'seed': draw(st.integers(0, 10 ** 6)), 'rho': draw(st.sampled_from([0.6, 0.8, 0.9])),
                                                 'n': draw(st.integers(40, 120))}})
        spec['gm'] = draw(st.sampled_from([{'S': 0}, {'S': 0.0}, {'S': 6.0}, {'tau_exp': 4.0}, {'tau_exp': 8.0, 'N_sigma': 2}, {'S': 1.0, 'fft': False}]))
        spec['analysed'] = True
    return spec


OPS = [('<', lambda p, q: p < q), ('<=', lambda p, q: p <= q), ('>', lambda p, q: p > q), ('>=', lambda p, q: p >= q)]


def views_oracle(spec):
    import pyerrors as pe
    a = mk_obs(spec['a'], 'cv', analyse=spec['analysed'] and not spec.get('gm'))
    extra_cls = []
    if spec.get('gm'):
        gm = dict(spec['gm'])
        a.gamma_method(**gm)
        Eu = float(a.dvalue)
        b = mk_obs(spec['a'], 'cv', analyse=True)
        Ed = float(b.dvalue)
        if Eu > 0 and Ed > 0:
            # move the central value between the two error bars: the outcome of the test tells which error was used
            sg = float(spec['sigma'])
            a2 = a + (sg * math.sqrt(Eu * Ed) - float(a.value))
            a2.gamma_method(**gm)
            E2, V2 = float(a2.dvalue), float(a2.value)
            want = bool(abs(V2) <= sg * E2)
            got = a2.is_zero_within_error(sg)
            tiny2 = abs(V2) <= 1.01e-10 and all(float(np.max(np.abs(d))) <= 1.01e-10 for d in a2.deltas.values())
            require(tiny2 or (isinstance(got, (bool, np.bool_)) and bool(got) == want), 'is_zero_within_error(%r) = %r, but |value| <= sigma * dvalue is %r for '
                    'the error of the analysis that was run (gamma_method(**%r): %r; default parameters would give %r)' % (sg, got, want, gm, E2, Ed), V2)
            require(float(a2.dvalue) == E2, 'is_zero_within_error changed the error of the observable from %r to %r' % (E2, float(a2.dvalue)))
            extra_cls.append('zero_test:user_analysis:' + ('differs_from_default' if abs(Eu - Ed) > 1e-3 * Ed else 'same_as_default'))
    V = float(a.value)
    ot = spec['other']
    rel = ot['rel']
    if rel == 'indep':
        xv = ot['x']
    elif rel == 'equal':
        xv = V
    elif rel == 'up':
        xv = float(np.nextafter(V, np.inf))
    elif rel == 'down':
        xv = float(np.nextafter(V, -np.inf))
    elif rel == 'zero':
        xv = 0 if ot['kind'] == 'int' else 0.0
    else:
        xv = V + ot['t'] * float(spec['a']['e'])
    if ot['kind'] == 'npfloat':
        x = np.float64(xv)
    elif ot['kind'] == 'obs':
        x = pe.cov_Obs(float(xv), float(ot['e']) ** 2, 'other')
        if ot['analysed']:
            x.gamma_method()
        require(float(x.value) == float(xv), 'cov_Obs does not carry the requested value')
    else:
        x = xv
    for name, op in OPS:
        want = bool(op(V, float(xv)))
        got = op(a, x)
        require(isinstance(got, (bool, np.bool_)) and bool(got) == want,
                'obs %s other = %r, but value %r %s %r is %r' % (name, got, V, name, xv, want), ot['kind'])
        want = bool(op(float(xv), V))
        got = op(x, a)
        require(isinstance(got, (bool, np.bool_)) and bool(got) == want,
                'other %s obs = %r, but %r %s value %r is %r' % (name, got, xv, name, V, want), ot['kind'])
    f = float(a)
    require(type(f) is float and f == V, 'float(obs) = %r, value %r' % (f, V))
    cls = ['other:' + ot['kind'], 'rel:' + rel, 'analysed:%s' % spec['analysed'], 'src:' + spec['a']['src'],
           'vfam:' + spec['a']['vfam']]
    nt = rel in ('equal', 'up', 'down', 'within_error')
    # (an observable built from a covariance input carries its error from the start: 'value(error)' prior strings, cov_Obs)
    if spec['analysed'] or (spec['a']['src'] == 'cov' and not spec.get('gm')):
        E = float(a.dvalue)
        sigma = spec['sigma']
        want = bool(abs(V) <= sigma * E)
        got = a.is_zero_within_error(sigma)
        # documented absolute tolerance of is_zero(): value, every fluctuation and every covariance contribution
        # within 1e-10 of zero (margin 1%: rounding of the tolerance test itself)
        tiny = abs(V) <= 1.01e-10 and all(float(np.max(np.abs(d))) <= 1.01e-10 for d in a.deltas.values()) \
            and all(float(c.errsq()) <= 1.01e-10 for c in a.covobs.values())
        if tiny and not want:
            cls.append('zero_test:not_judged(numerically zero by is_zero tolerance 1e-10)')
        else:
            require(isinstance(got, (bool, np.bool_)) and bool(got) == want,
                    'is_zero_within_error(%r) = %r, but |value| <= sigma * dvalue is %r' % (sigma, got, want), V, E)
            cls.append('zero_test:%s' % want)
            if E > 0 and 0.5 <= abs(V) / (sigma * E) <= 2.0:
                nt = True
                cls.append('zero_test:near_boundary')
            if abs(V) == sigma * E:
                cls.append('zero_test:exact_boundary')
        if not tiny:
            got1 = a.is_zero_within_error()
            require(bool(got1) == bool(abs(V) <= E), 'is_zero_within_error() = %r, but |value| <= dvalue is %r' % (got1, abs(V) <= E), V, E)
        require(float(a.dvalue) == E, 'is_zero_within_error changed the error of the observable from %r to %r' % (E, float(a.dvalue)))
    return {'nt': nt or bool(extra_cls), 'cls': cls + extra_cls}


# ----------------------------------------------------------------------------------------------
# plottable view of a correlator

@st.composite
def plottable_case(draw, tier):
    T = draw(st.integers(1, 8))
    src = draw(st.sampled_from(['cov', 'mc']))
    n = draw(st.integers(5, 7))
    sl = []
    for t in range(T):
        if draw(st.integers(0, 3)) == 0:
            sl.append(None)
            continue
        o = draw(obs_ve(2, mc=0.0))
        o['src'] = src
        if src == 'mc':
            z = draw(st.lists(gen.fl(-1, 1), min_size=n, max_size=n))
            z[0], z[1] = 1.0, -1.0
            o['z'] = z
        sl.append(o)
    if all(s is None for s in sl):
        o = draw(obs_ve(2, mc=0.0))
        o['src'] = 'cov'
        sl[draw(st.integers(0, T - 1))] = o
        for s in sl:
            if s is not None:
                s['src'] = 'cov'
    spec = {'slices': sl, 'pad': [draw(st.sampled_from([0, 0, 1, 3])), draw(st.sampled_from([0, 0, 2]))],
            'array': draw(st.booleans())}
    if src == 'mc' and draw(st.booleans()):
        # the observables of the timeslices are analysed again with other parameters between two calls of plottable():
        # the view has to show the errors the observables carry *now* (C19-m21: memoised view)
        arn = draw(st.integers(30, 60))   # all timeslices of a correlator live on the same configurations
        for s in sl:
            if s is not None:
                s.pop('z', None)
                s['ar'] = {'seed': draw(st.integers(0, 2 ** 31 - 1)), 'n': arn, 'rho': draw(gen.fl(0.0, 0.9))}
        spec['again'] = {'how': draw(st.sampled_from(['corr', 'gm_list', 'slice', 'before'])), 'S': draw(st.sampled_from([0.0, 1.0, 4.0]))}
    return spec


def plottable_oracle(spec):
    import pyerrors as pe
    obs = [None if s is None else mk_obs(s, 'cv', analyse=False) for s in spec['slices']]
    data = np.array(obs, dtype=object) if (spec['array'] and all(o is not None for o in obs)) else obs
    c = pe.Corr(data, padding=list(spec['pad']))
    c.gamma_method()
    x, y, dy = c.plottable()
    ref = [None if s is None else mk_obs(s, 'cv') for s in spec['slices']]
    wx = [spec['pad'][0] + t for t, r in enumerate(ref) if r is not None]
    wy = [float(r.value) for r in ref if r is not None]
    wd = [float(r.dvalue) for r in ref if r is not None]
    require(list(x) == wx, 'plottable(): time slices %r, defined slices are %r' % (list(x), wx))
    require(len(y) == len(wy) and all(float(p) == q for p, q in zip(y, wy)), 'plottable(): values %r, central values %r' % (list(y), wy))
    require(len(dy) == len(wd) and all(float(p) == q for p, q in zip(dy, wd)), 'plottable(): errors %r, dvalues %r' % (list(dy), wd))
    require(c.T == len(ref) + sum(spec['pad']), 'T of the correlator', c.T)
    holes = any(s is None for s in spec['slices'])
    cls = ['src:' + next(s['src'] for s in spec['slices'] if s is not None), 'T:%d' % len(ref)]
    ag = spec.get('again')
    if ag:
        S = float(ag['S'])
        if ag['how'] == 'before':
            # a first look at the view before any analysis (refused or not), then the analysis
            obs2 = [None if s is None else mk_obs(s, 'cv', analyse=False) for s in spec['slices']]
            c = pe.Corr(obs2, padding=list(spec['pad']))
            try:
                c.plottable()
            except Exception:
                pass
            c.gamma_method(S=S)
        elif ag['how'] == 'corr':
            c.gamma_method(S=S)
        elif ag['how'] == 'gm_list':
            pe.gm([o[0] for o in c.content if o is not None], S=S)
        else:
            for o in c.content:
                if o is not None:
                    o[0].gamma_method(S=S)
        x2, y2, dy2 = c.plottable()
        ref2 = []
        for s in spec['slices']:
            if s is not None:
                r = mk_obs(s, 'cv', analyse=False)
                r.gamma_method(S=S)
                ref2.append(r)
        wd2 = [float(r.dvalue) for r in ref2]
        require(list(x2) == wx and len(y2) == len(wy) and all(float(p) == q for p, q in zip(y2, wy)),
                'plottable() after a second analysis (%s): slices / values %r %r, expected %r %r' % (ag['how'], list(x2), list(y2), wx, wy))
        require(len(dy2) == len(wd2) and all(float(p) == q for p, q in zip(dy2, wd2)),
                'plottable() after the observables were analysed again with S=%g (%s): errors %r, the observables carry %r' % (S, ag['how'], list(dy2), wd2))
        cls.append('again:' + ag['how'])
        if wd2 != wd:
            cls.append('again_changed_the_errors')
    if holes:
        cls.append('undefined_slices')
    if sum(spec['pad']):
        cls.append('padding')
    return {'nt': holes or sum(spec['pad']) > 0, 'cls': cls}


# ----------------------------------------------------------------------------------------------
# priors given as printed strings in a fit

@st.composite
def prior_fit_case(draw, tier):
    sig = draw(SIG)
    e = draw(gen.fl(1.0, 9.999999999)) * pw(draw(st.integers(-4, 3)))
    if draw(st.integers(0, 3)) == 0:
        e = (10.0 - 0.5 * 10.0 ** -(sig - 1) * draw(st.sampled_from([0.5, 0.99, 1.01]))) * pw(draw(st.integers(-4, 3)))
    v = draw(st.sampled_from([1.0, -1.0])) * e * draw(gen.fl(0.0, 500.0))
    ny = draw(st.integers(1, 3))
    ys = [{'t': draw(gen.fl(-2, 2)), 'r': draw(gen.fl(0.3, 3.0))} for _ in range(ny)]
    return {'v': float(v), 'e': float(e), 'sig': sig, 'ys': ys, 'how': draw(st.sampled_from(['list', 'dict'])),
            'flag': draw(st.sampled_from(['', '', '+', ' ']))}


def prior_fit_oracle(spec):
    import pyerrors as pe
    p = pe.cov_Obs(spec['v'], spec['e'] ** 2, 'p')
    p.gamma_method()
    s = format(p, spec['flag'] + str(spec['sig']))
    body = strip_flag(s, spec['flag'])
    info = judge(body, float(p.value), float(p.dvalue), spec['sig'], 'format(obs, %r)' % (spec['flag'] + str(spec['sig'])))
    pv, pe_ = float(info['pv']), float(info['pe'])
    ys = []
    for i, y in enumerate(spec['ys']):
        o = pe.cov_Obs(spec['v'] + y['t'] * spec['e'], (y['r'] * spec['e']) ** 2, 'y%d' % i)
        o.gamma_method()
        ys.append(o)
    xs = np.arange(1, len(ys) + 1, dtype=float)

    def func(a, x):
        return a[0] + 0.0 * x

    ref_prior = pe.cov_Obs(pv, pe_ ** 2, 'refprior')
    ref_prior.gamma_method()

    def run(prior):
        pr = [prior] if spec['how'] == 'list' else {0: prior}
        r = pe.fits.least_squares(xs, ys, func, priors=pr, silent=True)
        r.gamma_method()
        return r
    try:
        want = run(ref_prior)
    except Exception as ex:
        raise Skip('reference fit with an Obs prior failed: %s' % type(ex).__name__)
    got = run(s)
    gp = got.priors[0]
    gp.gamma_method()
    require(float(gp.value) == pv, 'prior used by the fit for %r has value %r, printed %r' % (s, gp.value, pv))
    require(abs(float(gp.dvalue) - pe_) <= 1e-15 * pe_, 'prior used by the fit for %r has error %r, printed %r' % (s, gp.dvalue, pe_))
    a, b = got.fit_parameters[0], want.fit_parameters[0]
    # Levenberg-Marquardt with a finite-difference Jacobian: the minimum is located to ~1e-8 of the parameter error
    # (largest deviation over 1500 generated cases: 1.7e-8 between the two runs, 5.6e-8 from the closed form)
    tol = 1e-5 * float(b.dvalue)
    require(abs(float(a.value) - float(b.value)) <= tol and abs(float(a.dvalue) - float(b.dvalue)) <= tol,
            'fit with prior %r gives %r +- %r, fit with the prior observable %r +- %r gives %r +- %r'
            % (s, a.value, a.dvalue, pv, pe_, b.value, b.dvalue))
    # closed form of the constrained average (linear problem): weights 1/sigma^2
    w = [1.0 / float(o.dvalue) ** 2 for o in ys] + [1.0 / pe_ ** 2]
    m = [float(o.value) for o in ys] + [pv]
    avg = sum(wi * mi for wi, mi in zip(w, m)) / sum(w)
    err = math.sqrt(1.0 / sum(w))
    require(abs(float(a.value) - avg) <= 1e-5 * err and abs(float(a.dvalue) - err) <= 1e-5 * err,
            'fit with prior %r gives %r +- %r, weighted average with the printed prior is %r +- %r' % (s, a.value, a.dvalue, avg, err))
    return {'nt': info['rounded'], 'cls': ['sig:%d' % spec['sig'], 'how:' + spec['how'], 'flag:%r' % spec['flag']] + (['carry'] if info['carry'] else [])}


SUBS = [
    Sub('string', string_case, string_oracle, {'quick': 2500, 'thorough': 60000}, {'quick': 12, 'thorough': 16},
        doc='str/repr/format of analysed observables: half-unit re-parse, digits, flags, prior parser'),
    Sub('general', general_case, general_oracle, {'quick': 250, 'thorough': 5000}, {'quick': 1, 'thorough': 4},
        doc='the same on arbitrary analysed Monte-Carlo observables'),
    Sub('cobs', cobs_case, cobs_oracle, {'quick': 1500, 'thorough': 25000}, {'quick': 2, 'thorough': 8},
        doc='complex observables print both parts in this way', max_skip_frac=0.2),
    Sub('noerror', noerror_case, noerror_oracle, {'quick': 800, 'thorough': 20000}, {'quick': 1, 'thorough': 4},
        doc='observable without error prints as its plain value', max_skip_frac=0.2),
    Sub('views', views_case, views_oracle, {'quick': 1800, 'thorough': 30000}, {'quick': 2, 'thorough': 8},
        doc='comparisons, float, is_zero_within_error use exactly value and dvalue'),
    Sub('plottable', plottable_case, plottable_oracle, {'quick': 500, 'thorough': 10000}, {'quick': 1, 'thorough': 4},
        doc='Corr.plottable() = defined slices, values, dvalues'),
    Sub('prior_fit', prior_fit_case, prior_fit_oracle, {'quick': 120, 'thorough': 2500}, {'quick': 2, 'thorough': 8},
        doc='fit with a printed string as prior = fit with the prior observable of the printed value and error',
        max_skip_frac=0.2),
]
