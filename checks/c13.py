"""C13  Jackknife and bootstrap export/import are exact resampling transforms.

Sub-properties
  jackknife  export = (value, leave-one-out means); jackknife variance = naive error^2; import(export) restores the observable
             including its configuration list; export(import(export)) is a fixed point.
  bootstrap  export with a supplied table = means over the resampled configurations (any table); default seeding is
             reproducible, written out by save_rng, and consistent between observables of one chain (also of different
             length, in one process); import with a full-column-rank table restores value and fluctuations; fewer samples
             than configurations raise.
"""
import os
import tempfile

import numpy as np
from hypothesis import strategies as st

from vlib import gen
from vlib.build import build_obs, chain_samples, idl_arg
from vlib.core import Sub, Violation, Skip, require
from vlib.refobs import RefObs, cmp_obs

PROPERTY = 'C13'
LEVEL = 'exploration'
RULE = ('Hypothesis-generated single-replica observables (length 5..60 quick / ..500 thorough; contiguous, strided, '
        'irregular and range-like lists; white / AR(1) / constant / alternating / count / explicit data) and bootstrap tables '
        'drawn element-wise by Hypothesis (repeated rows, rank-deficient and full-rank, labelled by numpy matrix_rank). '
        'Non-trivial: irregular or strided configuration list, or a table with repeated rows / rank deficiency, or the '
        'two-observables-one-chain sequence; distinct = distinct spec hash.')
ASSUMPTIONS = ['leave-one-out means computed with np.delete; bootstrap means as x[table[b]].mean()',
               'import tolerance 1e-10 * cond(projector) relative to the sample magnitude']


@st.composite
def single_chain(draw, tier, nmax=None):
    nmax = nmax or (60 if tier == 'quick' else 500)
    e = draw(st.sampled_from(gen.ENSEMBLES))
    name = draw(st.sampled_from([e, e + '|r1', e + '|r10']))
    il = draw(gen.idl_list(5, nmax))
    data = draw(gen.recipe(len(il), sigma=gen.fl(0.01, 3.0), mean=st.one_of(gen.fl(-5, 5), st.sampled_from([0.0, 1e6, -1e-6]))))
    if draw(st.integers(0, 5)) == 0:
        # the same chain in other units: the resampling transforms are scale covariant, absolute thresholds are not
        data = dict(data, scale=10.0 ** draw(st.sampled_from([-30, -25, -22, -19, 15, 25])))
    return {'name': name, 'idl': il, 'form': draw(gen.idl_form()), 'data': data}


@st.composite
def jack_case(draw, tier):
    return {'chain': draw(single_chain(tier)), 'naive_via': draw(st.sampled_from(['arg', 'arg', 'dict', 'global'])),
            'scribble': draw(st.booleans())}


def jack_oracle(spec):
    import pyerrors as pe
    c = spec['chain']
    x = np.array(chain_samples(c), dtype=float)
    n = len(x)
    o = build_obs({'chains': [c], 'cov': []})
    j = o.export_jackknife()
    scale = float(np.max(np.abs(x))) or 1.0
    require(isinstance(j, np.ndarray) and j.shape == (n + 1,), 'export_jackknife must return N+1 numbers', getattr(j, 'shape', None))
    require(abs(j[0] - np.mean(x)) <= 1e-13 * scale, 'entry 0 of the jackknife export is not the central value', j[0], np.mean(x))
    loo = np.array([np.mean(np.delete(x, i)) for i in range(n)])
    bad = np.where(np.abs(j[1:] - loo) > 1e-12 * scale)[0]
    require(len(bad) == 0, 'jackknife sample %s is not the leave-one-out mean' % bad[:3].tolist(), j[1:][bad[:3]].tolist(), loo[bad[:3]].tolist())
    if spec.get('scribble'):
        # the caller owns the returned array: writing to it must not change what a later export of the unchanged observable returns
        keep = j.copy()
        j[1:] -= j[0]
        j[0] = 0.0
        j_again = o.export_jackknife()
        require(j_again is not j and np.array_equal(j_again, keep), 'a second export_jackknife of the unchanged observable differs after the '
                'array returned by the first one was modified in place', float(np.max(np.abs(j_again - keep))))
        j = keep
    # the naive error: S = 0 requested by argument, by the per-ensemble dictionary or by the global default
    via = spec.get('naive_via', 'arg')
    if via == 'dict':
        pe.Obs.S_dict[c['name'].split('|')[0]] = 0
        o.gamma_method()
        pe.Obs.S_dict = {}
    elif via == 'global':
        pe.Obs.S_global = 0
        o.gamma_method()
        pe.Obs.S_global = 2.0
    else:
        o.gamma_method(S=0)
    var = (n - 1) / n * np.sum((j[1:] - np.mean(j[1:])) ** 2)
    # rounding of the samples (~eps*scale each) enters the variance through 2*sum|j - jbar|
    tol = 1e-9 * max(var, o.dvalue ** 2) + 100 * np.finfo(float).eps * scale * float(np.sum(np.abs(j[1:] - np.mean(j[1:])))) + 1e-26 * scale ** 2
    require(abs(var - o.dvalue ** 2) <= tol, 'jackknife variance differs from the squared naive error (S=0 requested via %s)' % via, var, o.dvalue ** 2)
    back = pe.import_jackknife(j, c['name'], idl=[idl_arg(c)])
    rf = RefObs.from_samples([x], [c['name']], [c['idl']])
    # the import forms sum_j J_j - (N-1) J_i: rounding grows like N * eps relative to the sample magnitude
    rnd = max(1e-12, 200 * n * np.finfo(float).eps)
    cmp_obs(rf, back, 'import_jackknife(export_jackknife(o))', rtol=1e-9, atol_scale=10 * rnd, vtol=rnd, check_form=True)
    j2 = back.export_jackknife()
    require(np.all(np.abs(j2 - j) <= 10 * rnd * scale), 'export -> import -> export is not a fixed point', float(np.max(np.abs(j2 - j))))
    k = gen.classify_idl(c['idl'])
    return {'nt': k != 'contig', 'cls': ['idl:' + k, 'data:' + c['data']['kind'], 'n<=8' if n <= 8 else 'n>8', 'S0_via:' + via]}


@st.composite
def boot_case(draw, tier):
    c = draw(single_chain(tier, nmax=24 if tier == 'quick' else 60))
    if draw(st.integers(0, 11)) == 0:
        # a long chain with a table that draws single configurations hundreds of times ("any table at all")
        n = draw(st.integers(256, 300))
        c = {'name': c['name'], 'idl': list(range(3, 3 + n)), 'form': 'range', 'data': draw(gen.recipe(n, kinds=('white', 'ar1'), sigma=gen.fl(0.1, 2.0)))}
        j = draw(st.integers(0, n - 1))
        table = [[j] * n, [j] * (n - 1) + [draw(st.integers(0, n - 1))], [draw(st.integers(0, n - 1)) for _ in range(n)]][:draw(st.integers(1, 3))]
        return {'chain': c, 'table': table, 'kind': 'any'}
    if draw(st.integers(0, 14)) == 0:
        # more bootstrap samples than any block size an implementation might use internally
        n = len(c['idl'])
        ns = draw(st.integers(2049, 2300))
        seed_ = draw(st.integers(0, 10 ** 6))
        return {'chain': c, 'table_rule': ['uniform', seed_, ns], 'table': None, 'kind': 'any', 'layout': draw(st.sampled_from(['C', 'F', 'list']))}
    if draw(st.integers(0, 11)) == 0:
        # full column rank but far from orthogonal: row 0 draws every configuration once, row i draws configuration i three
        # times instead of its two neighbours (a discrete Laplacian; condition number grows like N^2)
        n = draw(st.integers(40, 90))
        c = {'name': c['name'], 'idl': list(range(2, 2 + n)), 'form': 'range', 'data': draw(gen.recipe(n, kinds=('white', 'ar1'), sigma=gen.fl(0.1, 2.0)))}
        return {'chain': c, 'table_rule': ['laplace'], 'table': None, 'kind': 'fullrank', 'layout': draw(st.sampled_from(['C', 'F']))}
    n = len(c['idl'])
    kind = draw(st.sampled_from(['any', 'any', 'fullrank', 'few']))
    if kind == 'few':
        ns = draw(st.integers(1, n - 1))
    elif kind == 'fullrank':
        ns = draw(st.integers(n, 3 * n))
    else:
        ns = draw(st.integers(1, 3 * n))
    table = [draw(st.lists(st.integers(0, n - 1), min_size=n, max_size=n)) for _ in range(ns)]
    if kind == 'fullrank':
        # make the projector full column rank by construction: row i (i<n) resamples configuration i once more
        # than a common base pattern
        base = list(range(n))
        for i in range(n):
            row = list(base)
            row[(i + 1) % n] = i
            table[i] = row
    if draw(st.booleans()) and ns > 1:
        table[-1] = list(table[0])       # repeated row
    return {'chain': c, 'table': table, 'kind': kind, 'layout': draw(st.sampled_from(['C', 'C', 'F', 'T', 'strided', 'list']))}


def _table_arg(table, layout):
    """the same table of random numbers in another memory layout / container"""
    if layout == 'F':
        return np.asfortranarray(table)
    if layout == 'T':
        return np.ascontiguousarray(table.T).T          # transposed view of a C-ordered array (as loadtxt(..., unpack=True).T gives)
    if layout == 'strided':
        big = np.zeros((table.shape[0], 2 * table.shape[1]), dtype=table.dtype)
        big[:, ::2] = table
        return big[:, ::2]
    if layout == 'list':
        return [[int(v) for v in row] for row in table]
    return table


def boot_oracle(spec):
    import pyerrors as pe
    c = spec['chain']
    x = np.array(chain_samples(c), dtype=float)
    n = len(x)
    scale = (float(np.max(np.abs(x))) or 1.0) + 1e-290      # samples in the denormal range carry no relative precision
    o = build_obs({'chains': [c], 'cov': []})
    if spec.get('table') is None:
        rule = spec['table_rule']
        if rule[0] == 'uniform':
            table = np.random.RandomState(rule[1]).randint(0, n, size=(rule[2], n))
        else:
            table = np.tile(np.arange(n), (n, 1))
            for i in range(1, n):
                table[i, (i - 1) % n] = i
                table[i, (i + 1) % n] = i
    else:
        table = np.array(spec['table'], dtype=int)
    ns = table.shape[0]
    b = o.export_bootstrap(samples=ns, random_numbers=_table_arg(table, spec.get('layout', 'C')))
    require(isinstance(b, np.ndarray) and b.shape == (ns + 1,), 'export_bootstrap must return samples+1 numbers', getattr(b, 'shape', None))
    require(abs(b[0] - np.mean(x)) <= 1e-13 * scale, 'entry 0 of the bootstrap export is not the central value')
    want = np.array([x[row].mean() for row in table])
    bad = np.where(np.abs(b[1:] - want) > 1e-12 * scale)[0]
    require(len(bad) == 0, 'bootstrap sample %s is not the mean over the resampled configurations' % bad[:3].tolist(),
            b[1:][bad[:3]].tolist(), want[bad[:3]].tolist())
    proj = np.vstack([np.bincount(r, minlength=n) for r in table]) / n
    rank = int(np.linalg.matrix_rank(proj))
    labs = ['kind:' + spec['kind'], 'rank:' + ('full' if rank == n else 'deficient'), 'idl:' + gen.classify_idl(c['idl']), 'table:' + spec.get('layout', 'C')]
    if ns < n:
        try:
            pe.import_bootstrap(b, c['name'], table)
        except ValueError:
            return {'nt': True, 'cls': labs + ['few:raises']}
        raise Violation('import_bootstrap accepted %d samples for %d configurations' % (ns, n))
    if rank == n:
        cond = float(np.linalg.cond(proj))
        if cond > 1e6:
            raise Skip('ill-conditioned table')
        b_before, t_before = b.copy(), table.copy()
        back = pe.import_bootstrap(b, c['name'], table)
        require(np.array_equal(b, b_before) and np.array_equal(table, t_before), 'import_bootstrap modified the arrays it was given')
        again = pe.import_bootstrap(b, c['name'], table)
        require(np.array_equal(np.asarray(again.deltas[c['name']]), np.asarray(back.deltas[c['name']])) and again.value == back.value,
                'importing the same bootstrap samples twice gives different observables')
        require(abs(float(back.value) - float(np.mean(x))) <= 1e-12 * scale, 'import_bootstrap did not restore the central value')
        rec = np.asarray(back.deltas[c['name']]) + back.r_values[c['name']]
        # (a backward stable least-squares solution is accurate to eps * cond; 1e-12 leaves a factor 1e4 / N for its constants)
        require(rec.shape == x.shape and np.all(np.abs(rec - x) <= 1e-12 * cond * scale), 'import_bootstrap did not restore the Monte-Carlo samples',
                float(np.max(np.abs(rec - x))) if rec.shape == x.shape else rec.shape, cond)
        require(list(back.names) == [c['name']], 'name of the re-imported observable', back.names)
    rep = len(set(map(tuple, table.tolist()))) < ns
    return {'nt': rep or rank < n or gen.classify_idl(c['idl']) != 'contig', 'cls': labs}


@st.composite
def seed_case(draw, tier):
    c = draw(single_chain(tier, nmax=40 if tier == 'quick' else 150))
    n = len(c['idl'])
    n2 = draw(st.integers(5, n + 10))
    return {'chain': c, 'data2': draw(gen.recipe(n, kinds=('white', 'ar1', 'count'))), 'samples': draw(st.integers(1, 60)),
            'len3': n2, 'data3': draw(gen.recipe(n2, kinds=('white', 'ar1'))), 'first': draw(st.sampled_from(['short', 'long', 'same']))}


def seed_oracle(spec):
    import pyerrors as pe
    c = spec['chain']
    n = len(c['idl'])
    ns = spec['samples']
    a = build_obs({'chains': [c], 'cov': []})
    c2 = dict(c, data=spec['data2'])
    b = build_obs({'chains': [c2], 'cov': []})
    c3 = {'name': c['name'], 'idl': list(range(1, spec['len3'] + 1)), 'form': 'range', 'data': spec['data3']}
    d = build_obs({'chains': [c3], 'cov': []})
    x, y, z = (np.array(chain_samples(q), dtype=float) for q in (c, c2, c3))
    scale = max(float(np.max(np.abs(x))), float(np.max(np.abs(y))), float(np.max(np.abs(z)))) or 1.0
    # an observable of the same chain name but (possibly) different length is exported first or in between
    if spec['first'] == 'short' or spec['first'] == 'long':
        pre = d.export_bootstrap(samples=ns)
    tmp = tempfile.mkdtemp(prefix='verif_c13_')
    f = os.path.join(tmp, 'rng.txt')
    try:
        ea = a.export_bootstrap(samples=ns, save_rng=f)
        table = np.atleast_2d(np.loadtxt(f, dtype=int))
        if ns == 1 and table.shape != (1, n):
            table = table.reshape(1, -1)
    finally:
        if os.path.exists(f):
            os.unlink(f)
        os.rmdir(tmp)
    require(table.shape == (ns, n), 'saved random-number table has shape %r, expected %r' % (table.shape, (ns, n)))
    require(table.min() >= 0 and table.max() < n, 'saved random numbers outside 0..N-1', int(table.min()), int(table.max()))
    want = np.array([x[row].mean() for row in table])
    require(np.all(np.abs(ea[1:] - want) <= 1e-12 * scale), 'default-seeded export is not the resampling given by the saved table',
            float(np.max(np.abs(ea[1:] - want))))
    # seeding is by *chain* name: another replica of the same ensemble (same length) is resampled with its own table
    if ns * n >= 24:
        other = c['name'].split('|')[0] + '|zz_other_replica'
        ob = build_obs({'chains': [dict(c, name=other)], 'cov': []})
        tmp2 = tempfile.mkdtemp(prefix='verif_c13_')
        f2 = os.path.join(tmp2, 'rng.txt')
        try:
            ob.export_bootstrap(samples=ns, save_rng=f2)
            table2 = np.atleast_2d(np.loadtxt(f2, dtype=int)).reshape(ns, -1)
        finally:
            if os.path.exists(f2):
                os.unlink(f2)
            os.rmdir(tmp2)
        require(not np.array_equal(table2, table), 'a different chain (%s vs %s) is resampled with the identical default table' % (other, c['name']))
    ea2 = a.export_bootstrap(samples=ns)
    require(np.array_equal(ea, ea2), 'two default-seeded exports of the same observable differ')
    if spec['samples'] % 30 == 0:
        # reproducible also between interpreter runs: a fresh process with another string-hash salt saves the same table
        import subprocess
        import sys
        code = ('import sys, numpy as np\n'
                'import pyerrors as pe\n'
                'o = pe.Obs([np.arange(%d, dtype=float)], [%r])\n'
                'o.export_bootstrap(samples=%d, save_rng=sys.argv[1])\n' % (n, c['name'], ns))
        tmp3 = tempfile.mkdtemp(prefix='verif_c13_')
        f3 = os.path.join(tmp3, 'rng.txt')
        try:
            env = dict(os.environ, PYTHONHASHSEED=str(1 + spec['samples']), PYTHONPATH=os.environ.get('VERIF_REPO', '/repo'))
            p3 = subprocess.run([sys.executable, '-c', code, f3], env=env, capture_output=True, text=True, timeout=300)
            if p3.returncode != 0:
                raise RuntimeError('harness: child interpreter failed: ' + p3.stderr[-300:])
            table3 = np.atleast_2d(np.loadtxt(f3, dtype=int)).reshape(ns, -1)
        finally:
            if os.path.exists(f3):
                os.unlink(f3)
            os.rmdir(tmp3)
        require(np.array_equal(table3, table), 'the name-seeded resampling table of chain %r differs between two interpreter runs' % c['name'])
    eb = b.export_bootstrap(samples=ns)
    wantb = np.array([y[row].mean() for row in table])
    require(np.all(np.abs(eb[1:] - wantb) <= 1e-12 * scale), 'another observable of the same chain is resampled with a different table')
    es = (a + b).export_bootstrap(samples=ns)
    require(np.all(np.abs(es - (ea + eb)) <= 1e-12 * scale), 'export(a+b) != export(a) + export(b) for observables of one chain')
    ed = d.export_bootstrap(samples=ns)
    require(ed.shape == (ns + 1,) and abs(ed[0] - z.mean()) <= 1e-13 * scale, 'export of a second observable with the same chain name')
    lo, hi = float(z.min()), float(z.max())
    require(np.all(ed[1:] >= lo - 1e-12 * scale) and np.all(ed[1:] <= hi + 1e-12 * scale),
            'bootstrap means of the second observable lie outside the range of its samples (wrong table shape or range)')
    return {'nt': spec['len3'] != n, 'cls': ['first:' + spec['first'], 'len3:' + ('same' if spec['len3'] == n else 'differs'), 'idl:' + gen.classify_idl(c['idl'])]}


SUBS = [
    Sub('jackknife', jack_case, jack_oracle, {'quick': 600, 'thorough': 5000}, {'quick': 4, 'thorough': 16}, doc='leave-one-out export, variance identity, import round trip'),
    Sub('bootstrap', boot_case, boot_oracle, {'quick': 500, 'thorough': 4000}, {'quick': 4, 'thorough': 16}, doc='export with supplied tables, import with full-rank tables, too few samples raise'),
    Sub('seeding', seed_case, seed_oracle, {'quick': 400, 'thorough': 3000}, {'quick': 3, 'thorough': 8}, doc='default name-seeded tables: reproducible, saved, chain-consistent'),
]
