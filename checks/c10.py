"""C10  Matrix operations on observable matrices satisfy their defining identities.

All identities are evaluated to first order in the RefObs domain (vlib/refmat.py): every entry of the inputs and of
the returned matrices is placed on the common union layout by RefObs.combine (the C01 rule), after which an identity
between matrices of observables is numpy algebra on values, fluctuation arrays and covariance gradients with the
product rule written out here.  pyerrors' own matmul is never used to judge pyerrors' inverse (or anything else).

Sub-properties
  matmul    pe.linalg.matmul(M1..Mp), p=2..4, n=1..4, real / complex / mixed factors, plain-number entries and
            plain numeric factors: every entry equals the explicit sum of element products (product rule);
            one drawn entry additionally through RefObs.combine with the analytic gradient + cmp_obs.
  inv       A X = 1 for X = inv(A), real (diagonally dominant, SPD) and complex (diagonally dominant) matrices;
            for real input one drawn entry against the analytic gradient -X_ia X_bj.
  cholesky  L L^T = A and L lower triangular (upper entries exactly zero) for SPD matrices.
  det       det(A) equals the Leibniz (cofactor) expansion as an observable: value, fluctuations through the
            cofactors, each computed by its own explicit permutation sum; also via combine + cmp_obs.
  eigh      A V = V diag(w), V^T V = 1 for (w, V) = eigh(A) of symmetric matrices with separated eigenvalues;
            eigv(A) alone: V^T A V diagonal and V^T V = 1.
  eig       every eigenvalue returned by eig(A) satisfies det(A - lambda 1) = 0 as an observable and the values
            are the complete spectrum; symmetric input and non-symmetric input with real separated spectrum.
  pinv      A A^+ A = A (statement) and the remaining Moore-Penrose conditions (docstring of pinv) for full-rank
            rectangular and square matrices.
  svd       U diag(S) V^h = A, U^T U = 1, V^h V^hT = 1 for full-rank rectangular and square matrices.
  jack_matmul / einsum
            exact agreement (rounding) with an independent per-sample jackknife computation in numpy from the raw
            samples of the spec; value equal to the exact product; fluctuations within an explicit second-order
            bound  2 sum_{|S|>=2} (N-1)^(1-|S|) T(|means|, max|delta|)  of the exact first-order product.
            Chained calls (3 of 5 cases): one or two observable operands are themselves the result of an earlier
            jack_matmul / einsum call (depth <= 2, any operand position, products of 2-4 factors), i.e. observables whose
            value differs from the mean of their samples.  Every call of the sequence is judged: value equal to the exact
            product of the central values of its operands (hence, through the sequence, to the exact product of the
            primary central values) within 1e-12 x sum of the |terms|; fluctuations within the same second-order bound
            of the exact first-order product of the operands it was given (delta -> samples minus value).  The
            sample-by-sample agreement with the independent jackknife is asserted only for calls on primary observables
            (for value != sample mean the property fixes the value and O(1/N), not the individual jackknife samples).
"""
import copy
import itertools
import math

import numpy as np
from hypothesis import strategies as st

from vlib import gen, findings
from vlib import refmat as rm
from vlib.build import build_obs, samples as recipe_samples, idl_arg, to_complex
from vlib.core import spec_hash, Sub, Skip, require
from vlib.refobs import RefObs, combine, cmp_obs

PROPERTY = 'C10'
LEVEL = 'exploration'
RULE = ('Hypothesis-generated matrices (1x1..4x4, rectangular for svd/pinv) whose entries are distinct observables '
        'living on subsets of a common base layout (1-2 ensembles x 1-3 replicas, contiguous / strided / irregular '
        'configuration lists, replica subsets, optional shared covariance inputs), plain python numbers, CObs with '
        'observable or plain parts, or plain complex numbers; central values constructed to be well conditioned '
        '(diagonally dominant, Q diag(lambda) Q^T with eigenvalue / singular-value gaps >= 0.3); products of 2-4 factors. '
        'A case is non-trivial if its observable entries live on at least two different layouts, or it has complex '
        'entries, or it is a product of >= 3 factors; distinct = distinct spec hash. For jack_matmul / einsum all '
        'entries share one chain (documented precondition of export_jackknife); in 3 of 5 cases one or two operands are '
        'results of an earlier jackknife product of the same case (labels chained:*), which also makes a case non-trivial. While the findings F-C10-1 / F-C10-2 are '
        'open, matmul inputs of exactly their class (checks.c10.f_c10_1_selected / f_c10_2_operands) are repaired by '
        'replacing entry [0,0] of the offending factor and labelled excluded:<id>; ill-conditioned draws (after noise) '
        'are skipped and counted.')
ASSUMPTIONS = ['RefObs.combine is the statement of C01 (vlib/refobs.py); identities are judged on the union layout it defines',
               'tolerances: fluctuations and covariance gradients 1e-9 relative to the summed magnitude of the terms of the '
               'identity (raw-sample magnitude times |factors|), values 1e-10 relative to the summed |terms|; matrices have '
               'condition numbers < 1e3 and eigenvalue gaps > 0.05 by construction (guarded, otherwise skipped); absolute '
               'rounding floor 1e-13 x largest magnitude that entered on the chain x max(1, sum of |value terms|)',
               'plain complex numbers are generated only next to CObs entries (a real Obs matrix with complex numbers is not a '
               '"matrix of Obs or CObs"); jack_matmul / einsum get whole numeric operands, not plain entries inside Obs '
               'matrices (export_jackknife is called on every entry), and a first operand of observables',
               'svd orthonormality of U, V and the three further Penrose conditions are taken as part of the definition of '
               '"singular-value decomposition" / "Moore-Penrose pseudoinverse" (docstrings of svd, pinv)',
               'jackknife reference: jack_i = (N mean - x_i)/(N-1) from the raw samples, result fluctuations -(N-1)(R_i - mean R); '
               'agreement 1e-9 relative + 1e-12 N max|R|',
               'chained jackknife products: the value of every call is compared with the product of the central values of its '
               'operands (reference values carried through the sequence in numpy) at 1e-12 x max(|value|, largest jackknife entry, '
               'sum of the |terms| of the multilinear form accumulated over all earlier calls): the value is a pure product of the '
               'exported zeroth entries, so only rounding (<= a few hundred eps x sum |terms|) is admitted; an O(1/N^2) shift of the '
               'value is a violation ("agree with the exact product in value"). Fluctuations and the offset samples - value of an '
               'operand that is an earlier result are read from that result (after its value and fluctuations were judged)',
               'replica means of results are not compared (the statement speaks of value and fluctuations)']

DATA_KINDS = ['white', 'white', 'ar1', 'alt']
SIGMA = gen.fl(0.001, 0.01)


# ==================================================================================================================
# generators: observables

def _ens(n):
    return n.split('|')[0]


def entry_spec(tpl, target, kind, seed, sigma, rho, covfac):
    """Observable spec on the layout of template `tpl` with central value ~ target (+- few sigma)."""
    enss = sorted(set(_ens(c['name']) for c in tpl['chains']))
    chains = []
    for k, c in enumerate(tpl['chains']):
        data = {'kind': kind, 'seed': (seed + 7919 * k) % (2 ** 31), 'mean': target / len(enss), 'sigma': sigma}
        if kind == 'ar1':
            data['rho'] = rho
        chains.append({'name': c['name'], 'idl': list(c['idl']), 'form': c['form'], 'data': data})
    cov = []
    if covfac != 0.0:
        for cv in tpl.get('cov', []):
            cov.append({'name': cv['name'], 'cov': cv['cov'], 'means': [0.0] * len(cv['means']),
                        'grad': [covfac * g for g in cv['grad']]})
    return {'chains': chains, 'cov': cov}


class Pool:
    """Collects the observable specs of a case; matrix entries refer to them by index."""

    def __init__(self, draw, tier, k=None, sigma=SIGMA, single_layout=False):
        self.draw = draw
        self.sigma = sigma
        lmax = 24 if tier == 'quick' else 80
        k = k or draw(st.sampled_from([1, 2, 3, 3, 4, 4]))
        if single_layout:
            k = 1
        self.tpls = draw(gen.related_obs_specs(k, ens_max=2, rep_max=3, lmin=8, lmax=lmax, with_cov=True,
                                               mean=st.just(0.0), sigma=st.just(0.01), data_kinds=('white',), p_same=0.2))
        self.ops = []
        self.offset = draw(st.integers(0, k - 1))

    def obs(self, target):
        d = self.draw
        # mostly cycle through the layouts (so that a matrix mixes them), sometimes pick freely
        k = len(self.tpls)
        t = (len(self.ops) + self.offset) % k if d(st.integers(0, 3)) else d(st.integers(0, k - 1))
        sp = entry_spec(self.tpls[t], float(target), d(st.sampled_from(DATA_KINDS)), d(st.integers(0, 2 ** 31 - 1)),
                        d(self.sigma), d(st.sampled_from([0.5, 0.9, -0.3])), d(st.sampled_from([0.0, 1.0, 1.0, -0.5, 2.0])))
        self.ops.append(sp)
        return {'o': len(self.ops) - 1}

    def real(self, target, p_plain):
        if self.draw(st.floats(0, 1)) < p_plain:
            return {'num': float(target)}
        return self.obs(target)

    def cplx(self, z, kind):
        """kind: cc CObs(Obs,Obs) | cn CObs(Obs,num) | nc CObs(num,Obs) | z plain complex | o plain Obs | num plain float"""
        z = complex(z)
        if kind == 'cc':
            return {'c': [self.obs(z.real), self.obs(z.imag)]}
        if kind == 'cn':
            return {'c': [self.obs(z.real), {'num': z.imag}]}
        if kind == 'nc':
            return {'c': [{'num': z.real}, self.obs(z.imag)]}
        if kind == 'z':
            return {'z': [z.real, z.imag]}
        if kind == 'o':
            return self.obs(z.real)
        return {'num': z.real}


def orth(n, angles):
    q = np.eye(n)
    k = 0
    for i in range(n):
        for j in range(i + 1, n):
            c, s = math.cos(angles[k]), math.sin(angles[k])
            k += 1
            g = np.eye(n)
            g[i, i] = c
            g[j, j] = c
            g[i, j] = -s
            g[j, i] = s
            q = q @ g
    return q


@st.composite
def orth_matrix(draw, n):
    return orth(n, [draw(gen.fl(-math.pi, math.pi)) for _ in range(n * (n - 1) // 2)])


@st.composite
def spectrum(draw, n, lo, hi, gap=0.3):
    x = draw(gen.fl(lo, hi))
    out = [x]
    for _ in range(n - 1):
        x = x + draw(gen.fl(gap, 1.5))
        out.append(x)
    return out


NUMVALS = st.one_of(gen.fl(-2, 2), st.sampled_from([0.0, 1.0, -1.0, 0.5]))


# ------------------------------------------------------------------------------------------------------------------
# generators: matrices (targets first, then entries)

def _mat(rows, cols, entries, **kw):
    d = {'rows': rows, 'cols': cols, 'e': entries}
    d.update(kw)
    return d


@st.composite
def real_generic(draw, pool, n, p_plain):
    ent = []
    for _ in range(n * n):
        v = draw(NUMVALS)
        if draw(st.floats(0, 1)) < p_plain:
            ent.append({'num': int(round(v)) if draw(st.booleans()) else float(v)})
        else:
            ent.append(pool.obs(v))
    return _mat(n, n, ent)


@st.composite
def real_diagdom(draw, pool, n, p_plain):
    tgt = np.zeros((n, n))
    plain = np.zeros((n, n), dtype=bool)
    for i in range(n):
        for j in range(n):
            if i != j:
                tgt[i, j] = draw(st.one_of(gen.fl(-1, 1), st.sampled_from([0.0, 1.0, 0.5])))
            plain[i, j] = draw(st.floats(0, 1)) < p_plain
    for i in range(n):
        tgt[i, i] = draw(st.sampled_from([1.0, -1.0])) * (float(np.sum(np.abs(tgt[i]))) + draw(gen.fl(0.6, 2.0)))
    ent = [({'num': float(tgt[i, j])} if plain[i, j] else pool.obs(tgt[i, j])) for i in range(n) for j in range(n)]
    return _mat(n, n, ent)


@st.composite
def real_symmetric(draw, pool, n, p_plain, positive, gap=0.3):
    lam = draw(spectrum(n, 0.5, 2.0, gap)) if positive else draw(spectrum(n, -3.0, 1.0, gap))
    q = draw(orth_matrix(n))
    tgt = q @ np.diag(lam) @ q.T
    tgt = (tgt + tgt.T) / 2
    ent = {}
    for i in range(n):
        for j in range(i, n):
            ent[(i, j)] = ent[(j, i)] = pool.real(tgt[i, j], p_plain)
    return _mat(n, n, [ent[(i, j)] for i in range(n) for j in range(n)], sym=True)


@st.composite
def real_nonsym_realspec(draw, pool, n, p_plain):
    lam = draw(spectrum(n, -2.0, 1.0, 0.6))
    p = draw(orth_matrix(n)) @ np.diag([draw(gen.fl(1.0, 2.0)) for _ in range(n)]) @ draw(orth_matrix(n))
    tgt = p @ np.diag(lam) @ np.linalg.inv(p)
    return _mat(n, n, [pool.real(tgt[i, j], p_plain) for i in range(n) for j in range(n)])


@st.composite
def real_rect(draw, pool, r, c, p_plain):
    k = min(r, c)
    s = draw(spectrum(k, 0.5, 1.5))
    u = draw(orth_matrix(r))[:, :k]
    v = draw(orth_matrix(c))[:, :k]
    tgt = u @ np.diag(s) @ v.T
    return _mat(r, c, [pool.real(tgt[i, j], p_plain) for i in range(r) for j in range(c)])


CKINDS = ['cc', 'cc', 'cc', 'cn', 'nc', 'z', 'o', 'num']


@st.composite
def complex_matrix(draw, pool, n, diagdom, p_other, force00=None):
    """Complex matrix; p_other = probability of an entry that is not CObs(Obs, Obs)."""
    kinds = [[('cc' if draw(st.floats(0, 1)) >= p_other else draw(st.sampled_from(CKINDS))) for _ in range(n)] for _ in range(n)]
    if force00:
        kinds[0][0] = force00
    if not any(k in ('cc', 'cn', 'nc') for row in kinds for k in row):
        q = draw(st.integers(0, n * n - 1))       # a complex matrix contains at least one CObs
        kinds[q // n][q % n] = 'cc'
    tgt = np.zeros((n, n), dtype=complex)
    for i in range(n):
        for j in range(n):
            if i != j or not diagdom:
                im = 0.0 if kinds[i][j] in ('o', 'num') else draw(gen.fl(-1, 1))
                tgt[i, j] = complex(draw(gen.fl(-1, 1)), im)
    if diagdom:
        for i in range(n):
            mag = float(np.sum(np.abs(tgt[i]))) + draw(gen.fl(0.6, 2.0))
            ph = 0.0 if kinds[i][i] in ('o', 'num') else draw(gen.fl(-math.pi, math.pi))
            tgt[i, i] = mag * complex(math.cos(ph), math.sin(ph)) * (draw(st.sampled_from([1.0, -1.0])) if ph == 0.0 else 1.0)
    ent = [pool.cplx(tgt[i, j], kinds[i][j]) for i in range(n) for j in range(n)]
    return _mat(n, n, ent, cplx=True)


@st.composite
def numeric_matrix(draw, r, c, dtype):
    if dtype == 'int':
        ent = [{'num': draw(st.integers(-3, 3))} for _ in range(r * c)]
    elif dtype == 'complex':
        ent = [{'z': [draw(NUMVALS), draw(NUMVALS)]} for _ in range(r * c)]
    else:
        ent = [{'num': float(draw(NUMVALS))} for _ in range(r * c)]
    return _mat(r, c, ent, array=dtype)


# ==================================================================================================================
# spec -> pyerrors objects and reference parts

def is_cplx_entry(e):
    return 'c' in e or 'z' in e


def mat_is_cplx(m):
    return any(is_cplx_entry(e) for e in m['e'])


def has_cobs(m):
    return any('c' in e for e in m['e'])


class Case:
    """pyerrors objects and RefObs views of the observables of a spec (both built from the spec, independently)."""

    def __init__(self, spec):
        self.spec = spec
        self.pe = [build_obs(s) for s in spec['ops']]
        self.ref = [RefObs.from_spec(s) for s in spec['ops']]
        # memory layout in which the observable matrices are handed over: a pure function of the spec (every fourth case each:
        # Fortran order, transposed view of a C-ordered array, column slice of a larger array)
        self.mem = spec.get('mem') or ['C', 'F', 'T', 'slice'][int(spec_hash(spec), 16) % 4]

    def _pe_part(self, p):
        return self.pe[p['o']] if 'o' in p else p['num']

    def _ref_part(self, p):
        return self.ref[p['o']] if 'o' in p else rm.ref_number(p['num'])

    def pe_matrix(self, m):
        import pyerrors as pe
        r, c = m['rows'], m['cols']
        arr = m.get('array')
        if arr in ('float', 'int', 'complex'):
            vals = [complex(*e['z']) if 'z' in e else e['num'] for e in m['e']]
            return np.array(vals, dtype={'float': float, 'int': int, 'complex': complex}[arr]).reshape(r, c)
        out = np.empty((r, c), dtype=object)
        for k, e in enumerate(m['e']):
            if 'c' in e:
                x = pe.CObs(self._pe_part(e['c'][0]), self._pe_part(e['c'][1]))
            elif 'z' in e:
                x = complex(*e['z'])
            else:
                x = self._pe_part(e)
            out[k // c, k % c] = x
        if self.mem == 'F':
            return np.asfortranarray(out)
        if self.mem == 'T':
            t = np.empty((c, r), dtype=object)
            t[...] = out.T
            return t.T
        if self.mem == 'slice':
            big = np.empty((r, c + 1), dtype=object)
            big[:, :c] = out
            big[:, c] = 0.25
            return big[:, :c]
        return out

    def ref_matrix(self, m):
        r, c = m['rows'], m['cols']
        out = [[None] * c for _ in range(r)]
        for k, e in enumerate(m['e']):
            if 'c' in e:
                x = (self._ref_part(e['c'][0]), self._ref_part(e['c'][1]))
            elif 'z' in e:
                x = (rm.ref_number(e['z'][0]), rm.ref_number(e['z'][1]))
            else:
                x = self._ref_part(e)
            out[k // c][k % c] = x
        return out

    def values(self, m):
        """central values as a numpy array (complex if the matrix is)"""
        rf = self.ref_matrix(m)
        cp = mat_is_cplx(m)
        out = np.zeros((m['rows'], m['cols']), dtype=complex if cp else float)
        for i, row in enumerate(rf):
            for j, e in enumerate(row):
                out[i, j] = complex(e[0].value, e[1].value) if isinstance(e, tuple) else e.value
        return out

    def leaves(self, mats):
        """[(matrix index, i, j, part 're'|'im', op index)] of all observable leaves"""
        out = []
        for k, m in enumerate(mats):
            c = m['cols']
            for q, e in enumerate(m['e']):
                if 'c' in e:
                    for part, p in zip(('re', 'im'), e['c']):
                        if 'o' in p:
                            out.append((k, q // c, q % c, part, p['o']))
                elif 'o' in e:
                    out.append((k, q // c, q % c, 're', e['o']))
        return out


def out_parts(res, what, shape=None, allow_cobs=False):
    """pyerrors result array -> nested list of RefObs / (RefObs, RefObs)"""
    import pyerrors as pe
    require(isinstance(res, np.ndarray), '%s: result is %s, expected a numpy array' % (what, type(res).__name__))
    if shape is not None:
        require(res.shape == tuple(shape), '%s: result has shape %r, expected %r' % (what, res.shape, tuple(shape)))
    if res.ndim == 1:
        res = res.reshape(-1, 1)
    out = [[None] * res.shape[1] for _ in range(res.shape[0])]
    for (i, j), x in np.ndenumerate(res):
        w = '%s entry (%d,%d)' % (what, i, j)
        if isinstance(x, pe.CObs):
            require(allow_cobs, w + ' is a CObs although all inputs are real')
            out[i][j] = (rm.ref_from_pe(x.real, w + ' real part'), rm.ref_from_pe(x.imag, w + ' imaginary part'))
        else:
            out[i][j] = rm.ref_from_pe(x, w)
    return out


def flat_refs(parts):
    out = []
    for row in parts:
        for e in row:
            out.extend(e if isinstance(e, tuple) else (e,))
    return [r for r in out if r.d or r.cg]


class Frame:
    """Common layout of all inputs and outputs of one case."""

    def __init__(self, part_lists):
        refs = []
        for p in part_lists:
            refs.extend(flat_refs(p))
        if not refs:
            raise Skip('no observable in the case')
        self.car = rm.carrier(refs)
        self.lay = rm.layout_of(self.car, refs)

    def dense(self, parts):
        return rm.densify(parts, self.car, self.lay)

    def eye(self, n):
        return rm.const(np.eye(n), self.lay)


def strip_dummy(o):
    if rm.DUMMY not in o.covobs:
        return o
    o2 = copy.copy(o)
    o2._covobs = {k: v for k, v in o.covobs.items() if k != rm.DUMMY}
    o2.names = [n for n in o.names if n != rm.DUMMY]
    return o2


def spot_check(case, mats, what, out, part, value, G, vscale=None, gfloor=None):
    """One output number through the DEVGUIDE path: analytic gradient -> combine -> cmp_obs.
    G[k] = holomorphic derivative d out / d (M_k)_ab as complex (or real) arrays; `part` selects re / im of out."""
    grads, refs = [], []
    for k, a, b, lp, oi in case.leaves(mats):
        g = complex(G[k][a, b]) * (1j if lp == 'im' else 1.0)
        grads.append(g.real if part == 're' else g.imag)
        refs.append(case.ref[oi])
    if not refs:
        return
    v = complex(value)
    rf = combine(lambda x: 0.0, grads, refs, value=v.real if part == 're' else v.imag)
    if vscale is not None:
        # an entry that vanishes identically (structural zero of the result) is a rounding residue of the size eps * |result matrix|
        rf.vmag = max(rf.vmag, float(vscale))
        for n_ in rf.mag:       # d(result) = -X dA X: residues of size eps * |X|^2 * |dA|
            rf.mag[n_] = max(rf.mag[n_], float(vscale) ** 2 * max([r.mag.get(n_, 0.0) for r in refs] + [0.0]))
        for n_ in rf.cgmag:
            rf.cgmag[n_] = max(rf.cgmag[n_], float(vscale) ** 2 * max([r.cgmag.get(n_, 0.0) for r in refs] + [0.0]))
    if gfloor is not None:
        # a derivative that vanishes identically (zero cofactor) is computed by the library as det * inverse^T: a rounding residue
        # of the size eps * (largest derivative) * |dA|
        for n_ in rf.mag:
            rf.mag[n_] = max(rf.mag[n_], float(gfloor) * max([r.mag.get(n_, 0.0) for r in refs] + [0.0]))
        for n_ in rf.cgmag:
            rf.cgmag[n_] = max(rf.cgmag[n_], float(gfloor) * max([r.cgmag.get(n_, 0.0) for r in refs] + [0.0]))
    cmp_obs(rf, strip_dummy(out), what, rtol=1e-9, atol_scale=1e-11, vtol=1e-10, check_rv=False)


def layout_labels(spec, used=None):
    ops = spec['ops'] if used is None else [spec['ops'][i] for i in used]
    labs = set()
    if len(ops) >= 2:
        labs.update('rel:' + x for x in gen.relation_labels(ops))
    keys = set()
    for o in ops:
        keys.add((tuple((c['name'], tuple(c['idl'])) for c in o['chains'])))
        for c in o['chains']:
            labs.add('idl:' + gen.classify_idl(c['idl']))
        if o['cov']:
            labs.add('with_cov')
        if len(set(_ens(c['name']) for c in o['chains'])) > 1:
            labs.add('multi_ensemble_entry')
    labs.add('layouts:%s' % ('1' if len(keys) == 1 else '>=2'))
    return labs, len(keys) >= 2


def entry_labels(mats):
    labs = set()
    for m in mats:
        if m.get('array'):
            labs.add('numeric_factor:' + m['array'])
            continue
        if any(('num' in e) for e in m['e']):
            labs.add('plain_entries')
        for e in m['e']:
            if 'z' in e:
                labs.add('plain_complex_entry')
            if 'c' in e and any('num' in p for p in e['c']):
                labs.add('cobs_plain_part')
        if mat_is_cplx(m):
            labs.add('complex')
            if any('o' in e for e in m['e']):
                labs.add('obs_in_complex_matrix')
    return labs


def finish(spec, mats, labs, extra_nt=False):
    ll, multi = layout_labels(spec)
    labs = set(labs) | ll | entry_labels(mats)
    labs.add('mem:' + (spec.get('mem') or ['C', 'F', 'T', 'slice'][int(spec_hash(spec), 16) % 4]))
    nt = multi or any(mat_is_cplx(m) for m in mats) or len(mats) >= 3 or extra_nt
    return {'nt': bool(nt), 'cls': sorted(labs)}


def guard_cond(a, what, limit=1e3):
    s = np.linalg.svd(a, compute_uv=False)
    if s[-1] <= 0 or s[0] / s[-1] > limit:
        raise Skip('%s: ill-conditioned after noise' % what)


# ==================================================================================================================
# matmul

def _is_object_operand(m):
    return m.get('array') in (None, 'object')


def _part_kinds(e):
    """('o'|'n', 'o'|'n'): is the real / imaginary part of the entry an observable or a plain number"""
    if 'c' in e:
        return tuple('o' if 'o' in p else 'n' for p in e['c'])
    if 'o' in e:
        return ('o', 'n')          # a real observable: its imaginary part is the number 0
    return ('n', 'n')


def complex_branch(mats):
    """matmul takes its complex code path iff some operand carries a CObs in entry [0,0]"""
    return any(_is_object_operand(m) and 'c' in m['e'][0] for m in mats)


def f_c10_1_selected(mats):
    """input class of F-C10-1: CObs entries present, but none in entry [0,0] of any factor"""
    return any(has_cobs(m) for m in mats) and not complex_branch(mats)


def f_c10_2_operands(mats):
    """input class of F-C10-2: complex product with a factor whose first entry has a plain-number real (imaginary)
    part while another entry of that factor has an observable real (imaginary) part"""
    if not complex_branch(mats):
        return []
    out = []
    for k, m in enumerate(mats):
        if not _is_object_operand(m):
            continue
        ks = [_part_kinds(e) for e in m['e']]
        if any(ks[0][part] == 'n' and any(q[part] == 'o' for q in ks[1:]) for part in (0, 1)):
            out.append(k)
    return out


@st.composite
def matmul_case(draw, tier):
    p = draw(st.sampled_from([2, 2, 3, 3, 4]))
    n = draw(st.sampled_from([1, 2, 2, 3, 3, 4, 4]))
    while n * n * p > 36 and p > 2:
        p -= 1
    mode = draw(st.sampled_from(['real', 'real', 'complex', 'mixed']))
    pool = Pool(draw, tier)
    p_plain = draw(st.sampled_from([0.0, 0.0, 0.2, 0.5]))
    mats = []
    for k in range(p):
        if draw(st.integers(0, 5)) == 0:
            dt = draw(st.sampled_from(['float', 'int', 'object'] + (['complex'] if mode != 'real' else [])))
            m = draw(numeric_matrix(n, n, 'float' if dt == 'object' else dt))
            m['array'] = dt
            mats.append(m)
        elif mode == 'real' or (mode == 'mixed' and draw(st.booleans())):
            mats.append(draw(real_generic(pool, n, p_plain)))
        else:
            mats.append(draw(complex_matrix(pool, n, False, draw(st.sampled_from([0.0, 0.3, 0.6])))))
    if not pool.ops:
        mats[0] = draw(real_generic(pool, n, 0.0))
    if not any(has_cobs(m) for m in mats):
        # plain complex numbers only make sense next to complex observables (domain: matrices of Obs or CObs)
        for m in mats:
            if m.get('array') == 'complex':
                m['array'] = 'float'
                m['e'] = [{'num': e['z'][0]} for e in m['e']]
    excluded = []
    if f_c10_1_selected(mats) and findings.is_open('F-C10-1'):
        excluded.append('F-C10-1')
        k = [q for q, m in enumerate(mats) if has_cobs(m)][0]
        mats[k]['e'][0] = pool.cplx(complex(draw(NUMVALS), draw(NUMVALS)), 'cc')
    bad = f_c10_2_operands(mats)
    if bad and findings.is_open('F-C10-2'):
        excluded.append('F-C10-2')
        for k in bad:
            if mat_is_cplx(mats[k]):
                mats[k]['e'][0] = pool.cplx(complex(draw(NUMVALS), draw(NUMVALS)), 'cc')
            else:
                mats[k]['e'][0] = pool.obs(draw(NUMVALS))
    return {'ops': pool.ops, 'mats': mats, 'spot': [draw(st.integers(0, n - 1)), draw(st.integers(0, n - 1))],
            'excluded': excluded}


def matmul_oracle(spec):
    import pyerrors as pe
    mats = spec['mats']
    case = Case(spec)
    n = mats[0]['rows']
    cplx = any(mat_is_cplx(m) for m in mats)
    pmats = [case.pe_matrix(m) for m in mats]
    res = pe.linalg.matmul(*pmats)
    what = 'matmul of %d %s %dx%d factors' % (len(mats), 'complex' if cplx else 'real', n, n)
    out = out_parts(res, what, (n, n), allow_cobs=cplx)
    if cplx:
        require(all(isinstance(x, pe.CObs) for x in res.ravel()), what + ': complex factors must give a matrix of CObs',
                [type(x).__name__ for x in res.ravel()][:4])
    ins = [case.ref_matrix(m) for m in mats]
    fr = Frame(ins + [out])
    expected = rm.mprod([fr.dense(p) for p in ins])
    rm.check_equal(fr.dense(out), expected, what, xname='pyerrors', yname='sum of element products')
    # one entry through combine + cmp_obs
    i, j = spec['spot']
    vals = [case.values(m) for m in mats]
    G = []
    for k in range(len(mats)):
        pre = np.eye(n)
        for v in vals[:k]:
            pre = pre @ v
        suf = np.eye(n)
        for v in vals[k + 1:]:
            suf = suf @ v
        G.append(np.outer(pre[i, :], suf[:, j]))
    full = np.eye(n)
    for v in vals:
        full = full @ v
    if cplx:
        spot_check(case, mats, what + ' entry (%d,%d) real part' % (i, j), res[i, j].real, 're', full[i, j], G)
        spot_check(case, mats, what + ' entry (%d,%d) imaginary part' % (i, j), res[i, j].imag, 'im', full[i, j], G)
    else:
        spot_check(case, mats, what + ' entry (%d,%d)' % (i, j), res[i, j], 're', full[i, j], G)
    labs = {'factors:%d' % len(mats), 'n:%d' % n, 'kind:' + ('complex' if cplx else 'real')}
    labs.update('excluded:' + x for x in spec.get('excluded', []))
    if f_c10_1_selected(mats):
        labs.add('class:F-C10-1')
    if f_c10_2_operands(mats):
        labs.add('class:F-C10-2')
    return finish(spec, mats, labs)


# ==================================================================================================================
# inverse

@st.composite
def inv_case(draw, tier):
    n = draw(st.sampled_from([1, 2, 2, 3, 3, 4, 4]))
    pool = Pool(draw, tier)
    kind = draw(st.sampled_from(['diagdom', 'diagdom', 'spd', 'complex', 'complex']))
    p_plain = draw(st.sampled_from([0.0, 0.0, 0.2, 0.4]))
    if kind == 'diagdom':
        m = draw(real_diagdom(pool, n, p_plain))
    elif kind == 'spd':
        m = draw(real_symmetric(pool, n, p_plain, True))
    else:
        n = min(n, 3)
        m = draw(complex_matrix(pool, n, True, draw(st.sampled_from([0.0, 0.3, 0.6]))))
    if not pool.ops:
        m = draw(real_diagdom(pool, n, 0.0))
    return {'ops': pool.ops, 'mats': [m], 'kind': kind, 'spot': [draw(st.integers(0, n - 1)), draw(st.integers(0, n - 1))]}


def inv_oracle(spec):
    import pyerrors as pe
    m = spec['mats'][0]
    case = Case(spec)
    n = m['rows']
    cplx = mat_is_cplx(m)
    a = case.values(m)
    guard_cond(a, 'inv')
    res = pe.linalg.inv(case.pe_matrix(m))
    what = 'inv of a %s %dx%d matrix' % ('complex' if cplx else 'real', n, n)
    out = out_parts(res, what, (n, n), allow_cobs=cplx)
    ins = case.ref_matrix(m)
    fr = Frame([ins, out])
    A, X = fr.dense(ins), fr.dense(out)
    rm.check_zero(rm.sub(rm.mm(A, X), fr.eye(n)), what + ': A A^-1 - 1')
    i, j = spec['spot']
    x = np.linalg.inv(a)
    G = [-np.outer(x[i, :], x[:, j])]
    if cplx:
        spot_check(case, [m], what + ' entry (%d,%d) real part' % (i, j), res[i, j].real, 're', x[i, j], G, vscale=np.max(np.abs(x)))
        spot_check(case, [m], what + ' entry (%d,%d) imaginary part' % (i, j), res[i, j].imag, 'im', x[i, j], G, vscale=np.max(np.abs(x)))
    else:
        spot_check(case, [m], what + ' entry (%d,%d)' % (i, j), res[i, j], 're', x[i, j], G, vscale=np.max(np.abs(x)))
    return finish(spec, [m], {'n:%d' % n, 'kind:' + spec['kind']})


# ==================================================================================================================
# cholesky

@st.composite
def chol_case(draw, tier):
    n = draw(st.sampled_from([1, 2, 2, 3, 3, 4, 4]))
    pool = Pool(draw, tier)
    m = draw(real_symmetric(pool, n, draw(st.sampled_from([0.0, 0.0, 0.2, 0.4])), True))
    if not pool.ops:
        m = draw(real_symmetric(pool, n, 0.0, True))
    return {'ops': pool.ops, 'mats': [m]}


def chol_oracle(spec):
    import pyerrors as pe
    m = spec['mats'][0]
    case = Case(spec)
    n = m['rows']
    a = case.values(m)
    if np.min(np.linalg.eigvalsh(a)) < 0.1:
        raise Skip('cholesky: not safely positive definite after noise')
    res = pe.linalg.cholesky(case.pe_matrix(m))
    what = 'cholesky of a %dx%d matrix' % (n, n)
    out = out_parts(res, what, (n, n))
    ins = case.ref_matrix(m)
    fr = Frame([ins, out])
    A, L = fr.dense(ins), fr.dense(out)
    rm.check_zero(rm.sub(rm.mm(L, L.T), A), what + ': L L^T - A')
    if n > 1:
        rm.check_zero(rm.masked(L, np.triu(np.ones((n, n)), 1)), what + ': entries above the diagonal of L')
    require(np.all(np.diag(L.v) > 0), what + ': diagonal of L must be positive', np.diag(L.v).tolist())
    return finish(spec, [m], {'n:%d' % n})


# ==================================================================================================================
# determinant

@st.composite
def det_case(draw, tier):
    n = draw(st.sampled_from([1, 2, 2, 3, 3, 4, 4]))
    pool = Pool(draw, tier)
    p_plain = draw(st.sampled_from([0.0, 0.0, 0.2, 0.4]))
    kind = draw(st.sampled_from(['generic', 'diagdom', 'sym']))
    if kind == 'generic':
        m = draw(real_generic(pool, n, p_plain))
    elif kind == 'diagdom':
        m = draw(real_diagdom(pool, n, p_plain))
    else:
        m = draw(real_symmetric(pool, n, p_plain, False))
    if not pool.ops:
        m = draw(real_generic(pool, n, 0.0))
    return {'ops': pool.ops, 'mats': [m], 'kind': kind}


def det_oracle(spec):
    import pyerrors as pe
    m = spec['mats'][0]
    case = Case(spec)
    n = m['rows']
    guard_cond(case.values(m), 'det')      # "well-conditioned": the derivative of det is taken through the inverse
    res = pe.linalg.det(case.pe_matrix(m))
    what = 'det of a %dx%d matrix' % (n, n)
    out = [[rm.ref_from_pe(res, what)]]
    ins = case.ref_matrix(m)
    fr = Frame([ins, out])
    rm.check_equal(fr.dense(out), rm.det(fr.dense(ins)), what, xname='pyerrors', yname='Leibniz expansion')
    a = case.values(m)
    val, _ = rm.leibniz(a)
    cof, _ = rm.cofactors(a)
    spot_check(case, [m], what, res, 're', val, [cof], gfloor=float(np.max(np.abs(cof))))
    return finish(spec, [m], {'n:%d' % n, 'kind:' + spec['kind']})


# ==================================================================================================================
# eigh / eigv

@st.composite
def eigh_case(draw, tier):
    n = draw(st.sampled_from([1, 2, 2, 3, 3, 4, 4]))
    pool = Pool(draw, tier)
    m = draw(real_symmetric(pool, n, draw(st.sampled_from([0.0, 0.0, 0.2, 0.4])), draw(st.booleans())))
    if not pool.ops:
        m = draw(real_symmetric(pool, n, 0.0, False))
    return {'ops': pool.ops, 'mats': [m], 'fn': draw(st.sampled_from(['eigh', 'eigh', 'eigv']))}


def guard_gap(w, what, gap=0.05):
    w = np.sort(np.real(w))
    if len(w) > 1 and np.min(np.diff(w)) < gap:
        raise Skip('%s: eigenvalue gap too small after noise' % what)


def eigh_oracle(spec):
    import pyerrors as pe
    m = spec['mats'][0]
    case = Case(spec)
    n = m['rows']
    a = case.values(m)
    guard_gap(np.linalg.eigvalsh(a), 'eigh')
    ins = case.ref_matrix(m)
    pm = case.pe_matrix(m)
    if spec['fn'] == 'eigh':
        r = pe.linalg.eigh(pm)
        require(isinstance(r, tuple) and len(r) == 2, 'eigh must return (eigenvalues, eigenvectors)', type(r).__name__)
        what = 'eigh of a symmetric %dx%d matrix' % (n, n)
        wout = out_parts(r[0], what + ' eigenvalues', (n,))
        vout = out_parts(r[1], what + ' eigenvectors', (n, n))
        fr = Frame([ins, wout, vout])
        A, W, V = fr.dense(ins), fr.dense(wout), fr.dense(vout)
        rm.check_zero(rm.sub(rm.mm(A, V), rm.mm(V, rm.diag(W))), what + ': A V - V diag(w)')
        rm.check_zero(rm.sub(rm.mm(V.T, V), fr.eye(n)), what + ': V^T V - 1')
        require(np.allclose(np.sort(W.v.ravel()), np.linalg.eigvalsh(a), rtol=1e-9, atol=1e-10), what + ': eigenvalues are not the spectrum',
                W.v.ravel().tolist(), np.linalg.eigvalsh(a).tolist())
    else:
        r = pe.linalg.eigv(pm)
        what = 'eigv of a symmetric %dx%d matrix' % (n, n)
        vout = out_parts(r, what, (n, n))
        fr = Frame([ins, vout])
        A, V = fr.dense(ins), fr.dense(vout)
        D = rm.mm(V.T, rm.mm(A, V))
        offd = rm.masked(D, 1.0 - np.eye(n))
        rm.check_zero(offd, what + ': off-diagonal part of V^T A V')
        rm.check_zero(rm.sub(rm.mm(V.T, V), fr.eye(n)), what + ': V^T V - 1')
        require(np.allclose(np.sort(np.diag(D.v)), np.linalg.eigvalsh(a), rtol=1e-9, atol=1e-10), what + ': diag(V^T A V) is not the spectrum')
    return finish(spec, [m], {'n:%d' % n, 'fn:' + spec['fn']})


# ==================================================================================================================
# eig (eigenvalues only)

@st.composite
def eig_case(draw, tier):
    n = draw(st.sampled_from([1, 2, 2, 3, 3, 4, 4]))
    pool = Pool(draw, tier)
    kind = draw(st.sampled_from(['sym', 'nonsym']))
    p_plain = draw(st.sampled_from([0.0, 0.0, 0.2, 0.4]))
    m = draw(real_symmetric(pool, n, p_plain, draw(st.booleans()), gap=0.6)) if kind == 'sym' else draw(real_nonsym_realspec(pool, n, p_plain))
    if not pool.ops:
        m = draw(real_symmetric(pool, n, 0.0, False, gap=0.6))
        kind = 'sym'
    return {'ops': pool.ops, 'mats': [m], 'kind': kind}


def eig_oracle(spec):
    import pyerrors as pe
    m = spec['mats'][0]
    case = Case(spec)
    n = m['rows']
    a = case.values(m)
    ev = np.linalg.eigvals(a)
    if np.max(np.abs(np.imag(ev))) > 0:
        raise Skip('eig: spectrum not real after noise')
    guard_gap(ev, 'eig', 0.15)
    guard_cond(np.linalg.eig(a)[1], 'eig (eigenvector matrix)', 50)
    res = pe.linalg.eig(case.pe_matrix(m))
    what = 'eig of a %s %dx%d matrix' % ('symmetric' if spec['kind'] == 'sym' else 'non-symmetric', n, n)
    wout = out_parts(res, what, (n,))
    ins = case.ref_matrix(m)
    fr = Frame([ins, wout])
    A, W = fr.dense(ins), fr.dense(wout)
    require(np.allclose(np.sort(W.v.ravel()), np.sort(np.real(ev)), rtol=1e-9, atol=1e-10), what + ': values are not the spectrum',
            W.v.ravel().tolist(), np.sort(np.real(ev)).tolist())
    for k in range(n):
        lam = W[[k], [0]]
        shifted = rm.shift_diag(A, lam)
        rm.check_zero(rm.det(shifted), what + ': det(A - lambda_%d 1)' % k)
    return finish(spec, [m], {'n:%d' % n, 'kind:' + spec['kind']})


# ==================================================================================================================
# pinv / svd

@st.composite
def rect_case(draw, tier):
    r = draw(st.integers(1, 4))
    c = draw(st.integers(1, 4))
    pool = Pool(draw, tier)
    m = draw(real_rect(pool, r, c, draw(st.sampled_from([0.0, 0.0, 0.2, 0.4]))))
    if not pool.ops:
        m = draw(real_rect(pool, r, c, 0.0))
    return {'ops': pool.ops, 'mats': [m]}


def guard_sv(a, what):
    s = np.linalg.svd(a, compute_uv=False)
    if s[-1] < 0.2 or (len(s) > 1 and np.min(-np.diff(s)) < 0.05):
        raise Skip('%s: singular values not separated after noise' % what)


def pinv_oracle(spec):
    import pyerrors as pe
    m = spec['mats'][0]
    case = Case(spec)
    r, c = m['rows'], m['cols']
    a = case.values(m)
    guard_sv(a, 'pinv')
    res = pe.linalg.pinv(case.pe_matrix(m))
    what = 'pinv of a %dx%d matrix' % (r, c)
    out = out_parts(res, what, (c, r))
    ins = case.ref_matrix(m)
    fr = Frame([ins, out])
    A, P = fr.dense(ins), fr.dense(out)
    AP, PA = rm.mm(A, P), rm.mm(P, A)
    rm.check_zero(rm.sub(rm.mm(AP, A), A), what + ': A A^+ A - A')
    rm.check_zero(rm.sub(rm.mm(PA, P), P), what + ': A^+ A A^+ - A^+')
    rm.check_zero(rm.sub(AP, AP.T), what + ': A A^+ - (A A^+)^T')
    rm.check_zero(rm.sub(PA, PA.T), what + ': A^+ A - (A^+ A)^T')
    shape = 'square' if r == c else ('tall' if r > c else 'wide')
    return finish(spec, [m], {'shape:%dx%d' % (r, c), 'shape:' + shape}, extra_nt=False)


def svd_oracle(spec):
    import pyerrors as pe
    m = spec['mats'][0]
    case = Case(spec)
    r, c = m['rows'], m['cols']
    k = min(r, c)
    a = case.values(m)
    guard_sv(a, 'svd')
    res = pe.linalg.svd(case.pe_matrix(m))
    what = 'svd of a %dx%d matrix' % (r, c)
    require(isinstance(res, tuple) and len(res) == 3, what + ' must return (u, s, vh)', type(res).__name__)
    uo = out_parts(res[0], what + ' U', (r, k))
    so = out_parts(res[1], what + ' S', (k,))
    vo = out_parts(res[2], what + ' Vh', (k, c))
    ins = case.ref_matrix(m)
    fr = Frame([ins, uo, so, vo])
    A, U, S, Vh = fr.dense(ins), fr.dense(uo), fr.dense(so), fr.dense(vo)
    rm.check_zero(rm.sub(rm.mm(U, rm.mm(rm.diag(S), Vh)), A), what + ': U S V^h - A')
    rm.check_zero(rm.sub(rm.mm(U.T, U), fr.eye(k)), what + ': U^T U - 1')
    rm.check_zero(rm.sub(rm.mm(Vh, Vh.T), fr.eye(k)), what + ': V^h V - 1')
    require(np.allclose(np.sort(S.v.ravel())[::-1], np.linalg.svd(a, compute_uv=False), rtol=1e-9, atol=1e-10),
            what + ': S are not the singular values', S.v.ravel().tolist())
    shape = 'square' if r == c else ('tall' if r > c else 'wide')
    return finish(spec, [m], {'shape:%dx%d' % (r, c), 'shape:' + shape})


# ==================================================================================================================
# jackknife-based product and einsum

EINSUM = {   # subscripts -> number of operands (dimensions of the letters are drawn)
    'ij,jk->ik': 2, 'ij,jk,kl->il': 3, 'ij,jk,kl,lm->im': 4, 'ij,ij->ij': 2, 'ij,ij->': 2, 'ii->': 1, 'ij->ji': 1,
    'ij,j->i': 2, 'i,i->': 2, 'i,j->ij': 2, 'ij,kj->ik': 2, 'ij,jk->ki': 2, 'ii->i': 1,
}


def multilin(subscripts, ops):
    """Explicit sum over all index assignments; every operand carries a trailing batch axis (length B or 1)."""
    ins, out = subscripts.split('->')
    ins = ins.split(',')
    dims = {}
    for s, o in zip(ins, ops):
        for ax, letter in enumerate(s):
            dims[letter] = o.shape[ax]
    letters = sorted(dims)
    B = max(o.shape[-1] for o in ops)
    dt = complex if any(np.iscomplexobj(o) for o in ops) else float
    res = np.zeros([dims[x] for x in out] + [B], dtype=dt)
    for assign in itertools.product(*[range(dims[x]) for x in letters]):
        a = dict(zip(letters, assign))
        term = np.ones(1, dtype=dt)
        for s, o in zip(ins, ops):
            term = term * o[tuple(a[x] for x in s)]
        res[tuple(a[x] for x in out)] += term
    return res


@st.composite
def jack_operand(draw, shape, kind, n, sigma):
    size = int(np.prod(shape))
    if kind == 'float':
        return {'shape': list(shape), 'kind': kind, 'e': [float(draw(NUMVALS)) for _ in range(size)]}
    if kind == 'complex':
        return {'shape': list(shape), 'kind': kind, 'e': [{'__complex__': [draw(NUMVALS), draw(NUMVALS)]} for _ in range(size)]}

    def rec():
        r = {'kind': draw(st.sampled_from(DATA_KINDS)), 'seed': draw(st.integers(0, 2 ** 31 - 1)), 'mean': draw(NUMVALS), 'sigma': draw(sigma)}
        if r['kind'] == 'ar1':
            r['rho'] = draw(st.sampled_from([0.5, 0.9, -0.3]))
        return r
    if kind == 'obs':
        return {'shape': list(shape), 'kind': kind, 'e': [rec() for _ in range(size)]}
    return {'shape': list(shape), 'kind': kind, 'e': [[rec(), rec()] for _ in range(size)]}


def _pre_subs_dims(draw, subs, shape):
    """dimensions of the letters of `subs` such that the output has `shape`; the other letters are drawn (1..3)"""
    ins, out = subs.split('->')
    dim = {x: int(shape[ax]) for ax, x in enumerate(out)}
    for x in sorted(set(ins.replace(',', ''))):
        if x not in dim:
            dim[x] = draw(st.integers(1, 3))
    return [tuple(dim[x] for x in s) for s in ins.split(',')]


PRE_EINSUM = {2: ['ij,jk->ik', 'ij,jk->ik', 'ij,ij->ij', 'ij->ji', 'ij,kj->ik', 'ij,jk,kl->il', 'i,j->ij', 'ij,jk->ki'],
              1: ['ij,j->i', 'ii->i', 'ij,i->j']}


@st.composite
def jack_pre_stage(draw, pre, shape, k, n, sigma, depth):
    """Appends to `pre` a jackknife product (jack_matmul or einsum) whose result is an array of `shape` of Obs (k = 'obs') or
    CObs (k = 'cobs') and returns its index: the result is used as an operand of a later call.  With probability 1/4 one of its
    own operands is again the result of an earlier call (depth <= 2)."""
    cplx = k == 'cobs'
    shape = tuple(int(x) for x in shape)
    numeric = ['float'] + (['complex'] if cplx else [])
    if len(shape) == 2 and draw(st.integers(0, 2)) > 0:
        fn = 'jack_matmul'
        p = draw(st.sampled_from([2, 2, 3]))
        dims = [shape[0]] + [draw(st.integers(1, 3)) for _ in range(p - 1)] + [shape[1]]
        subs = ','.join('abcde'[q] + 'abcde'[q + 1] for q in range(p)) + '->a' + 'abcde'[p]
        shapes = [(dims[q], dims[q + 1]) for q in range(p)]
        kinds = [k] + [(k if draw(st.integers(0, 3)) else draw(st.sampled_from(numeric))) for _ in range(p - 1)]
    else:
        fn = 'einsum'
        subs = draw(st.sampled_from(PRE_EINSUM[len(shape)]))
        shapes = _pre_subs_dims(draw, subs, shape)
        kinds = [draw(st.sampled_from([k, k, 'obs'] + numeric)) for _ in shapes]
        if k not in kinds:
            kinds[draw(st.integers(0, len(kinds) - 1))] = k
    ops = []
    nested = depth < 2 and draw(st.integers(0, 3)) == 0
    cand = [q for q, kk in enumerate(kinds) if kk in ('obs', 'cobs')]
    pos = draw(st.sampled_from(cand)) if nested else None
    for q, (s, kk) in enumerate(zip(shapes, kinds)):
        if q == pos:
            child = draw(jack_pre_stage(pre, s, kk, n, sigma, depth + 1))
            ops.append({'shape': list(s), 'kind': 'prev', 'stage': child, 'rk': kk})
        else:
            ops.append(draw(jack_operand(s, kk, n, sigma)))
    pre.append({'fn': fn, 'subs': subs, 'operands': ops, 'fview': [draw(st.sampled_from([False, False, True])) for _ in ops]})
    return len(pre) - 1


@st.composite
def jack_case(draw, tier, fn):
    nmax = 40 if tier == 'quick' else 300
    ens = draw(st.sampled_from(gen.ENSEMBLES))
    chain = draw(gen.single_ensemble_chains(ens, 6, nmax, rep_max=1, data_kinds=('white',)))[0]
    chain = {'name': chain['name'], 'idl': chain['idl'], 'form': chain['form']}
    n = len(chain['idl'])
    sigma = gen.fl(0.001, 0.3)
    cplx = draw(st.integers(0, 2)) == 0
    okind = 'cobs' if cplx else 'obs'
    if fn == 'jack_matmul':
        p = draw(st.sampled_from([2, 2, 3, 4]))
        dims = [draw(st.integers(1, 4)) for _ in range(p + 1)]
        if draw(st.booleans()):
            dims = [dims[0]] * (p + 1)
        subs = ','.join('abcde'[k] + 'abcde'[k + 1] for k in range(p)) + '->a' + 'abcde'[p]
        shapes = [(dims[k], dims[k + 1]) for k in range(p)]
        kinds = [okind] + [(okind if draw(st.integers(0, 3)) else draw(st.sampled_from(['float'] + (['complex'] if cplx else []))))
                           for _ in range(p - 1)]
    else:
        subs = draw(st.sampled_from(sorted(EINSUM)))
        p = EINSUM[subs]
        ins = subs.split('->')[0].split(',')
        dim = {x: draw(st.integers(1, 4)) for x in sorted(set(''.join(ins)))}
        shapes = [tuple(dim[x] for x in s) for s in ins]
        kinds = [draw(st.sampled_from([okind, okind, 'obs', 'float', 'complex' if cplx else 'float'])) for _ in range(p)]
        if not any(k in ('obs', 'cobs') for k in kinds):
            kinds[draw(st.integers(0, p - 1))] = okind
    while sum(int(np.prod(s)) for s in shapes) > 40:
        shapes = [tuple(max(1, x - 1) for x in s) for s in shapes]
        if fn == 'einsum':   # keep letters consistent: shrink every letter
            dim = {x: max(1, dim[x] - 1) for x in dim}
            shapes = [tuple(dim[x] for x in s) for s in ins]
    # chained calls: in 3 of 5 cases one or two observable operands are themselves results of an earlier jackknife product
    pre = []
    prev_at = []
    if draw(st.sampled_from([False, False, True, True, True])):
        cand = [q for q, k in enumerate(kinds) if k in ('obs', 'cobs')]
        prev_at = draw(st.lists(st.sampled_from(cand), min_size=1, max_size=2, unique=True))
    ops = []
    for q, (s, k) in enumerate(zip(shapes, kinds)):
        if q in prev_at:
            child = draw(jack_pre_stage(pre, s, k, n, sigma, 1))
            ops.append({'shape': list(s), 'kind': 'prev', 'stage': child, 'rk': k})
        else:
            ops.append(draw(jack_operand(s, k, n, sigma)))
    spec = {'fn': fn, 'chain': chain, 'subs': subs, 'operands': ops,
            'fview': [draw(st.sampled_from([False, False, True])) for _ in ops]}
    if pre:
        spec['pre'] = pre
    return spec


def _jack_operands(stage, chain, N, results):
    """Operands of one call: pyerrors arrays and, per operand, what the oracle knows about it
       mu    central values (for a result of an earlier call: the reference values of that call, i.e. the exact product)
       vabs  sum of the |terms| behind mu (rounding scale of the values)
       dl    fluctuations (zero mean) or None for a numeric operand
       ex    samples minus central value, (deltas + r_value) - value: what export_jackknife turns into jackknife samples
             value - ex/(N-1).  For primary observables ex = dl; for the result of a jackknife product value != mean of the samples.
       prev  the operand is the result of an earlier jackknife product"""
    import pyerrors as pe
    name = chain['name']
    out = []
    fv = stage.get('fview') or [False]
    for op in stage['operands']:
        shape = tuple(op['shape'])
        if op['kind'] in ('float', 'complex'):
            arr = np.array([to_complex(x) for x in op['e']], dtype=float if op['kind'] == 'float' else complex).reshape(shape)
            out.append({'pe': arr, 'mu': arr, 'vabs': np.abs(arr), 'dl': None, 'ex': None, 'prev': False})
            continue
        if op['kind'] == 'prev':
            src = results[op['stage']]
            src_arr = src['arr']
            require(src_arr.shape == shape, 'result of the earlier call has shape %r, the generator expected %r' % (src_arr.shape, shape))
            pa = np.empty(shape, dtype=object)
            mu = np.array(src['val'])
            dl = np.zeros(shape + (N,), dtype=mu.dtype)
            ex = np.zeros(shape + (N,), dtype=mu.dtype)
            for idx in np.ndindex(*shape):
                o = src_arr[idx]
                pa[idx] = o
                for fac, part in ((1.0, o.real), (1j, o.imag)) if isinstance(o, pe.CObs) else ((1.0, o),):
                    d = np.asarray(part.deltas[name], dtype=float)
                    dl[idx] = dl[idx] + fac * d
                    ex[idx] = ex[idx] + fac * (d + float(part.r_values[name]) - float(part.value))
            vabs = np.array(src['vabs'])
        else:
            pa = np.empty(shape, dtype=object)
            mu = np.zeros(shape, dtype=complex if op['kind'] == 'cobs' else float)
            dl = np.zeros(shape + (N,), dtype=mu.dtype)
            for q, idx in enumerate(np.ndindex(*shape)):
                recs = op['e'][q] if op['kind'] == 'cobs' else [op['e'][q]]
                xs = [recipe_samples(r, N) for r in recs]
                obs = [pe.Obs([x], [name], idl=[idl_arg(chain)]) for x in xs]
                pa[idx] = pe.CObs(obs[0], obs[1]) if op['kind'] == 'cobs' else obs[0]
                x = xs[0] + 1j * xs[1] if op['kind'] == 'cobs' else xs[0]
                m = np.sum(x) / N
                mu[idx] = m
                dl[idx] = x - m
            ex = dl
            vabs = np.abs(mu)
        if len(shape) >= 2 and fv[len(out) % len(fv)]:
            # same logical matrix, other memory layout (what a transposed view `A.T` of a C-ordered array is)
            tmp = np.empty(shape[::-1], dtype=object)
            for idx in np.ndindex(*shape):
                tmp[idx[::-1]] = pa[idx]
            pa = tmp.T
        out.append({'pe': pa, 'mu': mu, 'vabs': vabs, 'dl': dl, 'ex': ex, 'prev': op['kind'] == 'prev'})
    return out


def _jack_stage(stage, chain, N, results, what, primed):
    """Runs one jackknife product and judges it; returns {'arr', 'val', 'vabs', 'cplx'} for use as an operand of a later call."""
    import pyerrors as pe
    name = chain['name']
    info = _jack_operands(stage, chain, N, results)
    pes = [x['pe'] for x in info]
    means = [x['mu'] for x in info]
    deltas = [x['dl'] for x in info]
    dmax = [np.zeros(x['mu'].shape) if x['ex'] is None else np.max(np.abs(x['ex']), axis=-1) for x in info]
    chained = any(x['prev'] for x in info)
    subs = stage['subs']
    fn = stage['fn']
    if primed:
        # state between calls: the same array objects held other observables in a call just before (entries are assigned in
        # place, as a user filling a matrix in a loop does); the result must be that of the entries the arrays hold now
        saved = []
        for pa in pes:
            if pa.dtype == object:
                idx0 = tuple(0 for _ in pa.shape)
                saved.append((pa, idx0, pa[idx0]))
                pa[idx0] = pa[idx0] * 2.0 + 1.0
        try:
            pe.linalg.jack_matmul(*pes) if fn == 'jack_matmul' else pe.linalg.einsum(subs, *pes)
        except Exception:
            pass
        for pa, idx0, orig in saved:
            pa[idx0] = orig
    if fn == 'jack_matmul':
        res = pe.linalg.jack_matmul(*pes)
    else:
        res = pe.linalg.einsum(subs, *pes)
    # independent jackknife: sample 0 = central values, sample i = value - (x_i - value)/(N-1)  [= (N mean - x_i)/(N-1) for primaries]
    jops = []
    for x in info:
        if x['dl'] is None:
            jops.append(x['mu'][..., None])
        else:
            jops.append(np.concatenate([x['mu'][..., None], x['mu'][..., None] - x['ex'] / (N - 1)], axis=-1))
    R = multilin(subs, jops)
    oshape = R.shape[:-1]
    cplx = np.iscomplexobj(R)
    if oshape == ():
        require(not isinstance(res, np.ndarray), what + ': scalar contraction must return a single observable', type(res).__name__)
        res_arr = np.empty((), dtype=object)
        res_arr[()] = res
    else:
        require(isinstance(res, np.ndarray) and res.shape == oshape, what + ': result shape', getattr(res, 'shape', None), oshape)
        res_arr = res
    # exact first-order product and explicit bound on the difference
    obs_idx = [k for k, dl in enumerate(deltas) if dl is not None]
    exact = np.zeros(oshape + (N,), dtype=R.dtype)
    for k in obs_idx:
        exact = exact + multilin(subs, [deltas[q] if q == k else means[q][..., None] for q in range(len(means))])
    bound = np.zeros(oshape)
    for size in range(2, len(obs_idx) + 1):
        for S in itertools.combinations(obs_idx, size):
            t = multilin(subs, [(dmax[q] if q in S else np.abs(means[q]))[..., None] for q in range(len(means))])[..., 0]
            bound = bound + 2.0 * np.real(t) * float(N - 1) ** (1 - size)
    # rounding scale of the value: sum of the |terms| of the multilinear form (through all earlier calls)
    vabs = np.real(multilin(subs, [x['vabs'][..., None].astype(float) for x in info])[..., 0])
    scale = float(np.max(np.abs(R))) + 1e-300
    for idx in np.ndindex(*oshape) if oshape else [()]:
        o = res_arr[idx]
        w = what + ' entry %r' % (idx,)
        parts = [('', o, (lambda z: np.real(z)))] if not cplx else None
        if cplx:
            require(isinstance(o, pe.CObs), w + ' must be a CObs for complex operands', type(o).__name__)
            parts = [(' real part', o.real, np.real), (' imaginary part', o.imag, np.imag)]
        else:
            require(isinstance(o, pe.Obs), w + ' must be an Obs', type(o).__name__)
        for lab, ob, sel in parts:
            require(isinstance(ob, pe.Obs), w + lab + ' must be an Obs', type(ob).__name__)
            require(list(ob.names) == [name], w + lab + ': chains %r, expected %r' % (ob.names, [name]))
            require([int(c) for c in ob.idl[name]] == list(chain['idl']), w + lab + ': configuration list differs from that of the operands')
            r = sel(R[idx])
            val = float(r[0])
            vtol = 1e-12 * max(abs(val), scale, float(vabs[idx]))
            require(abs(float(ob.value) - val) <= vtol, w + lab + ': value %r differs from the exact product %r of the central values%s'
                    % (float(ob.value), val, ' (operands that are results of an earlier jackknife product enter with their value)' if chained else ''))
            got = np.asarray(ob.deltas[name], dtype=float)
            require(got.shape == (N,), w + lab + ': number of fluctuations', got.shape, (N,))
            if not chained:
                want = -(N - 1) * (r[1:] - np.sum(r[1:]) / N)
                dev = np.abs(got - want)
                tol = 1e-9 * np.maximum(np.abs(got), np.abs(want)) + 1e-12 * N * scale
                bad = np.where(~(dev <= tol))[0]
                require(len(bad) == 0, w + lab + ': fluctuation at configuration %s is %r, independent jackknife computation gives %r (%d of %d differ)'
                        % (chain['idl'][int(bad[0])] if len(bad) else '', float(got[bad[0]]) if len(bad) else 0, float(want[bad[0]]) if len(bad) else 0, len(bad), N))
            ex = sel(exact[idx])
            dev = np.abs(got - ex)
            bnd = bound[idx] + 1e-12 * N * max(scale, float(vabs[idx]))
            bad = np.where(~(dev <= bnd))[0]
            require(len(bad) == 0, w + lab + ': fluctuation at configuration %s deviates from the exact first-order product by %.3g, second-order bound %.3g'
                    % (chain['idl'][int(bad[0])] if len(bad) else '', float(dev[bad[0]]) if len(bad) else 0, float(bnd)))
    return {'arr': res_arr, 'val': R[..., 0], 'vabs': vabs, 'cplx': cplx, 'n': len(pes)}


def _stage_depth(stages, k):
    return 1 + max([_stage_depth(stages, op['stage']) for op in stages[k]['operands'] if op['kind'] == 'prev'] + [0])


def jack_oracle(spec):
    chain = spec['chain']
    N = len(chain['idl'])
    fn = spec['fn']
    subs = spec['subs']
    pre = spec.get('pre') or []
    primed = int(spec_hash(spec), 16) % 3 == 0
    results = []
    for k, stage in enumerate(pre):
        w = 'earlier call %d/%d: %s' % (k + 1, len(pre), '%s(%s)' % (stage['fn'], stage['subs']))
        results.append(_jack_stage(stage, chain, N, results, w, False))
    nprev = sum(op['kind'] == 'prev' for op in spec['operands'])
    what = '%s(%s)' % (fn, subs) if fn == 'einsum' else 'jack_matmul of %d factors' % len(spec['operands'])
    if nprev:
        what += ' with %d operand%s from an earlier jackknife product' % (nprev, '' if nprev == 1 else 's')
    final = _jack_stage(spec, chain, N, results, what, primed)
    cplx = final['cplx']
    labs = {'fn:' + fn, 'idl:' + gen.classify_idl(chain['idl']), 'kind:' + ('complex' if cplx else 'real'),
            'operands:%d' % final['n']}
    if fn == 'einsum':
        labs.add('subs:' + subs)
    if any(op['kind'] in ('float', 'complex') for op in spec['operands']):
        labs.add('numeric_operand')
    if pre:
        stages = pre + [spec]
        labs.add('chained:depth%d' % (_stage_depth(stages, len(stages) - 1) - 1))
        labs.add('chained:prev_operands:%d' % nprev)
        labs.add('chained:earlier_calls:%d' % len(pre))
        for q, op in enumerate(spec['operands']):
            if op['kind'] == 'prev':
                labs.add('chained:prev_position:' + ('first' if q == 0 else 'later'))
                labs.add('chained:prev_from:' + pre[op['stage']]['fn'])
        if len(spec['operands']) >= 3:
            labs.add('chained:3-4_factors')
    else:
        labs.add('chained:no')
    nt = cplx or final['n'] >= 3 or gen.classify_idl(chain['idl']) != 'contig' or bool(pre)
    return {'nt': bool(nt), 'cls': sorted(labs)}


# ==================================================================================================================

# ==================================================================================================================
# Cholesky of a hermitian positive definite matrix of complex observables: either declined (the library documents
# "not implemented for CObs") or a lower triangular L with L L^h = A - never a matrix that is neither

@st.composite
def cchol_case(draw, tier):
    n = draw(st.sampled_from([2, 2, 3]))
    pool = Pool(draw, tier)
    m = draw(complex_matrix(pool, n, True, 0.0))
    return {'ops': pool.ops, 'mats': [m], 'shift': draw(gen.fl(0.5, 2.0))}


def cchol_oracle(spec):
    import pyerrors as pe
    m = spec['mats'][0]
    case = Case(spec)
    n = m['rows']
    Z = case.pe_matrix(m)
    Zh = np.empty((n, n), dtype=object)
    for i in range(n):
        for j in range(n):
            Zh[i, j] = Z[j, i].conjugate() if isinstance(Z[j, i], pe.CObs) else np.conj(Z[j, i])
    A = pe.linalg.matmul(Z, Zh)
    for i in range(n):
        A[i, i] = pe.CObs(A[i, i].real + spec['shift'], A[i, i].imag * 0.0)       # hermitian: real diagonal
    for i in range(n):
        for j in range(i):
            A[i, j] = A[j, i].conjugate()
    av = np.array([[complex(A[i, j].real.value, A[i, j].imag.value) for j in range(n)] for i in range(n)])
    if np.min(np.linalg.eigvalsh(av)) < 0.1:
        raise Skip('not safely positive definite')
    what = 'cholesky of a hermitian positive definite %dx%d matrix of complex observables' % (n, n)
    try:
        L = pe.linalg.cholesky(A)
    except Exception as e:
        return finish(spec, [m], {'n:%d' % n, 'complex_cholesky:declined:' + type(e).__name__}, extra_nt=True)
    require(isinstance(L, np.ndarray) and L.shape == (n, n), what + ': result is not an n x n array', type(L).__name__)
    Lh = np.empty((n, n), dtype=object)
    for i in range(n):
        for j in range(n):
            x = L[j, i]
            Lh[i, j] = x.conjugate() if isinstance(x, pe.CObs) else (x if isinstance(x, pe.Obs) else np.conj(x))
    P = pe.linalg.matmul(L, Lh)
    for i in range(n):
        for j in range(n):
            for part in ('real', 'imag'):
                want, got = getattr(A[i, j], part), getattr(P[i, j], part)
                rf = RefObs.from_pe(want)
                rf.vmag = max(rf.vmag, 1.0)
                for k_ in rf.mag:
                    rf.mag[k_] = max(rf.mag[k_], 0.01)
                cmp_obs(rf, got if isinstance(got, pe.Obs) else pe.cov_Obs(float(got), 0.0, 'plain_number'),
                        what + ': %s part of (L L^h)[%d,%d] vs A' % (part, i, j), rtol=1e-8, vtol=1e-9, atol_scale=1e-9, check_rv=False)
    for i in range(n):
        for j in range(i + 1, n):
            x = L[i, j]
            v = complex(x.real.value, x.imag.value) if isinstance(x, pe.CObs) else complex(getattr(x, 'value', x))
            require(abs(v) <= 1e-9, what + ': L is not lower triangular, entry (%d,%d) = %r' % (i, j, v))
    return finish(spec, [m], {'n:%d' % n, 'complex_cholesky:factor_returned'}, extra_nt=True)


SUBS = [
    Sub('matmul', matmul_case, matmul_oracle, {'quick': 120, 'thorough': 1400}, {'quick': 3, 'thorough': 16},
        doc='matmul equals the explicit sum of element products (real, complex, mixed, plain entries, 2-4 factors)'),
    Sub('inv', inv_case, inv_oracle, {'quick': 150, 'thorough': 1600}, {'quick': 2, 'thorough': 12},
        doc='A A^-1 = 1, real and complex'),
    Sub('cholesky', chol_case, chol_oracle, {'quick': 150, 'thorough': 1600}, {'quick': 1, 'thorough': 6},
        doc='L L^T = A, L lower triangular'),
    Sub('det', det_case, det_oracle, {'quick': 150, 'thorough': 1600}, {'quick': 1, 'thorough': 6},
        doc='determinant equals the Leibniz / cofactor expansion'),
    Sub('eigh', eigh_case, eigh_oracle, {'quick': 150, 'thorough': 1600}, {'quick': 2, 'thorough': 10},
        doc='A v = lambda v, orthonormal v (eigh, eigv)'),
    Sub('eig', eig_case, eig_oracle, {'quick': 150, 'thorough': 1600}, {'quick': 1, 'thorough': 6},
        doc='eigenvalues: det(A - lambda 1) = 0 as an observable'),
    Sub('pinv', rect_case, pinv_oracle, {'quick': 150, 'thorough': 1600}, {'quick': 1, 'thorough': 8},
        doc='A A^+ A = A and the other Penrose conditions'),
    Sub('svd', rect_case, svd_oracle, {'quick': 120, 'thorough': 1600}, {'quick': 2, 'thorough': 8},
        doc='U S V^h = A with orthonormal U, V'),
    Sub('jack_matmul', lambda tier: jack_case(tier, 'jack_matmul'), jack_oracle, {'quick': 200, 'thorough': 2000},
        {'quick': 1, 'thorough': 6}, doc='jackknife product: independent jackknife, exact product up to the second-order bound'),
    Sub('einsum', lambda tier: jack_case(tier, 'einsum'), jack_oracle, {'quick': 150, 'thorough': 2000},
        {'quick': 2, 'thorough': 8}, doc='jackknife einsum: independent jackknife, exact contraction up to the second-order bound'),
    Sub('cholesky_complex', cchol_case, cchol_oracle, {'quick': 60, 'thorough': 800}, {'quick': 1, 'thorough': 4},
        doc='cholesky of a hermitian positive definite CObs matrix: declined, or L lower triangular with L L^h = A', max_skip_frac=0.5),
]
