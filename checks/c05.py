"""C05  Reweighting, correlating and merging pair samples by configuration number.

Sub-properties
  reweight   reweight(w, [o...]) / Obs.reweight / Corr.reweight equal <w*o>/<w> built from the raw per-configuration
             dictionaries of the spec (never from array positions), both normalisation modes; reweighted flag set and
             inherited by derived quantities.
  correlate  correlate(a, b) / Corr.correlate is the observable of per-configuration products; flag is the OR.
  merge      merge_obs over any partition of the replicas is the observable of the union of chains.
  reject     requests that cannot be aligned raise.
  qtop       qtop_projection is the per-configuration indicator of the rounded charge.
"""
import copy
import math

import numpy as np
from hypothesis import strategies as st

from vlib import gen
from vlib.build import build_obs, chain_samples, idl_arg
from vlib.core import Sub, Violation, Skip, require
from vlib.refobs import RefObs, combine, cmp_obs

PROPERTY = 'C05'
LEVEL = 'exploration'
RULE = ('Hypothesis-generated weights on 1-3 replicas (contiguous / strided / irregular lists, positive samples) and '
        'observables on generated subsets (window, stride, random mask, range-like) of the weight\'s configurations and '
        'non-empty subsets of its replicas; pairs for correlate; replica partitions for merge_obs; constructed '
        'un-alignable requests. Expected results are computed from {configuration: sample} dictionaries of the spec. '
        'Non-trivial: the configuration list of an observable is not a prefix of the weight\'s list on some replica, '
        'or a replica is missing (so selection by array position would give other numbers); for merge: >= 3 chains '
        'in >= 2 groups with unsorted group order; every rejection case.')
ASSUMPTIONS = ['RefObs.combine for the ratio <w o>/<w> (first order), tolerance 1e-10 relative + 1e-12 of term magnitude']


@st.composite
def weight_and_obs(draw, tier, n_obs_max=3):
    lmax = 30 if tier == 'quick' else 120
    e = draw(st.sampled_from(gen.ENSEMBLES))
    reps = draw(gen.replica_names(e, 1, 3))
    g = draw(st.sampled_from([1, 1, 2, 3]))
    w_chains = []
    for r in reps:
        il = draw(gen.idl_list(8, lmax, gap=g))
        w_chains.append({'name': r, 'idl': il, 'form': draw(gen.idl_form()),
                         'data': draw(gen.recipe(len(il), kinds=('white', 'ar1', 'list'), mean=gen.fl(0.8, 2.0), sigma=gen.fl(0.01, 0.2)))})
    n_obs = draw(st.integers(1, n_obs_max))
    obs = []
    for k in range(n_obs):
        sub_reps = draw(st.lists(st.sampled_from(reps), min_size=1, max_size=len(reps), unique=True))
        chains = []
        for c in w_chains:
            if c['name'] not in sub_reps:
                continue
            il = c['idl']
            L = len(il)
            mode = draw(st.sampled_from(['full', 'prefix', 'window', 'stride', 'mask', 'mask']))
            if mode == 'prefix':
                sel = il[:draw(st.integers(5, L))]
            elif mode == 'window':
                a = draw(st.integers(0, L - 5))
                sel = il[a:draw(st.integers(a + 5, L))]
            elif mode == 'stride' and L >= 10:
                m = draw(st.integers(2, L // 5))
                sel = il[draw(st.integers(0, m - 1))::m]
                if len(sel) < 5:
                    sel = il
            elif mode == 'mask' and L > 5:
                drop = set(draw(st.lists(st.integers(0, L - 1), min_size=1, max_size=L - 5, unique=True)))
                sel = [x for i, x in enumerate(il) if i not in drop]
            else:
                sel = il
            chains.append({'name': c['name'], 'idl': list(sel), 'form': draw(gen.idl_form()),
                           'data': draw(gen.recipe(len(sel), kinds=('white', 'ar1', 'count', 'list'), sigma=gen.fl(0.05, 1.0)))})
        obs.append({'chains': chains, 'cov': []})
    return {'w': {'chains': w_chains, 'cov': []}, 'obs': obs}


def sample_dict(spec):
    return {c['name']: dict(zip(c['idl'], [float(v) for v in chain_samples(c)])) for c in spec['chains']}


def ref_from_dicts(d, scale=None):
    """scale: {chain: magnitude of the raw factors}: the library rebuilds each factor as fluctuation + replica mean, so a
    product is only accurate to eps * max|factor 1| * max|factor 2| (not to eps * |product|)."""
    names = sorted(d)
    r = RefObs.from_samples([[d[n][c] for c in sorted(d[n])] for n in names], names, [sorted(d[n]) for n in names])
    if scale:
        for n in names:
            r.mag[n] = max(r.mag[n], scale[n])
        r.vmag = max([r.vmag] + list(scale.values()))
    return r




def ref_reweight(wd, od, all_configs):
    prod = {n: {c: wd[n][c] * od[n][c] for c in od[n]} for n in od}
    a = ref_from_dicts(prod, {n: max(abs(v) for v in wd[n].values()) * max(abs(v) for v in od[n].values()) for n in od})
    b = ref_from_dicts(wd if all_configs else {n: {c: wd[n][c] for c in od[n]} for n in od})
    r = combine(lambda v: v[0] / v[1], [1 / b.value, -a.value / b.value ** 2], [a, b])
    r.reweighted = True
    return r


def not_prefix(w, o):
    wl = {c['name']: c['idl'] for c in w['chains']}
    for c in o['chains']:
        if c['idl'] != wl[c['name']][:len(c['idl'])]:
            return True
    return len(o['chains']) < len(w['chains'])


@st.composite
def reweight_case(draw, tier):
    d = draw(weight_and_obs(tier))
    d['all_configs'] = draw(st.booleans())
    d['api'] = draw(st.sampled_from(['function', 'function', 'method', 'corr']))
    d['then'] = draw(st.sampled_from(['none', 'add', 'radd', 'rmul', 'sin', 'mul', 'matrix']))
    # undefined timeslices of a correlator (api 'corr'): number of None entries in front of every observable and at the end
    d['gaps'] = draw(st.lists(st.sampled_from([0, 0, 1, 2]), min_size=len(d['obs']) + 1, max_size=len(d['obs']) + 1))
    return d


def reweight_oracle(spec):
    import pyerrors as pe
    w = build_obs(spec['w'])
    objs = [build_obs(o) for o in spec['obs']]
    ac = spec['all_configs']
    api = spec['api']
    lay = [[(c['name'], c['idl']) for c in o['chains']] for o in spec['obs']]
    if api == 'corr' and any(x != lay[0] for x in lay):
        api = 'function'      # a Corr holds observables of one layout only (documented precondition of Corr)
    if api == 'method':
        res = [o.reweight(w, all_configs=ac) if ac else o.reweight(w) for o in objs]
    elif api == 'corr':
        cobjs = objs if len(objs) > 1 else objs + objs
        gaps = list(spec.get('gaps') or [0] * (len(objs) + 1))
        gaps = gaps[:len(objs)] + [0] * (len(cobjs) - len(objs)) + gaps[len(objs):]
        content, pos = [], []
        for g, o in zip(gaps, cobjs):
            content += [None] * g
            pos.append(len(content))
            content.append(o)
        content += [None] * gaps[-1]
        corr = pe.Corr(content)
        rc = corr.reweight(w, all_configs=ac)
        require(isinstance(rc, pe.Corr) and rc.T == corr.T, 'Corr.reweight must return a Corr of the same T', getattr(rc, 'T', None), corr.T)
        for t in range(corr.T):
            require((rc.content[t] is None) == (content[t] is None),
                    'Corr.reweight: timeslice %d is %s, the input timeslice is %s' % (t, 'undefined' if rc.content[t] is None else 'defined',
                                                                                       'undefined' if content[t] is None else 'defined'))
        res = [rc.content[pos[k]][0] for k in range(len(objs))]
    else:
        res = pe.reweight(w, objs, all_configs=ac) if ac or spec['then'] != 'none' else pe.reweight(w, objs)
        require(isinstance(res, list) and len(res) == len(objs), 'reweight must return one result per observable')
    wd = sample_dict(spec['w'])
    for k, (o_spec, r) in enumerate(zip(spec['obs'], res)):
        rf = ref_reweight(wd, sample_dict(o_spec), ac)
        cmp_obs(rf, r, 'reweight(w, o[%d], all_configs=%s) via %s' % (k, ac, api), rtol=1e-10, check_flag=True, check_form=True)
    r0 = res[0]
    if spec['then'] == 'add':
        d = r0 + objs[-1]
    elif spec['then'] == 'radd':
        d = objs[-1] + r0          # the reweighted operand is not the first one
    elif spec['then'] == 'rmul':
        d = objs[-1] * (objs[0] - r0)
    elif spec['then'] == 'matrix':
        # the flag is inherited through matrix-valued operations as well
        m = pe.linalg.matmul(np.array([[r0, 0.5 * objs[0]], [objs[0], 2.0 + r0]]), np.array([[objs[0], r0], [r0, objs[0]]]))
        inv = pe.linalg.inv(np.array([[2.0 + r0 * r0, 0.1 * r0], [0.1 * objs[0], 3.0 + objs[0] * objs[0]]]))
        for q in list(m.ravel()) + list(inv.ravel()):
            require(q.reweighted is True or q.reweighted == True, 'reweighted flag not inherited by a matrix operation', q.reweighted)  # noqa: E712
        d = m[0, 0]
    elif spec['then'] == 'sin':
        d = np.sin(r0)
    elif spec['then'] == 'mul':
        d = 2.5 * r0
    else:
        d = None
    if d is not None:
        require(d.reweighted is True or d.reweighted == True, 'reweighted flag not inherited by %s' % spec['then'], d.reweighted)  # noqa: E712
    require(all(o.reweighted is False or o.reweighted == False for o in objs), 'reweight changed the flag of its input')  # noqa: E712
    nt = any(not_prefix(spec['w'], o) for o in spec['obs'])
    labs = ['api:' + api, 'all_configs:%s' % ac, 'then:' + spec['then']]
    if api == 'corr' and any(spec.get('gaps') or []):
        labs.append('corr:undefined_timeslices')
    for o in spec['obs']:
        labs.append('missing_replica' if len(o['chains']) < len(spec['w']['chains']) else 'all_replicas')
        for c in o['chains']:
            labs.append('sub:' + gen.classify_idl(c['idl']))
    return {'nt': nt, 'cls': sorted(set(labs))}


# ---------------------------------------------------------------------------------------------- method with all_configs
# (Obs.reweight forwards only the weight; covered through api='method' with all_configs False)

@st.composite
def correlate_case(draw, tier):
    lmax = 30 if tier == 'quick' else 120
    e = draw(st.sampled_from(gen.ENSEMBLES))
    a = draw(gen.single_ensemble_chains(e, 5, lmax, rep_max=3, data_kinds=('white', 'ar1', 'count', 'list')))
    b = copy.deepcopy(a)
    for c in b:
        c['data'] = draw(gen.recipe(len(c['idl']), kinds=('white', 'ar1', 'count', 'list')))
        c['form'] = draw(gen.idl_form())
    return {'a': {'chains': a, 'cov': []}, 'b': {'chains': b, 'cov': []}, 'rw': draw(st.sampled_from(['none', 'none', 'a', 'b'])),
            'api': draw(st.sampled_from(['function', 'corr_obs', 'corr_corr'])),
            'gaps': draw(st.lists(st.sampled_from([0, 0, 1, 2]), min_size=3, max_size=3)), 'pgap': draw(st.integers(0, 3))}


def correlate_oracle(spec):
    import pyerrors as pe
    a, b = build_obs(spec['a']), build_obs(spec['b'])
    if spec['rw'] == 'a':
        a.reweighted = True
    if spec['rw'] == 'b':
        b.reweighted = True
    if spec['api'] == 'function':
        r = pe.correlate(a, b)
    else:
        # correlators with undefined timeslices: [None]*g0 + [a] + [None]*g1 + [a] + [None]*g2
        g = list(spec.get('gaps') or [0, 0, 0])
        ca = [None] * g[0] + [a] + [None] * g[1] + [a] + [None] * g[2]
        pos = [g[0], g[0] + 1 + g[1]]
        if spec['api'] == 'corr_obs':
            rc = pe.Corr(ca).correlate(b)
            undef = [x is None for x in ca]
        else:
            cb = [b] * len(ca)
            pg = spec.get('pgap', 0)
            if pg == 1:
                cb[pos[0]] = None          # the partner is undefined where the correlator is defined
            elif pg == 2 and len(ca) > 2:
                cb[[t for t in range(len(ca)) if t not in pos][0]] = None
            if all(x is None or y is None for x, y in zip(ca, cb)) or sum(y is not None for y in cb) < 1:
                cb = [b] * len(ca)
            rc = pe.Corr(ca).correlate(pe.Corr(cb))
            undef = [x is None or y is None for x, y in zip(ca, cb)]
        require(isinstance(rc, pe.Corr) and rc.T == len(ca), 'Corr.correlate must return a Corr of the same T', getattr(rc, 'T', None), len(ca))
        for t in range(len(ca)):
            require((rc.content[t] is None) == undef[t], 'Corr.correlate: timeslice %d is %s, expected %s'
                    % (t, 'undefined' if rc.content[t] is None else 'defined', 'undefined' if undef[t] else 'defined'))
        r = rc.content[pos[1]][0]
    da, db = sample_dict(spec['a']), sample_dict(spec['b'])
    rf = ref_from_dicts({n: {c: da[n][c] * db[n][c] for c in da[n]} for n in da},
                        {n: max(abs(v) for v in da[n].values()) * max(abs(v) for v in db[n].values()) for n in da})
    rf.reweighted = spec['rw'] != 'none'
    cmp_obs(rf, r, 'correlate via %s' % spec['api'], rtol=1e-10, check_flag=True, check_form=True)
    kinds = sorted(set(gen.classify_idl(c['idl']) for c in spec['a']['chains']))
    return {'nt': len(spec['a']['chains']) > 1 or kinds != ['contig'], 'cls': ['api:' + spec['api'], 'rw:' + spec['rw']] + ['idl:' + k for k in kinds]}


@st.composite
def merge_case(draw, tier):
    lmax = 30 if tier == 'quick' else 120
    e = draw(st.sampled_from(gen.ENSEMBLES))
    k = draw(st.integers(2, 5))
    suf = draw(st.lists(st.sampled_from(gen.REPLICA_SUFFIX + ['r7', 'b', 'r11']), min_size=k, max_size=k, unique=True))
    chains = []
    for s in suf:
        il = draw(gen.idl_list(5, lmax))
        chains.append({'name': e + '|' + s, 'idl': il, 'form': draw(gen.idl_form()),
                       'data': draw(gen.recipe(len(il), kinds=('white', 'ar1', 'count', 'list')))})
    groups = draw(st.lists(st.integers(0, 2), min_size=k, max_size=k))
    order = draw(st.permutations(sorted(set(groups))))
    return {'chains': chains, 'groups': groups, 'order': list(order), 'rw': draw(st.integers(0, 3))}


def merge_oracle(spec):
    import pyerrors as pe
    parts = []
    for g in spec['order']:
        ch = [c for c, gg in zip(spec['chains'], spec['groups']) if gg == g]
        parts.append(build_obs({'chains': ch, 'cov': []}))
    flag = False
    if spec['rw'] == 0:
        parts[-1].reweighted = True
        flag = True
    snap = [(float(p.value), {n: p.deltas[n].copy() for n in p.deltas}) for p in parts]
    r = pe.merge_obs(parts)
    rf = ref_from_dicts(sample_dict({'chains': spec['chains']}))
    rf.reweighted = flag
    cmp_obs(rf, r, 'merge_obs of %d groups' % len(parts), rtol=1e-10, check_form=True)
    require(bool(r.reweighted) == flag, 'reweighted flag of merged observable', r.reweighted, flag)
    d = 2.0 * r + r * r
    require(bool(d.reweighted) == flag, 'reweighted flag of the merged observable is not inherited by what is derived from it', d.reweighted, flag, type(r.reweighted).__name__)
    for p, (v, d) in zip(parts, snap):
        require(float(p.value) == v and all(np.array_equal(p.deltas[n], d[n]) for n in d), 'merge_obs changed an input')
    return {'nt': len(spec['chains']) >= 3 and len(parts) >= 2, 'cls': ['groups:%d' % len(parts), 'chains:%d' % len(spec['chains'])]}


REJECT = ['correlate_replica_subset', 'cfg_missing_in_w', 'replica_missing_in_w', 'cov_in_obs', 'other_ensemble', 'correlate_idl', 'correlate_names',
          'correlate_cov', 'correlate_len', 'correlate_idl_far', 'merge_dup', 'merge_dup_far', 'merge_cov', 'multi_ensemble_weight']


@st.composite
def reject_case(draw, tier):
    d = draw(weight_and_obs(tier, n_obs_max=1))
    d['kind'] = draw(st.sampled_from(REJECT))
    d['k'] = draw(st.integers(0, 100))
    return d


def reject_oracle(spec):
    import pyerrors as pe
    kind, k = spec['kind'], spec['k']
    wsp, osp = copy.deepcopy(spec['w']), copy.deepcopy(spec['obs'][0])

    def attempt():
        if kind == 'cfg_missing_in_w':
            c = osp['chains'][k % len(osp['chains'])]
            wc = [x for x in wsp['chains'] if x['name'] == c['name']][0]
            extra = max(wc['idl']) + 1 + k % 3 if k % 2 else None
            if extra is None:
                # a configuration strictly inside the weight's range that the weight does not have
                holes = sorted(set(range(wc['idl'][0], wc['idl'][-1])) - set(wc['idl']))
                extra = holes[k % len(holes)] if holes else max(wc['idl']) + 1
            new = sorted(set(c['idl']) | {extra})
            c['idl'] = new
            c['data'] = {'kind': 'white', 'seed': k, 'mean': 1.0, 'sigma': 0.3}
            return pe.reweight(build_obs(wsp), [build_obs(osp)])
        if kind == 'replica_missing_in_w':
            e = wsp['chains'][0]['name'].split('|')[0]
            osp['chains'].append({'name': e + '|zz_extra', 'idl': list(range(1, 8)), 'form': 'list',
                                  'data': {'kind': 'white', 'seed': k, 'mean': 1.0, 'sigma': 0.3}})
            return pe.reweight(build_obs(wsp), [build_obs(osp)])
        if kind == 'cov_in_obs':
            o = build_obs(osp) + pe.cov_Obs(0.3, 0.1, 'syst')
            return pe.reweight(build_obs(wsp), [o])
        if kind == 'other_ensemble':
            for c in osp['chains']:
                c['name'] = 'Q' + c['name']
            return pe.reweight(build_obs(wsp), [build_obs(osp)])
        if kind == 'multi_ensemble_weight':
            w = build_obs(wsp)
            other = pe.Obs([np.array(chain_samples(wsp['chains'][0]))], ['Qother'])
            return pe.reweight(w * other, [build_obs(osp)])
        a = build_obs(wsp)
        if kind == 'correlate_idl':
            b = copy.deepcopy(wsp)
            c = b['chains'][k % len(b['chains'])]
            c['idl'] = [x + 1 for x in c['idl']] if k % 2 else c['idl'][:-1] + [c['idl'][-1] + 2]
            return pe.correlate(a, build_obs(b))
        if kind == 'correlate_idl_far':
            # both operands far from the origin (configuration numbers 1e5 .. 1e9, as in long production runs), equally long lists
            # that differ in one or two configurations only: still different configuration lists (C05-m20: np.allclose)
            off = 10 ** (5 + k % 5)
            a2, b = copy.deepcopy(wsp), copy.deepcopy(wsp)
            for ca, cb in zip(a2['chains'], b['chains']):
                ca['idl'] = [x + off for x in ca['idl']]
                cb['idl'] = list(ca['idl'])
                ca['form'] = cb['form'] = 'list'
            c = b['chains'][k % len(b['chains'])]
            j = (k // 5) % len(c['idl'])
            if j == len(c['idl']) - 1 or c['idl'][j + 1] - c['idl'][j] < 2:
                c['idl'] = c['idl'][:-1] + [c['idl'][-1] + 1 + k % 2]
            else:
                c['idl'] = c['idl'][:j] + [c['idl'][j] + 1] + c['idl'][j + 1:]
            return pe.correlate(build_obs(a2), build_obs(b))
        if kind == 'correlate_len':
            b = copy.deepcopy(wsp)
            c = b['chains'][k % len(b['chains'])]
            c['idl'] = c['idl'][:-1]
            c['data'] = {'kind': 'white', 'seed': k, 'mean': 1.0, 'sigma': 0.3}
            return pe.correlate(a, build_obs(b))
        if kind == 'correlate_names':
            b = copy.deepcopy(wsp)
            b['chains'][0]['name'] = b['chains'][0]['name'] + 'x'
            return pe.correlate(a, build_obs(b))
        if kind == 'correlate_replica_subset':
            # one operand lives on a strict subset of the other's replicas (same configuration lists there): different chains
            e = wsp['chains'][0]['name'].split('|')[0]
            b = copy.deepcopy(wsp)
            b['chains'].append({'name': e + '|zz_extra', 'idl': list(range(1, 9)), 'form': 'list',
                                'data': {'kind': 'white', 'seed': k, 'mean': 1.0, 'sigma': 0.3}})
            big = build_obs(b)
            return pe.correlate(a, big) if k % 2 else pe.correlate(big, a)
        if kind == 'correlate_cov':
            return pe.correlate(a, a + pe.cov_Obs(0.3, 0.1, 'syst'))
        if kind == 'merge_dup':
            c = wsp['chains'][k % len(wsp['chains'])]
            return pe.merge_obs([a, build_obs({'chains': [c], 'cov': []})])
        if kind == 'merge_dup_far':
            # three or more inputs, the duplicated replica is not in neighbouring list entries
            c = wsp['chains'][k % len(wsp['chains'])]
            e = c['name'].split('|')[0]
            dup = build_obs({'chains': [c], 'cov': []})
            mids = [pe.Obs([np.arange(6.0 + j) * 0.1], ['%s|zz_mid%d' % (e, j)]) for j in range(1 + (k // 2) % 3)]
            first = dup if k % 2 else a
            last = build_obs({'chains': [c], 'cov': []}) * 1.0
            return pe.merge_obs([first] + mids + [last])
        if kind == 'merge_cov':
            e = wsp['chains'][0]['name'].split('|')[0]
            o2 = pe.Obs([np.arange(7.0)], [e + '|zz_extra']) + pe.cov_Obs(0.3, 0.1, 'syst')
            return pe.merge_obs([a, o2])
        raise RuntimeError(kind)
    try:
        res = attempt()
    except Exception as e:
        return {'nt': True, 'cls': ['%s:%s' % (kind, type(e).__name__)]}
    raise Violation('request that cannot be aligned (%s) was accepted and returned %r' % (kind, res))


@st.composite
def qtop_case(draw, tier):
    e = draw(st.sampled_from(gen.ENSEMBLES))
    chains = draw(gen.single_ensemble_chains(e, 5, 40, rep_max=3, data_kinds=('count',)))
    for c in chains:
        c['data']['mean'] = float(draw(st.integers(-1, 1)))
    return {'chains': chains, 'target': draw(st.integers(-2, 2)), 'noise': draw(gen.fl(0.0, 0.3))}


def qtop_oracle(spec):
    import pyerrors as pe
    sp = {'chains': spec['chains'], 'cov': []}
    # integer charges plus a deterministic sub-threshold wobble (|wobble| < 0.3 never changes the rounding)
    objs = []
    d = {}
    for c in spec['chains']:
        x = chain_samples(c) + spec['noise'] * np.cos(np.arange(len(c['idl'])) * 1.7)
        objs.append(x)
        d[c['name']] = dict(zip(c['idl'], [1.0 if round(v) == spec['target'] else 0.0 for v in x]))
    q = pe.Obs(objs, [c['name'] for c in spec['chains']], idl=[idl_arg(c) for c in spec['chains']])
    r = pe.input.openQCD.qtop_projection(q, spec['target'])
    cmp_obs(ref_from_dicts(d), r, 'qtop_projection(target=%d)' % spec['target'], rtol=1e-10, check_form=True)
    frac = np.mean([v for n in d for v in d[n].values()])
    return {'nt': 0 < frac < 1 and (len(spec['chains']) > 1 or gen.classify_idl(spec['chains'][0]['idl']) != 'contig'),
            'cls': ['replicas:%d' % len(spec['chains'])]}


SUBS = [
    Sub('reweight', reweight_case, reweight_oracle, {'quick': 500, 'thorough': 5000}, {'quick': 6, 'thorough': 16},
        doc='reweight vs <w o>/<w> from per-configuration dictionaries'),
    Sub('correlate', correlate_case, correlate_oracle, {'quick': 400, 'thorough': 3000}, {'quick': 2, 'thorough': 8},
        doc='correlate = observable of per-configuration products'),
    Sub('merge', merge_case, merge_oracle, {'quick': 400, 'thorough': 3000}, {'quick': 2, 'thorough': 8},
        doc='merge_obs over replica partitions'),
    Sub('reject', reject_case, reject_oracle, {'quick': 200, 'thorough': 3000}, {'quick': 2, 'thorough': 4},
        doc='un-alignable requests raise'),
    Sub('qtop', qtop_case, qtop_oracle, {'quick': 150, 'thorough': 2000}, {'quick': 1, 'thorough': 4},
        doc='qtop_projection indicator'),
]
