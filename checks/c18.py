"""C18  Truncated measurement files never produce wrong numbers  (fault enumeration).

For small synthetic file sets of every format family of C17 (written by vlib/formats/*) one file is cut at a byte offset
k in 0..len-1 and the set is read with the pyerrors reader.  Admissible outcomes: an exception, or a result that is
prefix-exact: it equals the expectation of the untruncated set restricted, for the cut replica, to the first k'
configurations with k' >= number of complete records before the cut (k' = that number, or one more when all *used*
numbers of the partial record are complete although an unused trailing part is cut).  For layouts with one file per
configuration (sfcf separate / compact, hadrons) the admissible results are the complete result (all used numbers
intact) or the result without the cut configuration.  Exported archives (json.gz, xml.gz, csv.gz) must raise at every
cut offset.

Extension beyond the formats listed in C17 (the statement of C18 speaks of "a measurement file" in general): sub-property
`pbp` does the same for pbp.dat files read by pyerrors.input.misc.read_pbp (writer vlib/formats/pbp.py; the layout is the one
the reader states, no sample file ships with the repository).  read_pbp consumes whole records, so only an exception or the
exact prefix of complete records is admissible.  The cuts are labelled by their position in the record: inside the
configuration number, inside a block of doubles, or at a boundary between (first block, data block) pairs, i.e. directly
behind the configuration number, between two factors of one observable or between two observables - the positions at which
what is left of the record is a whole number of blocks.

Sub-properties (all kind='enum'): rwms, ms_E, ms_qtop, gfms_qtop, gfms_gf, ms5, sfcf_o, sfcf_c, sfcf_a, hadrons, pbp, json_gz,
dobs_gz, pobs_gz, csv_gz.
"""
import os
import random
import re

import numpy as np

from vlib import findings
from vlib.core import Sub, Violation, require
from vlib.formats import common, openqcd_rwms as RW, openqcd_flow as FL, ms5_xsf as M5, sfcf as SF, hadrons as HD, pbp as PB

PROPERTY = 'C18'
LEVEL = 'fault_enumeration'
RULE = ('For each family a seeded list of small file sets (1-2 replicas, 6-10 configurations, files of 0.2-10 kB) is built; one '
        'file at a time is truncated at byte offsets 0..len-1 and the whole set is read. quick: every offset in the header, the '
        'first record and the last two records of each cut file plus a seeded sample of the remaining offsets (binary formats '
        'and text formats alike, so line boundaries and mid-line positions are both hit); thorough: every offset of every file. '
        'Archives: every offset (quick: every offset of one archive per kind, sampled for the others). Non-trivial: the cut lies '
        'strictly inside a record / compressed stream (not at 0, not at the end of the header, not at a record boundary); '
        'distinct = distinct (file set, file, offset). Extension beyond the formats listed in C17: family pbp = pbp.dat files of '
        'read_pbp (1-2 replicas, 6-10 records, 1-3 observables with 1-3 factors of 1-3 sources each; at least one observable with '
        'several factors in two of three sets), same offsets, same verdict (exception or exact prefix of complete records); '
        'labels pbp_cut:* count the cuts inside the configuration number, inside a block and at block-pair boundaries inside a record.')
ASSUMPTIONS = ['any Exception raised by the reader counts as rejection; warnings do not',
               'a record whose used numbers are complete although an unused trailing block is cut may be returned (k\' = complete + 1)',
               'per-configuration files (sfcf separate / compact, hadrons): complete result or result without the cut configuration',
               'comparison of returned numbers as in C17 (1e-14 binary, 1e-15 text / hdf5)',
               'gzip archives are regenerated at replay time; their bytes differ only in the 4-byte mtime field of the gzip header']
EXHAUSTIVE = {'quick': 'all offsets of header + first record + last two records of every cut file; all offsets of one archive per kind',
              'thorough': 'all offsets 0..len-1 of every file of every generated file set and of every generated archive'}


# =====================================================================================================
# seeded small file sets

def _reps_regular(rnd, mult=1):
    k = rnd.choice([1, 2, 2])
    rs = rnd.sample([0, 1, 2, 10], k)
    return [{'r': r, 'first': mult * rnd.choice([1, 2, 7, 98]), 'spacing': mult * rnd.choice([1, 1, 2, 5]), 'n': rnd.randint(6, 10)} for r in rs]


def _reps_explicit(rnd):
    k = rnd.choice([1, 2, 2])
    rs = rnd.sample([0, 1, 2, 10], k)
    out = []
    for r in rs:
        n = rnd.randint(6, 10)
        first, sp = rnd.choice([1, 2, 7, 98]), rnd.choice([1, 1, 2, 5])
        out.append({'r': r, 'cfgs': [first + sp * i for i in range(n)]})
    return out


def gen_rwms(rnd, iset=None):
    # the three file versions are cycled through so that every run covers each of them
    version = rnd.choice(['1.4', '1.6', '2.0']) if iset is None else ['2.0', '1.6', '1.4'][iset % 3]
    nrw = rnd.choice([1, 2])
    fs = {'fmt': 'rwms', 'version': version, 'prefix': 'ensA', 'postfix': 'ms1',
          'nfct': [rnd.choice([1, 2]) if version != '1.4' else 1 for _ in range(nrw)], 'nsrc': [rnd.choice([1, 2]) for _ in range(nrw)],
          'seed': rnd.randrange(2 ** 31), 'reps': _reps_regular(rnd), 'extra': []}
    return fs, {'use_postfix': True, 'listing': 'sorted'}


def _ms(rnd):
    return {'fmt': 'ms', 'prefix': 'ensA', 'dn': rnd.choice([1, 2]), 'nn': rnd.choice([0, 1, 2]), 'tmax': rnd.choice([1, 2, 3]),
            'eps': 0.02, 'L': 4, 'seed': rnd.randrange(2 ** 31), 'shape': 'random', 'reps': _reps_regular(rnd), 'extra': []}


def gen_ms_E(rnd):
    fs = _ms(rnd)
    call = {'what': 'E', 'dtr_read': 1, 'xmin': 0, 'listing': 'sorted'}
    if rnd.random() < 0.4:
        call['plaquette'] = True
    return fs, call


def gen_ms_qtop(rnd):
    import math
    fs = _ms(rnd)
    k = rnd.randint(0, fs['nn'])
    return fs, {'what': 'qtop', 'c': math.sqrt(8 * k * fs['eps'] * fs['dn']) / fs['L'], 'flow_index': k, 'listing': 'sorted'}


def gen_gfms_qtop(rnd):
    ncs = rnd.choice([1, 2])
    fs = {'fmt': 'gfms', 'prefix': 'sfq', 'zthfl': 2, 'ncs': ncs, 'tmax': rnd.choice([1, 2]), 'L': 4, 'tol': 1e-7, 'cmax': 0.4,
          'seed': rnd.randrange(2 ** 31), 'reps': _reps_regular(rnd), 'extra': []}
    k = rnd.randint(0, ncs)
    return fs, {'what': 'qtop', 'c': min(0.4 * k / ncs, 0.4), 'flow_index': k, 'Zeuthen_flow': rnd.choice([True, False]), 'listing': 'sorted'}


def gen_gfms_gf(rnd):
    ncs = rnd.choice([1, 2])
    k = rnd.randint(1, ncs)
    cmax = 0.3 * ncs / k
    while 0.3 > cmax:
        cmax = float(np.nextafter(cmax, 1.0))
    reps = _reps_regular(rnd)
    for r in reps:
        r['n'] = min(r['n'], 7)
    fs = {'fmt': 'gfms', 'prefix': 'sfq', 'zthfl': 2, 'ncs': ncs, 'tmax': 5, 'L': 4, 'tol': 1e-7, 'cmax': cmax,
          'seed': rnd.randrange(2 ** 31), 'reps': reps, 'extra': []}
    return fs, {'what': 'gf', 'listing': 'sorted'}


def gen_ms5(rnd):
    fs = {'fmt': 'ms5', 'prefix': 'ensA', 'qc': 'dd', 'tmax': rnd.choice([1, 2]), 'seed': rnd.randrange(2 ** 31),
          'reps': _reps_explicit(rnd), 'extra': []}
    return fs, {'corr': rnd.choice(M5.BI + M5.BB), 'listing': 'sorted'}


def _sfcf(rnd, lay):
    pool = rnd.sample([('f_A', 'bi'), ('f_1', 'bb'), ('F_V0', 'bib')], rnd.choice([1, 2]))
    corrs = []
    for name, ty in pool:
        corrs.append({'name': name, 'type': ty, 'T': rnd.choice([1, 2, 3]), 'quarks': 'lquark lquark', 'offsets': [0],
                      'wfs': rnd.choice([[0], [0, 1]]), 'wf2s': [0] if ty == 'bi' else rnd.choice([[0], [0, 1]])})
    fs = {'fmt': 'sfcf', 'layout': lay, 'prefix': 'test_', 'seed': rnd.randrange(2 ** 31), 'block_order': 'sorted', 'corrs': corrs,
          'reps': _reps_explicit(rnd), 'extra': []}
    corr = rnd.choice(corrs)
    blocks = SF.blocks_of(corr)
    b = blocks[0] if (lay == 'a' and findings.is_open('F-C17-2')) else rnd.choice(blocks)
    call = {'listing': 'sorted', 'name': corr['name'], 'quarks': corr['quarks'], 'noffset': b[0], 'wf': b[1], 'wf2': b[2]}
    if rnd.random() < 0.4:
        call['im'] = True
    if lay == 'o' and len(blocks) > 1 and rnd.random() < 0.5:
        # several keys of the one correlator in one call, requested in an order that is not the order of the blocks in the file
        wfs, w2s = list(corr['wfs']), list(corr['wf2s'])
        rnd.shuffle(wfs)
        rnd.shuffle(w2s)
        if wfs == list(corr['wfs']) and w2s == list(corr['wf2s']):
            wfs.reverse()
            w2s.reverse()
        call['multi'] = {'names': [corr['name']], 'quarks': [corr['quarks']], 'offsets': list(corr['offsets']), 'wfs': wfs,
                         'wf2s': w2s if corr['type'] != 'bi' else [0], 'keyed_out': rnd.random() < 0.5}
    return fs, call


def gen_hadrons(rnd):
    n = rnd.randint(6, 8)
    first, sp = rnd.choice([1, 4, 98]), rnd.choice([1, 2, 4])
    fs = {'fmt': 'hadrons', 'filestem': 'mes', 'group': 'meson', 'T': rnd.choice([1, 2, 3]), 'seed': rnd.randrange(2 ** 31),
          'entries': [{'gamma_snk': 'Gamma5', 'gamma_src': 'Gamma5'}, {'gamma_snk': 'GammaT', 'gamma_src': 'Gamma5'}][:rnd.choice([1, 2])],
          'cfgs': [first + sp * i for i in range(n)], 'extra': []}
    return fs, {'how': rnd.choice(['meson', 'gammas', 'attrs']), 'entry': 0, 'ens_id': 'A', 'listing': 'sorted'}


def gen_pbp(rnd, iset=0):
    # extension beyond the formats of C17: pbp.dat files of read_pbp.  Two of three sets have an observable with several factors.
    nrw = rnd.choice([1, 2, 2, 3])
    nfct = [rnd.choice([1, 2, 3]) for _ in range(nrw)]
    if iset % 3 != 2 and max(nfct) == 1:
        nfct[rnd.randrange(nrw)] = rnd.choice([2, 3])
    fs = {'fmt': 'pbp', 'prefix': 'ensA', 'nfct': nfct, 'nsrc': [rnd.choice([1, 2, 3]) for _ in range(nrw)],
          'seed': rnd.randrange(2 ** 31), 'reps': _reps_regular(rnd), 'extra': []}
    call = {'listing': 'sorted'}
    if rnd.random() < 0.3:
        call['print_err'] = True
    return fs, call


def pbp_cut_class(fs, fsobj, rel, k):
    """Position of a cut of a pbp file relative to the record structure (label only)."""
    if k < fsobj.header[rel]:
        return 'pbp_cut:header'
    for (s, e, c) in fsobj.records[rel]:
        if s <= k < e:
            if k == s:
                return 'pbp_cut:record_boundary'
            if k < s + 4:
                return 'pbp_cut:inside_cfg_number'
            pos, bounds = s + 4, set()
            for nf, ns in zip(fs['nfct'], fs['nsrc']):
                for _ in range(nf):
                    bounds.add(pos)
                    pos += 16 * ns
            mult = max(fs['nfct']) > 1
            return 'pbp_cut:block_pair_boundary' + ('_several_factors' if mult else '') if k in bounds else 'pbp_cut:inside_block'
    return 'pbp_cut:record_boundary'


FAMILIES = {
    'rwms': (RW, gen_rwms), 'ms_E': (FL, gen_ms_E), 'ms_qtop': (FL, gen_ms_qtop), 'gfms_qtop': (FL, gen_gfms_qtop),
    'gfms_gf': (FL, gen_gfms_gf), 'ms5': (M5, gen_ms5),
    'sfcf_o': (SF, lambda rnd: _sfcf(rnd, 'o')), 'sfcf_c': (SF, lambda rnd: _sfcf(rnd, 'c')), 'sfcf_a': (SF, lambda rnd: _sfcf(rnd, 'a')),
    'hadrons': (HD, gen_hadrons), 'pbp': (PB, gen_pbp),
}
NSETS = {'quick': {'default': 6, 'rwms': 9, 'gfms_gf': 4, 'gfms_qtop': 6, 'sfcf_c': 6, 'sfcf_o': 6, 'hadrons': 2, 'pbp': 6}, 'thorough': {'default': 12, 'rwms': 18, 'hadrons': 6}}
PER_CFG_FILES = ('sfcf_o', 'sfcf_c', 'hadrons')
LENIENT = ('ms_E', 'ms_qtop', 'gfms_qtop', 'gfms_gf')


# =====================================================================================================
# running a reader and judging one cut

def _sf_keys(fs, call):
    m = call['multi']
    corr = SF.corr_by_name(fs, call['name'])
    return [(call['name'], q, off, wf, (w2 if corr['type'] != 'bi' else 0)) for q in m['quarks'] for off in m['offsets'] for wf in m['wfs']
            for w2 in (m['wf2s'] if corr['type'] != 'bi' else [0])]


def _run(family, mod, path, fs, call):
    if mod is FL:
        got, _ = FL.run(path, fs, call)
        return got
    if mod is SF and call.get('multi'):
        res = SF.run_multi(path, fs, call)
        return {'%r@%d' % (key, t): o for key, d in res.items() for t, o in d.items()}
    return mod.run(path, fs, call)


def _expected(family, mod, fs, call, limit=None, drop=None):
    """-> (expectation {key: {name: {cfg: v}}}, scale or None, rtol)"""
    if mod is SF and call.get('multi'):
        out = {}
        for key in _sf_keys(fs, call):
            corr = SF.corr_by_name(fs, key[0])
            e1 = SF.expected_one(fs, call, key[0], key[1], key[2], key[3], (key[4] if corr['type'] != 'bi' else None), limit=limit, drop=drop)
            for t, v in e1.items():
                out['%r@%d' % (key, t)] = v
        return out, None, 1e-15
    if mod is SF:
        return SF.expected_one(fs, call, call['name'], call['quarks'], call['noffset'], call['wf'], call['wf2'], limit=limit, drop=drop), None, 1e-15
    if mod is HD:
        return HD.expected(fs, call, drop=drop), None, 1e-15
    exp = mod.expected(fs, call, limit=limit)
    scale = exp.pop('__scale__', None)
    return exp, scale, 1e-14


def _matches(got, exp, scale, rtol):
    try:
        if sorted(map(str, got)) != sorted(map(str, exp)):
            return False
        for k in exp:
            common.compare_obs(got[k], exp[k], str(k), rtol=rtol, scale=None if scale is None else scale[k])
        return True
    except Violation:
        return False


def sfcf_partial_number_cut(fs, call, fsobj, rel, k):
    """Selector of F-C18-1 (separate and appended layout): the cut falls strictly inside the text of the *used* number
    (real part, or imaginary part with im=True) on the last data row of the requested correlator block - in the appended
    layout: of the run that contains the cut - and what is left of the number is itself a valid decimal number."""
    if fs['layout'] not in ('o', 'a'):
        return False
    if fs['layout'] == 'o' and not rel.endswith('/' + call['name']):
        return False
    text = fsobj.files[rel].decode()
    run_start = text.rfind('[run]', 0, k + 1)
    if run_start < 0:
        return False
    corr = SF.corr_by_name(fs, call['name'])
    head = 'name      %s\nquarks    %s\noffset    %d\nwf        %d\n' % (call['name'], call['quarks'], call['noffset'], call['wf'])
    if corr['type'] != 'bi':
        head += 'wf_2      %d\n' % call['wf2']
    head += 'corr\n' if corr['type'] == 'bb' else 'corr_t\n'
    p = text.find(head, run_start)
    nxt = text.find('[run]', run_start + 1)
    if p < 0 or (nxt >= 0 and p > nxt):
        return False
    p += len(head)
    T = 1 if corr['type'] == 'bb' else corr['T']
    for t in range(T - 1):
        p = text.index('\n', p) + 1
    end = text.index('\n', p)
    spans = [(m.start() + p, m.end() + p) for m in re.finditer(r'\S+', text[p:end])]
    a, b = spans[(1 if call.get('im') else 0) + (0 if corr['type'] == 'bb' else 1)]
    if not (a < k < b):
        return False
    if fs['layout'] == 'a' and text.count('[run]', 0, run_start + 5) < 5:
        return False      # fewer than 5 runs left: rejected anyway (an Obs needs 5 configurations)
    try:
        float(text[a:k])
    except ValueError:
        return False
    return True


def sfcf_used_end(fs, call, fsobj, rel, rep, cfg):
    """Byte offset just behind the last number the call uses from the per-configuration file rel (separate / compact layout)."""
    corr = SF.corr_by_name(fs, call['name'])
    text = fsobj.files[rel].decode()
    if call.get('multi'):
        blocks = [(key[2], key[3], (None if corr['type'] == 'bi' else key[4])) for key in _sf_keys(fs, call)]
    else:
        blocks = [(call['noffset'], call['wf'], None if corr['type'] == 'bi' else call['wf2'])]
    end = 0
    for off, wf, w2 in blocks:
        nums = SF.numbers(fs, fs['reps'][rep], cfg, corr, off, wf, w2)
        last = nums[-1][1 if call.get('im') else 0]
        p = text.find(last)
        if p < 0 or text.find(last, p + 1) >= 0:
            raise RuntimeError('harness: used number %r not found exactly once in %s' % (last, rel))
        end = max(end, p + len(last))
    return end


def judge(family, fs, call, fsobj, rel, k, path):
    """path holds the set with `rel` truncated to k bytes.  Returns (outcome label, non-trivial)."""
    mod = FAMILIES[family][0]
    nt = not (k == 0 or fsobj.at_boundary(rel, k))
    try:
        got = _run(family, mod, path, fs, call)
    except Exception as e:
        return 'exception:' + type(e).__name__, nt
    rep = fsobj.replica[rel]
    ncomp = fsobj.complete_before(rel, k)
    if family in PER_CFG_FILES:
        cfg = fsobj.records[rel][0][2]
        cands = [('without_cut_cfg', dict(drop=({rep: [cfg]} if mod is SF else [cfg])))]
        # the complete result is a correct answer only if every number the call uses from this file lies before the cut
        # (sfcf: text position of the last used number of the requested block; hdf5 container: not decidable from outside)
        if mod is not SF or k >= sfcf_used_end(fs, call, fsobj, rel, rep, cfg):
            cands.insert(0, ('complete_result', dict(drop=None)))
    else:
        total = len(fsobj.records[rel])
        cands = [('prefix', dict(limit={rep: ncomp}))]
        # A partial record whose *used* numbers are complete is tolerated only for the readers that skip the rest of a
        # record by design (ms.dat: arrays after the requested one; gfms: observables after the requested one).  The readers
        # that consume whole records (rwms, ms5_xsf, sfcf appended, pbp) must not hand out anything from a partial record.
        if ncomp + 1 <= total and family in LENIENT:
            cands.append(('prefix_plus_partial_record_with_complete_used_numbers', dict(limit={rep: ncomp + 1})))
    for lab, kw in cands:
        exp, scale, rtol = _expected(family, mod, fs, call, **kw)
        if _matches(got, exp, scale, rtol):
            return lab, nt
    # describe what came back
    first = got[sorted(got, key=str)[0]]
    desc = {n: len(first.idl[n]) for n in first.names}
    raise Violation('%s: file %s cut at byte %d of %d (%d complete records before the cut): the reader returned a result (%r configurations '
                    'per replica) that is neither the exact prefix nor an exception' % (family, rel, k, len(fsobj.files[rel]), ncomp, desc))


def cut_oracle_factory(family):
    def oracle(spec):
        fs, call = spec['fs'], spec['call']
        rel, k = spec['cut']
        fsobj = FAMILIES[family][0].build(fs)
        with common.tempdir('verif_c18_') as d:
            fsobj.write(d, cut=(rel, k))
            lab, nt = judge(family, fs, call, fsobj, rel, k, d)
        return {'nt': nt, 'cls': [lab] + ([pbp_cut_class(fs, fsobj, rel, k)] if family == 'pbp' else [])}
    return oracle


def offsets_for(fsobj, rel, tier, rnd):
    n = len(fsobj.files[rel])
    if tier == 'thorough':
        return list(range(n)), True
    recs = fsobj.records[rel]
    keep = set(range(0, min(n, fsobj.header[rel] + 1)))
    if recs:
        for (s, e, c) in [recs[0]] + recs[-2:]:
            keep.update(range(s, min(e + 1, n)))
    if len(recs) == 1 and n > 1500:
        # one record = the whole file (per-configuration layouts): all offsets of the first and last 300 bytes + sample
        keep = set(range(0, 300)) | set(range(n - 300, n))
    rest = [x for x in range(n) if x not in keep]
    keep.update(rnd.sample(rest, min(len(rest), 150)))
    return sorted(keep), len(keep) == n


def family_enum(family):
    mod, gen = FAMILIES[family]

    def enum(tier, seed, shard, nshards, stats):
        # `seed` is already specific to (property, family, shard): every shard builds its own file sets and enumerates
        # them completely, so that "all offsets of a file" is the work of one process
        rnd = random.Random('%s:%s' % (seed, family))
        nsets = -(-NSETS[tier].get(family, NSETS[tier]['default']) // nshards)
        for iset in range(nsets):
            fs, call = gen(rnd, iset) if family in ('rwms', 'pbp') else gen(rnd)
            fsobj = mod.build(fs)
            # the untruncated set must read correctly (otherwise the harness is wrong, not the reader)
            files = sorted(f for f in fsobj.files if fsobj.records[f])
            if family in PER_CFG_FILES:
                # cut a few of the per-configuration files: first, a middle one, the last of one replica; only files the call reads
                cand = [f for f in files if fsobj.replica[f] == 0 and (family != 'sfcf_o' or f.endswith('/' + call['name']))]
                files = sorted(set([cand[0], cand[len(cand) // 2], cand[-1]])) if tier == 'quick' else cand
            elif family == 'sfcf_a':
                files = [f for f in files if f.endswith('.' + call['name'])]
            with common.tempdir('verif_c18_') as d:
                fsobj.write(d)
                exp, scale, rtol = _expected(family, mod, fs, call)
                if not _matches(_run(family, mod, d, fs, call), exp, scale, rtol):
                    v = Violation('%s: the untruncated file set is not read correctly (see C17)' % family)
                    v.spec = {'fs': fs, 'call': call, 'cut': [files[0], len(fsobj.files[files[0]])]}
                    raise v
                for rel in files:
                    offs, full = offsets_for(fsobj, rel, tier, rnd)
                    data = fsobj.files[rel]
                    p = os.path.join(d, rel)
                    for k in offs:
                        spec = {'fs': fs, 'call': call, 'cut': [rel, k]}
                        stats.begin(spec)
                        fid = 'F-C18-1b' if fs.get('layout') == 'a' else 'F-C18-1'
                        if mod is SF and findings.is_open(fid) and sfcf_partial_number_cut(fs, call, fsobj, rel, k):
                            stats.record(spec, {'nt': False, 'cls': ['excluded:' + fid]})
                            continue
                        with open(p, 'wb') as fh:
                            fh.write(data[:k])
                        try:
                            lab, nt = judge(family, fs, call, fsobj, rel, k, d)
                        except Violation as e:
                            e.spec = spec
                            raise
                        cls = [lab, 'set:%d' % iset] + (['file_fully_enumerated'] if full and k == offs[0] else [])
                        if family == 'pbp':
                            cls.append(pbp_cut_class(fs, fsobj, rel, k))
                        stats.record(spec, {'nt': nt, 'cls': cls})
                    with open(p, 'wb') as fh:
                        fh.write(data)
    return enum


# =====================================================================================================
# archives

def _obs_list(rnd, n):
    from vlib.build import build_obs
    out = []
    for i in range(n):
        chains = []
        for r in rnd.sample(['r1', 'r2', 'r10'], rnd.choice([1, 2])):
            m = rnd.randint(6, 12)
            first, sp = rnd.choice([1, 5, 100]), rnd.choice([1, 2])
            chains.append({'name': 'A|' + r, 'idl': [first + sp * j for j in range(m)], 'form': 'list',
                           'data': {'kind': 'white', 'seed': rnd.randrange(2 ** 31), 'mean': rnd.uniform(-2, 2), 'sigma': rnd.uniform(0.1, 1.0)}})
        out.append({'chains': chains, 'cov': []})
    return out, [build_obs(s) for s in out]


def archive_write(kind, obs_specs, path):
    """Writes the archive with pyerrors, returns the file name."""
    import pyerrors as pe
    from vlib.build import build_obs
    ol = [build_obs(s) for s in obs_specs]
    base = os.path.join(path, 'arch')
    if kind == 'json_gz':
        pe.input.json.dump_to_json(ol, base, description='c18')
        return base + '.json.gz'
    if kind == 'dobs_gz':
        pe.input.dobs.write_dobs(ol, base, 'c18')
        return base + '.xml.gz'
    if kind == 'pobs_gz':
        single = [o for o in ol if len(o.names) == 1] or [build_obs({'chains': obs_specs[0]['chains'][:1], 'cov': []})]
        names = single[0].names
        same = [o for o in single if o.names == names and list(o.idl[names[0]]) == list(single[0].idl[names[0]])]
        pe.input.dobs.write_pobs(same, base, 'c18')
        return base + '.xml.gz'
    if kind == 'csv_gz':
        import pandas as pd
        df = pd.DataFrame({'i': list(range(len(ol))), 'o': ol})
        pe.input.pandas.dump_df(df, base)
        return base + '.csv.gz'
    raise ValueError(kind)


def archive_read(kind, fname):
    import pyerrors as pe
    base = fname[:-len({'json_gz': '.json.gz', 'dobs_gz': '.xml.gz', 'pobs_gz': '.xml.gz', 'csv_gz': '.csv.gz'}[kind])]
    with common.quiet():
        if kind == 'json_gz':
            return pe.input.json.load_json(base, verbose=False)
        if kind == 'dobs_gz':
            return pe.input.dobs.read_dobs(base)
        if kind == 'pobs_gz':
            return pe.input.dobs.read_pobs(base)
        return pe.input.pandas.load_df(base)


def archive_judge(kind, fname, data, k):
    with open(fname, 'wb') as fh:
        fh.write(data[:k])
    try:
        archive_read(kind, fname)
    except Exception as e:
        return 'exception:' + type(e).__name__
    raise Violation('%s archive of %d bytes cut at byte %d was loaded without an exception' % (kind, len(data), k))


def archive_oracle_factory(kind):
    def oracle(spec):
        with common.tempdir('verif_c18_') as d:
            fname = archive_write(kind, spec['obs'], d)
            data = open(fname, 'rb').read()
            require(0 <= spec['cut'] < len(data), 'harness: cut offset outside the regenerated archive')
            # the complete archive must load
            archive_read(kind, fname)
            lab = archive_judge(kind, fname, data, spec['cut'])
        return {'nt': spec['cut'] > 0, 'cls': [lab]}
    return oracle


def _valid_gzip_prefixes(data):
    import gzip
    import zlib
    out = []
    for k in range(1, len(data)):
        try:
            gzip.decompress(data[:k])
        except (EOFError, OSError, zlib.error):
            continue
        out.append(k)
    return out


def archive_enum(kind):
    def enum(tier, seed, shard, nshards, stats):
        rnd = random.Random('%s:%s' % (seed, kind))
        narch = -(-(2 if tier == 'quick' else 6) // nshards)
        for ia in range(narch):
            # (csv: from the second archive on frames with many rows - writers may emit long tables in several pieces)
            specs, _ = _obs_list(rnd, rnd.choice([18, 24, 40]) if (kind == 'csv_gz' and ia >= 1) else rnd.choice([1, 2, 3]))
            with common.tempdir('verif_c18_') as d:
                fname = archive_write(kind, specs, d)
                data = open(fname, 'rb').read()
                archive_read(kind, fname)
                n = len(data)
                if tier == 'thorough' or ia == 0:
                    offs, full = list(range(n)), True
                else:
                    # sampled offsets + every offset at which the prefix is by itself a complete gzip stream (the cuts a reader
                    # that trusts the container cannot notice)
                    offs, full = sorted(set(range(0, 40)) | set(range(n - 40, n)) | set(rnd.sample(range(n), min(n, 200))) | set(_valid_gzip_prefixes(data))), False
                for k in offs:
                    spec = {'kind': kind, 'obs': specs, 'cut': k}
                    stats.begin(spec)
                    try:
                        lab = archive_judge(kind, fname, data, k)
                    except Violation as e:
                        e.spec = spec
                        raise
                    stats.record(spec, {'nt': k > 0, 'cls': [lab, 'archive:%d' % ia] + (['archive_fully_enumerated'] if full and k == offs[0] else [])})
    return enum


HEAVY = ('gfms_gf', 'gfms_qtop', 'sfcf_c', 'sfcf_o')
SUBS = [Sub(f, None, cut_oracle_factory(f), {'quick': 1, 'thorough': 1}, {'quick': 2 if f in HEAVY else 1, 'thorough': 4 if f in HEAVY else 2},
            kind='enum', enum=family_enum(f), doc='truncation of %s files at byte offsets' % f) for f in FAMILIES]
SUBS += [Sub(k, None, archive_oracle_factory(k), {'quick': 1, 'thorough': 1}, {'quick': 1, 'thorough': 2}, kind='enum', enum=archive_enum(k),
             doc='truncated %s archive must be rejected' % k) for k in ('json_gz', 'dobs_gz', 'pobs_gz', 'csv_gz')]
