"""C15  Correlator derived quantities equal their defining formulas where defined.

Sub-properties (all on single-valued correlators, T = 4..24, any pattern of undefined timeslices)
  deriv         Corr.deriv, variants symmetric / forward / backward / improved / log
  second_deriv  Corr.second_deriv, variants symmetric / big_symmetric / improved / log
  m_eff         Corr.m_eff, closed-form variants log / logsym / arccosh
  m_eff_root    Corr.m_eff, root variants cosh / periodic / sinh (independent bracketing solve + implicit derivative)
  plateau       Corr.plateau by fit (= weighted mean with weights 1/dy^2) and by average, over any inclusive range,
                range given as argument or through prange

Common oracle.  Every input timeslice is modelled from the raw samples of the spec (RefObs.from_spec, no pyerrors
arithmetic).  For every output timeslice t the documented formula names the input timeslices it references; the
expectation is
  'none'     a referenced timeslice lies outside 0..T-1 or is undefined, or the formula has no real value there
             (logarithm of a non-positive number, negative ratio, arccosh argument < 1, division by an exact zero);
  'val'      RefObs.combine(formula, analytic gradient, referenced timeslices) - value, every fluctuation on every
             replica, covariance gradients, replica means - compared with cmp_obs;
  'unjudged' the statement does not decide the slice (see ASSUMPTIONS).
The result must be a Corr with the same T and N = 1.  An exception is a violation whenever at least one output
timeslice is expected to be defined; if none is, any exception (or an all-undefined result) is accepted.
"""
import contextlib
import io
import math

import numpy as np
from hypothesis import strategies as st

from vlib import gen, findings
from vlib.build import build_obs, samples as build_samples, group_chains
from vlib.core import Sub, Violation, Skip, require
from vlib.refobs import RefObs, combine, cmp_obs

PROPERTY = 'C15'
LEVEL = 'exploration'
RULE = ('Hypothesis-generated single-valued correlators: T=4..24, 0..T-1 undefined timeslices at arbitrary positions, every '
        'defined timeslice an observable built from its own white-noise samples on one shared layout (1-2 ensembles x 1-2 '
        'replicas, contiguous / strided / irregular configuration lists, optional shared covariance input); mean shapes '
        'exponential, two-exponential, cosh, sinh, random sign, staggered sign, sign blocks, plateau, optional exact-zero '
        'timeslices; every variant of deriv / second_deriv / m_eff, plateau by fit / avg / average / mean over any inclusive '
        'range.  Non-trivial: an undefined timeslice that is not at the border and is referenced by the formula of at least '
        'one in-range output timeslice (plateau: an undefined timeslice inside the range); distinct = distinct spec hash.')
ASSUMPTIONS = [
    'RefObs.combine (vlib/refobs.py) is the statement of linear propagation; analytic gradients of all formulas are '
    'self-checked against central finite differences at import',
    'tolerances closed-form variants: fluctuations 1e-10 relative + 1e-12 of the summed term magnitude, values 1e-11 '
    '(a handful of double operations per slice)',
    'root variants: reference root from brentq on the log of the cosh/sinh ratio, implicit derivative 1/r\'(m); tolerance 1e-6 '
    'relative (fsolve xtol 1.5e-8); a slice is judged only if the equation has a real root m in [1e-3, 50/|t-T/2|] AND an '
    'independent scipy fsolve call from the same guess reports convergence to it (convergence of the root finder is outside C15)',
    'root variants, slices not decided by the statement and therefore unjudged: ratio positive but no real root (incl. the '
    'middle slice of odd T), the two middle slices of even T for sinh (the library fills them with the preceding slice)',
    '"no real solution" is judged by the sign / domain criteria only (non-positive argument of log, negative ratio, '
    'arccosh argument < 1, exact zero divisor); log of an exactly vanishing ratio and arccosh arguments within 1e-3 of 1 are unjudged',
    'plateau by fit: weights 1/dvalue^2 use the errors that pyerrors\' own gamma_method assigned to the input slices (C02 is '
    'checked separately); value within 1e-6 * sigma_a * max(1, chi) of sum(w y)/sum(w) (sigma_a = 1/sqrt(sum w), chi = sqrt(chi^2); accuracy of '
    'MINPACK lmdif with a forward-difference Jacobian, measured 1.4e-8 in these units), fluctuations (= gradient w_i/sum(w)) 1e-8 relative',
    'measured head-room: every comparison of the quick tier still passes with all tolerances tightened by a factor 100',
    'all timeslices of a correlator share one layout (the Corr constructor rejects anything else)',
]

FINDING_CENTRAL = 'F-C15-1'

# ---------------------------------------------------------------------------------------------
# formulas: offsets of the referenced timeslices, value, analytic gradient.  f returns NaN where the
# formula has no real value.


def _log(x):
    return math.log(x) if x > 0 else float('nan')


def _d_log_f(v):
    return v[1] * 0.5 * (_log(v[2]) - _log(v[0]))


def _d_log_g(v):
    return [-0.5 * v[1] / v[0], 0.5 * (_log(v[2]) - _log(v[0])), 0.5 * v[1] / v[2]]


def _sd_log_f(v):
    lm, l0, lp = _log(v[0]), _log(v[1]), _log(v[2])
    return v[1] * ((lp - 2 * l0 + lm) + (0.5 * (lp - lm)) ** 2)


def _sd_log_g(v):
    lm, l0, lp = _log(v[0]), _log(v[1]), _log(v[2])
    D = 0.5 * (lp - lm)
    S = lp - 2 * l0 + lm
    return [v[1] * (1 - D) / v[0], S + D * D - 2.0, v[1] * (1 + D) / v[2]]


def _ratio_log(scale):
    def f(v):
        if v[1] == 0:
            return float('nan')
        r = v[0] / v[1]
        return scale * math.log(r) if r > 0 else float('nan')

    def g(v):
        return [scale / v[0], -scale / v[1]]
    return f, g


def _arccosh_f(v):
    if v[1] == 0:
        return float('nan')
    x = (v[2] + v[0]) / (2 * v[1])
    return math.acosh(x) if x >= 1 else float('nan')


def _arccosh_g(v):
    x = (v[2] + v[0]) / (2 * v[1])
    k = 1.0 / math.sqrt(x * x - 1)
    return [k / (2 * v[1]), -k * (v[2] + v[0]) / (2 * v[1] ** 2), k / (2 * v[1])]


_LOGF, _LOGG = _ratio_log(1.0)
_LSYF, _LSYG = _ratio_log(0.5)

FORMS = {
    ('deriv', 'symmetric'): ((-1, 1), lambda v: 0.5 * (v[1] - v[0]), lambda v: [-0.5, 0.5]),
    ('deriv', 'forward'): ((0, 1), lambda v: v[1] - v[0], lambda v: [-1.0, 1.0]),
    ('deriv', 'backward'): ((-1, 0), lambda v: v[1] - v[0], lambda v: [-1.0, 1.0]),
    ('deriv', 'improved'): ((-2, -1, 1, 2), lambda v: (v[0] - 8 * v[1] + 8 * v[2] - v[3]) / 12,
                            lambda v: [1 / 12, -8 / 12, 8 / 12, -1 / 12]),
    ('deriv', 'log'): ((-1, 0, 1), _d_log_f, _d_log_g),
    ('second_deriv', 'symmetric'): ((-1, 0, 1), lambda v: v[2] - 2 * v[1] + v[0], lambda v: [1.0, -2.0, 1.0]),
    ('second_deriv', 'big_symmetric'): ((-2, 0, 2), lambda v: (v[2] - 2 * v[1] + v[0]) / 4, lambda v: [0.25, -0.5, 0.25]),
    ('second_deriv', 'improved'): ((-2, -1, 0, 1, 2), lambda v: (-v[4] + 16 * v[3] - 30 * v[2] + 16 * v[1] - v[0]) / 12,
                                   lambda v: [-1 / 12, 16 / 12, -30 / 12, 16 / 12, -1 / 12]),
    ('second_deriv', 'log'): ((-1, 0, 1), _sd_log_f, _sd_log_g),
    ('m_eff', 'log'): ((0, 1), _LOGF, _LOGG),
    ('m_eff', 'logsym'): ((-1, 1), _LSYF, _LSYG),
    ('m_eff', 'arccosh'): ((-1, 0, 1), _arccosh_f, _arccosh_g),
}
VARIANTS = {m: [v for (mm, v) in FORMS if mm == m] for m in ('deriv', 'second_deriv', 'm_eff')}
ROOT_VARIANTS = ['cosh', 'periodic', 'sinh']
DEFAULT_VARIANT = {'deriv': 'symmetric', 'second_deriv': 'symmetric', 'm_eff': 'log'}   # documented defaults


def _selfcheck_forms():
    h = 1e-6
    for key, (off, f, g) in FORMS.items():
        for base in ([1.3, 0.9, 0.75, 0.6, 0.52], [0.4, 0.7, 1.6, 2.9, 5.5]):
            v = base[:len(off)]
            if key == ('m_eff', 'arccosh'):
                v = [1.9, 1.2, 1.1]
            gr = g(v)
            for i in range(len(v)):
                vp, vm = list(v), list(v)
                vp[i] += h
                vm[i] -= h
                num = (f(vp) - f(vm)) / (2 * h)
                assert abs(num - gr[i]) <= 1e-6 * max(1.0, abs(num)), (key, i, num, gr[i])


_selfcheck_forms()


def safe(f):
    def w(v):
        try:
            r = f(v)
        except (ValueError, ZeroDivisionError, OverflowError):
            return float('nan')
        return r if isinstance(r, float) else float(r)
    return w


# ---------------------------------------------------------------------------------------------
# root variants: C(t)/C(t+1) = F(m (t - T/2)) / F(m (t + 1 - T/2)),  F = cosh | sinh

def _lcosh(x):
    x = abs(x)
    return x + math.log1p(math.exp(-2 * x)) - math.log(2)


def _lsinh(x):   # x > 0
    return x + math.log(-math.expm1(-2 * x)) - math.log(2)


def root_ratio_slope(kind, m, t, T):
    """d/dm [F(m x)/F(m y)] divided by the ratio itself."""
    x, y = t - T / 2, t + 1 - T / 2
    if kind == 'cosh':
        return x * math.tanh(x * m) - y * math.tanh(y * m)
    return x / math.tanh(x * m) - y / math.tanh(y * m)


def root_ref(kind, d, t, T):
    """Positive solution m of the defining equation for ratio d > 0.
    -> ('val', m, dm/dd) or ('unjudged', reason)."""
    from scipy.optimize import brentq
    x, y = t - T / 2, t + 1 - T / 2
    a, b = abs(x), abs(y)
    if kind == 'cosh':
        if a == b:
            return ('unjudged', 'ratio identically one')
        lim0 = 0.0

        def lr(m):
            return _lcosh(a * m) - _lcosh(b * m)
    else:
        if a == 0 or b == 0:
            return ('unjudged', 'sinh middle slices')
        if x * y < 0:
            return ('unjudged', 'ratio identically minus one')
        lim0 = math.log(a / b)

        def lr(m):
            return _lsinh(a * m) - _lsinh(b * m)
    ld = math.log(d)
    sg = 1.0 if a > b else -1.0
    if (ld - lim0) * sg <= 1e-9:
        return ('unjudged', 'no real root')
    hi = 1.0
    while (lr(hi) - ld) * sg < 0:
        hi *= 2
        if hi > 1e3:
            return ('unjudged', 'root too large')
    lo = 1e-4
    if (lr(lo) - ld) * sg >= 0:
        return ('unjudged', 'ill-conditioned root')      # root below 1e-4: the ratio is at its m -> 0 limit
    try:
        m = brentq(lambda z: lr(z) - ld, lo, hi, xtol=1e-300, rtol=1e-15, maxiter=500)
    except (ValueError, RuntimeError):
        return ('unjudged', 'reference solve failed')
    if not (m >= 1e-3 and m * max(a, b) <= 50):
        return ('unjudged', 'ill-conditioned root')
    return ('val', m, 1.0 / (d * root_ratio_slope(kind, m, t, T)))


def _selfcheck_root():
    for kind in ('cosh', 'sinh'):
        for (t, T, m) in ((2, 10, 0.4), (7, 10, 0.25), (1, 9, 0.7), (6, 9, 0.15)):
            F = math.cosh if kind == 'cosh' else math.sinh

            def r(z):
                return F(z * (t - T / 2)) / F(z * (t + 1 - T / 2))
            d = r(m)
            st_, m1, dm = root_ref(kind, d, t, T)
            assert abs(m1 - m) < 1e-10, (kind, t, T, m, m1)
            h = 1e-6
            num = 2 * h / (r(m + h) - r(m - h))
            assert abs(num - dm) <= 1e-6 * abs(dm), (kind, t, T, num, dm)


_selfcheck_root()


def fsolve_converges(kind, d, t, T, guess, m):
    """Does scipy's fsolve, started like the library starts it, find the root at all?  (differential on the
    numerical solver only: the root function here is written from the docstring.)"""
    import scipy.optimize
    F = np.cosh if kind == 'cosh' else np.sinh

    def func(z, dd):
        return F(z * (t - T / 2)) / F(z * (t + 1 - T / 2)) - dd
    with np.errstate(all='ignore'):
        try:
            z, info, ier, msg = scipy.optimize.fsolve(func, guess, args=(d,), full_output=True)
        except Exception:
            return False
    return ier == 1 and np.isfinite(z[0]) and abs(abs(float(z[0])) - m) <= 1e-7 * m


# ---------------------------------------------------------------------------------------------
# correlator specs

def slice_spec(spec, t):
    chains = []
    for ci, c in enumerate(spec['chains']):
        zero = t in spec.get('zero', [])
        data = {'kind': 'const', 'seed': 0, 'mean': 0.0, 'sigma': 0.0} if zero else \
            {'kind': 'white', 'seed': (spec['seed'] + 7919 * t + 104729 * ci) % (2 ** 31), 'mean': spec['means'][t], 'sigma': spec['sig'][t]}
        chains.append({'name': c['name'], 'idl': c['idl'], 'form': c['form'], 'data': data})
    cov = []
    if spec.get('cov'):
        cv = spec['cov']
        cov = [{'name': cv['name'], 'cov': [[cv['var']]], 'means': [0.0], 'grad': [cv['grads'][t]]}]
    return {'chains': chains, 'cov': cov}


def slice_values(spec):
    """Central values of the defined timeslices computed with numpy from the samples (used by the strategies only)."""
    out = {}
    for t in range(spec['T']):
        if t in spec['und']:
            continue
        sp = slice_spec(spec, t)
        v = 0.0
        for e, chains in group_chains(sp['chains']).items():
            xs = np.concatenate([build_samples(c['data'], len(c['idl'])) for c in chains])
            v += float(np.mean(xs))
        out[t] = v
    return out


def build_corr(spec, **kw):
    import pyerrors as pe
    content, refs = [], []
    for t in range(spec['T']):
        if t in spec['und']:
            content.append(None)
            refs.append(None)
            continue
        sp = slice_spec(spec, t)
        o = build_obs(sp)
        r = RefObs.from_spec(sp)
        cmp_obs(r, o, 'constructed timeslice %d' % t)
        content.append(o)
        refs.append(r)
    return pe.Corr(content, **kw), refs


SHAPES = ['exp', 'exp2', 'cosh', 'sinh', 'rand', 'stagger', 'blocks', 'plateau']


@st.composite
def shape_means(draw, shape, T):
    A = draw(st.sampled_from([1.0, 0.37, 2.5, 12.0, 1e-3])) * draw(st.sampled_from([1.0, 1.0, 1.0, -1.0]))
    m = draw(st.one_of(gen.fl(0.05, 0.8), st.sampled_from([0.1, 0.3, 0.5])))
    if shape == 'exp':
        return [A * math.exp(-m * t) for t in range(T)]
    if shape == 'exp2':
        m2 = m + draw(gen.fl(0.2, 1.0))
        B = draw(st.sampled_from([0.3, 1.0, -0.5]))
        return [A * (math.exp(-m * t) + B * math.exp(-m2 * t)) for t in range(T)]
    if shape == 'cosh':
        return [A * math.cosh(m * (t - T / 2)) for t in range(T)]
    if shape == 'sinh':
        return [A * math.sinh(m * (T / 2 - t - (1e-3 if 2 * t == T else 0.0))) for t in range(T)]
    if shape == 'rand':
        return [draw(st.one_of(gen.fl(0.2, 3.0), gen.fl(-3.0, -0.2))) for _ in range(T)]
    if shape == 'stagger':
        return [A * (-1.0) ** t * math.exp(-m * t) for t in range(T)]
    if shape == 'blocks':
        t0 = draw(st.integers(1, T - 1))
        return [A * (1.0 if t < t0 else -1.0) * math.exp(-m * t) for t in range(T)]
    slope = draw(st.sampled_from([0.0, 0.01, -0.02]))
    return [A * (1.0 + slope * t) for t in range(T)]


@st.composite
def layout(draw, tier, analysable=False):
    """analysable: replicas of one ensemble share their smallest spacing (documented precondition of gamma_method)."""
    nmax = 16 if tier == 'quick' else 60
    k = draw(st.sampled_from([1, 1, 1, 2]))
    chains = []
    for e in draw(gen.ensemble_names(k, k)):
        reps = draw(gen.replica_names(e, 1, 2))
        g = draw(st.sampled_from([1, 1, 2, 3]))
        kinds = ('contig',) if analysable and len(reps) > 1 else ('contig', 'strided', 'irregular')
        for r in reps:
            chains.append({'name': r, 'idl': draw(gen.idl_list(5, nmax, kinds=kinds, gap=g)), 'form': draw(gen.idl_form())})
    return chains


@st.composite
def undefined_set(draw, T):
    """0..T-1 undefined timeslices at arbitrary positions; mostly few (so that outputs remain), sometimes most of them."""
    k = draw(st.sampled_from([0, 0, 0, 1, 1, 1, 1, 1, 1, 2, 2, 2, 2, 2, 3, 3, 3, 4, 5, -1]))
    if k < 0:
        k = draw(st.integers(T // 2, T - 1))
    else:
        k = min(k, max(1, T // 3))
    return sorted(draw(st.lists(st.integers(0, T - 1), min_size=k, max_size=k, unique=True)))


@st.composite
def corr_spec(draw, tier, shapes=SHAPES, rel=None, zeros=True, with_cov=True, analysable=False):
    T = draw(st.one_of(st.integers(4, 8), st.integers(4, 24), st.integers(9, 24)))
    chains = draw(layout(tier, analysable))
    shape = draw(st.sampled_from(list(shapes)))
    means = draw(shape_means(shape, T))
    r = draw(rel if rel is not None else st.sampled_from([1e-4, 1e-3, 1e-2, 0.05, 0.3]))
    top = max(abs(x) for x in means)
    sig = [r * max(abs(x), 1e-2 * top) for x in means]
    spec = {'T': T, 'und': draw(undefined_set(T)), 'chains': chains, 'shape': shape, 'means': means, 'sig': sig,
            'seed': draw(st.integers(0, 2 ** 31 - 1))}
    if zeros and draw(st.integers(0, 11)) == 7:
        spec['zero'] = sorted(draw(st.lists(st.integers(0, T - 1), min_size=1, max_size=2, unique=True)))
    if with_cov and draw(st.integers(0, 4)) == 3:
        cg = draw(st.sampled_from([0.02, 0.1, 0.5]))
        spec['cov'] = {'name': draw(st.sampled_from(gen.COVNAMES)), 'var': draw(st.sampled_from([0.04, 1.0, 2.25])),
                       'grads': [cg * x * (1.0 + 0.25 * ((t * 7) % 4)) for t, x in enumerate(means)]}
    return spec


# ---------------------------------------------------------------------------------------------
# expectation and judgement

def in_range(T, t, off):
    return all(0 <= t + o < T for o in off)


def expect_closed(spec, refs, off, f, g, method, variant):
    """{t: ('none', why) | ('val', RefObs) | ('defined',) | ('unjudged', why)}"""
    T = spec['T']
    fs = safe(f)
    exp = {}
    for t in range(T):
        if not in_range(T, t, off):
            exp[t] = ('none', 'references a timeslice outside 0..T-1')
            continue
        idx = [t + o for o in off]
        miss = [i for i in idx if refs[i] is None]
        if miss:
            exp[t] = ('none', 'references undefined timeslice %d' % miss[0])
            continue
        ops = [refs[i] for i in idx]
        vals = [o.value for o in ops]
        val = fs(vals)
        if method == 'm_eff' and variant in ('log', 'logsym') and vals[0] == 0 and vals[1] != 0:
            exp[t] = ('unjudged', 'log of an exactly vanishing ratio')
            continue
        if variant == 'arccosh' and vals[1] != 0:
            x = (vals[2] + vals[0]) / (2 * vals[1])
            if abs(x - 1) <= 1e-9:
                exp[t] = ('unjudged', 'arccosh argument within 1e-9 of 1')
                continue
            if 1 < x < 1 + 1e-3:
                exp[t] = ('defined',)     # real value, but the gradient 1/sqrt(x^2-1) amplifies rounding of x beyond the tolerance
                continue
        if not math.isfinite(val):
            exp[t] = ('none', 'formula has no real value for central values %r' % (vals,))
            continue
        exp[t] = ('val', combine(fs, g(vals), ops))
    return exp


def judge_corr(res, spec, exp, what, rtol=1e-10, vtol=1e-11, atol_scale=1e-12, check_rv=True):
    import pyerrors as pe
    T = spec['T']
    require(isinstance(res, pe.Corr), what + ' did not return a Corr', type(res).__name__)
    require(res.T == T and res.N == 1, what + ' returned a correlator with T=%r, N=%r for an input with T=%d, N=1' % (res.T, res.N, T))
    for t in range(T):
        e = exp[t]
        got = res.content[t]
        if e[0] == 'unjudged':
            continue
        if e[0] == 'none':
            require(got is None, '%s: timeslice %d must be undefined (%s) but holds %r' % (what, t, e[1], got))
            continue
        require(got is not None, '%s: timeslice %d is undefined although all referenced timeslices are defined and the formula has a real value'
                % (what, t), None if e[0] != 'val' else e[1].value)
        require(isinstance(got, np.ndarray) and got.shape == (1,), '%s: timeslice %d is not an array of one observable' % (what, t), got)
        if e[0] == 'defined':
            continue
        rf = e[1]
        skip = set(n for n, v in rf.rv.items() if not math.isfinite(v))
        cmp_obs(rf, got[0], '%s at timeslice %d' % (what, t), rtol=rtol, vtol=vtol, atol_scale=atol_scale, check_rv=check_rv, rv_skip=skip)


def call_and_judge(fn, spec, exp, what, **tol):
    must = sorted(t for t, e in exp.items() if e[0] in ('val', 'defined'))
    try:
        res = fn()
    except Exception as e:
        if must:
            raise Violation('%s raised %s: %s although output timeslice(s) %r are defined' % (what, type(e).__name__, e, must[:6])) from e
        return 'raised'
    judge_corr(res, spec, exp, what, **tol)
    return 'returned'


def labels(spec, exp, off, how, extra=()):
    T = spec['T']
    labs = set(extra)
    labs.add('shape:' + spec['shape'])
    labs.add('T:' + ('4-6' if T <= 6 else '7-12' if T <= 12 else '13-24'))
    nu = len(spec['und'])
    labs.add('undefined:' + ('0' if nu == 0 else '1' if nu == 1 else '2-3' if nu <= 3 else '4+'))
    labs.add('call:' + how)
    if spec.get('zero'):
        labs.add('exact_zero_slice')
    if spec.get('cov'):
        labs.add('with_cov')
    if len(spec['chains']) > 1:
        labs.add('multi_chain')
    if len(set(c['name'].split('|')[0] for c in spec['chains'])) > 1:
        labs.add('multi_ensemble')
    for c in spec['chains']:
        labs.add('idl:' + gen.classify_idl(c['idl']))
    kinds = [e[0] for e in exp.values()]
    if any(e[0] == 'none' and e[1].startswith('formula') for e in exp.values()):
        labs.add('slice_without_real_value')
    if 'unjudged' in kinds:
        labs.add('has_unjudged_slice')
    if 'val' not in kinds and 'defined' not in kinds:
        labs.add('no_output_defined')
    und = set(spec['und'])
    nt = any(in_range(T, t, off) and any(0 < t + o < T - 1 and (t + o) in und for o in off) for t in range(T))
    if nt:
        labs.add('interior_undefined_referenced')
    return nt, sorted(labs)


# ---------------------------------------------------------------------------------------------
# deriv / second_deriv / m_eff (closed form)

def central_triggers(spec, variant, values=None):
    """Output slices of second_deriv(symmetric | big_symmetric | log) whose outer neighbours are usable but whose
    central slice is not (selector of F-C15-1)."""
    T = spec['T']
    und = set(spec['und'])
    if variant == 'log':
        values = values if values is not None else slice_values(spec)
        ok = [t not in und and values[t] > 0 for t in range(T)]
    else:
        ok = [t not in und for t in range(T)]
    k = 2 if variant == 'big_symmetric' else 1
    return [t for t in range(k, T - k) if ok[t - k] and ok[t + k] and not ok[t]], ok, k


@st.composite
def closed_case(draw, tier, method):
    spec = draw(corr_spec(tier))
    spec['variant'] = draw(st.sampled_from(VARIANTS[method]))
    spec['call'] = draw(st.sampled_from(['kw', 'pos', 'default'])) if spec['variant'] == DEFAULT_VARIANT[method] else draw(st.sampled_from(['kw', 'pos']))
    if (spec['variant'] == 'log' or method == 'm_eff') and not spec.get('zero') and draw(st.integers(0, 3)) == 2:
        # the boundary of "no real value": an exactly vanishing timeslice among the defined ones
        spec['zero'] = [draw(st.sampled_from([t for t in range(spec['T']) if t not in spec['und']]))]
    if method == 'second_deriv' and spec['variant'] in ('symmetric', 'big_symmetric', 'log') and findings.is_open(FINDING_CENTRAL):
        # known finding: keep "central slice unusable between two usable ones" out of the search by making the
        # right neighbour undefined as well (never creates a new trigger, never removes the last defined slice)
        trig, ok, k = central_triggers(spec, spec['variant'])
        if trig:
            und = set(spec['und'])
            for t in range(k, spec['T'] - k):
                if ok[t - k] and ok[t + k] and not ok[t]:
                    ok[t + k] = False
                    und.add(t + k)
            spec['und'] = sorted(und)
            spec['excluded'] = FINDING_CENTRAL
    return spec


def closed_oracle(method):
    def oracle(spec):
        variant = spec['variant']
        off, f, g = FORMS[(method, variant)]
        corr, refs = build_corr(spec)
        exp = expect_closed(spec, refs, off, f, g, method, variant)
        how = spec.get('call', 'kw')
        what = '%s(%r)' % (method, variant)
        meth = getattr(corr, method)
        outcome = call_and_judge(lambda: meth(variant=variant) if how == 'kw' else meth(variant) if how == 'pos' else meth(), spec, exp, what)
        extra = ['variant:' + variant, 'outcome:' + outcome]
        if spec.get('excluded'):
            extra.append('excluded:' + spec['excluded'])
        nt, labs = labels(spec, exp, off, how, extra)
        return {'nt': nt, 'cls': labs}
    return oracle


# ---------------------------------------------------------------------------------------------
# m_eff, root variants

@st.composite
def root_case(draw, tier):
    variant = draw(st.sampled_from(ROOT_VARIANTS))
    own = 'sinh' if variant == 'sinh' else 'cosh'
    shapes = [own, own, own, own, 'exp', 'rand', 'blocks', 'cosh', 'sinh']
    spec = draw(corr_spec(tier, shapes=shapes, rel=st.sampled_from([1e-4, 1e-3, 1e-2]), zeros=False))
    spec['variant'] = variant
    spec['guess'] = draw(st.sampled_from([None, None, 1.0, 0.3, 0.5, 2.0]))
    return spec


def root_oracle(spec):
    variant = spec['variant']
    kind = 'sinh' if variant == 'sinh' else 'cosh'
    T = spec['T']
    corr, refs = build_corr(spec)
    guess = spec.get('guess')
    g0 = 1.0 if guess is None else guess
    exp = {}
    notes = set()
    for t in range(T):
        if t + 1 >= T:
            exp[t] = ('none', 'references a timeslice outside 0..T-1')
            continue
        miss = [i for i in (t, t + 1) if refs[i] is None]
        if miss:
            exp[t] = ('none', 'references undefined timeslice %d' % miss[0])
            continue
        a, b = refs[t], refs[t + 1]
        if b.value == 0:
            exp[t] = ('none', 'formula has no real value: division by an exactly vanishing timeslice')
            continue
        if kind == 'sinh' and T % 2 == 0 and t in (T // 2, T // 2 - 1):
            exp[t] = ('unjudged', 'sinh middle slices')
            continue
        d = a.value / b.value
        if d < 0:
            exp[t] = ('none', 'formula has no real value: ratio %r is negative' % d)
            continue
        if d == 0:
            exp[t] = ('unjudged', 'vanishing ratio')
            continue
        rr = root_ref(kind, d, t, T)
        if rr[0] != 'val':
            exp[t] = rr
            notes.add('unjudged:' + rr[1])
            continue
        m, dm = rr[1], rr[2]
        if not fsolve_converges(kind, d, t, T, g0, m):
            exp[t] = ('unjudged', 'fsolve does not converge from this guess')
            notes.add('unjudged:fsolve')
            continue
        grad = [dm / b.value, -dm * a.value / b.value ** 2]
        exp[t] = ('val', combine(lambda v, m=m: m, grad, [a, b]))
    if not any(e[0] == 'val' for e in exp.values()) and any(e[0] == 'unjudged' for e in exp.values()):
        raise Skip('no judgeable root slice')
    what = 'm_eff(%r%s)' % (variant, '' if guess is None else ', guess=%r' % guess)
    fn = (lambda: corr.m_eff(variant)) if guess is None else (lambda: corr.m_eff(variant, guess=guess))
    outcome = call_and_judge(fn, spec, exp, what, rtol=1e-6, vtol=1e-6, atol_scale=1e-8, check_rv=False)
    nt, labs = labels(spec, exp, (0, 1), 'guess' if guess is not None else 'default', ['variant:' + variant, 'outcome:' + outcome] + sorted(notes))
    return {'nt': nt, 'cls': labs}


# ---------------------------------------------------------------------------------------------
# plateau

@st.composite
def plateau_case(draw, tier):
    spec = draw(corr_spec(tier, shapes=['plateau', 'plateau', 'exp', 'rand', 'cosh'], rel=st.sampled_from([1e-3, 1e-2, 0.05, 0.3]), zeros=False, analysable=True))
    T = spec['T']
    mode = draw(st.integers(0, 7))
    if mode == 4:
        a = b = draw(st.integers(0, T - 1))
    elif mode == 5:
        a, b = 0, T - 1
    else:
        a, b = sorted(draw(st.lists(st.integers(0, T - 1), min_size=2, max_size=2, unique=True)))
    spec['range'] = [a, b]
    spec['method'] = draw(st.sampled_from(['fit', 'fit', 'fit', 'avg', 'average', 'mean']))
    spec['via'] = draw(st.sampled_from(['arg', 'arg', 'set_prange', 'ctor_prange', 'arg_over_prange']))
    # a stored plateau range that differs from the one passed explicitly: the argument decides (documented default rule)
    oa, ob = sorted(draw(st.lists(st.integers(0, T - 1), min_size=2, max_size=2, unique=True)))
    spec['other'] = [oa, ob] if [oa, ob] != [a, b] else [0, T - 1] if [a, b] != [0, T - 1] else [0, max(1, T - 2)]
    spec['gamma'] = draw(st.sampled_from(['before', 'before', 'auto']))
    spec['gm'] = draw(st.sampled_from([{}, {'S': 0.7}, {'S': 4.0}, {'S': 0}, {'S': 1.0}]))
    return spec


def plateau_oracle(spec):
    import pyerrors as pe
    T = spec['T']
    a, b = spec['range']
    method = spec['method']
    via = spec['via']
    if via == 'ctor_prange':
        corr, refs = build_corr(spec, prange=[a, b])
    else:
        corr, refs = build_corr(spec)
        if via == 'set_prange':
            corr.set_prange([a, b])
        elif via == 'arg_over_prange':
            corr.set_prange(list(spec['other']))
    idx = [t for t in range(a, b + 1) if refs[t] is not None]
    kw = {}
    if method == 'fit' or spec['gamma'] == 'auto':
        if spec['gamma'] == 'auto':
            kw['auto_gamma'] = True
        else:
            # the user's own analysis (not necessarily with default parameters) defines the weights of the fit
            corr.gamma_method(**spec.get('gm', {}))
    dv_before = {t: float(corr.content[t][0].dvalue) for t in idx} if (method == 'fit' and spec['gamma'] != 'auto') else None
    what = 'plateau(%s, method=%r)' % ([a, b] if via in ('arg', 'arg_over_prange') else 'prange=%r' % ([a, b],), method)
    buf = io.StringIO()
    rng_arg = [a, b]
    prange_before = None if getattr(corr, 'prange', None) is None else list(corr.prange)

    def call_plateau():
        with contextlib.redirect_stdout(buf):
            return corr.plateau(rng_arg, method=method, **kw) if via in ('arg', 'arg_over_prange') else corr.plateau(method=method, **kw)
    try:
        res = call_plateau()
        # the range belongs to the caller: the list handed over and the stored prange are the same afterwards, and a second
        # call with the same objects gives the same plateau
        require(rng_arg == [a, b], what + ' changed the range list it was given to %r' % (rng_arg,))
        require((None if getattr(corr, 'prange', None) is None else list(corr.prange)) == prange_before,
                what + ' changed the stored plateau range from %r to %r' % (prange_before, getattr(corr, 'prange', None)))
        if isinstance(res, pe.Obs):
            res_again = call_plateau()
            require(isinstance(res_again, pe.Obs) and abs(float(res_again.value) - float(res.value)) <= 1e-9 * max(abs(float(res.value)), 1e-300),
                    what + ': a second call with the same range object gives %r, the first gave %r'
                    % (float(getattr(res_again, 'value', float('nan'))), float(res.value)))
    except Violation:
        raise
    except Exception as e:
        if idx:
            raise Violation('%s raised %s: %s although timeslice(s) %r of the range are defined' % (what, type(e).__name__, e, idx[:6])) from e
        outcome = 'raised'
    else:
        outcome = 'returned'
        if not idx:
            ok = res is None or (isinstance(res, pe.Obs) and not np.isfinite(res.value)) or (isinstance(res, float) and not np.isfinite(res))
            require(ok, what + ' returned a value although every timeslice of the range is undefined', res)
        else:
            ops = [refs[t] for t in idx]
            n = len(ops)
            if method == 'fit':
                dv = [float(corr.content[t][0].dvalue) for t in idx]
                if dv_before is not None:
                    dv = [dv_before[t] for t in idx]      # the errors the correlator carried when plateau was called are the weights
                if not all(np.isfinite(x) and x > 0 for x in dv):
                    raise Skip('vanishing error of an input slice')
                w = [1.0 / x ** 2 for x in dv]
                sw = math.fsum(w)
                want = math.fsum(wi * o.value for wi, o in zip(w, ops)) / sw
                # accuracy of the minimiser (MINPACK lmdif with a forward-difference Jacobian, relative step 1.5e-8):
                # measured |got - want| <= 1.4e-8 * sigma_a * max(1, chi) over 350 cases; allowed 1e-6 (plus rounding)
                sig_a = 1.0 / math.sqrt(sw)
                chi = math.sqrt(math.fsum(wi * (o.value - want) ** 2 for wi, o in zip(w, ops)))
                require(isinstance(res, pe.Obs), what + ' did not return an Obs', type(res).__name__)
                require(abs(float(res.value) - want) <= 1e-6 * sig_a * max(1.0, chi) + 1e-11 * abs(want),
                        what + ': value differs from sum(w y)/sum(w), w=1/dy^2, over timeslices %r' % idx, float(res.value), want, sig_a, chi)
                rf = combine(lambda v: float(res.value), [wi / sw for wi in w], ops)
                cmp_obs(rf, res, what + ' vs sum(w y)/sum(w), w=1/dy^2, over timeslices %r' % idx, rtol=1e-8, atol_scale=1e-10, check_rv=False)
            else:
                rf = combine(lambda v: math.fsum(v) / n, [1.0 / n] * n, ops)
                cmp_obs(rf, res, what + ' vs arithmetic mean over timeslices %r' % idx)
    labs = {'method:' + method, 'via:' + via, 'outcome:' + outcome, 'shape:' + spec['shape'],
            'range:' + ('single' if a == b else 'full' if (a, b) == (0, T - 1) else 'inner'),
            'defined_in_range:' + ('0' if not idx else '1' if len(idx) == 1 else '2+')}
    if method == 'fit':
        labs.add('gamma:' + spec['gamma'])
    if spec.get('cov'):
        labs.add('with_cov')
    if len(spec['chains']) > 1:
        labs.add('multi_chain')
    nt = bool(idx) and any(a <= t <= b for t in spec['und'])
    if nt:
        labs.add('undefined_inside_range')
    return {'nt': nt, 'cls': sorted(labs)}


def _closed(method):
    return lambda tier: closed_case(tier, method)


SUBS = [
    Sub('deriv', _closed('deriv'), closed_oracle('deriv'), {'quick': 450, 'thorough': 4000}, {'quick': 3, 'thorough': 16},
        doc='deriv: symmetric, forward, backward, improved, log vs finite-difference formulas through RefObs.combine'),
    Sub('second_deriv', _closed('second_deriv'), closed_oracle('second_deriv'), {'quick': 450, 'thorough': 4000}, {'quick': 3, 'thorough': 16},
        doc='second_deriv: symmetric, big_symmetric, improved, log'),
    Sub('m_eff', _closed('m_eff'), closed_oracle('m_eff'), {'quick': 450, 'thorough': 4000}, {'quick': 3, 'thorough': 16},
        doc='m_eff: log, logsym, arccosh'),
    Sub('m_eff_root', root_case, root_oracle, {'quick': 350, 'thorough': 3000}, {'quick': 4, 'thorough': 16},
        doc='m_eff: cosh, periodic, sinh vs bracketing solve + implicit derivative', max_skip_frac=0.3),
    Sub('plateau', plateau_case, plateau_oracle, {'quick': 350, 'thorough': 3000}, {'quick': 3, 'thorough': 16},
        doc='plateau by fit (weighted mean) and by average over any inclusive range'),
]
