"""C08  Non-linear and total least-squares fits obey the implicit-function rule.

Sub-properties
  ls        least_squares on smooth non-linear families (1-4 parameters, one- and two-dimensional abscissae,
            combined dictionary fits with shared parameters - two or three keys, abscissae x[key] of shape (N_key,) or
            (2, N_key), any numbers of points per key -, the straight line of fit_lin): the returned values
            are a stationary point of the documented chi-square (uncorrelated / correlated with estimated or
            supplied inverse Cholesky factor / with priors), the reported chisquare and dof are those of that
            chi-square, and every fluctuation and covariance gradient of every parameter equals
            sum_i S_ki * (fluctuation of datum i), S = -H^-1 d(grad chi2)/d(data) at the returned values, with H
            and the mixed derivatives computed here by second-order jets (vlib/fit08.py) and the sum carried
            out by RefObs.combine (alignment by configuration number, C01).
  tls       the same for total_least_squares: chi-square including the x-residual term, minimised over the
            parameters and the true abscissae (returned as xplus); sensitivities with respect to x and y data;
            odr_chisquare and dof; fit_lin with observables as abscissae is exactly this fit.  One case in four is in
            the precision regime: relative errors of abscissae and ordinates both 1e-7 .. 1e-5, so that the x errors
            carry a sizeable part of the parameter variance although they are tiny relative to |x|.
  fd        finite-difference response: one datum (y_i, x_i or an observable prior) is shifted by +-c*sigma_i,
            the fit is repeated, and the symmetric difference quotient of every parameter equals the predicted
            first-order amount S_ki (least_squares with Levenberg-Marquardt and total_least_squares).
  tls_vs_ls total_least_squares with negligible x errors coincides with least_squares at the x values:
            central values, fluctuations and errors of all parameters.
"""
import math

import numpy as np
from hypothesis import strategies as st

from vlib import gen
from vlib import fit08 as F
from vlib.core import Sub, Violation, Skip, require
from vlib.refobs import RefObs, combine, cmp_obs

PROPERTY = 'C08'
LEVEL = 'exploration'
RULE = ('Hypothesis-generated fit problems: model family from {exp(-m x), A exp(-m x), A exp(-m x)+c, A cosh(m(x-c)), '
        'A cosh(m(x-c))+d, (a+bx)/(1+cx), a exp(-b x1)+c x2, a exp(-b x1)+c x2+d x1 x2^2, a+bx (fit_lin), combined '
        'dictionary fit with shared decay constant, combined dictionary fits of 2 or 3 different non-linear models with '
        'two-dimensional abscissae (x[key] of shape (2, N_key)) and 1..n-1 points per key}, true parameters in a '
        'well-conditioned box, abscissae on a jittered '
        'grid, data = model + noise of a few per mille + misfit of up to 3 sigma (total least squares, one case in four: '
        'noise of relative size 2e-7..1e-5 per configuration on abscissae and ordinates alike, labels precise / rel_dx / '
        'x_share), each datum an observable on its own '
        'ensemble or on ensembles shared with other data (1-2 replicas; full / window / strided / irregular subsets of '
        'a base grid; noise correlated between data through a common chain aligned by configuration number); '
        'options: uncorrelated / correlated chi-square (estimated or supplied), priors as observables or strings '
        '(list or dict), autograd / num_grad, Levenberg-Marquardt / migrad / Nelder-Mead / Powell, start near the '
        'truth or default. Non-trivial: at least 3 parameters, or total least squares, or correlated chi-square, or '
        'data sharing an ensemble (incl. priors); distinct = distinct spec hash. Fits that report non-convergence and '
        'solutions whose Jacobi-scaled Hessian has a condition number > 1e7 are counted as skipped.')
ASSUMPTIONS = [
    'the oracle differentiates its own implementation of the documented chi-square with second-order jets (exact '
    'product / chain rule, self-checked against central differences at import); the model formula is the input',
    'weights are the ones documented: 1/dvalue^2 of the data, pyerrors.covariance(correlation=True) for the estimated '
    'correlated chi-square (trusted, C06), L^T L for a supplied inverse Cholesky factor L',
    'stationarity is judged through the Newton step H^-1 grad of the reference chi-square relative to the formal '
    'parameter resolution sqrt(2 (H^-1)_kk); allowed: 1e-4 Levenberg-Marquardt (MINPACK forward-difference Jacobian, '
    'measured <= 1.2e-6), 1e-4 Nelder-Mead / Powell (tol 1e-12 on chi2, measured <= 1e-6), 5e-3 migrad (EDM rule, '
    'measured <= 1e-4), 10*sqrt(1.5e-8*chi2) ODR (sstol = sqrt(eps) on the sum of squares, measured <= 4e-5)',
    'the yardstick of the stationarity judgement (resolution, Newton step) exists only where the Hessian is positive definite, '
    'and only there the per-parameter criterion follows from the stopping rule of ODR ((step_k/res_k)^2 <= 1/2 g^T H^-1 g, the '
    'predicted decrease of chi2, by Cauchy-Schwarz): a total least-squares fit started far away or from the default start that '
    'stops with a legitimate "sum of squares convergence" next to a saddle point (A cosh(m(x-c)) at m = 0, chi2 ~ 1e4) has an '
    'indefinite Hessian and is counted as skipped',
    'fluctuations: both sides evaluate the same formula at the same point, so only the rounding of the linear solve '
    '(eps * cond(H), measured <= 40 eps cond) or the accuracy of numdifftools (measured <= 1.5e-11 * cond) enters: '
    'tolerance (1e-9 + 1e-13 cond(H)) of the largest term of the sum with autograd, (1e-7 + 1e-9 cond(H)) with num_grad',
    'data with relative noise of 1e-7: the fluctuations sample - mean are defined up to the rounding of the mean, so the '
    'tolerance of the fluctuations of a total least-squares fit has the floor 16 eps sum_j |S_kj| |datum_j| (measured <= 1 eps '
    'sum_j ...), and odr_chisquare is compared within 1e-8 chi2 + 2 sqrt(chi2) * 4 eps * |datum / error| (rounding of the '
    'residuals, measured <= 0.07 of that)',
    'finite-difference response: symmetric quotients with shifts c and c/2 sigma (c = 0.05-0.2) combined by one Richardson '
    'step (removes the third-order term of the response); tolerance (1e-3 + 10 t^2) of the largest whitened sensitivity of '
    'the parameter, t = measured relative third-order part (cases with t > 1e-2 are skipped as not in the linear regime), '
    'plus twice the measured distance (Newton step) of the re-fits from their exact stationary points divided by the shift',
    'total vs ordinary least squares with sample noise of x 1e-6 of that of y: values within 1e-6 of the parameter '
    'resolution plus twice the measured Newton steps of the two fits; fluctuations and errors within 1e-4 + cond(H) * '
    '(Newton steps / resolution) * (resolution / |p|) (change of the sensitivities between the two stopping points; '
    'cases where this exceeds 1e-2 are skipped)',
]

# combined (dictionary) fits whose members have a two-dimensional abscissa, x[key] of shape (2, N_key): the members are
# registered here next to the families of vlib/fit08.py (same form: formula over a namespace, box, abscissa ranges) and go
# through the same self-check of the jets against central differences
F.MODELS.update({
    # two keys, four parameters: shared decay constant p[0] and shared slope p[3] in the second abscissa, one amplitude each
    'cmb2_a': dict(npar=4, xdim=2, f=lambda p, x, m: p[1] * m.exp(-p[0] * x[0]) * (1.0 + p[3] * x[1]),
                   box=[(0.2, 1.0), (0.5, 3.0), (0.5, 3.0), (0.2, 0.8)], xr=[(0.0, 3.0), (-1.0, 1.0)]),
    'cmb2_b': dict(npar=4, xdim=2, f=lambda p, x, m: p[2] / (1.0 + p[0] * x[0] * x[0]) * (1.0 + p[3] * x[1]),
                   box=[(0.2, 1.0), (0.5, 3.0), (0.5, 3.0), (0.2, 0.8)], xr=[(0.0, 3.0), (-1.0, 1.0)]),
    # three keys, three parameters, all shared
    'cmb3_a': dict(npar=3, xdim=2, f=lambda p, x, m: p[0] * m.exp(-p[1] * x[0]) + p[2] * x[1],
                   box=[(0.5, 3.0), (0.3, 1.0), (0.3, 2.0)], xr=[(0.0, 3.0), (-1.0, 2.0)]),
    'cmb3_b': dict(npar=3, xdim=2, f=lambda p, x, m: p[0] * m.exp(-p[1] * x[0]) * (1.0 + p[2] * x[1] * x[1]),
                   box=[(0.5, 3.0), (0.3, 1.0), (0.3, 2.0)], xr=[(0.0, 3.0), (-1.0, 2.0)]),
    'cmb3_c': dict(npar=3, xdim=2, f=lambda p, x, m: (p[0] + p[2] * x[1]) / (1.0 + p[1] * x[0]),
                   box=[(0.5, 3.0), (0.3, 1.0), (0.3, 2.0)], xr=[(0.0, 3.0), (-1.0, 2.0)]),
})
F.COMBINED.update({'cmb2': {'a': 'cmb2_a', 'b': 'cmb2_b'}, 'cmb3': {'a': 'cmb3_a', 'b': 'cmb3_b', 'c': 'cmb3_c'}})
F._selfcheck()

LS_FAMILIES = ['exp1', 'exp', 'exp', 'expc', 'cosh', 'rational', 'coshc', 'twod', 'twod4', 'lin', 'cmb', 'cmb2', 'cmb3']
TLS_FAMILIES = ['exp1', 'exp', 'exp', 'expc', 'cosh', 'rational', 'coshc', 'twod', 'twod4', 'lin', 'lin']
COND_MAX = 1e7
fl = gen.fl
TRACE = None     # development aid: list collecting measured deviations (never set by the harness)


def trace(**kw):
    if TRACE is not None:
        TRACE.append(kw)


# ==============================================================================================
# generators (plain data only)

@st.composite
def noise_recipe(draw):
    kind = draw(st.sampled_from(['white', 'white', 'ar1']))
    r = {'kind': kind, 'seed': draw(st.integers(0, 2 ** 31 - 1))}
    if kind == 'ar1':
        r['rho'] = draw(st.sampled_from([0.3, 0.5, -0.3]))
    return r


@st.composite
def ens_base(draw, name, lmin, lmax, rep_max=2):
    """replicas of one ensemble with their base grids and common noise chains"""
    k = draw(st.sampled_from([1, 1, 1, 2])) if rep_max > 1 else 1
    if k == 1:
        names = [name if draw(st.booleans()) else name + '|r1']
    else:
        names = [name + '|' + s for s in draw(st.sampled_from([['r1', 'r2'], ['r03', 'r10'], ['r2', 'x']]))]
    gap = draw(st.sampled_from([1, 1, 2, 3]))
    return [{'name': nm, 'start': draw(st.integers(0, 2000)), 'gap': gap, 'len': draw(st.integers(lmin, lmax)),
             'recipe': draw(noise_recipe())} for nm in names]


@st.composite
def subset_rule(draw):
    """how a data point selects configurations from the base grid of its replicas (same rule on every replica so that
    the replicas keep a common spacing, the documented precondition of the Gamma method)"""
    mode = draw(st.sampled_from(['full', 'full', 'window', 'stride', 'mask']))
    return {'mode': mode, 'a': draw(fl(0.0, 0.4)), 'b': draw(fl(0.0, 0.4)), 'm': draw(st.integers(2, 3)),
            'off': draw(st.integers(0, 2)), 'seed': draw(st.integers(0, 10 ** 6))}


def apply_subset(rule, rep, nmin=12):
    pts = [rep['start'] + rep['gap'] * k for k in range(rep['len'])]
    L = len(pts)
    mode = rule['mode']
    if mode == 'window':
        a = int(rule['a'] * L)
        b = L - int(rule['b'] * L)
        if b - a >= nmin:
            return pts[a:b]
    if mode == 'stride':
        sub = pts[rule['off'] % rule['m']::rule['m']]
        if len(sub) >= nmin:
            return sub
    if mode == 'mask':
        # deterministic pseudo-random mask (pure function of the rule) that keeps one adjacent pair
        rs = np.random.RandomState(rule['seed'])
        keep = rs.rand(L) > 0.3
        j = int(rs.randint(0, L - 1))
        keep[j] = keep[j + 1] = True
        sub = [p for p, kp in zip(pts, keep) if kp]
        if len(sub) >= nmin:
            return sub
    return pts


@st.composite
def point_chains(draw, base, identical, sigma, wcs=(0.0, 0.3, 0.6, 0.9), rule=None):
    reps = list(base)
    if not identical and len(reps) > 1 and draw(st.integers(0, 4)) == 0:
        reps = [reps[draw(st.integers(0, len(reps) - 1))]]
    wc = draw(st.sampled_from(list(wcs)))
    if rule is None:
        rule = {'mode': 'full'} if identical else draw(subset_rule())
    chains = []
    for r in reps:
        chains.append({'name': r['name'], 'idl': apply_subset(rule, r), 'form': draw(gen.idl_form()), 'sigma': sigma,
                       'wc': wc, 'own': draw(noise_recipe()),
                       'common': {'start': r['start'], 'gap': r['gap'], 'len': r['len'], 'recipe': r['recipe']} if wc > 0 else None})
    return chains


@st.composite
def abscissae(draw, fam, n, ints=False):
    M = F.MODELS[fam]
    out = []
    for d, (lo, hi) in enumerate(M['xr']):
        if ints:
            out.append([float(v) for v in range(1, n + 1)])
            continue
        us = draw(st.lists(fl(0.1, 0.9), min_size=n, max_size=n))
        xs = [lo + (hi - lo) * (i + u) / n for i, u in enumerate(us)]
        if d > 0:
            perm = draw(st.permutations(list(range(n))))
            xs = [xs[i] for i in perm]
        out.append(xs)
    return out


@st.composite
def fit_case(draw, tier, kind, fd=False, negligible_x=False):
    """kind: 'ls' | 'tls'"""
    lmax = 70 if tier == 'quick' else 250
    fams = LS_FAMILIES if kind == 'ls' else TLS_FAMILIES
    if negligible_x:
        fams = [f for f in TLS_FAMILIES if f != 'twod4']
    fam = draw(st.sampled_from(fams))
    members = F.COMBINED.get(fam)
    M = F.MODELS[members['a'] if members else fam]
    npar = M['npar']
    ptrue = [draw(fl(lo, hi)) for lo, hi in M['box']]
    num_grad = (not fd) and (not negligible_x) and draw(st.integers(0, 4)) == 0
    corr = None
    if kind == 'ls' and not negligible_x:
        corr = draw(st.sampled_from([None, None, None, 'est', 'supplied']))
    nmax = 6 if num_grad else (7 if kind == 'tls' else 9)
    nlo = npar + 1 + (1 if (members or npar >= 4) else 0)
    n = draw(st.integers(nlo, max(nlo, nmax)))
    if members:
        # numbers of points per key: any composition of n (the one-dimensional pair keeps at least two points per key, the
        # members with a two-dimensional abscissa at least one)
        keys = sorted(members)
        kmin = 2 if fam == 'cmb' else 1
        sizes, rest = [], n
        for j in range(len(keys) - 1):
            sz = draw(st.integers(kmin, rest - kmin * (len(keys) - 1 - j)))
            sizes.append(sz)
            rest -= sz
        sizes.append(rest)
        groups = [k for k, sz in zip(keys, sizes) for _ in range(sz)]
    else:
        groups = [''] * n
    x_int = kind == 'ls' and fam == 'lin' and draw(st.booleans())
    if members:
        parts = [draw(abscissae(members[k], sz)) for k, sz in zip(keys, sizes)]
        xs = [[v for pt in parts for v in pt[d]] for d in range(M['xdim'])]
    else:
        xs = draw(abscissae(fam, n, ints=x_int))

    def fval(i):
        f = members[groups[i]] if members else fam
        return F.model_float(f, ptrue, [xs[d][i] for d in range(len(xs))])
    fv = [fval(i) for i in range(n)]
    fscale = max(abs(v) for v in fv)

    # ---- layout of the y data
    mode = draw(st.sampled_from(['indep', 'shared', 'mixed']))
    identical = corr == 'est' or negligible_x or draw(st.integers(0, 2)) == 0
    lmin = max(24, 10 * n) if corr == 'est' else 24
    lmx = max(lmax, lmin + 10)
    if mode == 'indep':
        bases = [draw(ens_base('Y%d' % i, lmin, lmx)) for i in range(n)]
        assign = list(range(n))
    else:
        k = 1 if mode == 'shared' else draw(st.integers(2, 3))
        names = draw(st.lists(st.sampled_from(gen.ENSEMBLES), min_size=k, max_size=k, unique=True))
        bases = [draw(ens_base(nm, lmin, lmx)) for nm in names]
        assign = [draw(st.integers(0, k - 1)) for _ in range(n)]
    # ---- precision regime (total least squares): relative errors of abscissae and ordinates both tiny and of the same order,
    # so that the x errors carry a sizeable part of the parameter variance although dx/|x| is 1e-7 .. 1e-5
    precise = None
    if kind == 'tls' and not fd and not negligible_x and draw(st.integers(0, 3)) == 0:
        # u: relative noise per configuration (the errors of the means are smaller by the square root of the chain length);
        # yx: size of the relative y errors in units of the relative x errors
        precise = {'u': draw(st.sampled_from([2e-7, 5e-7, 1e-6, 3e-6, 1e-5])), 'yx': draw(st.sampled_from([0.3, 1.0, 1.0, 3.0]))}
    ypts = []
    # estimated correlation matrix: now and then the data points live on windows of equal length but different position
    # (equally many, not the same configurations)
    shifted = corr == 'est' and all(len(b) == 1 for b in bases) and draw(st.integers(0, 2)) == 0
    for i in range(n):
        rel = draw(fl(0.005, 0.05)) if precise is None else precise['u'] * precise['yx'] * draw(fl(0.5, 2.0))
        sigma = rel * max(abs(fv[i]), 0.2 * fscale)
        rule_i = None
        if shifted:
            L_ = bases[assign[i]][0]['len']
            cut = max(1, L_ // 5)
            k_ = draw(st.integers(0, cut))
            rule_i = {'mode': 'window', 'a': (k_ + 0.5) / L_, 'b': (cut - k_ + 0.5) / L_, 'm': 2, 'off': 0, 'seed': 0}
        ch = draw(point_chains(bases[assign[i]], identical and not shifted, sigma, rule=rule_i))
        N = sum(len(c['idl']) for c in ch)
        off = draw(fl(-3.0, 3.0))
        ypts.append({'mean': fv[i] + off * sigma / math.sqrt(N), 'chains': ch})
    spec = {'kind': kind, 'family': fam, 'ptrue': ptrue, 'x': xs, 'groups': groups, 'y': ypts, 'layout': mode}
    if precise is not None:
        spec['precise'] = precise

    # ---- abscissae as observables
    if kind == 'tls':
        xpts = []
        for d in range(len(xs)):
            lo, hi = M['xr'][d]
            row = []
            for i in range(n):
                if negligible_x:
                    sx = 1e-6 * ypts[i]['chains'][0]['sigma']
                elif precise is not None:
                    sx = precise['u'] * draw(fl(0.5, 2.0)) * max(abs(xs[d][i]), 1e-3 * (hi - lo))
                else:
                    sx = draw(fl(0.005, 0.06)) * (hi - lo) / n * 2.0
                how = draw(st.sampled_from(['own', 'own', 'with_y']))
                if how == 'own':
                    ch = draw(point_chains(draw(ens_base('X%d_%d' % (d, i), 24, lmx, rep_max=1)), True, sx, wcs=(0.0,)))
                else:
                    # on the chains of y_i: same replicas and configurations, own noise + share of the common chain
                    wc = draw(st.sampled_from([0.0, 0.5]))
                    ch = [{'name': c['name'], 'idl': list(c['idl']), 'form': c['form'], 'sigma': sx, 'wc': wc if c['common'] else 0.0,
                           'own': draw(noise_recipe()), 'common': c['common'] if wc > 0 else None} for c in ypts[i]['chains']]
                row.append({'mean': xs[d][i], 'chains': ch})
            xpts.append(row)
        spec['xobs'] = xpts

    # ---- priors (least_squares only)
    pri = None
    if kind == 'ls' and not negligible_x and draw(st.integers(0, 2)) == 0:
        form = draw(st.sampled_from(['list', 'dict', 'dict']))
        if form == 'list':
            pos = list(range(npar))
        else:
            pos = sorted(draw(st.lists(st.integers(0, npar - 1), min_size=1, max_size=npar, unique=True)))
            if draw(st.booleans()):
                pos = pos[::-1]
        items = []
        for k in pos:
            relerr = draw(fl(0.003, 0.1))
            off = draw(fl(-2.0, 2.0))
            pk = draw(st.sampled_from(['obs_own', 'obs_shared', 'str', 'str_dec']))
            val = ptrue[k] * (1.0 + off * relerr)
            if pk.startswith('str'):
                D = 3
                mant = max(1, int(round(val * 10 ** D)))
                e_int = max(1, int(round(relerr * val * 10 ** D)))
                if pk == 'str':
                    s = '%.3f(%d)' % (mant / 10 ** D, e_int)
                else:
                    s = '%.3f(%.3f)' % (mant / 10 ** D, e_int / 10 ** D)
                items.append({'pos': k, 'kind': 'str', 's': s, 'val': float('%.3f' % (mant / 10 ** D)), 'err': e_int / 10 ** D})
            else:
                if pk == 'obs_shared':
                    src = ypts[draw(st.integers(0, n - 1))]['chains']
                    wc = draw(st.sampled_from([0.0, 0.5]))
                    ch = [{'name': c['name'], 'idl': list(c['idl']), 'form': c['form'], 'sigma': 1.0, 'wc': wc if c['common'] else 0.0,
                           'own': draw(noise_recipe()), 'common': c['common'] if wc > 0 else None} for c in src]
                else:
                    ch = draw(point_chains(draw(ens_base('P%d' % k, 24, lmx)), True, 1.0, wcs=(0.0,)))
                N = sum(len(c['idl']) for c in ch)
                for c in ch:
                    c['sigma'] = relerr * abs(val) * math.sqrt(N)
                items.append({'pos': k, 'kind': 'obs', 'point': {'mean': val, 'chains': ch}})
        pri = {'form': form, 'items': items}
    spec['priors'] = pri

    # ---- options
    opts = {'corr': corr, 'num_grad': num_grad}
    if corr == 'supplied':
        opts['B'] = [[draw(fl(-1.0, 1.0)) for _ in range(n)] for _ in range(n)]
    if corr == 'est' and kind == 'ls' and n >= 5 and draw(st.integers(0, 2)) == 0:
        # keyword arguments of least_squares are forwarded to pyerrors.obs.covariance, to which the docstring of
        # correlated_fit refers for the estimate: eigenvalue smoothing of the correlation matrix
        opts['smooth'] = draw(st.integers(3, n - 2))
    if kind == 'ls' and not fd and not negligible_x:
        opts['method'] = draw(st.sampled_from(['LM', 'LM', 'LM', 'LM', 'migrad', 'Nelder-Mead', 'Powell']))
    else:
        opts['method'] = 'LM'
    easy = fam in ('exp1', 'exp', 'lin')
    opts['guess'] = 'default' if (easy and not fd and draw(st.integers(0, 2)) == 0) else 'near'
    opts['guess_fac'] = [draw(fl(0.93, 1.07)) for _ in range(npar)]
    if kind == 'tls' and not fd and not negligible_x and precise is None and fam != 'rational' and draw(st.integers(0, 6)) == 0:
        # (not the rational family: a far start puts its pole into the data range - outside the 'well-conditioned regions' of the statement)
        # a start far from the solution: the fit may legitimately give up (not judged), but whatever it returns as a
        # result has to be a stationary point of the documented chi-square
        opts['guess'] = 'far'
        opts['guess_fac'] = [draw(st.sampled_from([8.0, 0.1, -1.0, 30.0, 0.0])) for _ in range(npar)]
    opts['x_form'] = draw(st.sampled_from(['list', 'array']))
    if kind == 'ls' and not fd and not negligible_x and opts['method'] == 'LM' and corr != 'supplied' and draw(st.integers(0, 3)) == 0:
        # the same fit in other units of the ordinate (y -> s y, f -> s f): the parameters are the same observables
        opts['units'] = draw(st.sampled_from([9, -9, 6, -6, 12, 3]))
    if members:
        opts['dict_rev'] = draw(st.booleans())
    spec['opts'] = opts

    if fd:
        targets = [['y', i] for i in range(n)]
        if kind == 'tls':
            targets += [['x', d, i] for d in range(len(xs)) for i in range(n)]
        if pri:
            targets += [['prior', j] for j, it in enumerate(pri['items']) if it['kind'] == 'obs']
        spec['fd'] = {'target': draw(st.sampled_from(targets)), 'c': draw(st.sampled_from([0.05, 0.1, 0.2]))}
    return spec


# ==============================================================================================
# building and running

class Case:
    pass


def build(spec, shift=None):
    """shift = (target, eps): target as in spec['fd']['target'], eps absolute"""
    c = Case()
    c.spec = spec
    c.kind = spec['kind']
    c.fam = spec['family']
    c.members = F.COMBINED.get(c.fam)
    c.groups = spec['groups']
    c.fam_of = [c.members[g] if c.members else c.fam for g in c.groups]
    c.npar = F.MODELS[c.fam_of[0]]['npar']
    c.n = len(spec['y'])
    c.xs = [list(r) for r in spec['x']]

    def sh(t):
        return shift[1] if (shift is not None and list(shift[0]) == list(t)) else 0.0
    c.y, c.yref = [], []
    for i, pt in enumerate(spec['y']):
        o, r = F.build_point(pt, sh(['y', i]))
        c.y.append(o)
        c.yref.append(r)
    c.xo, c.xref = None, None
    if c.kind == 'tls':
        c.xo, c.xref = [], []
        for d, row in enumerate(spec['xobs']):
            oo, rr = [], []
            for i, pt in enumerate(row):
                o, r = F.build_point(pt, sh(['x', d, i]))
                oo.append(o)
                rr.append(r)
            c.xo.append(oo)
            c.xref.append(rr)
    c.pri_pos, c.pri_obs, c.pri_ref, c.pri_arg = [], [], [], None
    pri = spec.get('priors')
    if pri:
        args = []
        for j, it in enumerate(pri['items']):
            c.pri_pos.append(it['pos'])
            if it['kind'] == 'obs':
                o, r = F.build_point(it['point'], sh(['prior', j]))
                c.pri_obs.append(o)
                c.pri_ref.append(r)
                args.append(o)
            else:
                c.pri_obs.append(None)
                c.pri_ref.append(None)
                args.append(it['s'])
        c.pri_arg = args if pri['form'] == 'list' else {it['pos']: a for it, a in zip(pri['items'], args)}
    return c


def guess(c):
    o = c.spec['opts']
    if o['guess'] == 'near':
        return [p * f for p, f in zip(c.spec['ptrue'], o['guess_fac'])]
    if o['guess'] == 'far':
        return [p * f + (1.0 if f == 0.0 else 0.0) for p, f in zip(c.spec['ptrue'], o['guess_fac'])]
    return None


def weight_matrix(c):
    """W of the documented chi-square r^T W r and the keyword arguments that request it"""
    import pyerrors as pe
    o = c.spec['opts']
    dy = np.array([v.dvalue for v in c.y])
    if o['corr'] is None:
        return np.diag(1.0 / dy ** 2), {}
    if o['corr'] == 'est':
        kw = {'correlated_fit': True}
        if o.get('smooth') is not None:
            kw['smooth'] = int(o['smooth'])
            corr = pe.covariance(list(c.y), correlation=True, smooth=int(o['smooth']))
        else:
            corr = pe.covariance(list(c.y), correlation=True)
        if np.linalg.cond(corr) > 1e6:
            raise Skip('estimated correlation matrix ill-conditioned')
        if float(np.min(np.linalg.eigvalsh(0.5 * (corr + corr.T)))) < 1e-6:
            # data on different configuration sets: the matrix of pairwise correlations need not be positive definite (C06)
            raise Skip('estimated correlation matrix not positive definite')
        C = np.diag(dy) @ corr @ np.diag(dy)
        return np.linalg.inv(C), kw
    B = np.array(o['B'])
    R = B @ B.T + 0.5 * c.n * np.eye(c.n)
    d = np.sqrt(np.diag(R))
    R = R / np.outer(d, d)
    # inverse Cholesky factor of the covariance matrix D R D, lower triangular with positive diagonal
    L = np.linalg.inv(np.linalg.cholesky(R)) @ np.diag(1.0 / dy)
    L = np.tril(L)
    key_ls = sorted(set(c.groups))
    return L.T @ L, {'correlated_fit': True, 'inv_chol_cov_matrix': [L, key_ls]}


def x_argument(c, idx=None):
    """x as numbers for least_squares (points idx)"""
    idx = list(range(c.n)) if idx is None else idx
    rows = [[c.xs[d][i] for i in idx] for d in range(len(c.xs))]
    if c.fam == 'lin' and all(float(v).is_integer() for v in rows[0]) and c.spec['opts']['x_form'] == 'list':
        rows = [[int(v) for v in rows[0]]]
    data = rows[0] if len(rows) == 1 else rows
    return np.array(data) if c.spec['opts']['x_form'] == 'array' else data


def fit_exceptions(c, call):
    """run a fit; non-convergence is not judged"""
    try:
        return call()
    except Violation:
        raise
    except Exception as e:
        msg = str(e)
        if 'did not converge' in msg:
            raise Skip('minimiser reported non-convergence')
        if c.spec['opts']['guess'] in ('default', 'far'):
            raise Skip('fit from the %s start failed' % c.spec['opts']['guess'])
        raise


def run_ls(c, W_kw=None):
    import pyerrors as pe
    o = c.spec['opts']
    kw = dict(W_kw or {})
    g = guess(c)
    if g is not None:
        kw['initial_guess'] = g
    if o['method'] != 'LM':
        kw['method'] = o['method']
    if o['num_grad']:
        kw['num_grad'] = True
    if c.members:
        keys = sorted(c.members)
        order = keys[::-1] if o.get('dict_rev') else keys
        xd, yd, fd_ = {}, {}, {}
        for k in order:
            idx = [i for i in range(c.n) if c.groups[i] == k]
            xd[k] = x_argument(c, idx)
            yd[k] = [c.y[i] for i in idx]
            fd_[k] = F.pe_func(c.members[k])
        return fit_exceptions(c, lambda: pe.least_squares(xd, yd, fd_, priors=c.pri_arg, silent=True, **kw))
    func = F.pe_func(c.fam)
    return fit_exceptions(c, lambda: pe.least_squares(x_argument(c), c.y, func, priors=c.pri_arg, silent=True, **kw))


def x_obs_argument(c):
    return c.xo[0] if len(c.xo) == 1 else (c.xo[0], c.xo[1])


def run_tls(c):
    import pyerrors as pe
    kw = {}
    g = guess(c)
    if g is not None:
        kw['initial_guess'] = g
    if c.spec['opts']['num_grad']:
        kw['num_grad'] = True
    func = F.pe_func(c.fam)
    return fit_exceptions(c, lambda: pe.total_least_squares(x_obs_argument(c), c.y, func, silent=True, **kw))


# ==============================================================================================
# the reference side

def prior_data(c, res):
    """values, errors, reference observables of the priors (a string prior is a covariance input whose name
    the library chooses; it is read from the result)"""
    vals, errs, refs = [], [], []
    pri = c.spec.get('priors')
    if not pri:
        return vals, errs, refs
    for j, it in enumerate(pri['items']):
        if it['kind'] == 'obs':
            vals.append(c.pri_obs[j].value)
            errs.append(c.pri_obs[j].dvalue)
            refs.append(c.pri_ref[j])
        else:
            po = res.priors[j] if pri['form'] == 'list' else res.priors[it['pos']]
            nm = [n for n in po.names]
            require(len(nm) == 1 and nm[0] in po.covobs, 'string prior is not a single covariance input', nm)
            require(abs(po.value - it['val']) <= 1e-12 * abs(it['val']) and abs(po.dvalue - it['err']) <= 1e-9 * it['err'],
                    'string prior %r parsed as %r +- %r, documented meaning %r +- %r' % (it['s'], po.value, po.dvalue, it['val'], it['err']))
            vals.append(it['val'])
            errs.append(it['err'])
            refs.append(RefObs.from_cov({'name': nm[0], 'cov': [[it['err'] ** 2]], 'means': [it['val']], 'grad': [1.0]}))
    return vals, errs, refs


def ls_reference(c, pvals, W, pri_vals, pri_errs):
    """jets over w = (p, y, priors) -> chi2, grad, H, S, newton"""
    yv = [o.value for o in c.y]
    w = F.jets(list(pvals) + yv + list(pri_vals))
    z = w[:c.npar]
    yj = w[c.npar:c.npar + c.n]
    pj = w[c.npar + c.n:]
    xs = [[c.xs[d][i] for d in range(len(c.xs))] for i in range(c.n)]
    chi = F.chisq_ls(None, z, xs, yj, W, c.pri_pos, pj, pri_errs, c.fam_of)
    return (chi,) + F.ift(chi, c.npar)


def tls_reference(c, pvals, xplus):
    """jets over w = (p, xi, x, y); xi and x flattened dimension-major like numpy ravel of shape (dim, n)"""
    nd = len(c.xo)
    m = nd * c.n
    xv = [o.value for row in c.xo for o in row]
    dx = [[o.dvalue for o in row] for row in c.xo]
    yv = [o.value for o in c.y]
    dy = [o.dvalue for o in c.y]
    xi = np.asarray(xplus, dtype=float).reshape(nd, c.n)
    w = F.jets(list(pvals) + list(xi.ravel()) + xv + yv)
    p = w[:c.npar]
    xij = [w[c.npar + d * c.n: c.npar + (d + 1) * c.n] for d in range(nd)]
    xj = [w[c.npar + m + d * c.n: c.npar + m + (d + 1) * c.n] for d in range(nd)]
    yj = w[c.npar + 2 * m:]
    chi = F.chisq_tls(c.fam, p, xij, xj, yj, dx, dy)
    return (chi,) + F.ift(chi, c.npar + m)


STAT_TOL = {'LM': 1e-4, 'migrad': 5e-3, 'Nelder-Mead': 1e-4, 'Powell': 1e-4}


def stat_tol(method, chi2):
    """allowed Newton step in units of the parameter resolution, from the stopping rules of the minimisers:
    LM (MINPACK lmdif, run until no progress): forward-difference Jacobian with relative step 1.5e-8, so the point
       found is stationary for J+E, |E|/|J| ~ 1e-8 * curvature; step ~ 1e-8 * O(10) * |residual| <= 1e-6, margin 100;
    Nelder-Mead / Powell with tol=1e-12 on chi2: (step/res)^2 ~ 1e-12, margin 100;
    migrad: EDM < 0.002 * tol(1e-4) => (step/res)^2 <~ 2e-7, margin 10;
    ODR: relative change of the sum of squares < sstol = sqrt(eps) = 1.5e-8 => (step/res)^2 <~ 1.5e-8 * chi2, margin 10."""
    if method == 'ODR':
        return 10.0 * math.sqrt(1.5e-8 * max(chi2, 1.0))
    return STAT_TOL[method]


def judge_stationarity(what, method, g, H, newton, cond, npar, chi2, far=False):
    if newton is None or cond > COND_MAX:
        raise Skip('solution with ill-conditioned Hessian')
    if far:
        # (starts not known to lie in the basin of the minimum: 'far' and the default start)
        # a fit started far from the solution may stop in the flat neighbourhood of a saddle point (e.g. A cosh(m(x-c)) at
        # m = 0 with the wrong sign of A): the Hessian is indefinite there, sqrt(2 |H^-1_kk|) is not a resolution and the
        # Newton step is not a distance to a minimum - the yardstick of this judgement does not exist
        D = 1.0 / np.sqrt(np.diag(H))
        if float(np.min(np.linalg.eigvalsh(H * np.outer(D, D)))) <= 0.0:
            raise Skip('start outside the basin: stopped where the Hessian is indefinite')
    res = F.resolution(H)
    ratio = np.abs(newton) / res
    tol = stat_tol(method, chi2)
    k = int(np.argmax(ratio[:npar]))
    require(ratio[k] <= tol,
            '%s: returned values are not a stationary point of the documented chi-square: Newton step of parameter %d is '
            '%.3g of its resolution %.3g (allowed %.1g for %s); gradient %r' % (what, k, ratio[k], res[k], tol, method, g[:npar].tolist()))
    # the internal abscissae of a total least-squares fit
    if len(ratio) > npar:
        j = int(np.argmax(ratio[npar:])) + npar
        require(ratio[j] <= tol,
                '%s: returned xplus is not stationary: Newton step of entry %d is %.3g of its resolution' % (what, j - npar, ratio[j]))
    trace(stat=float(np.max(ratio)), method=method, cond=cond)


def judge_fluctuations(what, params, pvals, S, H, operands, sig, cond, num_grad, absval=None):
    """fluctuations of parameter k = sum_j S_kj * fluctuations of datum j (RefObs.combine).  The tolerance is relative
    to the largest term of the sum: a datum to which a parameter is (nearly) insensitive contributes rounding noise.
    absval: magnitudes of the data.  The fluctuations of a datum are differences sample - mean of numbers of that
    magnitude, so they are only defined up to a few units of rounding of the datum itself (the mean is summed in a
    different order here and in the library); this matters for data with relative noise of 1e-7 per configuration."""
    condu = max(cond, float(np.linalg.cond(H)))     # the library solves the unscaled system
    if condu > 1e9:
        raise Skip('solution with ill-conditioned Hessian')
    tol0 = (1e-7 + 1e-9 * condu) if num_grad else (1e-9 + 1e-13 * condu)
    for k, o in enumerate(params):
        pk = float(pvals[k])
        ref = combine(lambda v, pk=pk: pk, list(S[k]), operands, value=pk)
        big = max(list(ref.mag.values()) + [0.0])
        tol = tol0
        if absval is not None and big > 0.0:
            tol = tol0 + 16.0 * np.finfo(float).eps * float(np.sum(np.abs(S[k]) * np.asarray(absval))) / big
        white = float(np.max(np.abs(S[k] * sig)))
        if TRACE is not None:
            for n in ref.d:
                if n in o.deltas and len(o.deltas[n]) == len(ref.d[n]):
                    a = np.array([ref.d[n][cf] for cf in sorted(ref.d[n])])
                    trace(fluct=float(np.max(np.abs(a - o.deltas[n])) / big), num_grad=num_grad, cond=cond,
                          fluct_tol=float(np.max(np.abs(a - o.deltas[n])) / big / tol), fluct_tol0=float(np.max(np.abs(a - o.deltas[n])) / big / tol0),
                          fluct_floor=float(np.max(np.abs(a - o.deltas[n])) / big / max(tol - tol0, 1e-300) * 16.0))
        ref.mag = {n: big for n in ref.mag}
        # gradient with respect to a covariance input (string prior) of error e: same whitened scale
        ref.cgmag = {n: white / math.sqrt(float(cv[0][0, 0])) for n, cv in ref.cg.items()}
        cmp_obs(ref, o, '%s parameter %d' % (what, k), rtol=0.0, vtol=1e-12, check_rv=False, atol_scale=tol)


def same_obs(what, a, b):
    """two results of the same computation"""
    cmp_obs(RefObs.from_pe(a), b, what, rtol=1e-10, vtol=1e-12, check_rv=False, atol_scale=1e-12)


def labels(c):
    o = c.spec['opts']
    labs = {'family:' + c.fam, 'npar:%d' % c.npar, 'layout:' + c.spec['layout'], 'corr:%s' % o['corr'] + (':smooth' if o.get('smooth') else ''),
            'method:' + (o['method'] if c.kind == 'ls' else 'ODR'), 'guess:' + o['guess'],
            'num_grad' if o['num_grad'] else 'autograd', 'xdim:%d' % len(c.xs)}
    if c.members:
        sizes = [c.groups.count(k) for k in sorted(c.members)]
        labs.add('combined:%d keys, xdim %d' % (len(sizes), len(c.xs)))
        labs.add('combined:key_sizes_' + ('equal' if len(set(sizes)) == 1 else 'differ'))
        if len(c.xs) > 1 and any(sz != len(c.xs) for sz in sizes[:-1]):
            labs.add('combined:points_per_key!=xdim')
    pts = list(c.spec['y'])
    if c.kind == 'tls':
        pts += [p for row in c.spec['xobs'] for p in row]
    pri = c.spec.get('priors')
    if pri:
        labs.add('priors:' + pri['form'])
        for it in pri['items']:
            labs.add('prior:' + it['kind'])
            if it['kind'] == 'obs':
                pts.append(it['point'])
    else:
        labs.add('priors:none')
    pl = F.point_labels(pts)
    labs |= pl
    nt = c.npar >= 3 or c.kind == 'tls' or o['corr'] is not None or 'shared_ensemble' in pl
    return nt, sorted(labs)


# ==============================================================================================
# oracles

class Judged:
    """what the judgement of one fit leaves for the sub-properties that compare several fits"""


def judge_ls(c, res, W):
    pvals = [float(o.value) for o in res.fit_parameters]
    require(len(pvals) == c.npar, 'number of fit parameters', len(pvals), c.npar)
    pv, pe_, pr = prior_data(c, res)
    chi, g, H, S, newton, cond = ls_reference(c, pvals, W, pv, pe_)
    method = c.spec['opts']['method']
    judge_stationarity('least_squares', method, g, H, newton, cond, c.npar, chi.v)
    require(abs(res.chisquare - chi.v) <= 1e-8 * abs(chi.v) + 1e-10,
            'reported chisquare %r is not the documented chi-square at the returned values, %r' % (res.chisquare, chi.v))
    dof = c.n - c.npar + len(c.pri_pos)
    require(res.dof == dof, 'dof is %r, data points - parameters + priors = %d' % (res.dof, dof))
    sig = np.array([o.dvalue for o in c.y] + list(pe_))
    judge_fluctuations('least_squares', res.fit_parameters, pvals, S, H, c.yref + pr, sig, cond, c.spec['opts']['num_grad'])
    j = Judged()
    j.pvals, j.S, j.H, j.newton = np.array(pvals), S, H, newton
    j.sig = sig
    return j


def ls_oracle(spec):
    import pyerrors as pe
    c = build(spec)
    W, kw = weight_matrix(c)
    res = run_ls(c, kw)
    judge_ls(c, res, W)
    nt, labs = labels(c)
    if c.fam == 'lin' and not any(it['kind'] == 'str' for it in (spec['priors'] or {'items': []})['items']):
        # fit_lin with numbers as abscissae is this fit (keyword arguments are passed on; string priors are left out
        # because the library gives them a random name per call)
        kw2 = dict(kw)
        if c.pri_arg is not None:
            kw2['priors'] = c.pri_arg
        if guess(c) is not None:
            kw2['initial_guess'] = guess(c)
        if spec['opts']['method'] != 'LM':
            kw2['method'] = spec['opts']['method']
        if spec['opts']['num_grad']:
            kw2['num_grad'] = True
        pl = fit_exceptions(c, lambda: pe.fits.fit_lin(x_argument(c), c.y, silent=True, **kw2))
        require(len(pl) == 2, 'fit_lin must return two observables', len(pl))
        for k in range(2):
            same_obs('fit_lin(numbers) vs least_squares, parameter %d' % k, res.fit_parameters[k], pl[k])
        labs.append('fit_lin')
    if spec['opts']['corr'] == 'supplied' and c.members and len(set(c.groups)) > 1:
        # the key list handed over with the factor states the order of its rows (documented: the keys of the y dict in
        # alphabetical order); a factor labelled in another order must not be applied to the alphabetically ordered residuals
        Lk = kw['inv_chol_cov_matrix']
        bad = dict(kw, inv_chol_cov_matrix=[Lk[0], list(reversed(Lk[1]))])
        try:
            run_ls(c, bad)
        except Violation:
            raise
        except Exception:
            labs.append('mislabelled_factor:rejected')
        else:
            raise Violation('a supplied inverse Cholesky factor whose key list %r is not the alphabetical order of the fit keys was accepted'
                            % (list(reversed(Lk[1])),))
    u = spec['opts'].get('units')
    # (not with num_grad: the step selection of the numerical Hessian is not scale covariant, deviations of 1e-5..1e-4 were seen)
    if u and not spec['opts']['num_grad'] and not c.members and not any(it['kind'] == 'str' for it in (spec['priors'] or {'items': []})['items']):
        # metamorphic relation: ordinate and model in units of 10^-u.  dp/dy scales with 1/s, the fluctuations of y with s.
        s_ = 10.0 ** u
        c2 = build(spec)
        c2.y = [s_ * oo for oo in c2.y]
        for oo in c2.y:
            oo.gamma_method()
        f1 = F.pe_func(c.fam)
        if F.MODELS[c.fam]['xdim'] == 1:
            f2 = lambda a, x: s_ * f1(a, x)  # noqa: E731
        else:
            f2 = lambda a, x: s_ * f1(a, x)  # noqa: E731
        kw3 = dict(kw)
        if guess(c) is not None:
            kw3['initial_guess'] = guess(c)
        if spec['opts']['num_grad']:
            kw3['num_grad'] = True
        res2 = fit_exceptions(c2, lambda: pe.least_squares(x_argument(c2), c2.y, f2, priors=c2.pri_arg, silent=True, **kw3))
        for k in range(c.npar):
            p1, p2 = res.fit_parameters[k], res2.fit_parameters[k]
            p1.gamma_method()
            rf = RefObs.from_pe(p1)
            rf.vmag = max(rf.vmag, float(p1.dvalue) * 10.0)
            cmp_obs(rf, p2, 'parameter %d of the same fit with ordinate and model in units of 1e%d' % (k, -u), rtol=1e-3, vtol=1e-5,
                    check_rv=False, atol_scale=1e-4)      # (two minimisations of an ill-conditioned problem stop at slightly different points)
        labs.append('units:1e%d' % u)
    return {'nt': nt, 'cls': labs}


def judge_tls(c, res, fluct=True):
    pvals = [float(o.value) for o in res.fit_parameters]
    require(len(pvals) == c.npar, 'number of fit parameters', len(pvals), c.npar)
    nd = len(c.xo)
    xplus = np.asarray(res.xplus, dtype=float)
    require(xplus.shape == ((c.n,) if nd == 1 else (nd, c.n)), 'shape of xplus', xplus.shape)
    chi, g, H, S, newton, cond = tls_reference(c, pvals, xplus)
    judge_stationarity('total_least_squares', 'ODR', g, H, newton, cond, c.npar, chi.v, far=c.spec['opts']['guess'] != 'near')
    ops = [r for row in c.xref for r in row] + c.yref
    sig = np.array([o.dvalue for row in c.xo for o in row] + [o.dvalue for o in c.y])
    val = np.array([abs(o.value) for row in c.xo for o in row] + [abs(o.value) for o in c.y])
    # every residual (datum - model) / error is a difference of numbers of the magnitude of the datum and carries a rounding
    # error of a few eps * |datum| / error (1e-8 for data with relative errors of 1e-7); chi2 = sum r^2 then differs between two
    # evaluations by up to 2 sum |r_i| d_i <= 2 sqrt(chi2) |d|
    chi_tol = 1e-8 * abs(chi.v) + 1e-10 + 2.0 * math.sqrt(abs(chi.v)) * 4.0 * np.finfo(float).eps * float(np.linalg.norm(val / sig))
    trace(chi_dev=abs(res.odr_chisquare - chi.v) / chi_tol)
    require(abs(res.odr_chisquare - chi.v) <= chi_tol,
            'reported odr_chisquare %r is not the documented chi-square (with x-residual term) at the returned values, %r' % (res.odr_chisquare, chi.v))
    require(res.dof == c.n - c.npar, 'dof is %r, data points - parameters = %d' % (res.dof, c.n - c.npar))
    if fluct:
        judge_fluctuations('total_least_squares', res.fit_parameters, pvals, S, H, ops, sig, cond, c.spec['opts']['num_grad'], absval=val)
    j = Judged()
    j.pvals, j.S, j.H, j.newton = np.array(pvals), S, H, newton
    j.sig = sig
    # measured: largest relative x error, and the largest share of the x errors in the variance of a parameter (data taken as uncorrelated)
    m = nd * c.n
    j.rel_dx = float(np.max(sig[:m] / np.maximum(val[:m], 1e-300)))
    w2 = (S * sig) ** 2
    j.x_share = float(np.max(np.sum(w2[:, :m], axis=1) / np.maximum(np.sum(w2, axis=1), 1e-300)))
    return j


def tls_oracle(spec):
    import pyerrors as pe
    c = build(spec)
    res = run_tls(c)
    j = judge_tls(c, res)
    nt, labs = labels(c)
    labs.append('rel_dx:' + ('<1e-6' if j.rel_dx < 1e-6 else '<1e-4' if j.rel_dx < 1e-4 else '>=1e-4') + (', x_share>0.2' if j.x_share > 0.2 else ''))
    if spec.get('precise'):
        labs.append('precise')
    if c.fam == 'lin':
        kw2 = {}
        if guess(c) is not None:
            kw2['initial_guess'] = guess(c)
        if spec['opts']['num_grad']:
            kw2['num_grad'] = True
        pl = fit_exceptions(c, lambda: pe.fits.fit_lin(c.xo[0], c.y, silent=True, **kw2))
        require(len(pl) == 2, 'fit_lin must return two observables', len(pl))
        for k in range(2):
            same_obs('fit_lin(observables) vs total_least_squares, parameter %d' % k, res.fit_parameters[k], pl[k])
        labs.append('fit_lin')
        # the abscissae may equally be handed over as an object array or a tuple of observables
        import numpy as _np
        for form, xarg in (('ndarray', _np.array(list(c.xo[0]), dtype=object)), ('tuple', tuple(c.xo[0]))):
            if form == 'tuple' and len(labs) % 2:
                continue
            pl2 = fit_exceptions(c, lambda: pe.fits.fit_lin(xarg, c.y, silent=True, **kw2))
            require(len(pl2) == 2, 'fit_lin must return two observables', len(pl2))
            for k in range(2):
                same_obs('fit_lin(%s of observables) vs total_least_squares, parameter %d' % (form, k), res.fit_parameters[k], pl2[k])
            labs.append('fit_lin:' + form)
    return {'nt': nt, 'cls': labs}


FD_TOL = 1e-3


def fd_oracle(spec):
    c = build(spec)
    tgt = spec['fd']['target']
    if c.kind == 'ls':
        W, kw = weight_matrix(c)
        j0 = judge_ls(c, run_ls(c, kw), W)
        col = tgt[1] if tgt[0] == 'y' else c.n + tgt[1]
    else:
        j0 = judge_tls(c, run_tls(c))
        col = (tgt[1] * c.n + tgt[2]) if tgt[0] == 'x' else len(c.xo) * c.n + tgt[1]
    S, sig = j0.S, j0.sig
    start = dict(spec, opts=dict(spec['opts'], guess='near', guess_fac=[float(p / t) for p, t in zip(j0.pvals, spec['ptrue'])]))

    def quotient(eps):
        """symmetric difference quotient of the re-fitted parameters and the distance of the two re-fits from their exact
        stationary points (each judged to be within the stopping accuracy of the minimiser), in the same units"""
        out = []
        for sgn in (+1.0, -1.0):
            cs = build(spec, shift=(tgt, sgn * eps))
            cs.spec = start      # start from the solution of the unshifted problem
            if c.kind == 'ls':
                Ws, kws = weight_matrix(cs)
                require(np.allclose(Ws, W, rtol=1e-9, atol=1e-11 * float(np.max(np.abs(W)))), 'weights changed under a constant shift of one datum')
                out.append(judge_ls(cs, run_ls(cs, kws), Ws))
            else:
                out.append(judge_tls(cs, run_tls(cs)))
        return ((out[0].pvals - out[1].pvals) / (2.0 * eps),
                (np.abs(out[0].newton[:c.npar]) + np.abs(out[1].newton[:c.npar])) / (2.0 * eps))
    eps = spec['fd']['c'] * sig[col]
    q1, s1 = quotient(eps)
    q2, s2 = quotient(0.5 * eps)
    # q(eps) = S + a eps^2 + O(eps^4): Richardson step removes the third-order term of the response
    quot = (4.0 * q2 - q1) / 3.0
    slack = (4.0 * s2 + s1) / 3.0
    for k in range(c.npar):
        # whitened sensitivities: movement of parameter k under a one-sigma shift of each datum
        scale = float(np.max(np.abs(S[k] * sig))) / sig[col]
        nonlin = abs(q1[k] - q2[k]) / scale
        trace(fd=abs(quot[k] - S[k, col]) / scale, fdslack=slack[k] / scale, fdnonlin=nonlin, kind=c.kind)
        if nonlin > 1e-2:
            raise Skip('response to the shift not in the linear regime')
        require(abs(quot[k] - S[k, col]) <= (FD_TOL + 10.0 * nonlin ** 2) * scale + 2.0 * slack[k],
                'shifting datum %r by +-%.3g and re-fitting moves parameter %d by %.10g per unit shift, the implicit-function '
                'rule predicts %.10g (largest sensitivity of this parameter in these units %.3g, minimiser slack %.3g, '
                'third-order part of the response %.3g)' % (tgt, eps, k, quot[k], S[k, col], scale, slack[k], nonlin * scale))
    nt, labs = labels(c)
    labs.append('shift:' + tgt[0])
    return {'nt': nt, 'cls': labs}


def tls_vs_ls_oracle(spec):
    c = build(spec)
    rt = run_tls(c)
    # stationarity, odr_chisquare and dof of the total fit are judged here; its fluctuations are judged below against
    # the ordinary fit (with x errors a million times smaller than the y errors the unscaled linear solve inside the
    # library loses the - irrelevant, 1e-6 of the total - x terms to rounding, which the 1e-8 tolerance of the
    # implicit-function comparison would flag although the region is deliberately not a well-scaled one)
    jt = judge_tls(c, rt, fluct=False)
    # ordinary fit at the central values of the abscissae
    c2 = build(dict(spec, kind='ls', x=[[o.value for o in row] for row in c.xo]))
    W, kw = weight_matrix(c2)
    rl = run_ls(c2, kw)
    jl = judge_ls(c2, rl, W)
    rsl = F.resolution(jl.H)
    condl = float(np.linalg.cond(jl.H))
    for k in range(c.npar):
        # both fits are within their stopping accuracy of the respective stationary points (judged above); the
        # stationary points themselves differ by O((f' dx / dy)^2) ~ 1e-12
        slack = abs(jt.newton[k]) + abs(jl.newton[k])
        trace(tvl_val=abs(jt.pvals[k] - jl.pvals[k]) / rsl[k], tvl_slack=slack / rsl[k])
        require(abs(jt.pvals[k] - jl.pvals[k]) <= 1e-6 * rsl[k] + 2.0 * slack,
                'total least squares with negligible x errors gives parameter %d = %.14g, least_squares %.14g (resolution %.3g, '
                'minimiser slack %.3g)' % (k, jt.pvals[k], jl.pvals[k], rsl[k], slack))
    for k in range(c.npar):
        a, b = rt.fit_parameters[k], rl.fit_parameters[k]
        big = max(float(np.max(np.abs(b.deltas[n]))) for n in b.deltas)
        big = max(big, float(rsl[k]))     # a parameter that (almost) does not fluctuate: differences are judged against its resolution sigma_p
        # the two fits stop at slightly different points (slack, in units of the resolution); the sensitivities
        # S = -H^-1 M change by at most cond(H) * |dH|/|H| ~ cond(H) * slack * (resolution / |p|) between them
        relres = float(np.max(rsl / np.abs(jl.pvals)))
        slack = float(np.max((np.abs(jt.newton[:c.npar]) + np.abs(jl.newton)) / rsl))
        tol = TVL_TOL + condl * slack * relres
        if tol > 1e-2:
            raise Skip('sensitivities too steep for a comparison of two minimisers')
        for n in a.deltas:
            da = np.asarray(a.deltas[n])
            if n in b.deltas:
                require(list(a.idl[n]) == list(b.idl[n]), 'configuration lists of %s differ between the two fits' % n)
                db = np.asarray(b.deltas[n])
            else:
                db = np.zeros_like(da)
            dev = float(np.max(np.abs(da - db)))
            trace(tvl_fluct=dev / big, tvl_tol=tol)
            require(dev <= tol * big, 'fluctuations of parameter %d on %s differ between total (negligible x errors) and ordinary '
                    'least squares by %.3g (largest fluctuation %.3g, allowed fraction %.3g)' % (k, n, dev, big, tol))
        require(set(b.deltas) <= set(a.deltas), 'chains missing in the total least-squares result', sorted(set(b.deltas) - set(a.deltas)))
        a.gamma_method()
        b.gamma_method()
        trace(tvl_err=abs(a.dvalue - b.dvalue) / b.dvalue)
        require(abs(a.dvalue - b.dvalue) <= tol * max(b.dvalue, float(rsl[k])), 'error of parameter %d: total %.10g vs ordinary %.10g' % (k, a.dvalue, b.dvalue))
    nt, labs = labels(c)
    return {'nt': nt, 'cls': labs}


TVL_TOL = 1e-4

# ---------------------------------------------------------------------------------------------- many data points
# Fits with more than 200 data points (implementations may switch algorithms for long data vectors).  Hypothesis draws the
# family, the size, the noise level and one integer; every other detail of the spec is a pure function of that integer.

@st.composite
def many_case(draw, tier):
    import random
    fam = draw(st.sampled_from(['exp', 'expc', 'cosh']))
    M = F.MODELS[fam]
    n = draw(st.integers(201, 215 if tier == 'quick' else 260))
    rnd = random.Random(draw(st.integers(0, 2 ** 31 - 1)))
    ptrue = [lo + (hi - lo) * rnd.uniform(0.2, 0.8) for lo, hi in M['box']]
    lo, hi = M['xr'][0]
    xs = [[lo + (hi - lo) * (i + rnd.uniform(0.1, 0.9)) / n for i in range(n)]]
    fv = [F.model_float(fam, ptrue, [xs[0][i]]) for i in range(n)]
    fscale = max(abs(v) for v in fv)
    shared = draw(st.booleans())
    L = draw(st.integers(24, 40))
    rel = draw(st.sampled_from([0.01, 0.03, 0.08]))
    start, gap = rnd.randint(0, 500), rnd.choice([1, 1, 2])
    common = {'start': start, 'gap': gap, 'len': L, 'recipe': {'kind': 'white', 'seed': rnd.randint(0, 2 ** 31 - 1)}}
    ypts = []
    for i in range(n):
        sigma = rel * max(abs(fv[i]), 0.2 * fscale)
        name = 'A|r1' if shared else 'Y%d|r1' % i
        wc = rnd.choice([0.0, 0.3, 0.6]) if shared else 0.0
        ch = [{'name': name, 'idl': [start + gap * k for k in range(L)], 'form': 'range', 'sigma': sigma, 'wc': wc,
               'own': {'kind': 'white', 'seed': rnd.randint(0, 2 ** 31 - 1)}, 'common': dict(common) if wc > 0 else None}]
        # residuals of ordinary size (chi2/dof ~ 1): a term "residual x second derivative of the model" that is not negligible
        ypts.append({'mean': fv[i] + rnd.gauss(0.0, 1.0) * sigma / math.sqrt(L), 'chains': ch})
    return {'kind': 'ls', 'family': fam, 'ptrue': ptrue, 'x': xs, 'groups': [''] * n, 'y': ypts, 'layout': 'shared' if shared else 'indep',
            'priors': None, 'opts': {'corr': None, 'num_grad': False, 'method': 'LM', 'guess': 'near',
                                     'guess_fac': [rnd.uniform(0.95, 1.05) for _ in ptrue], 'x_form': 'list'}}


SUBS = [
    Sub('ls', lambda tier: fit_case(tier, 'ls'), ls_oracle, {'quick': 60, 'thorough': 2000}, {'quick': 16, 'thorough': 16},
        doc='least_squares: stationarity, chisquare/dof, implicit-function fluctuations', max_skip_frac=0.3),
    Sub('tls', lambda tier: fit_case(tier, 'tls'), tls_oracle, {'quick': 35, 'thorough': 1000}, {'quick': 16, 'thorough': 16},
        doc='total_least_squares: stationarity incl. x-residual, odr_chisquare/dof, fluctuations, fit_lin dispatch', max_skip_frac=0.3),
    Sub('fd', lambda tier: st.one_of(fit_case(tier, 'ls', fd=True), fit_case(tier, 'tls', fd=True)), fd_oracle,
        {'quick': 20, 'thorough': 600}, {'quick': 16, 'thorough': 16},
        doc='shift of one datum + re-fit equals the predicted first-order amount', max_skip_frac=0.3),
    Sub('tls_vs_ls', lambda tier: fit_case(tier, 'tls', negligible_x=True), tls_vs_ls_oracle,
        {'quick': 20, 'thorough': 500}, {'quick': 8, 'thorough': 16},
        doc='total least squares with negligible x errors equals the ordinary fit', max_skip_frac=0.3),
    Sub('many', many_case, ls_oracle, {'quick': 10, 'thorough': 80}, {'quick': 2, 'thorough': 8},
        doc='least_squares with 201..260 data points and residuals of ordinary size: stationarity and implicit-function fluctuations',
        max_skip_frac=0.5),
]
