"""C17  File readers return exactly the stored numbers at the right configurations.

Synthetic file sets are written by vlib/formats/* (writers self-checked byte for byte against the sample files of
/repo/tests/data), read back with the pyerrors readers under a permuted directory listing, and compared with the
expectation {replica name: {configuration: number}} computed from the spec alone.

Sub-properties
  fidelity    writer fidelity: independent parsers of every sample file, re-written byte for byte (hadrons: round trip only)
  rwms        read_rwms, openQCD 1.4 / 1.6 / 2.0: product over factors of the source average of exp(-x)
  flowE       _extract_flowed_energy_density on ms.dat (the ingredient of extract_t0 / extract_w0): timeslice average of
              Ysl (or Wsl) per flow time, / L^3
  t0w0        extract_t0 / extract_w0 equal fit_t0 applied to the expected per-configuration flow data (differential)
  qtop_ms     read_qtop(version='openQCD') on ms.dat: timeslice sum of Qsl at the selected flow time
  gfms        read_qtop(version='sfqcd') and read_gf_coupling on sfqcd gfms.dat
  ms5         read_ms5_xsf: selected correlator, real and imaginary part, per timeslice
  sfcf        read_sfcf on the separate, compact and appended layout
  sfcf_multi  read_sfcf_multi (several names / offsets / wave functions at once, nested and keyed output)
  hadrons     read_meson_hd5 / read_hd5 on Hadrons hdf5 meson files (regular, irregular and irregular range-like file sets and
              idl selections)
"""
import math
import os

import numpy as np
from hypothesis import strategies as st

from vlib import findings
from vlib.core import Sub, Violation, Skip, require
from vlib.formats import common, openqcd_rwms as RW, openqcd_flow as FL, ms5_xsf as M5, sfcf as SF, hadrons as HD

PROPERTY = 'C17'
LEVEL = 'exploration'
RULE = ('Hypothesis-generated file sets (1-3 replicas with replica numbers of differing digit counts, 5-40 configurations '
        'each, first configuration 0..1005, spacing 1..10 or irregular lists where the format carries explicit numbers '
        '(ms5_xsf, sfcf, hadrons: 2/5 regular, 2/5 irregular, 1/5 irregular but "range-like" = first element, first spacing, last '
        'element and length of a range with 1-3 interior elements off the grid; labels disk:<shape>), '
        '1-3 factors / sources / flow times / timeslices / correlators) written to a scratch directory together with '
        'files that must be ignored, and read with generated r_start / r_stop / r_step / idl / files / names / replica '
        'selections under a sorted, reversed or randomly permuted directory listing. Explicit-list selections (idl= of ms5_xsf '
        'and hadrons, files= of sfcf) are random subsets or, 1 in 3 when the list on disk has >= 9 entries, subsets whose positions '
        'are range-like (on a regular file set the selected numbers are then an irregular range-like list; labels '
        'selected:<shape>); hadrons: an irregular file set is read with idl = all files, a subset, or (1 in 8) without idl, where a '
        'refusal is accepted and anything returned must be the stored data. Non-trivial: (at least two replicas '
        'of different length, or for the single-replica hadrons reader at least 6 configurations) and (a selection or a '
        'non-sorted listing); distinct = distinct spec hash.')
ASSUMPTIONS = ['the formats are what the readers and the sample files of tests/data agree on (writers reproduce every sample byte for byte)',
               'ensemble prefixes contain no letter r (the readers document that the replica name starts at the first r of the file name)',
               'per-replica arguments (r_start, r_stop, names, idl, files) refer to the file list: the explicit files= / replica= order, '
               'otherwise the replicas in numerical order (sort_names); for read_ms5_xsf without files= they are only passed when '
               'numerical and alphabetical order coincide (the reader sorts alphabetically)',
               'trajectory -> configuration normalisation as documented by the readers (// spacing, shift to 1 "assuming thermalization")',
               'ms.dat: one measurement per configuration (trajectory numbers are multiples of dtr_read), dtr_cnfg = 1',
               'a requested smearing radius c that agrees with a measured flow time up to rounding (or within 2 % of the spacing of the '
               'measured values) selects that flow time; gfms files carry both flows (zthfl = 2) as the sample file does',
               'every selection keeps at least 5 configurations per replica (requirement of Obs)',
               'extract_t0 / extract_w0: fit_t0 itself is trusted (linear fits and roots are C07 / C09)',
               'tolerances: 1e-14 of the magnitude of the summed terms (binary formats, <= 10 flops per number), 1e-15 for text and hdf5 '
               '(numbers are parsed / copied, never combined); t0/w0 1e-6 of the value (iterative least-squares fit on inputs equal to 1e-16; '
               'the stored data fluctuate by >= 1e-3 relative, so mis-assigned or shifted records remain visible)']

PREFIXES = ['ensA', 'A', 'E2_', 'x_id3_', 'data_c_', 'test_']
REPNUMS = [0, 1, 2, 3, 5, 9, 10, 11, 12, 100]


# =====================================================================================================
# shared strategies

def listing_mode():
    return st.one_of(st.just('sorted'), st.just('reversed'),
                     st.integers(0, 10 ** 6).map(lambda s: ['shuffle', s]), st.integers(0, 10 ** 6).map(lambda s: ['shuffle', s]))


def nconf(nmax):
    return st.one_of(st.integers(5, min(12, nmax)), st.integers(5, nmax))


FIRST = st.one_of(st.integers(0, 3), st.integers(1, 30), st.integers(95, 105), st.integers(995, 1005))


@st.composite
def regular_reps(draw, nmax, mult=1, max_reps=3):
    k = draw(st.sampled_from([x for x in (1, 2, 2, 3, 3) if x <= max_reps]))
    rs = draw(st.lists(st.sampled_from(REPNUMS), min_size=k, max_size=k, unique=True))
    reps = []
    for r in rs:
        n = draw(nconf(nmax))
        spacing = draw(st.sampled_from([1, 1, 2, 3, 5, 10]))
        first = draw(FIRST)
        reps.append({'r': r, 'first': first * mult, 'spacing': spacing * mult, 'n': n})
    return reps


@st.composite
def cfg_list(draw, nmax):
    """Strictly increasing list of explicit configuration numbers: regular, irregular, or irregular but 'range-like'
    (first element, first spacing, last element and length of a range; some interior elements off the grid)."""
    n = draw(nconf(nmax))
    first = draw(FIRST)
    kind = draw(st.sampled_from(['regular', 'regular', 'irregular', 'irregular', 'rangelike']))
    if kind == 'regular':
        sp = draw(st.sampled_from([1, 1, 2, 3, 5, 10]))
        return [first + sp * i for i in range(n)]
    if kind == 'rangelike':
        sp = draw(st.sampled_from([2, 2, 3, 5, 10]))
        return move_interior([first + sp * i for i in range(n)], draw(interior_moves(n, sp)))
    inc = draw(st.lists(st.sampled_from([1, 1, 1, 2, 3, 7]), min_size=n - 1, max_size=n - 1))
    out = [first]
    for i in inc:
        out.append(out[-1] + i)
    return out


def interior_moves(n, sp):
    """1-3 moves (position, shift) of interior elements (positions 2 .. n-2: the first two and the last element stay) of a
    list of n >= 5 elements with spacing sp >= 2, |shift| < sp."""
    return st.lists(st.tuples(st.integers(2, n - 2), st.integers(1, sp - 1), st.sampled_from([-1, 1])), min_size=1, max_size=3)


def move_interior(xs, moves):
    """Applies the moves one after the other; a move that would destroy the strict order is left out (the first one never does:
    the neighbours are sp away and |shift| < sp).  The result agrees with the range in first element, first spacing, last
    element and length and differs from it in at least one interior element."""
    out = list(xs)
    for i, d, sg in moves:
        v = out[i] + sg * d
        if out[i - 1] < v < out[i + 1]:
            out[i] = v
    return out


@st.composite
def rangelike_subset(draw, cf):
    """A subset (>= 5 elements) of the sorted list cf whose *positions* in cf are range-like: every m-th position with some
    interior positions moved.  On a regular cf the selected configuration numbers are range-like.  None if cf is too short."""
    if len(cf) < 9:
        return None
    m = draw(st.integers(2, min(4, (len(cf) - 1) // 4)))
    k = draw(st.integers(5, (len(cf) - 1) // m + 1))
    a = draw(st.integers(0, len(cf) - 1 - m * (k - 1)))
    pos = move_interior([a + m * i for i in range(k)], draw(interior_moves(k, m)))
    return [cf[i] for i in pos]


def subset_of(cf, ordered=True):
    """Selection of >= 5 of the configurations cf (sorted): random subset (in arbitrary order unless `ordered`), or (1 in 3, if cf
    is long enough) a range-like one."""
    @st.composite
    def f(draw):
        if len(cf) >= 9 and draw(st.integers(0, 2)) == 0:
            return draw(rangelike_subset(cf))
        sub = list(draw(st.lists(st.sampled_from(cf), min_size=5, max_size=len(cf), unique=True)))
        return sorted(sub) if ordered else sub
    return f()


def shape_of(cfgs):
    """'contig' | 'strided' | 'irregular' | 'irregular_rangelike' (same first element, first spacing, last element and length
    as a range, irregular inside)"""
    from vlib.gen import classify_idl
    return classify_idl(sorted(cfgs))


def shape_labels(what, lists):
    return sorted(set('%s:%s' % (what, shape_of(l)) for l in lists if len(l) >= 2))


@st.composite
def explicit_reps(draw, nmax, max_reps=3):
    k = draw(st.sampled_from([x for x in (1, 2, 2, 3, 3) if x <= max_reps]))
    rs = draw(st.lists(st.sampled_from(REPNUMS), min_size=k, max_size=k, unique=True))
    return [{'r': r, 'cfgs': draw(cfg_list(nmax))} for r in rs]


@st.composite
def file_subset(draw, k):
    """None or a non-empty ordered subset of range(k) (explicit files= argument)."""
    if draw(st.integers(0, 2)) == 0:
        return None
    perm = draw(st.permutations(list(range(k))))
    m = draw(st.integers(1, k))
    return list(perm[:m])


@st.composite
def custom_names(draw, m):
    """m replica names of one ensemble in arbitrary order: 'E|r<k>' (k arbitrary), letters only, or mixed."""
    ens = draw(st.sampled_from(['E', 'Zq', 'A']))
    kind = draw(st.sampled_from(['rk', 'rk', 'alpha', 'mixed']))
    if m == 1 and draw(st.booleans()):
        return [ens]
    if kind == 'rk':
        ks = draw(st.lists(st.integers(0, 30), min_size=m, max_size=m, unique=True))
        return ['%s|r%d' % (ens, k) for k in ks]
    if kind == 'alpha':
        ls = draw(st.lists(st.sampled_from(list('abcxyz')), min_size=m, max_size=m, unique=True))
        return ['%s|%s' % (ens, c) for c in ls]
    ls = draw(st.lists(st.sampled_from(['r1', 'b', 'r10', 'x2', 'r03', 'run7']), min_size=m, max_size=m, unique=True))
    return ['%s|%s' % (ens, c) for c in ls]


def increasing_rk_names(names):
    """Names that the library's sort_names leaves in place: <ens>|r<k> with k increasing (used while F-C17-1 is open)."""
    ens = names[0].split('|')[0]
    return ['%s|r%d' % (ens, 2 * i + 1) for i in range(len(names))]


@st.composite
def range_selection(draw, lists, allow_step):
    """r_start / r_stop / r_step in terms of the normalised configuration numbers `lists` (one list per file of the file
    list); every selection keeps >= 5 configurations."""
    out = {}
    step = 1
    if allow_step:
        smax = min((len(l) - 1) // 4 for l in lists)
        if smax >= 2 and draw(st.booleans()):
            step = draw(st.integers(2, min(3, smax)))
        if step > 1 or draw(st.integers(0, 3)) == 0:
            out['r_step'] = step
    give_a, give_b = draw(st.booleans()), draw(st.booleans())
    ra, rb = [], []
    for l in lists:
        need = 4 * step
        ia = draw(st.integers(0, len(l) - 1 - need)) if give_a and draw(st.integers(0, 3)) > 0 else 0
        ib = draw(st.integers(ia + need, len(l) - 1)) if give_b and draw(st.integers(0, 3)) > 0 else len(l) - 1
        ra.append(l[ia] if ia > 0 or draw(st.booleans()) else None)
        rb.append(l[ib] if ib < len(l) - 1 or draw(st.booleans()) else None)
    if give_a:
        out['r_start'] = ra
    if give_b:
        out['r_stop'] = rb
    return out


def digit_labels(nums, what):
    return [what + ':digits_differ'] if len(set(len(str(x)) for x in nums)) > 1 else []


def base_labels(fs, call, lengths, selection, excluded):
    labs = ['nrep:%d' % len(lengths), 'listing:' + (call.get('listing') if isinstance(call.get('listing'), str) else 'shuffle')]
    labs += digit_labels([r['r'] for r in fs.get('reps', [])], 'repnum')
    if len(set(lengths)) > 1:
        labs.append('lengths_differ')
    for s in selection:
        labs.append('sel:' + s)
    for e in excluded:
        labs.append('excluded:' + e)
    nt = len(lengths) >= 2 and len(set(lengths)) > 1 and (bool(selection) or call.get('listing') != 'sorted')
    return nt, labs


def compare_all(got, exp, scale=None, rtol=1e-14, what=''):
    require(sorted(map(str, got)) == sorted(map(str, exp)), what + 'reader returns the keys %r, expected %r' % (sorted(map(str, got)), sorted(map(str, exp))))
    for k in exp:
        common.compare_obs(got[k], exp[k], what + str(k), rtol=rtol, scale=None if scale is None else scale[k])


# =====================================================================================================
# rwms

@st.composite
def rwms_case(draw, tier):
    nmax = 40
    version = draw(st.sampled_from(['1.4', '1.6', '2.0']))
    nrw = draw(st.integers(1, 3))
    fs = {'fmt': 'rwms', 'version': version, 'prefix': draw(st.sampled_from(PREFIXES)),
          'postfix': draw(st.sampled_from(['ms1', 'rwms', 'ms1', ''])),
          'nfct': [draw(st.integers(1, 3)) if version != '1.4' else 1 for _ in range(nrw)],
          'nsrc': [draw(st.integers(1, 3)) for _ in range(nrw)],
          'seed': draw(st.integers(0, 2 ** 31 - 1)), 'reps': draw(regular_reps(nmax))}
    call = {'use_postfix': bool(fs['postfix']) and draw(st.booleans()), 'listing': draw(listing_mode())}
    fs['extra'] = ['zz_r1.%s.dat' % (fs['postfix'] or 'ms1')]
    if call['use_postfix']:
        fs['extra'].append('%sr7.ms.dat' % fs['prefix'])
    excluded = []
    files = draw(file_subset(len(fs['reps'])))
    if files is not None and findings.is_open('F-C17-1'):
        srt = sorted(files, key=lambda i: fs['reps'][i]['r'])
        if srt != files:
            excluded.append('F-C17-1:files_order')
        files = srt
    if files is not None:
        call['files'] = files
    order = RW.file_order(fs, call)
    if draw(st.integers(0, 2)) == 0:
        names = draw(custom_names(len(order)))
        if len(names) > 1 and findings.is_open('F-C17-1'):
            excluded.append('F-C17-1:names_order')
            names = increasing_rk_names(names)
        call['names'] = names
    if draw(st.integers(0, 2)) > 0:
        lists = [RW.normalise(RW.stored_cfgs(fs['reps'][i])) for i in order]
        call.update(draw(range_selection(lists, True)))
    if draw(st.integers(0, 9)) == 0:
        call['print_err'] = True
    return {'fs': fs, 'call': call, 'excluded': excluded}


def selection_labels(call):
    return [k for k in ('files', 'afiles', 'names', 'ens_name', 'r_start', 'r_stop', 'r_step', 'idl', 'replica') if call.get(k) is not None]


def with_prime(case):
    """adds the 'prime' flag: before the files of the case are written, the same paths hold another data set that is read"""
    @st.composite
    def f(draw, tier):
        spec = draw(case(tier))
        spec['prime'] = draw(st.sampled_from([False, False, False, True]))
        return spec
    return f


def prime(mod, d, fs, call, run, spec):
    """State between calls: the directory first holds the same file set with other numbers (seed + 1), which is read with the
    same call; then every file is removed and the real set written.  A reader must return what the files hold *now*."""
    if not spec.get('prime'):
        return
    import copy
    decoy = copy.deepcopy(fs)
    decoy['seed'] = (int(fs['seed']) + 1) % (2 ** 31 - 1)
    mod.build(decoy).write(d)
    try:
        run(d, decoy, call)
    except Exception:
        pass
    for root, dirs, files in os.walk(d, topdown=False):
        for f in files:
            os.unlink(os.path.join(root, f))
        for x in dirs:
            os.rmdir(os.path.join(root, x))


def rwms_oracle(spec):
    fs, call = spec['fs'], spec['call']
    with common.tempdir() as d:
        prime(RW, d, fs, call, RW.run, spec)
        RW.build(fs).write(d)
        got = RW.run(d, fs, call)
    exp = RW.expected(fs, call)
    compare_all(got, exp, what='reweighting factor ')
    order = RW.file_order(fs, call)
    nt, labs = base_labels(fs, call, [fs['reps'][i]['n'] for i in order], selection_labels(call), spec.get('excluded', []))
    labs += ['version:' + fs['version'], 'nrw:%d' % len(fs['nsrc'])]
    if any(r['spacing'] > 1 for r in fs['reps']):
        labs.append('spacing>1')
    if any(RW.normalise(RW.stored_cfgs(r))[0] != r['first'] for r in fs['reps']):
        labs.append('renumbered')
    labs += digit_labels([c for r in fs['reps'] for c in RW.normalise(RW.stored_cfgs(r))], 'cfg')
    return {'nt': nt, 'cls': labs}


# =====================================================================================================
# ms.dat / gfms.dat

@st.composite
def ms_fileset(draw, nn_range=(0, 3), shape='random'):
    mult = draw(st.sampled_from([1, 1, 2, 3]))
    fs = {'fmt': 'ms', 'prefix': draw(st.sampled_from(PREFIXES)), 'dn': draw(st.integers(1, 3)),
          'nn': draw(st.integers(*nn_range)), 'tmax': draw(st.integers(1, 4)), 'eps': draw(st.sampled_from([0.01, 0.02, 0.05])),
          'L': draw(st.sampled_from([2, 4, 8])), 'seed': draw(st.integers(0, 2 ** 31 - 1)), 'shape': shape,
          'reps': draw(regular_reps(40, mult=mult))}
    fs['extra'] = ['zz_r1.ms.dat', '%sr4.ms1.dat' % fs['prefix']]
    return fs, mult


@st.composite
def files_and_names(draw, fs, mod, finding):
    """files= / names= arguments for the flow readers; finding = id of the open finding that forbids re-ordering (or None)."""
    call = {}
    excluded = []
    files = draw(file_subset(len(fs['reps'])))
    is_open = finding is not None and findings.is_open(finding)
    if files is not None and is_open:
        srt = sorted(files, key=lambda i: fs['reps'][i]['r'])
        if srt != files:
            excluded.append(finding + ':files_order')
        files = srt
    if files is not None:
        call['files'] = files
    order = mod.file_order(fs, call)
    if draw(st.integers(0, 2)) == 0:
        names = draw(custom_names(len(order)))
        if len(names) > 1 and is_open:
            excluded.append(finding + ':names_order')
            names = increasing_rk_names(names)
        call['names'] = names
    return call, excluded


@st.composite
def flowE_case(draw, tier):
    fs, mult = draw(ms_fileset())
    call = {'what': 'E', 'dtr_read': mult, 'xmin': draw(st.integers(0, (fs['tmax'] - 1) // 2)), 'listing': draw(listing_mode())}
    if draw(st.booleans()):
        call['plaquette'] = True
    at = draw(st.sampled_from([None, None, True, False]))
    if at is not None:
        call['assume_thermalization'] = at
    c2, excluded = draw(files_and_names(fs, FL, None))
    call.update(c2)
    if draw(st.integers(0, 2)) > 0:
        order = FL.file_order(fs, call)
        lists = [FL.normalise_E(FL.stored_cfgs(fs['reps'][i]), call.get('assume_thermalization', True)) for i in order]
        call.update(draw(range_selection(lists, True)))
    return {'fs': fs, 'call': call, 'excluded': excluded}


def flow_labels(fs, call, spec):
    order = FL.file_order(fs, call)
    nt, labs = base_labels(fs, call, [fs['reps'][i]['n'] for i in order], selection_labels(call), spec.get('excluded', []))
    labs.append('fmt:' + fs['fmt'])
    if any(r['spacing'] > 1 for r in fs['reps']):
        labs.append('spacing>1')
    return nt, labs


def flowE_oracle(spec):
    fs, call = spec['fs'], spec['call']
    with common.tempdir() as d:
        prime(FL, d, fs, call, FL.run, spec)
        FL.build(fs).write(d)
        got, keys = FL.run(d, fs, call)
    exp = FL.expected(fs, call)
    scale = exp.pop('__scale__')
    times = FL.flow_times(fs)
    require(len(keys) == len(times) and all(abs(a - b) <= 1e-14 * max(abs(b), 1e-300) for a, b in zip(keys, times)),
            'flow times of the dictionary are %r, the header states %r' % (keys, times))
    compare_all(got, exp, scale=scale, what='flowed energy density, flow index ')
    nt, labs = flow_labels(fs, call, spec)
    labs += ['plaquette:%s' % bool(call.get('plaquette')), 'assume_therm:%s' % call.get('assume_thermalization'),
             'flow_times:%d' % (fs['nn'] + 1), 'xmin:%d' % call['xmin'], 'dtr_read:%d' % call['dtr_read']]
    return {'nt': nt, 'cls': labs}


@st.composite
def t0w0_case(draw, tier):
    what = draw(st.sampled_from(['t0', 'w0']))
    fr = draw(st.integers(2, 3))
    nn = draw(st.integers(2 * fr + 3, 12))
    j = draw(st.one_of(st.integers(fr + 1, nn - fr - 1), st.integers(nn - fr, nn - 1)))      # (second range: the root lies within fit_range points of the largest flow time)
    fs, mult = draw(ms_fileset(nn_range=(nn, nn)))
    fs['shape'] = [what, (j + 0.5) * fs['dn'] * fs['eps']]
    for r in fs['reps']:
        r['n'] = min(r['n'], 16)
    call = {'what': what, 'dtr_read': mult, 'xmin': draw(st.integers(0, (fs['tmax'] - 1) // 2)), 'fit_range': fr,
            'listing': draw(listing_mode())}
    c2, excluded = draw(files_and_names(fs, FL, None))
    call.update(c2)
    if draw(st.booleans()):
        order = FL.file_order(fs, call)
        lists = [FL.normalise_E(FL.stored_cfgs(fs['reps'][i])) for i in order]
        call.update(draw(range_selection(lists, True)))
    return {'fs': fs, 'call': call, 'excluded': excluded}


def t0w0_oracle(spec):
    import pyerrors as pe
    from pyerrors.input.misc import fit_t0
    fs, call = spec['fs'], spec['call']
    exp = FL.expected(fs, call)
    exp.pop('__scale__')
    times = FL.flow_times(fs)
    E = []
    for n in range(fs['nn'] + 1):
        names = sorted(exp[n])
        E.append(pe.Obs([np.array([exp[n][nm][c] for c in sorted(exp[n][nm])]) for nm in names], names,
                        idl=[sorted(exp[n][nm]) for nm in names]))
    def ref_root(series, fit_range):
        """The documented definition: linear fit through the `fit_range` points left and right of the first positive value,
        root of the fitted line.  Window chosen here; the straight-line fit itself is pyerrors' (judged by C07/C08)."""
        ts = list(series)
        vals = [float(series[t].value) for t in ts]
        zc = next((i for i, v in enumerate(vals) if v > 0.0), 0)
        if zc == 0 or zc - fit_range < 0:
            raise Skip('root not inside the flow-time window')
        lo, hi = zc - fit_range, min(zc + fit_range, len(ts))
        xw, yw = ts[lo:hi], [series[t] for t in ts[lo:hi]]
        for y_ in yw:
            y_.gamma_method()
        par = pe.fits.fit_lin(xw, yw)
        return -par[0] / par[1]
    try:
        if call['what'] == 't0':
            ref = ref_root({t: t ** 2 * e - 0.3 for t, e in zip(times, E)}, call['fit_range'])
        elif False:
            ref = fit_t0({t: t ** 2 * e - 0.3 for t, e in zip(times, E)}, call['fit_range'])
        else:
            t2E = [t ** 2 * e for t, e in zip(times, E)]
            dd = {times[0]: times[0] * (t2E[1] - t2E[0]) / (times[1] - times[0]) - 0.3}
            for i in range(1, len(times) - 1):
                dd[times[i]] = times[i] * (t2E[i + 1] - t2E[i - 1]) / (times[i + 1] - times[i - 1]) - 0.3
            dd[times[-1]] = times[-1] * (t2E[-1] - t2E[-2]) / (times[-1] - times[-2]) - 0.3
            ref = np.sqrt(ref_root(dd, call['fit_range']))
    except Skip:
        raise
    except Exception as e:
        raise Skip('reference root failed: ' + type(e).__name__)
    with common.tempdir() as d:
        prime(FL, d, fs, call, FL.run, spec)
        FL.build(fs).write(d)
        got, _ = FL.run(d, fs, call)
    o = got[call['what']]
    want = {nm: {int(c): v for c, v in zip(ref.idl[nm], common.chain_values(ref, nm))} for nm in ref.names}
    # iterative least-squares fit on inputs that agree to 1e-16: the solution is reproducible only to the minimiser's stopping
    # tolerance (observed 1e-9 relative); the per-configuration fluctuations of the data are >= 1e-3 relative
    # The scale is a derived quantity (root of a fitted line): what the reduction defines is its central value and its
    # fluctuation on every configuration.  The replica means that a fit result carries are a convention of the fit routine
    # (least_squares builds its parameters with a constant function of the data), so `r_value + delta` is not compared here:
    # a closed-form straight-line fit with proper replica means (benign change C17-b4) is as right as fit_lin.
    what = call['what']
    require(sorted(o.names) == sorted(want), '%s: replica names %r, the files state %r' % (what, list(o.names), sorted(want)))
    require(abs(float(o.value) - float(ref.value)) <= 1e-6 * abs(float(ref.value)),
            '%s: central value %r, root of the line fitted to the stored data %r' % (what, float(o.value), float(ref.value)))
    for nm in sorted(want):
        require([int(c) for c in o.idl[nm]] == [int(c) for c in ref.idl[nm]],
                '%s: configurations of %s are %r, the files state %r' % (what, nm, list(o.idl[nm])[:8], list(ref.idl[nm])[:8]))
        dg, dw = np.asarray(o.deltas[nm], dtype=float), np.asarray(ref.deltas[nm], dtype=float)
        tol = 1e-6 * max(float(np.max(np.abs(dw))), 1e-300)
        bad = np.where(~(np.abs(dg - dw) <= tol))[0]
        require(len(bad) == 0, '%s: fluctuation of %s at configuration %d is %r, the stored data give %r (%d of %d configurations differ)'
                % (what, nm, int(o.idl[nm][int(bad[0])]) if len(bad) else -1, float(dg[bad[0]]) if len(bad) else None,
                   float(dw[bad[0]]) if len(bad) else None, len(bad), len(dw)))
    nt, labs = flow_labels(fs, call, spec)
    labs.append('scale:' + call['what'])
    return {'nt': nt, 'cls': labs}


@st.composite
def qtop_ms_case(draw, tier):
    fs, mult = draw(ms_fileset())
    k = draw(st.integers(0, fs['nn']))
    # a requested c that agrees with a measured flow time up to rounding (or 2 % of the spacing) selects that flow time
    dk = draw(st.sampled_from([0.0, 0.0, 1e-9, -1e-9, 0.02, -0.02])) if k > 0 else draw(st.sampled_from([0.0, 1e-9, 0.02]))
    call = {'what': 'qtop', 'c': math.sqrt(8 * (k + dk) * fs['eps'] * fs['dn']) / fs['L'], 'flow_index': k, 'listing': draw(listing_mode())}
    if draw(st.integers(0, 3)) == 0:
        call['integer_charge'] = True
    c2, excluded = draw(files_and_names(fs, FL, 'F-C17-1b'))
    call.update(c2)
    order = FL.file_order(fs, call)
    if draw(st.integers(0, 3)) == 0 and len(set(fs['reps'][i]['spacing'] for i in order)) == 1:
        call['steps'] = fs['reps'][order[0]]['spacing']
    if draw(st.integers(0, 2)) > 0:
        lists = [FL.normalise_Q(FL.stored_cfgs(fs['reps'][i])) for i in order]
        call.update(draw(range_selection(lists, False)))
    return {'fs': fs, 'call': call, 'excluded': excluded}


def flowobs_oracle(spec):
    fs, call = spec['fs'], spec['call']
    if call['what'] == 'qtop':
        require(FL.index_aim(fs, call['c']) == call['flow_index'], 'harness: flow index not reproduced')
        if call.get('integer_charge') and FL.near_half_integer(fs, call):
            raise Skip('charge within 1e-9 of a half integer')
    with common.tempdir() as d:
        prime(FL, d, fs, call, FL.run, spec)
        FL.build(fs).write(d)
        got, _ = FL.run(d, fs, call)
    exp = FL.expected(fs, call)
    scale = exp.pop('__scale__')
    compare_all(got, exp, scale=scale, what='flow observable ')
    o = list(got.values())[0]
    if call['what'] == 'qtop':
        require(isinstance(o.tag, dict) and o.tag.get('T') == fs['tmax'] - 1 and o.tag.get('L') == fs['L'],
                'tag of the result is %r, the header states T=%d, L=%d' % (o.tag, fs['tmax'] - 1, fs['L']))
    nt, labs = flow_labels(fs, call, spec)
    labs += ['what:' + call['what'], 'integer_charge:%s' % bool(call.get('integer_charge'))]
    if 'flow_index' in call:
        labs.append('flow_index:%s' % ('0' if call['flow_index'] == 0 else 'last' if call['flow_index'] == fs.get('nn', fs.get('ncs')) else 'mid'))
    if call.get('Zeuthen_flow') is not None:
        labs.append('zeuthen:%s' % call['Zeuthen_flow'])
    return {'nt': nt, 'cls': labs}


@st.composite
def gfms_case(draw, tier):
    what = draw(st.sampled_from(['qtop', 'qtop', 'gf']))
    ncs = draw(st.integers(1, 3))
    fs = {'fmt': 'gfms', 'prefix': draw(st.sampled_from(PREFIXES)), 'zthfl': 2, 'ncs': ncs, 'tol': 1e-7,
          'seed': draw(st.integers(0, 2 ** 31 - 1)), 'reps': draw(regular_reps(40))}
    fs['extra'] = ['zz_r1.gfms.dat', '%sr4.ms.dat' % fs['prefix']]
    call = {'what': what, 'listing': draw(listing_mode())}
    if what == 'gf':
        fs['L'] = draw(st.sampled_from([4, 6, 8]))
        fs['tmax'] = fs['L'] + 1
        k = draw(st.integers(1, ncs))
        cmax = 0.3 * ncs / k * draw(st.sampled_from([1.0, 1.0 + 1e-12, 1.0 + 1e-9]))   # 0.3 is on the grid up to rounding
        while 0.3 > cmax:
            cmax = float(np.nextafter(cmax, 1.0))
        fs['cmax'] = cmax
    else:
        fs['L'] = draw(st.sampled_from([2, 4, 6]))
        fs['tmax'] = draw(st.integers(1, 4))
        fs['cmax'] = draw(st.sampled_from([0.3, 0.4, 0.45, 0.5]))
        k = draw(st.integers(0, ncs))
        dk = draw(st.sampled_from([0.0, 0.0, 1e-9, -1e-9, 0.02, -0.02]))
        call['c'] = max(0.0, min(fs['cmax'] * (k + dk) / ncs, fs['cmax']))
        call['flow_index'] = k
        call['Zeuthen_flow'] = draw(st.sampled_from([None, True, False]))
        if call['Zeuthen_flow'] is None:
            del call['Zeuthen_flow']
        if draw(st.booleans()):
            call['give_L'] = True
        if draw(st.integers(0, 3)) == 0:
            call['integer_charge'] = True
    c2, excluded = draw(files_and_names(fs, FL, 'F-C17-1b'))
    call.update(c2)
    order = FL.file_order(fs, call)
    if draw(st.integers(0, 3)) == 0 and len(set(fs['reps'][i]['spacing'] for i in order)) == 1:
        call['steps'] = fs['reps'][order[0]]['spacing']
    if draw(st.integers(0, 2)) > 0:
        lists = [FL.normalise_Q(FL.stored_cfgs(fs['reps'][i])) for i in order]
        call.update(draw(range_selection(lists, False)))
    return {'fs': fs, 'call': call, 'excluded': excluded}


# =====================================================================================================
# ms5_xsf

@st.composite
def ms5_case(draw, tier):
    fs = {'fmt': 'ms5', 'prefix': draw(st.sampled_from(PREFIXES)), 'qc': draw(st.sampled_from(['dd', 'ud', 'du', 'uu'])),
          'tmax': draw(st.integers(1, 3)), 'seed': draw(st.integers(0, 2 ** 31 - 1)), 'reps': draw(explicit_reps(40))}
    other_qc = 'ud' if fs['qc'] != 'ud' else 'dd'
    fs['extra'] = ['zz_r1.ms5_xsf_%s.dat' % fs['qc'], '%sr1.ms5_xsf_%s.dat' % (fs['prefix'], other_qc)]
    call = {'corr': draw(st.sampled_from(M5.BI + M5.BB)), 'listing': draw(listing_mode())}
    excluded = []
    is_open = findings.is_open('F-C17-1c')
    files = draw(file_subset(len(fs['reps'])))
    want_names = draw(st.integers(0, 2)) == 0
    want_idl = draw(st.integers(0, 2)) > 0
    if files is not None and (want_names or want_idl) and is_open:
        srt = sorted(files, key=lambda i: M5.filename(fs, fs['reps'][i]))
        if srt != files:
            excluded.append('F-C17-1c:files_order')
        files = srt
    if files is not None:
        call['files'] = files
    if files is None and (want_names or want_idl) and not M5.order_is_unambiguous(fs):
        # without files= "per replica" is ambiguous between numerical and alphabetical order: not judged
        excluded.append('ambiguous_order')
        want_names = want_idl = False
    order = M5.file_order(fs, call)
    if want_names:
        names = draw(custom_names(len(order)))
        if len(names) > 1 and is_open and sorted(names) != names:
            excluded.append('F-C17-1c:names_order')
            names = sorted(names)
        call['names'] = names
    if want_idl:
        idl = []
        for i in order:
            cf = fs['reps'][i]['cfgs']
            keep = draw(subset_of(cf))
            absent = draw(st.lists(st.integers(0, 1100), max_size=2))
            idl.append(sorted(set(keep) | set(a for a in absent if a not in cf)))
        call['idl'] = idl
        call['idl_form'] = draw(st.sampled_from(['list', 'range']))
    return {'fs': fs, 'call': call, 'excluded': excluded}


def ms5_oracle(spec):
    fs, call = spec['fs'], spec['call']
    with common.tempdir() as d:
        prime(M5, d, fs, call, M5.run, spec)
        M5.build(fs).write(d)
        got = M5.run(d, fs, call)
    exp = M5.expected(fs, call)
    compare_all(got, exp, what='ms5_xsf %s ' % call['corr'])
    order = M5.file_order(fs, call)
    nt, labs = base_labels(fs, call, [len(fs['reps'][i]['cfgs']) for i in order], selection_labels(call), spec.get('excluded', []))
    labs += ['corr:' + ('bulk' if call['corr'] in M5.BI else 'boundary'), 'tmax:%d' % fs['tmax']]
    labs += digit_labels([c for r in fs['reps'] for c in r['cfgs']], 'cfg')
    if any(len(set(np.diff(r['cfgs']))) > 1 for r in fs['reps']):
        labs.append('irregular_cfgs')
    labs += shape_labels('disk', [r['cfgs'] for r in fs['reps']])
    if call.get('idl') is not None:
        labs += shape_labels('selected', [sorted(set(l) & set(fs['reps'][i]['cfgs'])) for l, i in zip(call['idl'], order)])
    return {'nt': nt, 'cls': labs}


# =====================================================================================================
# sfcf

CORR_POOL = [('f_A', 'bi'), ('f_P', 'bi'), ('f_1', 'bb'), ('k_1', 'bb'), ('F_V0', 'bib'), ('K_V0', 'bib')]
QUARKS = ['lquark lquark', 'lquark squark', 'q1 q2']


@st.composite
def sfcf_fileset(draw, tier, uniform=False):
    lay = draw(st.sampled_from(['o', 'c', 'a']))
    nmax = 40 if lay != 'o' else 24
    ncorr = draw(st.integers(1, 3))
    pool = draw(st.lists(st.sampled_from(CORR_POOL), min_size=ncorr, max_size=ncorr, unique=True))
    sub = st.lists(st.sampled_from([0, 1, 2]), min_size=1, max_size=2, unique=True)
    common_par = {'offsets': draw(st.lists(st.sampled_from([0, 1]), min_size=1, max_size=2, unique=True)), 'wfs': draw(sub), 'wf2s': draw(sub)}
    corrs = []
    for name, ty in pool:
        c = {'name': name, 'type': ty, 'T': draw(st.integers(1, 3)), 'quarks': draw(st.sampled_from(QUARKS))}
        if uniform:
            c.update({k: list(v) for k, v in common_par.items()})
        else:
            c.update({'offsets': draw(st.lists(st.sampled_from([0, 1]), min_size=1, max_size=2, unique=True)), 'wfs': draw(sub), 'wf2s': draw(sub)})
        if ty == 'bi':
            c['wf2s'] = [0]
        corrs.append(c)
    prefix = draw(st.sampled_from(['test_', 'data_c_', 'A', 'x_id0_', 'E2_']))
    fs = {'fmt': 'sfcf', 'layout': lay, 'prefix': prefix, 'seed': draw(st.integers(0, 2 ** 31 - 1)),
          'block_order': draw(st.sampled_from(['sorted', 'reversed', ['shuffle', 3], ['shuffle', 11]])),
          'corrs': corrs, 'reps': draw(explicit_reps(nmax))}
    if lay == 'a':
        fs['extra'] = ['zz_r0.' + corrs[0]['name']]
    else:
        fs['extra'] = ['zz_r0/', 'notes.txt']
    return fs


@st.composite
def sfcf_selection(draw, fs, multi_names=None):
    """replica= / names= / files= for the sfcf readers."""
    call = {'listing': draw(listing_mode())}
    k = len(fs['reps'])
    if draw(st.integers(0, 2)) == 0:
        perm = draw(st.permutations(list(range(k))))
        call['replica'] = list(perm[:draw(st.integers(1, k))])
    excluded = []
    if fs['layout'] == 'a' and multi_names is None and 'replica' not in call and draw(st.integers(0, 2)) == 0:
        perm = draw(st.permutations(list(range(k))))
        af = list(perm[:draw(st.integers(1, k))])
        if len(af) < k and findings.is_open('F-C17-4'):
            excluded.append('F-C17-4:files_subset')
            af = list(perm)
        call['afiles'] = af
    order = SF.replica_order(fs, call)
    pick = draw(st.integers(0, 3))
    if pick == 0:
        call['names'] = draw(custom_names(len(order)))
    elif pick == 1:
        if fs['layout'] == 'a' and findings.is_open('F-C17-3'):
            excluded.append('F-C17-3:ens_name')
        else:
            call['ens_name'] = draw(st.sampled_from(['ENS', 'Zq2', 'B']))
    if fs['layout'] != 'a' and draw(st.integers(0, 2)) == 0:
        per = []
        for i in order:
            cf = fs['reps'][i]['cfgs']
            per.append(draw(subset_of(cf, ordered=False)))
        inter = sorted(set.intersection(*[set(fs['reps'][i]['cfgs']) for i in order]))
        if fs['layout'] == 'o' and len(inter) >= 5 and draw(st.booleans()):
            call['files'] = {'kind': 'flat', 'cfgs': draw(subset_of(inter, ordered=False))}
        else:
            call['files'] = {'kind': 'per', 'cfgs': per}
    if draw(st.booleans()):
        call['im'] = True
    return call, excluded


@st.composite
def sfcf_case(draw, tier):
    fs = draw(sfcf_fileset(tier))
    call, excluded = draw(sfcf_selection(fs))
    corr = draw(st.sampled_from(fs['corrs']))
    blocks = SF.blocks_of(corr)
    b = draw(st.sampled_from(blocks))
    if fs['layout'] == 'a' and b != blocks[0] and findings.is_open('F-C17-2'):
        excluded.append('F-C17-2:not_first_block')
        b = blocks[0]
    call.update({'name': corr['name'], 'quarks': corr['quarks'], 'noffset': b[0], 'wf': b[1], 'wf2': b[2]})
    return {'fs': fs, 'call': call, 'excluded': excluded}


def sfcf_labels(fs, call, spec):
    order = SF.replica_order(fs, call)
    lengths = [len(SF.selected_cfgs(fs, call, pos, fs['reps'][i])) for pos, i in enumerate(order)]
    nt, labs = base_labels(fs, call, lengths, selection_labels(call), spec.get('excluded', []))
    labs += ['layout:' + fs['layout'], 'im:%s' % bool(call.get('im')), 'ncorr:%d' % len(fs['corrs'])]
    labs += digit_labels([c for r in fs['reps'] for c in r['cfgs']], 'cfg')
    if any(len(set(np.diff(r['cfgs']))) > 1 for r in fs['reps']):
        labs.append('irregular_cfgs')
    labs += shape_labels('disk', [r['cfgs'] for r in fs['reps']])
    if call.get('files'):
        labs.append('files:' + call['files']['kind'])
        labs += shape_labels('selected', [SF.selected_cfgs(fs, call, pos, fs['reps'][i]) for pos, i in enumerate(order)])
    return nt, labs


def sfcf_oracle(spec):
    fs, call = spec['fs'], spec['call']
    with common.tempdir() as d:
        prime(SF, d, fs, call, SF.run, spec)
        SF.build(fs).write(d)
        got = SF.run(d, fs, call)
    exp = SF.expected_one(fs, call, call['name'], call['quarks'], call['noffset'], call['wf'], call['wf2'])
    require(len(got) == len(exp), 'read_sfcf returns %d timeslices, the files store %d' % (len(got), len(exp)))
    compare_all(got, exp, rtol=1e-15, what='%s timeslice ' % call['name'])
    nt, labs = sfcf_labels(fs, call, spec)
    corr = SF.corr_by_name(fs, call['name'])
    labs += ['type:' + corr['type'], 'block:%s' % ('first' if (call['noffset'], call['wf'], call['wf2']) == SF.blocks_of(corr)[0] else 'later')]
    return {'nt': nt, 'cls': labs}


@st.composite
def sfcf_multi_case(draw, tier):
    fs = draw(sfcf_fileset(tier, uniform=True))
    call, excluded = draw(sfcf_selection(fs, multi_names=True))
    names = draw(st.permutations([c['name'] for c in fs['corrs']]))
    names = list(names[:draw(st.integers(1, len(names)))])
    quarks = sorted(set(SF.corr_by_name(fs, n)['quarks'] for n in names))
    if len(quarks) > 1:
        # one quarks list for all names: every name must exist with every quark label -> give all correlators the same label
        for c in fs['corrs']:
            c['quarks'] = quarks[0]
        quarks = quarks[:1]
    c0 = fs['corrs'][0]

    def sublist(xs):
        p = draw(st.permutations(list(xs)))
        return list(p[:draw(st.integers(1, len(p)))])
    non_bi = [c for c in fs['corrs'] if c['type'] != 'bi']
    m = {'names': names, 'quarks': quarks, 'offsets': sublist(c0['offsets']), 'wfs': sublist(c0['wfs']),
         'wf2s': sublist(non_bi[0]['wf2s']) if non_bi else [0], 'keyed_out': draw(st.booleans())}
    if fs['layout'] == 'a' and findings.is_open('F-C17-2'):
        first = (m['offsets'] == [c0['offsets'][0]] and m['wfs'] == [c0['wfs'][0]] and (not non_bi or m['wf2s'] == [non_bi[0]['wf2s'][0]]))
        if not first:
            excluded.append('F-C17-2:not_first_block')
        m['offsets'], m['wfs'] = [c0['offsets'][0]], [c0['wfs'][0]]
        m['wf2s'] = [non_bi[0]['wf2s'][0]] if non_bi else [0]
    call['multi'] = m
    return {'fs': fs, 'call': call, 'excluded': excluded}


def sfcf_multi_oracle(spec):
    fs, call = spec['fs'], spec['call']
    with common.tempdir() as d:
        prime(SF, d, fs, call, SF.run_multi, spec)
        SF.build(fs).write(d)
        got = SF.run_multi(d, fs, call)
    for key, res in got.items():
        exp = SF.expected_one(fs, call, *key)
        require(len(res) == len(exp), 'read_sfcf_multi returns %d timeslices for %r, the files store %d' % (len(res), key, len(exp)))
        compare_all(res, exp, rtol=1e-15, what='%r timeslice ' % (key,))
    nt, labs = sfcf_labels(fs, call, spec)
    labs += ['keys:%d' % min(len(got), 5), 'keyed_out:%s' % bool(call['multi'].get('keyed_out'))]
    return {'nt': nt, 'cls': labs}


# =====================================================================================================
# hadrons

GAMMAS = ['Gamma5', 'GammaT', 'GammaX', 'GammaTGamma5', 'Identity']


@st.composite
def hadrons_case(draw, tier):
    ne = draw(st.integers(1, 3))
    pairs = draw(st.lists(st.tuples(st.sampled_from(GAMMAS), st.sampled_from(GAMMAS)), min_size=ne, max_size=ne, unique=True))
    fs = {'fmt': 'hadrons', 'filestem': draw(st.sampled_from(['mes', 'meson_run1', 'pt_ll'])), 'group': 'meson',
          'T': draw(st.integers(1, 3)), 'seed': draw(st.integers(0, 2 ** 31 - 1)),
          'entries': [{'gamma_snk': a, 'gamma_src': b} for a, b in pairs], 'cfgs': draw(cfg_list(40))}
    fs['extra'] = [fs['filestem'] + 'x.4.h5', 'other.7.h5']
    call = {'how': draw(st.sampled_from(['meson', 'gammas', 'attrs', 'int'])), 'entry': draw(st.integers(0, ne - 1)),
            'ens_id': draw(st.sampled_from(['A', 'A|r1', 'ens3'])), 'listing': draw(listing_mode())}
    if call['how'] in ('attrs', 'int'):
        call['part'] = draw(st.sampled_from(['real', 'imag', 'complex']))
    regular = len(set(np.diff(fs['cfgs']))) == 1
    if not regular and draw(st.integers(0, 7)) == 0:
        # irregular file set, no idl: the reader documents no result for it (it refuses); whatever it returns must be the stored
        # numbers at the stored configurations
        call['may_refuse'] = True
    elif not regular or draw(st.booleans()):
        cf = fs['cfgs']
        if not regular and draw(st.booleans()):
            call['idl'] = list(cf)
        else:
            call['idl'] = draw(subset_of(cf))
        call['idl_form'] = draw(st.sampled_from(['list', 'range']))
    if draw(st.integers(0, 5)) == 0:
        # a selection that names configurations for which no file exists cannot be served: the reader has to refuse it
        cf = list(fs['cfgs'])
        step = (cf[1] - cf[0]) if regular else 1
        extra = [cf[-1] + step * k for k in range(1, draw(st.integers(1, 3)) + 1)] if draw(st.booleans()) else \
            [c + 1 for c in cf[:-1] if c + 1 not in cf][:draw(st.integers(1, 4))]
        if extra:
            call['idl'] = sorted(set(cf) | set(extra))
            call['idl_form'] = 'list' if len(set(np.diff(call['idl']))) > 1 else draw(st.sampled_from(['list', 'range']))
            call['missing'] = extra
            call.pop('may_refuse', None)
    return {'fs': fs, 'call': call, 'excluded': []}


def hadrons_oracle(spec):
    fs, call = spec['fs'], spec['call']
    if call.get('missing'):
        with common.tempdir() as d:
            HD.build(fs).write(d)
            try:
                HD.run(d, fs, call)
            except Exception as e:
                return {'nt': True, 'cls': ['sel:idl_with_missing_configurations:' + type(e).__name__]}
        raise Violation('hadrons reader served a selection that names configurations %r for which no file exists' % (call['missing'],))
    labs = ['how:' + call['how'], 'part:' + call.get('part', 'real'), 'T:%d' % fs['T'],
            'listing:' + (call['listing'] if isinstance(call['listing'], str) else 'shuffle')]
    labs += shape_labels('disk', [fs['cfgs']])
    if call.get('idl') is not None:
        labs += shape_labels('selected', [call['idl']])
    with common.tempdir() as d:
        prime(HD, d, fs, call, HD.run, spec)
        HD.build(fs).write(d)
        if call.get('may_refuse'):
            try:
                got = HD.run(d, fs, call)
            except Violation:
                raise
            except Exception as e:
                return {'nt': len(fs['cfgs']) >= 6, 'cls': labs + ['sel:none_on_irregular_files:refused:' + type(e).__name__]}
            labs.append('sel:none_on_irregular_files:served')
        else:
            got = HD.run(d, fs, call)
    exp = HD.expected(fs, call)
    compare_all(got, exp, rtol=1e-15, what='hadrons ')
    labs += digit_labels(fs['cfgs'], 'cfg')
    sel = call.get('idl') is not None and len(call['idl']) < len(fs['cfgs'])
    if call.get('idl') is not None:
        labs.append('sel:idl' + ('_subset' if sel else '_all'))
    if len(set(np.diff(fs['cfgs']))) > 1:
        labs.append('irregular_cfgs')
    return {'nt': len(fs['cfgs']) >= 6 and (sel or call['listing'] != 'sorted'), 'cls': labs}


# =====================================================================================================
# writer fidelity

def fidelity_enum(tier, seed, shard, nshards, stats):
    for name, mod in (('rwms', RW), ('flow', FL), ('ms5_xsf', M5), ('sfcf', SF), ('hadrons', HD)):
        spec = {'module': name}
        stats.begin(spec)
        try:
            info = mod.self_check()
        except AssertionError as e:
            v = Violation('harness: writer of %s does not reproduce the sample files: %s' % (name, e))
            v.spec = spec
            raise v
        stats.record(spec, {'nt': name != 'hadrons', 'cls': ['%s:%d_samples' % (name, len(info))]})


def fidelity_oracle(spec):
    {'rwms': RW, 'flow': FL, 'ms5_xsf': M5, 'sfcf': SF, 'hadrons': HD}[spec['module']].self_check()
    return {'nt': True, 'cls': []}


SUBS = [
    Sub('fidelity', None, fidelity_oracle, {'quick': 1, 'thorough': 1}, {'quick': 1, 'thorough': 1}, kind='enum', enum=fidelity_enum,
        doc='writers reproduce every sample file of tests/data byte for byte'),
    Sub('rwms', with_prime(rwms_case), rwms_oracle, {'quick': 400, 'thorough': 5000}, {'quick': 3, 'thorough': 4},
        doc='read_rwms 1.4 / 1.6 / 2.0'),
    Sub('flowE', with_prime(flowE_case), flowE_oracle, {'quick': 400, 'thorough': 5000}, {'quick': 2, 'thorough': 3},
        doc='_extract_flowed_energy_density (ms.dat)'),
    Sub('t0w0', with_prime(t0w0_case), t0w0_oracle, {'quick': 150, 'thorough': 2000}, {'quick': 1, 'thorough': 2},
        doc='extract_t0 / extract_w0 vs fit_t0 on the expected flow data', max_skip_frac=0.3),
    Sub('qtop_ms', with_prime(qtop_ms_case), flowobs_oracle, {'quick': 400, 'thorough': 5000}, {'quick': 1, 'thorough': 2},
        doc='read_qtop openQCD (ms.dat)'),
    Sub('gfms', with_prime(gfms_case), flowobs_oracle, {'quick': 400, 'thorough': 5000}, {'quick': 2, 'thorough': 3},
        doc='read_qtop sfqcd / read_gf_coupling (gfms.dat)'),
    Sub('ms5', with_prime(ms5_case), ms5_oracle, {'quick': 400, 'thorough': 5000}, {'quick': 2, 'thorough': 3},
        doc='read_ms5_xsf'),
    Sub('sfcf', with_prime(sfcf_case), sfcf_oracle, {'quick': 300, 'thorough': 4000}, {'quick': 3, 'thorough': 4},
        doc='read_sfcf separate / compact / appended'),
    Sub('sfcf_multi', with_prime(sfcf_multi_case), sfcf_multi_oracle, {'quick': 300, 'thorough': 4000}, {'quick': 1, 'thorough': 2},
        doc='read_sfcf_multi'),
    Sub('hadrons', with_prime(hadrons_case), hadrons_oracle, {'quick': 200, 'thorough': 3000}, {'quick': 1, 'thorough': 2},
        doc='read_meson_hd5 / read_hd5'),
]
