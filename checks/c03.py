"""C03  Error analysis is invariant under relabelling, rescaling and call history.

Sub-properties (metamorphic relations on generated observables)
  fft       gamma_method(fft=True) == gamma_method(fft=False) in every e_* result
  relabel   configuration numbers i -> a*i+b per ensemble leave every result (and the lengths of e_rho) unchanged
  rename    renaming replicas / ensembles and permuting constructor arguments leaves the results unchanged; the new
            replica labels include labels with further '|' characters ('A|s1|c1': the ensemble is the text before
            the FIRST '|', everything behind it is the free-form name of the replicum)
  affine    adding a constant leaves errors unchanged; multiplying by c scales errors by |c|, tau_int unchanged
            (all four also assert tau_int >= 1/2 and finite non-negative errors)
  derive    "deriving new observables from an object gives the same result whether or not it has been analysed
            before": every operator / function of a catalogue (obs+int, obs-float, number+obs, numpy scalars, unary
            functions, obs∘obs, derived_observable) is applied to a never analysed copy and to a copy with a history of
            gamma_method calls; the two results must agree bitwise in value / fluctuations / configuration lists AND
            in the analysis state they carry (dvalue, ddvalue, presence and content of every e_* dictionary and of
            S / tau_exp / N_sigma), and again after their own analysis; the parent's stored analysis is untouched.
History (model-based, hypothesis RuleBasedStateMachine, traced)
  history   sequences of gamma_method calls with differing arguments, changes of the class-level dictionaries and
            global defaults, and arithmetic on analysed objects.  After every analysis: data untouched (bitwise),
            results equal the stateless reference analysis with the model's effective parameters
            (argument > dictionary > global), repeated call bit-identical; arithmetic on analysed objects is
            bit-identical to arithmetic on never-analysed rebuilt copies - in the data and in the analysis state the
            result carries (obs∘obs and obs∘number with int / float / numpy scalar operands on either side).
            The model derives the ensembles from the names itself (text before the first '|'); base observables
            carry replica labels with further '|' in about a third of the ensembles.
"""
import copy
import math

import numpy as np
from hypothesis import strategies as st

from vlib import gen, machine as vm
from vlib.build import build_obs, chain_samples
from vlib.core import Sub, Violation, Skip, require
from vlib.refgamma import ref_gamma, min_margin
from checks.c02 import compare_analysis, DEFAULTS, raw_chains

PROPERTY = 'C03'
LEVEL = 'exploration'
RULE = ('Metamorphic cases: Hypothesis-generated observables as in C02 plus a transformation (fft switch, affine relabelling '
        'i->a*i+b per ensemble, replica/ensemble renaming and argument permutation, shift and scale of the data). '
        'Replica labels with further "|" characters (ensemble|stream|chain; label nested_names) are produced in about a '
        'third of the ensembles of every sub-property and among the new names of the rename relation. '
        'derive: an observable, a history of 1-3 gamma_method calls on one copy, a number c (int / float / numpy scalar) and a '
        'second observable; the whole operator catalogue is applied to the analysed and to the never analysed copy. '
        'Histories: RuleBasedStateMachine over a pool of observables with rules analyse / set or delete dictionary entries / '
        'set global defaults / arithmetic between pool members / arithmetic with plain numbers. Non-trivial: relabelling with '
        'a>1 of an irregular or multi-replica layout, a renaming that changes the sort order of replicas or introduces a '
        'nested label, a derivation from a parent whose analysis succeeded, or a history with >= 2 analyses of one object '
        'under different effective parameters or with a dictionary change in between. Window ties (|margin| < 1e-7) are skipped.')
ASSUMPTIONS = ['near ties of the windowing criterion are recognised with ref_gamma margins and skipped',
               'shift constants are limited to 1e3 sigma so that rounding of (sample - mean) stays below the tolerance']

TIE = 1e-7
FIELDS = ('e_dvalue', 'e_ddvalue', 'e_tauint', 'e_dtauint', 'e_windowsize')


def snapshot_analysis(o):
    d = {f: {k: (float(v) if not isinstance(v, (int, np.integer)) else int(v)) for k, v in getattr(o, f).items()} for f in FIELDS}
    d['e_rho'] = {k: np.array(v, dtype=float) for k, v in o.e_rho.items()}
    d['e_drho'] = {k: np.array(v, dtype=float) for k, v in o.e_drho.items()}
    d['dvalue'] = float(o.dvalue)
    d['ddvalue'] = float(o.ddvalue)
    return d


def cmp_analysis(a, b, what, rtol, scale=1.0, keymap=None, tau_only=False):
    """b must equal a with errors multiplied by `scale`."""
    km = keymap or (lambda k: k)
    for f in FIELDS:
        fac = scale if f in ('e_dvalue',) else 1.0
        if f == 'e_ddvalue':
            fac = scale
        require(sorted(km(k) for k in a[f]) == sorted(b[f]), what + ': keys of %s differ' % f, sorted(a[f]), sorted(b[f]))
        for k, v in a[f].items():
            w = b[f][km(k)]
            if f == 'e_windowsize':
                require(v == w, what + ': window of %s changed from %r to %r' % (k, v, w))
            else:
                require(abs(v * fac - w) <= rtol * max(abs(v * fac), abs(w)) + 1e-300, what + ': %s[%s] changed from %r to %r' % (f, k, v * fac, w))
    for f in ('e_rho', 'e_drho'):
        for k, v in a[f].items():
            w = b[f][km(k)]
            require(len(v) == len(w), what + ': length of %s[%s] changed from %d to %d' % (f, k, len(v), len(w)))
            require(np.all(np.abs(v - w) <= max(rtol, 1e-12) * 10), what + ': %s[%s] changed' % (f, k), v[:4].tolist(), w[:4].tolist())
    for f in ('dvalue', 'ddvalue'):
        v, w = a[f] * scale, b[f]
        require(abs(v - w) <= rtol * max(abs(v), abs(w)) + 1e-300, what + ': %s changed from %r to %r' % (f, v, w))


def sanity(o, what):
    for e, t in o.e_tauint.items():
        require(np.isfinite(t) and t >= 0.5, what + ': tau_int[%s] = %r is below 1/2 or not finite' % (e, t))
    for f in ('e_dvalue', 'e_ddvalue', 'e_dtauint'):
        for e, v in getattr(o, f).items():
            require(np.isfinite(v) and v >= 0, what + ': %s[%s] = %r is negative or not finite' % (f, e, v))
    require(np.isfinite(o.dvalue) and o.dvalue >= 0 and np.isfinite(o.ddvalue) and o.ddvalue >= 0, what + ': dvalue/ddvalue', o.dvalue, o.ddvalue)


def tie_guard(spec_obs, kw, extra_chains=None):
    """Skip cases in which the window decision is an exact tie (rounding legitimately decides)."""
    chains = extra_chains if extra_chains is not None else raw_chains(spec_obs)
    enss = sorted(set(n.split('|')[0] for n in chains))
    eff = {k: {e: kw.get(k, DEFAULTS[k]) for e in enss} for k in DEFAULTS}
    try:
        per, _, _ = ref_gamma(chains, [], eff['S'], eff['tau_exp'], eff['N_sigma'])
    except ValueError:
        return None
    if any(min_margin(r) < TIE for r in per.values()):
        raise Skip('near-tie of the windowing criterion')
    return per


@st.composite
def gm_kwargs(draw):
    kw = {}
    if draw(st.booleans()):
        kw['S'] = draw(st.one_of(gen.fl(0.5, 5.0), st.sampled_from([1.0, 2.0, 3, 0])))
    if draw(st.integers(0, 3)) == 0:
        kw['tau_exp'] = draw(st.one_of(gen.fl(0.5, 15.0), st.sampled_from([2, 10.0])))
        kw['N_sigma'] = draw(st.sampled_from([1.0, 1.5, 2, 0.5]))
    return kw


def run_gm(o, kw):
    """Returns the exception (or None)."""
    try:
        o.gamma_method(**kw)
    except Exception as e:
        return e
    return None


def both(o1, o2, kw1, kw2, what):
    e1, e2 = run_gm(o1, kw1), run_gm(o2, kw2)
    if (e1 is None) != (e2 is None):
        raise Violation(what + ': one analysis raised (%r), the other did not (%r)' % (e1, e2))
    if e1 is not None:
        require(type(e1) is type(e2), what + ': different exceptions', e1, e2)
        return False
    sanity(o1, what)
    sanity(o2, what)
    return True


def layout_labels(spec_obs):
    labs = set()
    reps = {}
    for c in spec_obs['chains']:
        labs.add('idl:' + gen.classify_idl(c['idl']))
        reps.setdefault(c['name'].split('|')[0], []).append(c['name'])
    if any(len(v) > 1 for v in reps.values()):
        labs.add('multi_replica')
    if any(c['name'].count('|') > 1 for c in spec_obs['chains']):
        labs.add('nested_names')
        if any(len(set(n.rsplit('|', 1)[0] for n in v)) > 1 for v in reps.values()):
            labs.add('nested_names:several_prefixes')      # replicas of one ensemble differ before their LAST '|'
    return labs


# Replica labels that contain further '|' characters.  A name is '<ensemble>|<replicum>': the constructor, e_content and
# derived_observable all take the text before the FIRST '|' as the ensemble, the rest is the free-form name of the
# replicum (stream|chain, run|segment|part ...; 'B|r1' = the name of another ensemble occurs inside the label).
NESTED_SUFFIX = ['s1|c1', 's1|c2', 's2|c1', 'a|b|1', 'a|b|2', 'a|c|1', 'r1|x', 'B|r1', 'A|r2']


@st.composite
def obs_nested(draw, base, one_in=3):
    """An observable spec of `base` in which the replicas of about every `one_in`-th ensemble carry nested labels."""
    obs = copy.deepcopy(draw(base))
    groups = {}
    for c in obs['chains']:
        groups.setdefault(c['name'].split('|')[0], []).append(c)
    for e in sorted(groups):
        if draw(st.integers(0, one_in - 1)) != 0:
            continue
        chs = groups[e]
        suf = draw(st.lists(st.sampled_from(NESTED_SUFFIX), min_size=len(chs), max_size=len(chs), unique=True))
        for c, s_ in zip(chs, suf):
            c['name'] = e + '|' + s_
    return obs


# ------------------------------------------------------------------------------------------- fft
@st.composite
def fft_case(draw, tier):
    nmax = 40 if tier == 'quick' else 300
    return {'obs': draw(obs_nested(gen.obs_spec(nmax=nmax, data_kinds=('white', 'ar1', 'alt', 'count', 'list')))), 'kw': draw(gm_kwargs())}


def fft_oracle(spec):
    tie_guard(spec['obs'], spec['kw'])
    o1, o2 = build_obs(spec['obs']), build_obs(spec['obs'])
    if not both(o1, o2, dict(spec['kw'], fft=True), dict(spec['kw'], fft=False), 'fft on/off'):
        return {'nt': False, 'cls': ['exception']}
    cmp_analysis(snapshot_analysis(o1), snapshot_analysis(o2), 'fft=True vs fft=False', 1e-9)
    labs = layout_labels(spec['obs'])
    return {'nt': 'idl:contig' not in labs or 'multi_replica' in labs or 'tau_exp' in spec['kw'], 'cls': sorted(labs)}


# ------------------------------------------------------------------------------------------- relabel
@st.composite
def relabel_case(draw, tier):
    nmax = 40 if tier == 'quick' else 300
    obs = draw(obs_nested(gen.obs_spec(nmax=nmax, data_kinds=('white', 'ar1', 'alt', 'count', 'list'))))
    enss = sorted(set(c['name'].split('|')[0] for c in obs['chains']))
    tr = {e: [draw(st.integers(1, 7)), draw(st.one_of(st.integers(0, 50), st.integers(0, 100000)))] for e in enss}
    return {'obs': obs, 'tr': tr, 'kw': draw(gm_kwargs()), 'fft': draw(st.booleans())}


def relabel_oracle(spec):
    tie_guard(spec['obs'], spec['kw'])
    o1 = build_obs(spec['obs'])
    sp2 = copy.deepcopy(spec['obs'])
    for c in sp2['chains']:
        a, b = spec['tr'][c['name'].split('|')[0]]
        c['idl'] = [a * i + b for i in c['idl']]
    o2 = build_obs(sp2)
    kw = dict(spec['kw'], fft=spec['fft'])
    if not both(o1, o2, kw, kw, 'relabelling'):
        return {'nt': False, 'cls': ['exception']}
    cmp_analysis(snapshot_analysis(o1), snapshot_analysis(o2), 'configuration numbers i -> a*i+b (%r)' % spec['tr'], 1e-11)
    labs = layout_labels(spec['obs'])
    amax = max(a for a, b in spec['tr'].values())
    labs.add('a>1' if amax > 1 else 'a=1')
    return {'nt': amax > 1 and ('idl:irregular' in labs or 'multi_replica' in labs), 'cls': sorted(labs)}


# ------------------------------------------------------------------------------------------- rename
RENAME_PLAIN = ['r1', 'r2', 'r10', 'a', 'b', 'rep_3', '0', '00']


@st.composite
def rename_case(draw, tier):
    nmax = 40 if tier == 'quick' else 300
    obs = draw(obs_nested(gen.obs_spec(nmax=nmax, data_kinds=('white', 'ar1', 'count', 'list'), allow_bare=False), one_in=4))
    enss = sorted(set(c['name'].split('|')[0] for c in obs['chains']))
    newens = draw(st.lists(st.sampled_from(['A', 'B', 'Q', 'ens3', 'x_y', 'AB', 'zz']), min_size=len(enss), max_size=len(enss), unique=True))
    emap = dict(zip(enss, newens))
    rmap = {}
    for e in enss:
        reps = [c['name'] for c in obs['chains'] if c['name'].split('|')[0] == e]
        # plain labels, or (every second ensemble) labels that may contain further '|' characters: all of them are replicas
        # of the ensemble named before the FIRST '|'
        pool = RENAME_PLAIN if draw(st.booleans()) else RENAME_PLAIN + NESTED_SUFFIX + NESTED_SUFFIX
        suf = draw(st.lists(st.sampled_from(pool), min_size=len(reps), max_size=len(reps), unique=True))
        for r, s in zip(reps, suf):
            rmap[r] = emap[e] + '|' + s
    perm = draw(st.permutations(list(range(len(obs['chains'])))))
    return {'obs': obs, 'emap': emap, 'rmap': rmap, 'perm': perm, 'kw': draw(gm_kwargs())}


def rename_oracle(spec):
    tie_guard(spec['obs'], spec['kw'])
    o1 = build_obs(spec['obs'])
    sp2 = copy.deepcopy(spec['obs'])
    for c in sp2['chains']:
        c['name'] = spec['rmap'][c['name']]
    sp2['chains'] = [sp2['chains'][i] for i in spec['perm']]
    o2 = build_obs(sp2)
    if not both(o1, o2, spec['kw'], spec['kw'], 'renaming'):
        return {'nt': False, 'cls': ['exception']}
    cov = set(c['name'] for c in spec['obs'].get('cov', []))
    cmp_analysis(snapshot_analysis(o1), snapshot_analysis(o2), 'replica renaming / argument order', 1e-9,
                 keymap=lambda k: k if k in cov else spec['emap'].get(k, k))
    old = sorted(spec['rmap'])
    new_order = sorted(old, key=lambda n: spec['rmap'][n])
    labs = layout_labels(spec['obs'])
    new_labs = layout_labels(sp2)
    extra = ['order_changed' if old != new_order else 'order_same']
    extra += ['to:' + x for x in sorted(new_labs) if x.startswith('nested_names')]
    return {'nt': old != new_order or 'nested_names' in new_labs, 'cls': sorted(labs) + extra}


# ------------------------------------------------------------------------------------------- affine
@st.composite
def affine_case(draw, tier):
    nmax = 40 if tier == 'quick' else 300
    obs = draw(obs_nested(gen.obs_spec(nmax=nmax, ens_max=2, data_kinds=('white', 'ar1', 'list'), with_cov=False,
                                       sigma=gen.fl(0.05, 2.0), mean=gen.fl(-3, 3))))
    mode = draw(st.sampled_from(['shift', 'scale']))
    c = draw(gen.fl(-50, 50)) if mode == 'shift' else draw(st.one_of(gen.fl(0.01, 100), gen.fl(-100, -0.01), st.sampled_from([-1.0, 2.0, 0.5]),
                                                                  st.builds(lambda sg, e: sg * 10.0 ** e, st.sampled_from([1.0, -1.0]), gen.fl(-18, 18)),
                                                                  st.sampled_from([1e-14, 1e-15, 3e-16, 1e-17, 1e-18, -1e-16, 1e12, 1e15, 1e18])))
    return {'obs': obs, 'mode': mode, 'c': c, 'kw': draw(gm_kwargs())}


def affine_oracle(spec):
    import pyerrors as pe
    tie_guard(spec['obs'], spec['kw'])
    for ch in spec['obs']['chains']:
        x = chain_samples(ch)
        if float(np.max(np.abs(x - np.mean(x)))) <= 1e-12 * float(np.max(np.abs(x))):
            raise Skip('constant data: variance is rounding noise, nothing is defined')
    if spec['mode'] == 'scale':
        # the analysis forms fourth powers of the fluctuations ((dvalue * ddvalue)^2): data whose spread, before or after the
        # multiplication, lies outside 1e-70 .. 1e70 leave the range in which these are representable (seed-7 false alarm:
        # spread 1e-84, ddvalue underflows to 0 on one side only) - floating-point range, not what the property is about
        for ch in spec['obs']['chains']:
            x = chain_samples(ch)
            sp_ = float(np.max(np.abs(x - np.mean(x))))
            if sp_ * min(1.0, abs(spec['c'])) < 1e-70 or sp_ * max(1.0, abs(spec['c'])) > 1e70:
                raise Skip('spread of the data outside 1e-70 .. 1e70: fourth powers under- or overflow')
    groups = {}
    for ch in spec['obs']['chains']:
        groups.setdefault(ch['name'].split('|')[0], []).append(ch)
    o1 = build_obs(spec['obs'])
    c = spec['c']
    if spec['mode'] == 'shift':
        # the constant is measured in units of the spread of the data (|c| <= 1000 sigma): a constant that is huge compared
        # with the fluctuations pushes them into the rounding of (sample - mean), which is not what the property is about
        spread = max(float(np.std(chain_samples(ch))) for ch in spec['obs']['chains'])
        c = 20.0 * c * spread
    o2 = None
    for e, chs in sorted(groups.items()):
        xs = [chain_samples(ch) for ch in chs]
        xs = [x + c for x in xs] if spec['mode'] == 'shift' else [x * c for x in xs]
        from vlib.build import idl_arg
        p = pe.Obs(xs, [ch['name'] for ch in chs], idl=[idl_arg(ch) for ch in chs])
        o2 = p if o2 is None else o2 + p
    if not both(o1, o2, spec['kw'], spec['kw'], spec['mode']):
        return {'nt': False, 'cls': ['exception']}
    scale = 1.0 if spec['mode'] == 'shift' else abs(c)
    cmp_analysis(snapshot_analysis(o1), snapshot_analysis(o2), 'data %s by %r' % (spec['mode'], c), 1e-8, scale=scale)
    return {'nt': True, 'cls': ['mode:' + spec['mode']] + sorted(layout_labels(spec['obs']))}


# ------------------------------------------------------------------------------------------- history machine
PARAMS = ('S', 'tau_exp', 'N_sigma')
VALS = {'S': st.one_of(gen.fl(0.5, 5.0), st.sampled_from([1.0, 2.0, 3, 0, 1.5])),
        'tau_exp': st.one_of(st.just(0.0), gen.fl(0.5, 12.0), st.sampled_from([0, 3, 8.0])),
        'N_sigma': st.sampled_from([1.0, 0.5, 2, 1.5])}


def pval():
    return st.sampled_from(PARAMS).flatmap(lambda p: st.tuples(st.just(p), VALS[p]))


@st.composite
def analyse_opts(draw):
    kw = {}
    for p in PARAMS:
        if draw(st.integers(0, 2)) == 0:
            kw[p] = draw(VALS[p])
    f = draw(st.sampled_from([None, None, True, False]))
    if f is not None:
        kw['fft'] = f
    return kw


def obs_bytes(o):
    return (repr(o.value), tuple((n, o.deltas[n].tobytes(), tuple(o.idl[n]), type(o.idl[n]).__name__, repr(o.r_values[n])) for n in sorted(o.deltas)),
            tuple((k, v.grad.tobytes()) for k, v in sorted(o.covobs.items())), tuple(o.names))


STATE_ATTRS = ('e_dvalue', 'e_ddvalue', 'e_tauint', 'e_dtauint', 'e_windowsize', 'e_rho', 'e_drho', 'e_n_tauint', 'e_n_dtauint',
               'S', 'tau_exp', 'N_sigma')


def analysis_state(o):
    """Everything an observable reports about an error analysis: dvalue, ddvalue and, for every attribute gamma_method
    stores, whether it exists and what it contains (exact, as text)."""
    state = {'dvalue': repr(float(o.dvalue)), 'ddvalue': repr(float(o.ddvalue))}
    for a in STATE_ATTRS:
        if hasattr(o, a):
            v = getattr(o, a)
            state[a] = repr(sorted((str(k), np.asarray(x, dtype=float).tolist()) for k, x in v.items())) if isinstance(v, dict) else repr(v)
    return state


def same_state(res, ref, what):
    """`res` (derived from analysed objects) must carry the analysis state of `ref` (the same derivation from never
    analysed copies)."""
    s1, s2 = analysis_state(res), analysis_state(ref)
    if s1 == s2:
        return
    diff = sorted(k for k in set(s1) | set(s2) if s1.get(k) != s2.get(k))
    k = 'dvalue' if 'dvalue' in diff else diff[0]
    raise Violation('%s: the result carries another analysis state when the operands have been analysed before than when they '
                    'have not: differing %s; %s = %s (operands analysed before) vs %s (never analysed)'
                    % (what, diff, k, str(s1.get(k, 'not set'))[:80], str(s2.get(k, 'not set'))[:80]))


def ensembles_of(o):
    """Ensembles by the naming rule (text before the first '|'), not by what the library reports."""
    return sorted(set(n.split('|')[0] for n in o.names))


# numbers as operands: plain data (c, ctype) -> the Python / numpy scalar
CTYPES = ['int', 'float', 'float', 'np.float64', 'np.int64', 'np.float32', 'bool']


def number(c, ctype):
    if ctype == 'int':
        return int(round(c))
    if ctype == 'bool':
        return bool(round(c) % 2)
    if ctype == 'np.int64':
        return np.int64(int(round(c)))
    if ctype == 'np.float64':
        return np.float64(c)
    if ctype == 'np.float32':
        return np.float32(c)
    return float(c)


def numbers():
    """0 or 0.05 <= |c| <= 5: the operand is of the order of the data, so that no product or quotient leaves the range in which
    the squares of the fluctuations are representable (tiny divisors are about overflow, not about the call history)."""
    return st.one_of(gen.fl(0.05, 5.0), gen.fl(-5.0, -0.05), st.sampled_from([0.0, 1.0, -1.0, 2.0, 0.5, 3.0, -2.0, 1.5]))


def moderate(o, bound):
    """value and fluctuations are finite and below `bound` in magnitude"""
    m = max([abs(float(o.value))] + [float(np.max(np.abs(d))) for d in o.deltas.values() if len(d)])
    return bool(np.isfinite(m)) and m < bound


# operator catalogue: name -> (fn(o, c, b), admissible(o, c)); o, b observables, c a number
def _always(o, c):
    return True


NUM_OPS = {
    'o+c': (lambda o, c, b: o + c, _always),
    'c+o': (lambda o, c, b: c + o, _always),
    'o-c': (lambda o, c, b: o - c, _always),
    'c-o': (lambda o, c, b: c - o, _always),
    'o*c': (lambda o, c, b: o * c, _always),
    'c*o': (lambda o, c, b: c * o, _always),
    'o/c': (lambda o, c, b: o / c, lambda o, c: c != 0),
    'c/o': (lambda o, c, b: c / o, lambda o, c: abs(o.value) > 0.05),
    'o**2': (lambda o, c, b: o ** 2, _always),
    '2**o': (lambda o, c, b: 2 ** o, lambda o, c: abs(o.value) < 10),
}
UNARY_OPS = {
    '-o': (lambda o, c, b: -o, _always),
    'abs': (lambda o, c, b: abs(o), _always),
    'sin': (lambda o, c, b: np.sin(o), _always),
    'cos': (lambda o, c, b: np.cos(o), _always),
    'tanh': (lambda o, c, b: np.tanh(o), _always),
    'arctan': (lambda o, c, b: np.arctan(o), _always),
    'exp': (lambda o, c, b: np.exp(o), lambda o, c: abs(o.value) < 50),
    'sqrt(o*o+1)': (lambda o, c, b: np.sqrt(o * o + 1), _always),
}


def _derived(o, c, b):
    import pyerrors as pe
    return pe.derived_observable(lambda x, **kwargs: x[0] * x[1] + c * x[0], [o, b])


def _derived_num(o, c, b):
    import pyerrors as pe
    return pe.derived_observable(lambda x, **kwargs: x[0] * x[0] + c, [o], num_grad=True)


BINARY_OPS = {
    'o+b': (lambda o, c, b: o + b, _always),
    'b-o': (lambda o, c, b: b - o, _always),
    'o*b': (lambda o, c, b: o * b, _always),
    'o/(b*b+1)': (lambda o, c, b: o / (b * b + 1.0), _always),
    'o+o': (lambda o, c, b: o + o, _always),
    'derived_observable(o,b)': (_derived, _always),
    'derived_observable(o,num_grad)': (_derived_num, _always),
}
ALL_OPS = dict(NUM_OPS, **UNARY_OPS)
ALL_OPS.update(BINARY_OPS)


def make_history_machine(tier):
    nmax = 30 if tier == 'quick' else 120

    class History(vm.TraceMachine):
        def setup(self):
            self.pool = []          # list of dict(recipe=..., obj=pe object)
            self.mdict = {p: {} for p in PARAMS}     # model of the class-level dictionaries
            self.mglob = dict(DEFAULTS)
            self.analyses = {}      # pool index -> list of effective-parameter fingerprints
            self.dict_changed_since = {}
            self.nt = False

        # --- helpers
        def rebuild(self, recipe):
            if recipe[0] == 'base':
                return build_obs(recipe[1])
            if recipe[0] == 'num':
                _, op, i, c, ctype = recipe
                return NUM_OPS[op][0](self.rebuild(self.pool[i]['recipe']), number(c, ctype), None)
            _, op, i, j = recipe
            a, b = self.rebuild(self.pool[i]['recipe']), self.rebuild(self.pool[j]['recipe'])
            return self.apply(op, a, b)

        @staticmethod
        def apply(op, a, b):
            if op == '+':
                return a + b
            if op == '-':
                return a - b
            if op == '*':
                return a * b
            if op == 'sin+':
                return np.sin(a) + b
            return a / (b * b + 1.0)

        def effective(self, o, kw):
            eff = {}
            for p in PARAMS:
                eff[p] = {}
                for e in ensembles_of(o):
                    if p in kw:
                        eff[p][e] = kw[p]
                    elif e in self.mdict[p]:
                        eff[p][e] = self.mdict[p][e]
                    else:
                        eff[p][e] = self.mglob[p]
            return eff

        def check_class_state(self):
            import pyerrors as pe
            for p in PARAMS:
                require(getattr(pe.Obs, p + '_dict') == self.mdict[p], 'class dictionary %s_dict was modified by the library' % p,
                        getattr(pe.Obs, p + '_dict'), self.mdict[p])
                require(getattr(pe.Obs, p + '_global') == self.mglob[p], 'global default %s_global was modified by the library' % p)

        # --- rules
        @vm.rule(spec=obs_nested(gen.obs_spec(ens_max=2, rep_max=2, nmin=8, nmax=nmax, data_kinds=('white', 'ar1', 'count'), sigma=gen.fl(0.05, 1.0))))
        @vm.traced
        def add_base(self, spec):
            if len(self.pool) >= 5:
                return
            spec = copy.deepcopy(spec)
            for cv in spec['cov']:      # covariance inputs of different base observables are different inputs
                cv['name'] = '%s_%d' % (cv['name'], len(self.pool))
            self.pool.append({'recipe': ('base', spec), 'obj': build_obs(spec)})
            if 'nested_names' in layout_labels(spec):
                self.labels.append('base:nested_names')

        @vm.precondition(lambda self: len(self.pool) > 0)
        @vm.rule(i=st.integers(0, 9), kw=analyse_opts())
        @vm.traced
        def analyse(self, i, kw):
            ent = self.pool[i % len(self.pool)]
            o = ent['obj']
            before = obs_bytes(o)
            eff = self.effective(o, kw)
            chains = {n: (list(o.idl[n]), np.array(o.deltas[n])) for n in o.deltas}
            covparts = [(v.cov, v.grad) for v in o.covobs.values()]
            ref_exc = None
            try:
                per, dv, ddv = ref_gamma(chains, covparts, eff['S'], eff['tau_exp'], eff['N_sigma'])
            except ValueError as e:
                ref_exc = e
            exc = run_gm(o, kw)
            self.check_class_state()
            require(obs_bytes(o) == before, 'gamma_method altered value, fluctuations or configuration lists of the observable')
            if ref_exc is not None or exc is not None:
                require((ref_exc is None) == (exc is None), 'analysis raised / did not raise unlike the stateless reference', exc, ref_exc)
                self.labels.append('analyse:exception')
                return
            if any(min_margin(r) < TIE for r in per.values()):
                self.labels.append('analyse:tie')
                return
            sanity(o, 'history')
            compare_analysis(o, per, dv, ddv, 'analysis #%d of pool[%d] with %r, effective %r' % (len(self.analyses.get(i % len(self.pool), [])) + 1, i % len(self.pool), kw, eff))
            for p in PARAMS:
                require({e: getattr(o, p)[e] for e in eff[p] if e in getattr(o, p)} == {e: eff[p][e] for e in eff[p] if e in getattr(o, p)},
                        'recorded %s differs from the effective parameters' % p, getattr(o, p), eff[p])
            snap = snapshot_analysis(o)
            run_gm(o, kw)
            snap2 = snapshot_analysis(o)
            for f in FIELDS + ('dvalue', 'ddvalue'):
                require(snap[f] == snap2[f], 'repeating the same analysis changed %s' % f, snap[f], snap2[f])
            for f in ('e_rho', 'e_drho'):
                require(all(np.array_equal(snap[f][k], snap2[f][k]) for k in snap[f]), 'repeating the same analysis changed %s' % f)
            key = i % len(self.pool)
            fp = repr(sorted((p, sorted(eff[p].items())) for p in PARAMS))
            hist = self.analyses.setdefault(key, [])
            if hist and (hist[-1] != fp or self.dict_changed_since.get(key)):
                self.nt = True
            hist.append(fp)
            self.dict_changed_since[key] = False
            self.labels.append('analyse:' + ','.join(sorted(kw)) if kw else 'analyse:defaults')

        @vm.rule(where=st.sampled_from(['dict', 'dict', 'global', 'del']), pv=pval(), ens=st.sampled_from(gen.ENSEMBLES))
        @vm.traced
        def set_param(self, where, pv, ens):
            import pyerrors as pe
            p, v = pv
            if where == 'dict':
                getattr(pe.Obs, p + '_dict')[ens] = v
                self.mdict[p][ens] = v
            elif where == 'global':
                setattr(pe.Obs, p + '_global', v)
                self.mglob[p] = v
            else:
                getattr(pe.Obs, p + '_dict').pop(ens, None)
                if self.mdict[p].pop(ens, None) is None:
                    return
            for k in self.dict_changed_since:
                self.dict_changed_since[k] = True
            self.labels.append('set_%s:%s' % (where, p))

        @vm.precondition(lambda self: len(self.pool) > 0)
        @vm.rule(i=st.integers(0, 9), j=st.integers(0, 9), op=st.sampled_from(['+', '-', '*', 'sin+', '/']))
        @vm.traced
        def arith(self, i, j, op):
            if len(self.pool) >= 8:
                return
            i, j = i % len(self.pool), j % len(self.pool)
            a, b = self.pool[i]['obj'], self.pool[j]['obj']
            if not (moderate(a, 1e30) and moderate(b, 1e30)):       # repeated products: keep squares of the fluctuations representable
                self.labels.append('arith:skipped_huge')
                return
            before = (obs_bytes(a), obs_bytes(b))
            res = self.apply(op, a, b)
            require((obs_bytes(a), obs_bytes(b)) == before, 'arithmetic altered its operands')
            recipe = ('op', op, i, j)
            fresh = self.rebuild(recipe)
            require(obs_bytes(res) == obs_bytes(fresh), 'arithmetic on analysed objects differs from arithmetic on never-analysed copies (op %s)' % op)
            same_state(res, fresh, 'pool[%d] %s pool[%d]' % (i, op, j))
            self.pool.append({'recipe': recipe, 'obj': res})
            analysed = hasattr(a, 'e_dvalue') or hasattr(b, 'e_dvalue')
            self.labels.append('arith:' + ('analysed' if analysed else 'fresh'))

        @vm.precondition(lambda self: len(self.pool) > 0)
        @vm.rule(i=st.integers(0, 9), op=st.sampled_from(sorted(NUM_OPS)), c=numbers(), ctype=st.sampled_from(CTYPES))
        @vm.traced
        def arith_num(self, i, op, c, ctype):
            """pool member (analysed or not) combined with a plain number on either side"""
            i = i % len(self.pool)
            a = self.pool[i]['obj']
            y = number(c, ctype)
            fn, admissible = NUM_OPS[op]
            if not admissible(a, y) or not moderate(a, 1e3):
                return
            before = obs_bytes(a)
            state = analysis_state(a)
            res = fn(a, y, None)
            require(obs_bytes(a) == before and analysis_state(a) == state, 'arithmetic with a number altered the observable it was applied to (%s)' % op)
            recipe = ('num', op, i, c, ctype)
            fresh = self.rebuild(recipe)
            what = '%s with o = pool[%d], c = %r (%s)' % (op, i, y, ctype)
            require(obs_bytes(res) == obs_bytes(fresh), 'arithmetic on analysed objects differs from arithmetic on never-analysed copies (%s)' % what)
            same_state(res, fresh, what)
            if len(self.pool) < 8:
                self.pool.append({'recipe': recipe, 'obj': res})
            analysed = hasattr(a, 'e_dvalue')
            self.labels.append('arith_num:' + ('analysed' if analysed else 'fresh'))
            if analysed:
                self.labels.append('arith_num:analysed:' + op)
                self.labels.append('arith_num:analysed:' + ctype)

        def info(self):
            return {'nt': self.nt, 'cls': sorted(set(self.labels))}

    return History


_HM = {}


def history_machine(tier):
    if tier not in _HM:
        _HM[tier] = make_history_machine(tier)
    return _HM[tier]


def history_replay(spec):
    return vm.replay(history_machine('quick'), spec['trace'])


# ------------------------------------------------------------------------------------------- derive
@st.composite
def derive_case(draw, tier):
    nmax = 30 if tier == 'quick' else 150
    obs = draw(obs_nested(gen.obs_spec(ens_max=2, nmin=8, nmax=nmax, data_kinds=('white', 'ar1', 'count', 'list'), sigma=gen.fl(0.05, 1.0))))
    # second operand of the binary operations: same or other ensembles, no covariance part (one matrix per name)
    obs2 = draw(obs_nested(gen.obs_spec(ens_max=2, rep_max=2, nmin=8, nmax=nmax, data_kinds=('white', 'ar1'), sigma=gen.fl(0.05, 1.0), with_cov=False)))
    hist = draw(st.lists(analyse_opts(), min_size=1, max_size=3))
    return {'obs': obs, 'obs2': obs2, 'hist': hist, 'b_analysed': draw(st.booleans()), 'c': draw(numbers()), 'ctype': draw(st.sampled_from(CTYPES)),
            'kw': draw(analyse_opts()), 'rot': draw(st.integers(0, 3))}


def _attempt(fn, o, c, b):
    try:
        return fn(o, c, b), None
    except Exception as e:
        return None, e


def derive_oracle(spec):
    fresh, parent = build_obs(spec['obs']), build_obs(spec['obs'])
    b_fresh, b_parent = build_obs(spec['obs2']), build_obs(spec['obs2'])
    n_ok = 0
    for kw in spec['hist']:
        n_ok += run_gm(parent, kw) is None
    if spec['b_analysed']:
        run_gm(b_parent, spec['hist'][-1])
    require(obs_bytes(parent) == obs_bytes(fresh), 'gamma_method altered value, fluctuations or configuration lists of the observable')
    before = (obs_bytes(parent), analysis_state(parent), obs_bytes(b_parent), analysis_state(b_parent))
    c = number(spec['c'], spec['ctype'])
    done = 0
    for k, name in enumerate(sorted(ALL_OPS)):
        fn, admissible = ALL_OPS[name]
        if not admissible(fresh, c):
            continue
        what = '%s with c = %r (%s), o analysed %d times before%s' % (name, c, spec['ctype'], n_ok, ', b analysed before' if spec['b_analysed'] and name in BINARY_OPS else '')
        r1, e1 = _attempt(fn, fresh, c, b_fresh)
        r2, e2 = _attempt(fn, parent, c, b_parent)
        require(type(e1) is type(e2), what + ': raises for one of analysed / never analysed operands only', e2, e1)
        if e1 is not None:
            continue
        require(r2 is not parent and r2 is not b_parent, what + ': the result is the operand itself')
        require(obs_bytes(r2) == obs_bytes(r1), what + ': value, fluctuations or configuration lists differ from the same derivation from never-analysed copies',
                r2.value, r1.value)
        same_state(r2, r1, what)
        done += 1
        # ... and their own analysis (every fourth entry of the catalogue, which ones is part of the case)
        if (k + spec['rot']) % 4:
            continue
        x1, x2 = run_gm(r1, spec['kw']), run_gm(r2, spec['kw'])
        require(type(x1) is type(x2), what + ': gamma_method%r of the result raises for one of analysed / never analysed operands only' % spec['kw'], x2, x1)
        same_state(r2, r1, what + ', after gamma_method(%r) of the result' % spec['kw'])
    after = (obs_bytes(parent), analysis_state(parent), obs_bytes(b_parent), analysis_state(b_parent))
    require(after == before, 'deriving observables from analysed objects (and analysing the results) changed the operands or their stored analysis')
    labs = layout_labels(spec['obs'])
    cls = ['ctype:' + spec['ctype'], 'parent_analyses:%d' % n_ok, 'b_analysed' if spec['b_analysed'] else 'b_fresh', 'ops:%d' % done]
    cls += [x for x in sorted(labs) if x.startswith('nested') or x == 'multi_replica']
    return {'nt': n_ok > 0 and done > 0, 'cls': cls}


SUBS = [
    Sub('fft', fft_case, fft_oracle, {'quick': 350, 'thorough': 3000}, {'quick': 2, 'thorough': 8}, doc='fft vs direct summation'),
    Sub('relabel', relabel_case, relabel_oracle, {'quick': 450, 'thorough': 4000}, {'quick': 3, 'thorough': 8}, doc='i -> a*i+b per ensemble'),
    Sub('rename', rename_case, rename_oracle, {'quick': 350, 'thorough': 3000}, {'quick': 2, 'thorough': 8}, doc='replica / ensemble renaming, argument order'),
    Sub('affine', affine_case, affine_oracle, {'quick': 350, 'thorough': 3000}, {'quick': 2, 'thorough': 8}, doc='shift and scale of the data'),
    Sub('derive', derive_case, derive_oracle, {'quick': 100, 'thorough': 1500}, {'quick': 2, 'thorough': 8},
        doc='operator catalogue on analysed vs never analysed copies: same data, same analysis state'),
    Sub('history', None, history_replay, {'quick': 120, 'thorough': 600}, {'quick': 7, 'thorough': 16}, kind='machine',
        machine=history_machine, steps={'quick': 25, 'thorough': 40}, doc='model-based call histories'),
]
