"""C14  Correlator arithmetic acts timeslice-wise and propagates undefined slices.

Sub-properties
  arith   binary operators + - * / ** @ between a correlator and a partner (correlator, Obs, CObs, int, float, complex,
          for @ also a numeric matrix) in both operand orders, real and complex content, N = 1..3: the result is a Corr
          of the same T and N whose entry at every timeslice equals the same operator applied with the Obs / CObs
          operators to the operands' entries (differential oracle), and it is undefined exactly where an operand is
          undefined or an entry of the result is NaN.
  func    neg, abs, sqrt, log, exp and the 12 trigonometric / hyperbolic functions (as numpy function and as method)
          on real correlators whose entries lie inside and outside the domain: same differential oracle, out-of-domain
          (NaN) entries must become undefined timeslices.
  index   roll, reverse, thin, symmetric, anti_symmetric, T_symmetry, item, projected, trace, matrix_symmetric, Hankel
          against independently written index maps (pure permutations: the operand's entry itself; averages: first-order
          combination through RefObs.combine), plus __repr__(print_range) as an argument-taking method.
In all three every call is made twice with the same operand / argument objects; deep fingerprints of all operands and
arguments must be unchanged after each call and both calls must return the same result (non-mutation clause).

Genuine defects found on the unchanged tree are recorded in known/F-C14-*.json (+ .meta.json, tested combined patch in
known/F-C14-proposed-fixes.patch); their input classes are excluded only while vlib.findings.is_open(id).
"""
import operator

import numpy as np
from hypothesis import strategies as st

from vlib import gen, findings
from vlib.build import idl_arg, group_chains, to_complex
from vlib.core import Sub, Violation, Skip, require
from vlib.refobs import RefObs, combine, cmp_obs

PROPERTY = 'C14'
LEVEL = 'exploration'
RULE = ('Hypothesis-generated correlators (T = 2..16 including front/back padding, N = 1..3, real or complex content, any '
        'set of undefined timeslices, all entries on one layout of 1-2 ensembles x 1-2 replicas with contiguous / strided / '
        'irregular configuration lists and optional covariance inputs; entries with either sign, inside and outside the '
        'domains of the functions) combined with every operator / function / index transformation of the statement and '
        'partners of every type in both operand orders, partners living on identical, nested, overlapping or disjoint '
        'layouts. A case is non-trivial if the correlator (or a correlator partner) has an undefined timeslice that is not '
        'at the border, or complex content, or the left operand is not a correlator, or a timeslice of the result is undefined '
        'because the operation yields NaN there (entry outside the domain of the function, negative base, 0 / 0); distinct = '
        'distinct spec hash. Input classes of open findings (F-C14-1 ... F-C14-9, known/*.meta.json) are kept out by '
        'construction (label avoided:<id>) or, for whole operator / partner combinations, generated with a low weight and '
        'counted as skipped; they return automatically once the finding is no longer open. '
        'Cases whose expected result is undefined on every timeslice are executed but only the non-mutation clause is '
        'judged (the library cannot represent such a correlator and raises).')
ASSUMPTIONS = [
    'differential oracle: the Obs / CObs operators applied entry by entry are the reference for the arithmetic (their own '
    'correctness is C01); comparison 1e-12 relative per fluctuation plus 1e-13 of the magnitude of the terms involved',
    'averaging index maps are evaluated with RefObs.combine (first-order propagation as stated in C01), comparison 1e-11',
    '"not a number" means NaN in the central value of an entry (for N>1: of any entry of the timeslice); infinities are '
    'not generated (all divisors have |value| >= 0.3, exact zeros only as numerator of number / Corr)',
    'roll follows numpy.roll (entry t moves to t+dt mod T); thin keeps t with (t + offset) % spacing == 0; T_symmetry '
    'averages C(t) with parity * partner(T-1-t); symmetric / anti_symmetric combine t with T-t and keep slice 0 '
    '(for anti_symmetric only the definedness of slice 0 is judged); Hankel entry (i, j) at t is C(t+i+j), periodic '
    'wrap-around or undefined when t+2(N-1) >= T',
    'for complex content only the subset named in the quantifier is demanded: + - * with the correlator or a real quantity '
    'as left operand, division by real Obs / int / float; index transformations on complex content only where they are '
    'permutations or real-linear sums (roll, reverse, thin, item, trace, projected, Hankel)',
    'combinations whose Obs-level operation does not exist (Obs ** CObs, CObs ** x, @ with scalars) are outside the domain',
    'prange / tag of results are not judged (not part of the statement); prange and tag of operands are part of the '
    'non-mutation fingerprint',
]

OPS = {'+': operator.add, '-': operator.sub, '*': operator.mul, '/': operator.truediv, '**': operator.pow,
       '@': operator.matmul}
FUNCS = ['neg', 'abs', 'sqrt', 'log', 'exp', 'sin', 'cos', 'tan', 'sinh', 'cosh', 'tanh', 'arcsin', 'arccos', 'arctan',
         'arcsinh', 'arccosh', 'arctanh']


# =============================================================================================== building

def _strip(ospec):
    """layout part of an obs spec of vlib.gen: chains without data, covariance inputs with zero means."""
    lay = [{'name': c['name'], 'idl': list(c['idl']), 'form': c['form']} for c in ospec['chains']]
    cov = [{'name': cv['name'], 'cov': cv['cov'], 'grad': cv['grad']} for cv in ospec.get('cov', [])]
    return lay, cov


def _cov_obs(cov):
    import pyerrors as pe
    out = None
    for cv in cov:
        d = len(cv['grad'])
        ol = pe.cov_Obs([0.0] * d if d > 1 else 0.0, np.array(cv['cov']), cv['name'])
        if not isinstance(ol, list):
            ol = [ol]
        for g, o in zip(cv['grad'], ol):
            out = g * o if out is None else out + g * o
    return out


def make_obs(lay, covpart, mean, sigma, seed, idx):
    """Real observable with central value close to `mean` (exactly 0.0 if mean == 0.0) on the layout `lay`;
    pure function of its arguments."""
    import pyerrors as pe
    o = None
    k = 0
    for e, chains in sorted(group_chains(lay).items()):
        smp = []
        for c in chains:
            rng = np.random.RandomState([seed % (2 ** 32), idx, k])
            n = len(c['idl'])
            if mean == 0.0:
                # exactly vanishing mean (for 0 / 0 = NaN): quarter-integers and their negatives sum to zero without rounding
                h = rng.randint(-2, 3, size=n // 2) * 0.25
                smp.append(np.concatenate([h, np.zeros(n % 2), -h]))
            else:
                smp.append((mean if o is None else 0.0) + sigma * rng.normal(size=n))
            k += 1
        p = pe.Obs(smp, [c['name'] for c in chains], idl=[idl_arg(c) for c in chains])
        o = p if o is None else o + p
    if covpart is not None:
        o = o + covpart
    return o


def build_corr(cs):
    """corr spec -> pe.Corr.  cs: lay, cov, T (total), N, pad [a, b], none (absolute timeslices), cplx, means, sigma,
    seed, prange, msym (entries (i, j) and (j, i) are the same object)."""
    import pyerrors as pe
    T, N, pad = cs['T'], cs['N'], cs['pad']
    covpart = _cov_obs(cs.get('cov', []))
    nparts = 2 if cs['cplx'] else 1
    inner = []
    none = set(cs['none'])

    def entry(t, i, j):
        base = (((t - pad[0]) * N + i) * N + j) * nparts
        parts = [make_obs(cs['lay'], covpart, cs['means'][base + p], cs['sigma'], cs['seed'], base + p) for p in range(nparts)]
        x = pe.CObs(parts[0], parts[1]) if cs['cplx'] else parts[0]
        return x if cs.get('scale') is None else float(cs['scale']) * x       # the whole correlator in other units

    for t in range(pad[0], T - pad[1]):
        if t in none:
            inner.append(None)
        elif N == 1:
            inner.append(entry(t, 0, 0))
        else:
            a = np.empty((N, N), dtype=object)
            for i in range(N):
                for j in range(N):
                    if cs.get('msym') and j < i:
                        a[i, j] = a[j, i]
                    else:
                        a[i, j] = entry(t, i, j)
            inner.append(a)
    pr = None if cs.get('prange') is None else list(cs['prange'])
    c = pe.Corr(inner, padding=list(pad), prange=pr)
    if cs.get('tag') is not None:
        c.tag = cs['tag']
    return c


def build_scalar(ps):
    """partner spec -> Obs / CObs / number / matrix."""
    import pyerrors as pe
    k = ps['type']
    if k == 'obs':
        return make_obs(ps['lay'], _cov_obs(ps.get('cov', [])), ps['means'][0], ps['sigma'], ps['seed'], 0)
    if k == 'cobs':
        cp = _cov_obs(ps.get('cov', []))
        return pe.CObs(make_obs(ps['lay'], cp, ps['means'][0], ps['sigma'], ps['seed'], 0),
                       make_obs(ps['lay'], cp, ps['means'][1], ps['sigma'], ps['seed'], 1))
    if k == 'int':
        return int(ps['value'])
    if k == 'float':
        return float(ps['value'])
    if k == 'complex':
        return complex(to_complex(ps['value']))
    if k == 'ndarray':
        return np.array(ps['value'], dtype=float)
    raise ValueError(k)


# =============================================================================================== fingerprints

_ANALYSIS = ('e_dvalue', 'e_ddvalue', 'e_tauint', 'e_dtauint', 'e_windowsize', 'e_rho', 'e_drho', 'e_n_tauint', 'e_n_dtauint',
             'S', 'tau_exp', 'N_sigma')


def fingerprint(x):
    """Deep, comparable description of an operand / argument: identities of the containers, numbers as bytes."""
    import pyerrors as pe
    if x is None or isinstance(x, (bool, int, float, complex, str)):
        return ('v', type(x).__name__, repr(x))
    if isinstance(x, pe.Obs):
        d = {'id': id(x), 'value': repr(x.value), 'names': tuple(x.names), 'reweighted': x.reweighted, 'tag': repr(x.tag),
             'dvalue': repr(getattr(x, '_dvalue', None)), 'ddvalue': repr(getattr(x, 'ddvalue', None)), 'N': x.N}
        for n in x.names:
            if n in x.covobs:
                d['cov:' + n] = (np.asarray(x.covobs[n].grad).tobytes(), np.asarray(x.covobs[n].cov).tobytes())
            else:
                d['chain:' + n] = (type(x.idl[n]).__name__, tuple(int(c) for c in x.idl[n]), id(x.deltas[n]),
                                   x.deltas[n].tobytes(), repr(x.r_values[n]), x.shape[n])
        for a in _ANALYSIS:
            try:
                v = getattr(x, a)
            except AttributeError:
                d['an:' + a] = 'absent'
            else:
                d['an:' + a] = repr(v)
        return ('Obs', d)
    if isinstance(x, pe.CObs):
        return ('CObs', {'id': id(x), 'real': fingerprint(x.real), 'imag': fingerprint(x.imag), 'tag': repr(x.tag)})
    if isinstance(x, pe.Corr):
        return ('Corr', {'id': id(x), 'T': x.T, 'N': x.N, 'tag': repr(x.tag), 'prange': (id(x.prange), repr(x.prange)),
                         'content_id': id(x.content), 'len': len(x.content),
                         'content': {t: fingerprint(e) for t, e in enumerate(x.content)}})
    if isinstance(x, np.ndarray):
        if x.dtype == object:
            return ('objarray', {'id': id(x), 'shape': x.shape, 'items': {i: fingerprint(e) for i, e in enumerate(x.ravel())}})
        return ('array', {'id': id(x), 'dtype': str(x.dtype), 'shape': x.shape,
                          'values': repr(x.tolist()) if x.size <= 64 else x.tobytes()})
    if isinstance(x, (list, tuple)):
        return (type(x).__name__, {'id': id(x), 'len': len(x), 'items': {i: fingerprint(e) for i, e in enumerate(x)}})
    return ('other', repr(x))


def fp_diff(a, b, path=''):
    """first place where two fingerprints differ (for the message)"""
    if a == b:
        return None
    if isinstance(a, tuple) and isinstance(b, tuple) and len(a) == 2 and len(b) == 2 and a[0] == b[0] \
            and isinstance(a[1], dict) and isinstance(b[1], dict):
        for k in sorted(a[1], key=lambda k: (str(k) in ('id', 'content_id'), 0)):     # identities last: show changed numbers first
            if k not in b[1]:
                return '%s.%s disappeared' % (path, k)
            d = fp_diff(a[1][k], b[1][k], '%s.%s' % (path, k))
            if d:
                return d
        for k in b[1]:
            if k not in a[1]:
                return '%s.%s appeared' % (path, k)
    if isinstance(a, dict) and isinstance(b, dict):
        for k in a:
            d = fp_diff(a[k], b.get(k), '%s[%s]' % (path, k))
            if d:
                return d
    sa, sb = repr(a), repr(b)
    return '%s: %s -> %s' % (path, sa if len(sa) < 120 else sa[:120] + '...', sb if len(sb) < 120 else sb[:120] + '...')


def entries_of(e):
    """timeslice entry -> flat list of Obs / CObs"""
    return list(np.asarray(e, dtype=object).ravel())


def identical_results(r1, r2, what):
    """both calls of a method with the same objects must give the same result"""
    import pyerrors as pe
    if isinstance(r1, BaseException) or isinstance(r2, BaseException):
        require(type(r1) is type(r2), '%s: first call gave %s, second call with the same objects gave %s'
                % (what, _rdesc(r1), _rdesc(r2)))
        return
    if isinstance(r1, str):
        require(r1 == r2, '%s: repeated call with the same argument objects returns a different string' % what, r1, r2)
        return
    if not isinstance(r1, pe.Corr):
        return      # not a correlator at all: judged by the caller
    require(isinstance(r2, pe.Corr) and r1.T == r2.T and r1.N == r2.N, '%s: repeated call returns a different kind of result' % what)
    for t in range(r1.T):
        a, b = r1.content[t], r2.content[t]
        require((a is None) == (b is None), '%s: repeated call with the same objects changes definedness of timeslice %d' % (what, t))
        if a is None:
            continue
        for x, y in zip(entries_of(a), entries_of(b)):
            pairs = [(x.real, y.real), (x.imag, y.imag)] if isinstance(x, pe.CObs) else [(x, y)]
            for p, q in pairs:
                if isinstance(p, pe.Obs):
                    same = isinstance(q, pe.Obs) and _eqnan(p.value, q.value) and p.names == q.names and \
                        all(np.asarray(p.deltas[n]).tobytes() == np.asarray(q.deltas[n]).tobytes() for n in p.deltas)
                else:
                    same = _eqnan(p, q)
                require(same, '%s: repeated call with the same objects gives different numbers at timeslice %d' % (what, t))


def _eqnan(a, b):
    try:
        return a == b or (a != a and b != b)
    except Exception:
        return False


def _rdesc(r):
    return ('%s(%s)' % (type(r).__name__, str(r)[:80])) if isinstance(r, BaseException) else type(r).__name__


def call_twice(fn, watched, what):
    """watched: list of (label, object).  Returns the first result (or the exception instance it raised)."""
    before = [fingerprint(o) for _, o in watched]
    res = []
    for k in (1, 2):
        try:
            r = fn()
        except Exception as e:      # judged by the caller
            r = e
        for (lab, o), b in zip(watched, before):
            a = fingerprint(o)
            if a != b:
                raise Violation('%s: call %d changed %s: %s' % (what, k, lab, fp_diff(b, a, lab)))
        res.append(r)
    identical_results(res[0], res[1], what)
    return res[0]


# =============================================================================================== comparison

def _mag(o):
    return abs(float(o.value)) + max([float(np.max(np.abs(d), initial=0.0)) for d in o.deltas.values()] + [0.0])


def same_obs(exp, got, what, rtol=1e-12, scale=0.0):
    """exp, got: pe.Obs; equality as observables (NaN-aware in the replica means)."""
    import pyerrors as pe
    require(isinstance(got, pe.Obs), '%s: entry is %s, expected an Obs' % (what, type(got).__name__))
    require(not isinstance(got.value, complex), '%s: complex central value' % what, got.value)
    sc = max(_mag(exp), scale) + 1e-290 / 1e-13      # (numbers in the denormal range carry no relative precision: absolute floor 1e-290)
    require(abs(exp.value - got.value) <= rtol * max(abs(exp.value), abs(got.value)) + 1e-13 * sc,
            '%s: central value %r, Obs-level operation gives %r' % (what, got.value, exp.value))
    require(sorted(exp.names) == sorted(got.names), '%s: names %r, expected %r' % (what, got.names, exp.names))
    require(bool(exp.reweighted) == bool(got.reweighted), '%s: reweighted flag differs' % what)
    for n in exp.names:
        if n in exp.covobs:
            require(n in got.covobs, '%s: covariance input %s lost' % (what, n))
            a, b = np.asarray(exp.covobs[n].grad, dtype=float), np.asarray(got.covobs[n].grad, dtype=float)
            require(a.shape == b.shape and np.all(np.abs(a - b) <= rtol * np.maximum(np.abs(a), np.abs(b)) + 1e-13 * (np.max(np.abs(a), initial=0.0) + sc)),
                    '%s: gradient w.r.t. covariance input %s is %r, expected %r' % (what, n, b.ravel().tolist(), a.ravel().tolist()))
            continue
        require(n in got.deltas, '%s: chain %s missing' % (what, n))
        il_e, il_g = [int(c) for c in exp.idl[n]], [int(c) for c in got.idl[n]]
        require(il_e == il_g, '%s: configuration list of %s differs from the Obs-level result (%d vs %d entries)' % (what, n, len(il_g), len(il_e)))
        require(isinstance(exp.idl[n], range) == isinstance(got.idl[n], range), '%s: range form of %s differs' % (what, n))
        a, b = np.asarray(exp.deltas[n], dtype=float), np.asarray(got.deltas[n], dtype=float)
        tol = rtol * np.maximum(np.abs(a), np.abs(b)) + 1e-13 * sc
        bad = np.where(~(np.abs(a - b) <= tol))[0]
        if len(bad):
            i = int(bad[0])
            raise Violation('%s: fluctuation of %s at configuration %d is %r, Obs-level operation gives %r (%d of %d differ)'
                            % (what, n, il_e[i], float(b[i]), float(a[i]), len(bad), len(a)))
        ra, rb = float(exp.r_values[n]), float(got.r_values[n])
        require((ra != ra and rb != rb) or abs(ra - rb) <= rtol * max(abs(ra), abs(rb)) + 1e-13 * sc,
                '%s: replica mean of %s is %r, expected %r' % (what, n, rb, ra))


def same_entry(exp, got, what, rtol=1e-12, scale=0.0):
    """exp / got: Obs or CObs"""
    import pyerrors as pe
    if isinstance(exp, pe.CObs):
        require(isinstance(got, pe.CObs), '%s: entry is %s, the Obs-level operation gives a CObs' % (what, type(got).__name__))
        for nm, e, g in (('real part', exp.real, got.real), ('imaginary part', exp.imag, got.imag)):
            if isinstance(e, pe.Obs):
                same_obs(e, g, what + ' ' + nm, rtol, scale)
            else:
                require(not isinstance(g, pe.Obs) and abs(complex(e) - complex(g)) <= rtol * abs(complex(e)) + 1e-300,
                        '%s %s is %r, expected the number %r' % (what, nm, g, e))
    else:
        require(not isinstance(got, pe.CObs), '%s: entry is a CObs, the Obs-level operation gives an Obs' % what)
        same_obs(exp, got, what, rtol, scale)


def is_nan_entry(x):
    import pyerrors as pe
    if isinstance(x, pe.CObs):
        return any(np.isnan(float(getattr(p, 'value', p))) for p in (x.real, x.imag))
    return bool(np.isnan(float(x.value)))


def grid(e, N):
    """timeslice entry of a correlator with matrix dimension N -> list of rows"""
    a = np.asarray(e, dtype=object)
    return [[a.ravel()[i * N + j] for j in range(N)] for i in range(N)]


def check_shape(res, T, N, what):
    import pyerrors as pe
    require(isinstance(res, pe.Corr), '%s: result is %s, not a Corr' % (what, type(res).__name__))
    require(res.T == T and len(res.content) == T, '%s: temporal extent %r (content %d), expected %d' % (what, res.T, len(res.content), T))
    require(res.N == N, '%s: matrix dimension %r, expected %d' % (what, res.N, N))


def compare_corr(res, expected, T, N, what, cmp):
    """expected: list over t of None or N x N rows of expected entries; cmp(exp_entry, got_entry, label, t).
    Returns class labels."""
    labs = []
    if all(e is None for e in expected):
        # the library cannot represent an everywhere-undefined correlator: an exception or an all-None Corr are accepted
        if isinstance(res, BaseException):
            return ['result:all_undefined(raises)']
        require(all(c is None for c in res.content), '%s: defined timeslices although every timeslice must be undefined' % what)
        return ['result:all_undefined']
    if isinstance(res, BaseException):
        raise Violation('%s raised %s: %s although the result is defined on timeslices %r'
                        % (what, type(res).__name__, str(res)[:200], [t for t, e in enumerate(expected) if e is not None][:8]))
    check_shape(res, T, N, what)
    for t in range(T):
        got, exp = res.content[t], expected[t]
        if exp is None:
            require(got is None, '%s: timeslice %d is defined although an operand is undefined there or the result is not a number' % (what, t),
                    None if got is None else [getattr(x, 'value', x) for x in entries_of(got)][:4])
            continue
        require(got is not None, '%s: timeslice %d is undefined although all operands are defined there and the result is a number' % (what, t))
        g = entries_of(got)
        require(len(g) == N * N, '%s: timeslice %d holds %d entries, expected %d' % (what, t, len(g), N * N))
        for i in range(N):
            for j in range(N):
                cmp(exp[i][j], g[i * N + j], '%s, t=%d%s' % (what, t, '' if N == 1 else ' [%d,%d]' % (i, j)), t)
    return labs


# =============================================================================================== generators

MEAN = {
    'pos': gen.fl(0.3, 2.5),
    'mixed': st.one_of(gen.fl(0.3, 2.5), gen.fl(-2.5, -0.3)),
    'func': st.one_of(gen.fl(0.1, 0.9), gen.fl(-0.9, -0.1), gen.fl(1.1, 2.5), gen.fl(-2.5, -1.1)),
}


@st.composite
def none_set(draw, lo, hi):
    """undefined timeslices inside [lo, hi); at least one slice stays defined"""
    n = hi - lo
    mode = draw(st.sampled_from(['none', 'one', 'one', 'few', 'few', 'many']))
    if mode == 'none' or n < 2:
        return []
    if mode == 'one':
        out = [draw(st.integers(lo, hi - 1))]
    else:
        k = draw(st.integers(1, max(1, (n - 1) // (2 if mode == 'few' else 1))))
        out = draw(st.lists(st.integers(lo, hi - 1), min_size=1, max_size=min(k, n - 1), unique=True))
    out = sorted(set(out))
    if len(out) >= n:
        out = out[:-1]
    return out


@st.composite
def corr_spec(draw, lay, cov, T=None, N=None, cplx=False, sign='mixed', tier='quick', even=False, full=False, msym=None, tmin=2,
              keep0=False):
    if N is None:
        N = draw(st.sampled_from([1, 1, 1, 2, 2, 3]))
    if T is None:
        hi = 16 if (N == 1 or tier != 'quick') else 24 // (N * N) + 4      # quick tier: N=2 -> T<=10, N=3 -> T<=6 (cost)
        T = draw(st.one_of(st.integers(min(tmin, hi), min(max(6, tmin), hi)), st.integers(min(max(4, tmin), hi), hi), st.integers(min(max(4, tmin), hi), hi)))
        if even and T % 2:
            T += 1
    pad = draw(st.sampled_from([[0, 0], [0, 0], [0, 0], [1, 0], [0, 1], [1, 1], [2, 0], [0, 3], [2, 2]]))
    if full or pad[0] + pad[1] >= T:
        pad = [0, 0]
    if keep0 and pad[0]:
        pad = [0, pad[1]]
    lo, hi = pad[0], T - pad[1]
    none = [] if full else draw(none_set(lo, hi))
    if keep0:
        none = [t for t in none if t != 0]
    none = sorted(set(none) | set(range(0, lo)) | set(range(hi, T)))
    n = (hi - lo) * N * N * (2 if cplx else 1)
    means = draw(st.lists(MEAN[sign], min_size=n, max_size=n))
    pr = draw(st.one_of(st.none(), st.none(), st.lists(st.integers(0, T - 1), min_size=2, max_size=2).map(sorted)))
    cs = {'lay': lay, 'cov': cov, 'T': T, 'N': N, 'pad': pad, 'none': none, 'cplx': bool(cplx), 'means': means,
          'sigma': draw(gen.fl(0.01, 0.08)), 'seed': draw(st.integers(0, 2 ** 31 - 1)), 'prange': pr,
          'tag': draw(st.sampled_from([None, None, 'tag']))}
    if N > 1 and (msym if msym is not None else draw(st.integers(0, 5)) == 0):
        cs['msym'] = True
    return cs


@st.composite
def related_layouts(draw, n, tier):
    lmax = 14 if tier == 'quick' else 40
    specs = draw(gen.related_obs_specs(n, ens_max=2, rep_max=2, lmin=8, lmax=lmax, with_cov=True, data_kinds=('const',),
                                       mean=st.just(0.0), sigma=st.just(1.0), p_same=0.6))
    return [_strip(s) for s in specs], gen.relation_labels(specs) if n > 1 else []


@st.composite
def gm_layout(draw, tier):
    """layout on which the Gamma method is applicable (anti_symmetric and T_symmetry run it internally):
    all replicas of an ensemble on one grid; irregular lists only for single replicas"""
    nmax = 12 if tier == 'quick' else 40
    lay = []
    for e in draw(gen.ensemble_names(1, 2)):
        reps = draw(gen.replica_names(e, 1, 2))
        g = draw(st.sampled_from([1, 1, 2, 3]))
        for r in reps:
            kinds = ('contig', 'strided', 'irregular') if len(reps) == 1 else ('contig',)
            il = draw(gen.idl_list(5, nmax, kinds=kinds, gap=g))
            lay.append({'name': r, 'idl': il, 'form': draw(gen.idl_form())})
    return lay


@st.composite
def scalar_spec(draw, ptype, lay, cov, sign='mixed', N=1, exponent=False):
    if ptype in ('obs', 'cobs'):
        return {'type': ptype, 'lay': lay, 'cov': cov, 'means': [draw(MEAN[sign]), draw(MEAN['mixed'])],
                'sigma': draw(gen.fl(0.01, 0.08)), 'seed': draw(st.integers(0, 2 ** 31 - 1))}
    if ptype == 'int':
        if exponent:
            return {'type': 'int', 'value': draw(st.sampled_from([-2, -1, 0, 1, 2, 3]))}
        v = draw(st.sampled_from([-3, -2, -1, 1, 2, 3, 0])) if sign != 'pos' else draw(st.sampled_from([1, 2, 3]))
        return {'type': 'int', 'value': v}
    if ptype == 'float':
        if exponent:
            return {'type': 'float', 'value': draw(st.one_of(st.sampled_from([0.5, -0.5, 1.5, 2.0, -1.0]), gen.fl(-2.5, 2.5)))}
        return {'type': 'float', 'value': draw(MEAN[sign])}
    if ptype == 'complex':
        return {'type': 'complex', 'value': {'__complex__': [draw(gen.fl(-2, 2)), draw(st.one_of(gen.fl(0.2, 2), gen.fl(-2, -0.2)))]}}
    if ptype == 'ndarray':
        return {'type': 'ndarray', 'value': [[draw(st.one_of(gen.fl(-2, 2), st.sampled_from([0.0, 1.0]))) for _ in range(N)] for _ in range(N)]}
    raise ValueError(ptype)


# ----------------------------------------------------------------------------------------------- arith: domain table

def arith_combos():
    """(op, ptype, left, a_cplx, p_cplx, finding-id or None) for every combination inside the statement/quantifier."""
    out = []
    scal = ['obs', 'cobs', 'int', 'float', 'complex']
    for op in ('+', '-', '*', '/'):
        # real content: everything in both orders
        out.append((op, 'corr', 'corr', False, False, None))
        for p in scal:
            for left in ('corr', 'partner'):
                fid = None
                if p == 'cobs' and left == 'partner':
                    fid = 'F-C14-9'
                if op == '/' and p == 'complex':
                    fid = 'F-C14-8'
                out.append((op, p, left, False, False, fid))
    out.append(('/', 'zero', 'partner', False, False, 'F-C14-7'))
    for p in ('obs', 'int', 'float'):
        out.append(('**', p, 'corr', False, False, None))
    out.append(('**', 'corr', 'corr', False, False, 'F-C14-8b'))
    out.append(('**', 'complex', 'corr', False, False, 'F-C14-8b'))
    for p in ('obs', 'int', 'float', 'complex'):
        out.append(('**', p, 'partner', False, False, 'F-C14-6'))
    out.append(('@', 'corr', 'corr', False, False, None))
    out.append(('@', 'ndarray', 'corr', False, False, None))
    out.append(('@', 'ndarray', 'partner', False, False, None))
    # complex content: the supported subset of the quantifier
    for op in ('+', '-', '*'):
        out.append((op, 'corr', 'corr', True, False, None))     # complex Corr (left) with real Corr
        out.append((op, 'corr', 'corr', False, True, None))     # real Corr (left) with complex Corr
        out.append((op, 'corr', 'corr', True, True, None))
        for p in scal:
            out.append((op, p, 'corr', True, False, None))
        for p in ('obs', 'int', 'float'):
            out.append((op, p, 'partner', True, False, None))   # real quantity as left operand
    for p in ('obs', 'int', 'float'):
        out.append(('/', p, 'corr', True, False, None))
    return out


COMBOS = arith_combos()
COMBOS = COMBOS + [c for c in COMBOS if c[0] in ('**', '@') and c[5] is None] * 3      # few combinations, keep them visible
COMBOS = COMBOS + [c for c in COMBOS if c[:2] == ('/', 'corr')] * 3                         # the only source of NaN by division


@st.composite
def arith_case(draw, tier):
    combo = draw(st.sampled_from(COMBOS))
    if combo[5] is not None and findings.is_open(combo[5]) and draw(st.integers(0, 3)) != 0:
        combo = draw(st.sampled_from([c for c in COMBOS if c[5] is None]))     # keep the excluded share small
    op, ptype, left, a_cplx, p_cplx, fid = combo
    (la, lb), rel = draw(related_layouts(2, tier))
    spec = {'op': op, 'ptype': ptype, 'left': left, 'rel': rel, 'avoid': []}
    if fid is not None and findings.is_open(fid):
        spec['excluded'] = fid
    sign_a, sign_p = 'mixed', 'mixed'
    exponent = False
    if op == '**':
        if left == 'corr' and ptype in ('int', 'float'):
            exponent = True
            if ptype == 'float':
                if findings.is_open('F-C14-5b'):
                    sign_a = 'pos'        # negative base ** non-integer -> NaN entry kept defined (F-C14-5b)
                    spec['avoid'].append('F-C14-5b')
        elif left == 'corr':
            sign_a = 'pos'                # Obs / Corr / complex exponent: log(base) enters
        else:
            sign_p = 'pos'                # partner is the base
    N = draw(st.sampled_from([1, 1, 1, 2, 2, 3]))
    a = draw(corr_spec(la[0], la[1], N=N, cplx=a_cplx, sign=sign_a, tier=tier))
    spec['a'] = a
    if ptype == 'corr':
        if op in ('+', '-', '@', '**'):
            Np = N
        else:
            Np = draw(st.sampled_from([N, N, 1])) if N > 1 else draw(st.sampled_from([1, 1, 1, 2, 3]))
            if Np > 1 and a['T'] * Np * Np > 80:
                Np = 1
        if op == '**':
            sign_p = 'mixed'
        spec['p'] = dict(draw(corr_spec(lb[0], lb[1], T=a['T'], N=Np, cplx=p_cplx, sign=sign_p)), type='corr')
        if op == '/' and not a_cplx and not p_cplx and draw(st.booleans()):
            # timeslices on which numerator and denominator vanish exactly: 0 / 0 = NaN must become undefined
            both = [t for t in range(a['T']) if t not in a['none'] and t not in spec['p']['none']]
            zs = draw(st.lists(st.sampled_from(both), min_size=1, max_size=max(1, len(both) // 2), unique=True)) if both else []
            # (matrix-valued: now and then only some matrix elements are 0 / 0 - the timeslice is undefined all the same)
            per_a = a['N'] * a['N']
            qsel = None
            if per_a > 1 and spec['p']['N'] == a['N'] and draw(st.booleans()):
                qsel = sorted(draw(st.lists(st.integers(0, per_a - 1), min_size=1, max_size=per_a - 1, unique=True)))
            for cs in (a, spec['p']):
                per = cs['N'] * cs['N']
                for t in zs:
                    for q in (qsel if (qsel is not None and per == per_a) else range(per)):
                        cs['means'][(t - cs['pad'][0]) * per + q] = 0.0
            spec['zero_pairs'] = sorted(zs)
    elif ptype == 'zero':
        spec['p'] = {'type': draw(st.sampled_from(['int', 'float'])), 'value': 0}
    else:
        spec['p'] = draw(scalar_spec(ptype, lb[0], lb[1], sign=sign_p, N=N, exponent=exponent))
        if op == '/' and left == 'corr' and spec['p'].get('value') == 0:
            spec['p']['value'] = 2      # division by an exact zero is documented to raise: not generated
        if op == '/' and left == 'partner' and spec['p'].get('value') == 0 and findings.is_open('F-C14-7'):
            spec['p']['value'] = 3      # 0 / Corr is the class of F-C14-7
            spec['avoid'].append('F-C14-7')
    return spec


# ----------------------------------------------------------------------------------------------- arith: oracle

def obs_level(op, l, r, nl, nr):
    """the operator applied entry by entry with the Obs / CObs operators; l, r: rows (nl x nl, nr x nr)"""
    f = OPS[op]
    if op == '@':
        n = nl
        if n == 1:
            return [[l[0][0] * r[0][0]]], None
        out = [[None] * n for _ in range(n)]
        for i in range(n):
            for j in range(n):
                s = l[i][0] * r[0][j]
                for k in range(1, n):
                    s = s + l[i][k] * r[k][j]
                out[i][j] = s
        return out, None
    n = max(nl, nr)
    return [[f(l[i % nl][j % nl] if nl > 1 else l[0][0], r[i % nr][j % nr] if nr > 1 else r[0][0]) for j in range(n)] for i in range(n)], None


def none_labels(cs):
    T = cs['T']
    none = set(cs['none'])
    labs = []
    if not none:
        labs.append('none:no')
    interior = False
    # an undefined slice that is not part of the undefined border runs
    lo = 0
    while lo < T and lo in none:
        lo += 1
    hi = T
    while hi > 0 and (hi - 1) in none:
        hi -= 1
    if any(lo < t < hi for t in none):
        interior = True
        labs.append('none:interior')
    elif none:
        labs.append('none:border_only')
    if cs['pad'] != [0, 0]:
        labs.append('padding')
    return labs, interior


def matmul_scale(l, r, n):
    import pyerrors as pe

    def m(x):
        if isinstance(x, pe.CObs):
            return m(x.real) + m(x.imag)
        return _mag(x) if isinstance(x, pe.Obs) else abs(x)
    return max(sum(m(l[i][k]) * m(r[k][j]) for k in range(n)) for i in range(n) for j in range(n))


def arith_oracle(spec):
    import pyerrors as pe
    if spec.get('excluded'):
        raise Skip('class of open finding %s' % spec['excluded'])
    op = spec['op']
    A = build_corr(spec['a'])
    P = build_corr(spec['p']) if spec['p']['type'] == 'corr' else build_scalar(spec['p'])
    left, right = (A, P) if spec['left'] == 'corr' else (P, A)
    what = '%s %s %s' % (_tname(left), op, _tname(right))
    res = call_twice(lambda: OPS[op](left, right), [('left operand', left), ('right operand', right)], what)

    T = A.T

    def rows(x, t):
        if isinstance(x, pe.Corr):
            return (None, x.N) if x.content[t] is None else (grid(x.content[t], x.N), x.N)
        if isinstance(x, np.ndarray):
            return [[float(v) for v in row] for row in x], x.shape[0]
        return [[x]], 1

    expected = []
    nan_slices = 0
    scale = {}
    Nres = A.N
    for t in range(T):
        l, nl = rows(left, t)
        r, nr = rows(right, t)
        Nres = max(nl, nr)
        if l is None or r is None:
            expected.append(None)
            continue
        try:
            e, _ = obs_level(op, l, r, nl, nr)
        except Exception as ex:
            raise Skip('Obs-level operation raises %s' % type(ex).__name__)
        if any(is_nan_entry(x) for row in e for x in row):
            expected.append(None)
            nan_slices += 1
            continue
        if op == '@' and nl > 1:
            scale[t] = matmul_scale(l, r, nl)
        expected.append(e)

    def cmp(e, g, lab, t):
        same_entry(e, g, lab, rtol=1e-12, scale=scale.get(t, 0.0))

    labs = compare_corr(res, expected, T, Nres, what, cmp)
    la, ia = none_labels(spec['a'])
    nt = ia or spec['a']['cplx'] or spec['left'] != 'corr' or nan_slices > 0
    cls = ['op:' + op, 'partner:' + spec['ptype'], 'combo:%s:%s:%s' % (op, spec['ptype'], 'L' if spec['left'] == 'corr' else 'R'),
           'N:%d' % A.N, 'content:' + ('complex' if spec['a']['cplx'] else 'real')] + ['a:' + x for x in la] + labs
    if spec['p']['type'] == 'corr':
        lp, ip = none_labels(spec['p'])
        nt = nt or ip or spec['p']['cplx']
        cls += ['p:' + x for x in lp] + ['pN:%d' % spec['p']['N']]
        if spec['p']['cplx']:
            cls.append('partner_content:complex')
        if set(spec['p']['none']) - set(spec['a']['none']) and set(spec['a']['none']) - set(spec['p']['none']):
            cls.append('none:both_operands_differently')
    if nan_slices:
        cls.append('nan_slices')
        cls.append('nan:' + op)
    if spec['p']['type'] in ('corr', 'obs', 'cobs'):
        cls += ['rel:' + x for x in spec.get('rel', [])]
    cls += ['avoided:' + f for f in spec.get('avoid', [])]
    return {'nt': bool(nt), 'cls': sorted(set(cls))}


def _tname(x):
    import pyerrors as pe
    if isinstance(x, pe.Corr):
        c = next((e for e in x.content if e is not None), None)
        k = 'complex ' if c is not None and isinstance(entries_of(c)[0], pe.CObs) else ''
        return '%sCorr(T=%d,N=%d)' % (k, x.T, x.N)
    if isinstance(x, np.ndarray):
        return 'ndarray%r' % (x.shape,)
    if isinstance(x, (int, float, complex)):
        return '%s(%r)' % (type(x).__name__, x)
    return type(x).__name__


# ----------------------------------------------------------------------------------------------- func

@st.composite
def func_case(draw, tier):
    fn = draw(st.sampled_from(FUNCS))
    (la,), _ = draw(related_layouts(1, tier))
    spec = {'fn': fn, 'via': draw(st.sampled_from(['np', 'method'])), 'avoid': []}
    sign = 'func'
    fid = {'log': 'F-C14-5', 'sqrt': 'F-C14-5b'}.get(fn)
    if fid and findings.is_open(fid):
        sign = 'pos'                    # log / sqrt keep NaN entries defined (F-C14-5, F-C14-5b)
        spec['avoid'].append(fid)
    spec['a'] = draw(corr_spec(la[0], la[1], cplx=False, sign=sign, tier=tier))
    return spec


def apply_func(fn, via, x):
    if fn == 'neg':
        return -x
    if fn == 'abs':
        return abs(x) if via == 'method' else np.abs(x)
    if via == 'method':
        return getattr(x, fn)()
    return getattr(np, fn)(x)


def func_oracle(spec):
    fn, via = spec['fn'], spec['via']
    A = build_corr(spec['a'])
    what = ('%s(Corr)' % fn) if via == 'np' else ('Corr.%s()' % fn)
    res = call_twice(lambda: apply_func(fn, via, A), [('the correlator', A)], what)
    expected = []
    nan_slices = 0
    for t in range(A.T):
        if A.content[t] is None:
            expected.append(None)
            continue
        try:
            e = [[apply_func(fn, via, x) for x in row] for row in grid(A.content[t], A.N)]
        except Exception as ex:
            raise Skip('Obs-level function raises %s' % type(ex).__name__)
        if any(is_nan_entry(x) for row in e for x in row):
            expected.append(None)
            nan_slices += 1
        else:
            expected.append(e)
    labs = compare_corr(res, expected, A.T, A.N, what, lambda e, g, lab, t: same_entry(e, g, lab))
    la, ia = none_labels(spec['a'])
    cls = ['fn:' + fn, 'via:' + via, 'N:%d' % A.N] + ['a:' + x for x in la] + labs + ['avoided:' + f for f in spec.get('avoid', [])]
    if nan_slices:
        cls.append('nan_slices')
        cls.append('nan:' + fn)
    return {'nt': bool(ia or nan_slices), 'cls': sorted(set(cls))}


# ----------------------------------------------------------------------------------------------- index transformations

INDEX_KINDS = ['roll', 'reverse', 'thin', 'symmetric', 'anti_symmetric', 'T_symmetry', 'item', 'projected', 'trace',
               'matrix_symmetric', 'Hankel', 'repr']
NEEDS_N1 = ('symmetric', 'anti_symmetric', 'T_symmetry', 'Hankel')
NEEDS_MATRIX = ('item', 'projected', 'trace', 'matrix_symmetric')
COMPLEX_OK = ('roll', 'reverse', 'thin', 'item', 'projected', 'trace', 'Hankel')


@st.composite
def vec(draw, N, kind):
    if kind == 'int':
        v = [draw(st.integers(-3, 3)) for _ in range(N)]
        if not any(v):
            v[0] = 1
        return v
    v = [draw(st.one_of(gen.fl(-2, 2), st.sampled_from([0.0, 1.0]))) for _ in range(N)]
    if sum(x * x for x in v) < 1e-2:
        v[draw(st.integers(0, N - 1))] = 1.5
    return v


@st.composite
def index_case(draw, tier):
    kind = draw(st.sampled_from(INDEX_KINDS + ['roll', 'thin', 'projected', 'projected', 'projected', 'Hankel', 'T_symmetry', 'symmetric', 'anti_symmetric']))
    lay = draw(gm_layout(tier))
    spec = {'kind': kind, 'avoid': [], 'args': {}}
    N = 1 if kind in NEEDS_N1 else (draw(st.sampled_from([2, 2, 3])) if kind in NEEDS_MATRIX else None)
    cplx = kind in COMPLEX_OK and draw(st.integers(0, 3)) == 0
    kw = {}
    if kind in ('symmetric', 'anti_symmetric'):
        kw['even'] = True
    if kind == 'anti_symmetric' and findings.is_open('F-C14-3'):
        kw['keep0'] = True
        spec['avoid'].append('F-C14-3')
    if kind == 'Hankel' and findings.is_open('F-C14-4b'):
        kw['full'] = True               # any undefined slice crashes Hankel (F-C14-4b)
        spec['avoid'].append('F-C14-4b')
    if kind == 'matrix_symmetric':
        kw['msym'] = draw(st.sampled_from([False, False, True]))
    if kind in ('thin', 'roll', 'Hankel', 'reverse'):
        kw['tmin'] = 5              # a shift / stride / window needs room to be told from its neighbours
    a = draw(corr_spec(lay, [], N=N, cplx=cplx, sign='mixed', tier=tier, **kw))
    if kind in ('matrix_symmetric', 'trace', 'item', 'reverse', 'symmetric') and draw(st.integers(0, 3)) == 0:
        a['scale'] = 10.0 ** draw(st.sampled_from([-13, -13, -11, 9]))       # late timeslices of a decaying correlator are this small
    spec['a'] = a
    T, N = a['T'], a['N']
    ar = spec['args']
    if kind == 'roll':
        k = draw(st.integers(1, T - 1)) if draw(st.integers(0, 7)) else 0      # mostly a genuine shift
        ar['dt'] = k + T * draw(st.sampled_from([0, 0, 0, -1, -1, 1, -2, 2, -3]))
    elif kind == 'thin':
        sp = ar['spacing'] = draw(st.sampled_from([s_ for s_ in (1, 2, 3, 3, 4, 5, 7) if s_ <= max(2, T // 2)] + [T, T + 1]))
        ar['offset'] = draw(st.integers(0, sp - 1)) + sp * draw(st.sampled_from([0, 0, 0, -1, -2, 1, 3]))
        ar['how'] = draw(st.sampled_from(['pos', 'pos', 'kw', 'kw', 'default_offset']))
    elif kind == 'T_symmetry':
        chains = []
        for c in lay:
            il = c['idl']
            if len(il) > 6 and draw(st.integers(0, 2)) == 0:
                k = draw(st.integers(5, len(il) - 1))
                il = il[:k] if draw(st.booleans()) else il[-k:]
            chains.append({'name': c['name'], 'idl': list(il), 'form': c['form']})
        spec['p'] = draw(corr_spec(chains, [], T=T, N=1, cplx=False, sign='mixed'))
        ar['parity'] = draw(st.sampled_from([1, -1, None]))
    elif kind == 'item':
        ar['i'], ar['j'] = draw(st.integers(0, N - 1)), draw(st.integers(0, N - 1))
    elif kind == 'projected':
        mode = draw(st.sampled_from(['default', 'array', 'two_arrays', 'two_arrays', 'list', 'two_lists', 'two_lists', 'list_array', 'array_list']))
        ar['mode'] = mode
        ar['normalize'] = draw(st.booleans())
        vk = draw(st.sampled_from(['float', 'float', 'int']))

        def one():
            return draw(vec(N, vk))

        def lst(with_none):
            out = [one() for _ in range(T)]
            if with_none:
                for t in draw(st.lists(st.integers(0, T - 1), max_size=max(1, T // 3), unique=True)):
                    out[t] = None
            return out
        uses_list = mode in LIST_L or mode in LIST_R
        if uses_list and ar['normalize'] and findings.is_open('F-C14-2'):
            ar['normalize'] = False     # projected(list, normalize=True) overwrites the list (F-C14-2)
            spec['avoid'].append('F-C14-2')
        wn = uses_list and not ar['normalize'] and draw(st.booleans())
        if mode == 'array':
            ar['l'] = one()
        elif mode == 'two_arrays':
            ar['l'], ar['r'] = one(), one()
        elif mode == 'list':
            ar['l'] = lst(wn)
        elif mode == 'two_lists':
            ar['l'], ar['r'] = lst(wn), lst(wn)
        elif mode == 'list_array':
            ar['l'], ar['r'] = lst(wn), one()
        elif mode == 'array_list':
            ar['l'], ar['r'] = one(), lst(wn)
        ar['vkind'] = vk
    elif kind == 'Hankel':
        ar['periodic'] = draw(st.booleans())
        ar['N'] = draw(st.sampled_from([1, 2, 2, 3, 3, 4]))
        if not ar['periodic'] and ar['N'] >= 3 and findings.is_open('F-C14-4'):
            ar['N'] = 2                 # Hankel(N >= 3, periodic=False) always crashes (F-C14-4)
            spec['avoid'].append('F-C14-4')
        ar['how'] = draw(st.sampled_from(['pos', 'kw']))
    elif kind == 'repr':
        lo = draw(st.integers(0, T - 1))
        hi = draw(st.one_of(st.none(), st.integers(lo, T - 1)))
        if hi and findings.is_open('F-C14-1'):
            hi = draw(st.sampled_from([None, 0]))    # a truthy upper end is incremented in place (F-C14-1)
            if hi == 0:
                lo = 0
            spec['avoid'].append('F-C14-1')
        ar['print_range'] = draw(st.sampled_from([[lo, hi], [lo, hi], None]))
    return spec


LIST_L = ('list', 'two_lists', 'list_array')      # modes of the projected case in which vector_l / vector_r is a per-timeslice list
LIST_R = ('two_lists', 'array_list')


def _vecarg(v, is_list, vkind):
    """plain data -> the argument object handed to projected (array, or list of arrays / None per timeslice)"""
    dt = int if vkind == 'int' else float
    if v is None:
        return None
    if is_list:
        return [None if x is None else np.array(x, dtype=dt) for x in v]
    return np.array(v, dtype=dt)


def lin(entries, coeffs):
    """first-order combination sum_k coeffs[k] * entries[k] as reference (RefObs, or pair of RefObs for CObs entries)"""
    import pyerrors as pe
    cf = [float(c) for c in coeffs]

    def f(v):
        return sum(c * x for c, x in zip(cf, v))
    if isinstance(entries[0], pe.CObs):
        return (combine(f, cf, [RefObs.from_pe(e.real) for e in entries]), combine(f, cf, [RefObs.from_pe(e.imag) for e in entries]))
    return combine(f, cf, [RefObs.from_pe(e) for e in entries])


def cmp_lin(exp, got, lab):
    import pyerrors as pe
    if isinstance(exp, tuple):
        require(isinstance(got, pe.CObs), '%s: entry is %s, expected a CObs' % (lab, type(got).__name__))
        cmp_obs(exp[0], got.real, lab + ' real part', rtol=1e-11)
        cmp_obs(exp[1], got.imag, lab + ' imaginary part', rtol=1e-11)
    elif isinstance(exp, (RefObs,)):
        require(not isinstance(got, pe.CObs), '%s: entry is a CObs, expected an Obs' % lab)
        cmp_obs(exp, got, lab, rtol=1e-11)
    else:       # the operand's own entry (pure permutation)
        same_entry(exp, got, lab, rtol=1e-15)


def index_oracle(spec):
    kind, ar = spec['kind'], spec['args']
    A = build_corr(spec['a'])
    T, N = A.T, A.N
    c = [None if e is None else grid(e, N) for e in A.content]
    watched = [('the correlator', A)]
    Nres = 1
    what = 'Corr.%s' % kind
    if kind == 'roll':
        dt = ar['dt']
        fn = lambda: A.roll(dt)
        expected = [c[(t - dt) % T] for t in range(T)]
        Nres = N
        what += '(%d)' % dt
    elif kind == 'reverse':
        fn = lambda: A.reverse()
        expected = [c[T - 1 - t] for t in range(T)]
        Nres = N
    elif kind == 'thin':
        sp, off = ar['spacing'], ar['offset']
        if ar['how'] == 'default_offset':
            off = 0
            fn = lambda: A.thin(sp)
        elif ar['how'] == 'kw':
            fn = lambda: A.thin(offset=off, spacing=sp)
        else:
            fn = lambda: A.thin(sp, off)
        expected = [c[t] if (t + off) % sp == 0 else None for t in range(T)]
        Nres = N
        what += '(%d, %d)' % (sp, off)
    elif kind in ('symmetric', 'anti_symmetric'):
        sgn = 1.0 if kind == 'symmetric' else -1.0
        fn = (lambda: A.symmetric()) if kind == 'symmetric' else (lambda: A.anti_symmetric())
        expected = [c[0]]     # slice 0 has no partner (for anti_symmetric only its definedness is judged, see cmp below)
        for t in range(1, T):
            if c[t] is None or c[T - t] is None:
                expected.append(None)
            else:
                expected.append([[lin([c[t][0][0], c[T - t][0][0]], [0.5, 0.5 * sgn])]])
    elif kind == 'T_symmetry':
        P = build_corr(spec['p'])
        watched.append(('the partner', P))
        par = ar['parity']
        fn = (lambda: A.T_symmetry(P)) if par is None else (lambda: A.T_symmetry(P, par))
        pv = 1 if par is None else par
        q = [None if e is None else grid(e, 1) for e in P.content]
        expected = []
        for t in range(T):
            if c[t] is None or q[T - 1 - t] is None:
                expected.append(None)
            else:
                expected.append([[lin([c[t][0][0], q[T - 1 - t][0][0]], [0.5, 0.5 * pv])]])
        what += '(partner, parity=%r)' % par
    elif kind == 'item':
        i, j = ar['i'], ar['j']
        fn = lambda: A.item(i, j)
        expected = [None if e is None else [[e[i][j]]] for e in c]
        what += '(%d, %d)' % (i, j)
    elif kind == 'trace':
        fn = lambda: A.trace()
        expected = [None if e is None else [[lin([e[i][i] for i in range(N)], [1.0] * N)]] for e in c]
    elif kind == 'matrix_symmetric':
        fn = lambda: A.matrix_symmetric()
        expected = [None if e is None else [[lin([e[i][j], e[j][i]], [0.5, 0.5]) for j in range(N)] for i in range(N)] for e in c]
        Nres = N
    elif kind == 'projected':
        mode, norm = ar['mode'], ar['normalize']
        vl = _vecarg(ar.get('l'), mode in LIST_L, ar['vkind'])
        vr = _vecarg(ar.get('r'), mode in LIST_R, ar['vkind'])
        if mode == 'default':
            fn = (lambda: A.projected(normalize=norm)) if norm else (lambda: A.projected())
        elif vr is None:
            fn = lambda: A.projected(vl, normalize=norm)
            watched.append(('vector_l', vl))
        else:
            fn = lambda: A.projected(vl, vr, normalize=norm)
            watched += [('vector_l', vl), ('vector_r', vr)]

        def at(v, is_list, t):
            return v[t] if is_list else v
        expected = []
        for t in range(T):
            if mode == 'default':
                l = r = [1.0] + [0.0] * (N - 1)
            else:
                l = at(ar['l'], mode in LIST_L, t)
                r = at(ar['r'], mode in LIST_R, t) if ar.get('r') is not None else l
            if c[t] is None or l is None or r is None:
                expected.append(None)
                continue
            l, r = [float(x) for x in l], [float(x) for x in r]
            if norm:
                nl, nr = sum(x * x for x in l) ** 0.5, sum(x * x for x in r) ** 0.5
                l, r = [x / nl for x in l], [x / nr for x in r]
            expected.append([[lin([c[t][i][j] for i in range(N) for j in range(N)], [l[i] * r[j] for i in range(N) for j in range(N)])]])
        what += '(%s, normalize=%r)' % (mode, norm)
    elif kind == 'Hankel':
        n, per = ar['N'], ar['periodic']
        if ar['how'] == 'kw':
            fn = lambda: A.Hankel(N=n, periodic=per)
        else:
            fn = (lambda: A.Hankel(n, per)) if per else (lambda: A.Hankel(n))
        expected = []
        for t in range(T):
            if not per and t + 2 * (n - 1) >= T:
                expected.append(None)
                continue
            ent = [[c[(t + i + j) % T] for j in range(n)] for i in range(n)]
            if any(x is None for row in ent for x in row):
                expected.append(None)
            else:
                expected.append([[x[0][0] for x in row] for row in ent])
        Nres = n
        what += '(%d, periodic=%r)' % (n, per)
    elif kind == 'repr':
        pr = None if ar['print_range'] is None else list(ar['print_range'])
        if pr is None:
            fn = lambda: A.__repr__()
        else:
            fn = lambda: A.__repr__(pr)
            watched.append(('print_range', pr))
        res = call_twice(fn, watched, 'Corr.__repr__(%r)' % (ar['print_range'],))
        if isinstance(res, BaseException):
            raise Violation('Corr.__repr__(%r) raised %s: %s' % (ar['print_range'], type(res).__name__, res))
        require(isinstance(res, str), '__repr__ does not return a string')
        la, ia = none_labels(spec['a'])
        return {'nt': bool(ia), 'cls': sorted(set(['kind:repr', 'print_range:%s' % ('default' if pr is None else ('open' if not pr[1] else 'closed'))]
                                                   + ['a:' + x for x in la] + ['avoided:' + f for f in spec['avoid']]))}
    else:
        raise ValueError(kind)

    res = call_twice(fn, watched, what)

    def cmp(e, g, lab, t):
        if kind == 'anti_symmetric' and t == 0:
            return      # the statement does not fix the value of the slice without partner
        cmp_lin(e, g, lab)

    labs = compare_corr(res, expected, T, Nres, what, cmp)
    la, ia = none_labels(spec['a'])
    nt = ia or spec['a']['cplx']
    cls = ['kind:' + kind, 'N:%d' % N, 'content:' + ('complex' if spec['a']['cplx'] else 'real')] + ['a:' + x for x in la] + labs
    if kind == 'T_symmetry':
        lp, ip = none_labels(spec['p'])
        nt = nt or ip
        cls += ['p:' + x for x in lp]
        if any(x['idl'] != y['idl'] for x, y in zip(spec['a']['lay'], spec['p']['lay'])):
            cls.append('partner_layout:nested')
    if kind == 'projected':
        cls += ['projected:' + ar['mode'], 'normalize:%r' % ar['normalize'], 'vec:' + ar['vkind']]
        if any(isinstance(v, list) and any(x is None for x in v) for v in (ar.get('l'), ar.get('r'))):
            cls.append('projected:list_with_None')
    if kind == 'Hankel':
        cls += ['Hankel:N=%d' % ar['N'], 'Hankel:periodic=%r' % ar['periodic']]
    if kind == 'roll':
        cls.append('roll:' + ('neg' if ar['dt'] < 0 else 'zero' if ar['dt'] % T == 0 else 'pos') + ('_wrap' if abs(ar['dt']) >= T else ''))
    if kind == 'thin':
        cls.append('thin:offset_' + ('neg' if ar['offset'] < 0 else 'pos' if ar['offset'] > 0 else 'zero'))
    if spec['a'].get('msym'):
        cls.append('matrix:symmetric_entries')
    cls += ['avoided:' + f for f in spec['avoid']]
    return {'nt': bool(nt), 'cls': sorted(set(cls))}


SUBS = [
    Sub('arith', arith_case, arith_oracle, {'quick': 160, 'thorough': 4000}, {'quick': 16, 'thorough': 16},
        doc='operators + - * / ** @ with every partner type in both orders: timeslice-wise, undefined slices, non-mutation',
        max_skip_frac=0.3),
    Sub('func', func_case, func_oracle, {'quick': 150, 'thorough': 3000}, {'quick': 6, 'thorough': 8},
        doc='elementary functions inside and outside their domain: timeslice-wise, NaN -> undefined, non-mutation'),
    Sub('index', index_case, index_oracle, {'quick': 200, 'thorough': 3000}, {'quick': 10, 'thorough': 16},
        doc='index transformations against index maps; argument objects unchanged over repeated calls'),
]
