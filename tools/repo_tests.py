#!/venv/bin/python
"""Run the repository's pinned test-suite (on VERIF_REPO or /repo) and compare with BASELINE.json's stable set.
usage: tools/repo_tests.py [repo_dir]   -> exit 0 iff every baseline-stable test passes."""
import json, os, subprocess, sys, tempfile
import xml.etree.ElementTree as ET
repo = sys.argv[1] if len(sys.argv) > 1 else os.environ.get('VERIF_REPO', '/repo')
base = json.load(open('/root/.vp/BASELINE.json'))
xml = tempfile.mktemp(suffix='.xml')
env = dict(os.environ, PYTHONPATH=repo, MPLBACKEND='Agg', OMP_NUM_THREADS='1', OPENBLAS_NUM_THREADS='1', MKL_NUM_THREADS='1')
subprocess.run(['/venv/bin/python', '-m', 'pytest', '-q', '-p', 'no:cacheprovider', '--timeout=900',
                '--continue-on-collection-errors', '--junitxml=' + xml, 'tests'], cwd=repo, env=env,
               capture_output=True, text=True)
passed = set()
failed = set()
for tc in ET.parse(xml).getroot().iter('testcase'):
    name = tc.get('classname') + '::' + tc.get('name')
    if any(ch.tag in ('failure', 'error') for ch in tc):
        failed.add(name)
    elif not any(ch.tag == 'skipped' for ch in tc):
        passed.add(name)
os.unlink(xml)
missing = sorted(set(base['stable_pass']) - passed)
newpass = sorted(passed - set(base['stable_pass']))
print('passed %d failed %d ; baseline-stable tests not passing: %d' % (len(passed), len(failed), len(missing)))
for m in missing:
    print('  NOT PASSING:', m)
if newpass:
    print('  additionally passing:', newpass)
sys.exit(1 if missing else 0)
