#!/venv/bin/python
"""tools/verify_benign.py <PID> <dir> <name>
Confirms a behaviour-preserving change (patch.diff + probe.py + meta.json produced by a sub-agent for the reverse test, DESIGN 9.6):
 probe passes on a clean scratch worktree of /repo HEAD, patch applies, probe passes with it as well, the pinned test-suite still
 gives the baseline result.  On success copies it to /verif/benign/<PID>-<name>/.  The scratch worktree is removed in every case."""
import json, os, shutil, subprocess, sys, tempfile
pid, src, name = sys.argv[1:4]
d = tempfile.mkdtemp(prefix='benverify.')
wt = d + '/wt'
env = dict(os.environ, PYTHONPATH=wt, OMP_NUM_THREADS='1', OPENBLAS_NUM_THREADS='1', MKL_NUM_THREADS='1', MPLBACKEND='Agg')
rec = {}
ok = False
try:
    subprocess.run(['git', '-C', '/repo', 'worktree', 'add', '--detach', wt, 'HEAD'], check=True, capture_output=True)
    head = subprocess.run(['git', '-C', '/repo', 'rev-parse', '--short', 'HEAD'], capture_output=True, text=True).stdout.strip()

    def probe():
        if not os.path.exists(src + '/probe.py'):
            return 0, 'no probe'
        p = subprocess.run(['/venv/bin/python', os.path.abspath(src + '/probe.py')], cwd=wt, env=env, capture_output=True, text=True, timeout=1800)
        return p.returncode, (p.stdout + p.stderr)[-400:]
    rc0, out0 = probe()
    rec['probe_clean'] = {'rc': rc0, 'tail': out0[-150:]}
    ap = subprocess.run(['git', '-C', wt, 'apply', os.path.abspath(src + '/patch.diff')], capture_output=True, text=True)
    rec['patch_applies'] = ap.returncode == 0
    if ap.returncode == 0:
        diff = subprocess.run(['git', '-C', wt, 'diff'], capture_output=True, text=True).stdout
        rc1, out1 = probe()
        rec['probe_changed'] = {'rc': rc1, 'tail': out1[-150:]}
        t = subprocess.run(['/verif/tools/repo_tests.py', wt], capture_output=True, text=True, timeout=3600)
        rec['suite'] = {'rc': t.returncode, 'out': t.stdout[-300:]}
        ok = rc0 == 0 and rc1 == 0 and t.returncode == 0 and len(diff) > 0
        if ok:
            dst = '/verif/benign/%s-%s' % (pid, name)
            os.makedirs(dst, exist_ok=True)
            open(dst + '/patch.diff', 'w').write(diff)
            if os.path.exists(src + '/probe.py'):
                shutil.copy(src + '/probe.py', dst + '/probe.py')
            try:
                meta = json.load(open(src + '/meta.json'))
            except Exception:
                meta = {}
            meta['property'] = pid
            meta.pop('suite', None)
            meta['verified'] = {'against_repo_head': head, 'suite': t.stdout.strip().splitlines()[0] if t.stdout else ''}
            json.dump(meta, open(dst + '/meta.json', 'w'), indent=1)
finally:
    subprocess.run(['git', '-C', '/repo', 'worktree', 'remove', '--force', wt], capture_output=True)
    shutil.rmtree(d, ignore_errors=True)
print(pid, name, 'VERIFIED' if ok else 'REJECTED', json.dumps(rec)[:500])
sys.exit(0 if ok else 1)
