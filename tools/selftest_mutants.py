#!/venv/bin/python
"""tools/selftest_mutants.py [PID ...]
Sensitivity self-test (DESIGN section 6): applies each textual mutation of the table below to a scratch worktree of
/repo's HEAD (outside /repo and /verif), runs the quick tier of the owning check on it and reports killed / survived.
Results go to mutants/RESULTS.json.  The scratch worktree is removed after every mutation."""
import json, os, re, shutil, subprocess, sys, tempfile

HERE = os.path.dirname(os.path.dirname(os.path.abspath(__file__)))
OBS = 'pyerrors/obs.py'

# (id, property, file, old text, new text)
M = [
    ('c01-expand-norm', 'C01', OBS, "* len(new_idx) / len(idx) * scalefactor", "* scalefactor"),
    ('c01-rsub-sign', 'C01', OBS, "    def __rsub__(self, y):\n        return -1 * (self - y)", "    def __rsub__(self, y):\n        return (self - y)"),
    ('c01-rtruediv-grad', 'C01', OBS, "man_grad=[-y / self.value ** 2])", "man_grad=[-y / self.value])"),
    ('c01-tanh-grad', 'C01', OBS, "man_grad=[1 / np.cosh(self.value) ** 2])", "man_grad=[1 / np.cosh(self.value)])"),
    ('c01-tan-grad', 'C01', OBS, "man_grad=[1 / np.cos(self.value) ** 2])", "man_grad=[1 / np.cos(self.value)])"),
    ('c01-pow-grad', 'C01', OBS, "self.value ** y.value * np.log(self.value)])", "self.value ** y.value * np.log(y.value)])"),
    ('c01-cobs-mul-sign', 'C01', OBS, "man_grad=[other.real.value, self.real.value, -other.imag.value, -self.imag.value]),", "man_grad=[other.real.value, self.real.value, other.imag.value, -self.imag.value]),"),
    ('c01-cobs-div', 'C01', OBS, "(self.imag * other.real - self.real * other.imag) / r)", "(self.imag * other.real + self.real * other.imag) / r)"),
    ('c01-merge-idx-first', 'C01', OBS, "    idunion = sorted(set().union(*idl))\n", "    idunion = sorted(set().union(*idl[:2]))\n"),
    ('c01-scalef-old-len', 'C01', OBS, "sum([len(new_idl_d[name]) for name in new_mc_idl_d]) / sum([len(new_idl_d[name]) for name in mc_idl_d])", "sum([len(new_idl_d[name]) for name in new_mc_idl_d]) / sum([obs.shape[name] for name in mc_idl_d])"),
    ('c01-rvalue-default', 'C01', OBS, "tmp_values[i] = item.r_values.get(name, item.value)", "tmp_values[i] = item.r_values.get(name, 0.0)"),
    ('c01-array-mode-scalef', 'C01', OBS, "_compute_scalefactor_missing_rep(o).get(name.split('|')[0], 1)) for o in dat.reshape", "1) for o in dat.reshape"),
    ('c02-gamma-div', 'C02', OBS, "            e_gamma[e_name] /= gamma_div[:w_max]\n", "            e_gamma[e_name] /= e_N\n"),
    ('c02-window-limit', 'C02', OBS, "if g_w[n - 1] < 0 or n >= w_max - 1:", "if g_w[n - 1] < 0 or n >= w_max - 2:"),
    ('c02-bias', 'C02', OBS, "self.e_tauint[e_name] = self.e_n_tauint[e_name][n] * (1 + (2 * n + 1) / e_N) / (1 + 1 / e_N)  # Bias correction", "self.e_tauint[e_name] = self.e_n_tauint[e_name][n] * (1 + (2 * n) / e_N) / (1 + 1 / e_N)  # Bias correction"),
    ('c02-drho-slice', 'C02', OBS, "tmp = (self.e_rho[e_name][i + 1:w_max]", "tmp = (self.e_rho[e_name][i:w_max - 1]"),
    ('c02-expand-gap', 'C02', OBS, "        ret[(idx[i] - idx[0]) // gapsize] = deltas[i]", "        ret[min((idx[i] - idx[0]), len(ret) - 1)] = deltas[i]"),
    ('c02-texp-window', 'C02', OBS, "< 0 or n >= w_max // 2 - 2:", "< 0 or n >= w_max // 2 - 1:"),
    ('c02-ddvalue', 'C02', OBS, "self.e_ddvalue[e_name] = self.e_dvalue[e_name] * np.sqrt((n + 0.5) / e_N)\n                            self.e_windowsize[e_name] = n\n                            break\n\n            self._dvalue", "self.e_ddvalue[e_name] = self.e_dvalue[e_name] * np.sqrt((n + 1.5) / e_N)\n                            self.e_windowsize[e_name] = n\n                            break\n\n            self._dvalue"),
    ('c02-dtauint', 'C02', OBS, "np.abs(np.arange(w_max) + 0.5 - self.e_n_tauint[e_name]) / e_N)", "np.abs(np.arange(w_max) - 0.5 - self.e_n_tauint[e_name]) / e_N)"),
    ('c02-S0', 'C02', OBS, "self.e_dvalue[e_name] = np.sqrt(e_gamma[e_name][0] / (e_N - 1))", "self.e_dvalue[e_name] = np.sqrt(e_gamma[e_name][0] / e_N)"),
    ('c02-covsq', 'C02', OBS, "            self._dvalue += self.e_dvalue[e_name]**2\n\n        self._dvalue = np.sqrt", "            self._dvalue += self.e_dvalue[e_name]\n\n        self._dvalue = np.sqrt"),
    ('c03-precedence', 'C03', OBS, "                for e, e_name in enumerate(self.e_names):\n                    if e_name in getattr(Obs, kwarg_name + '_dict'):", "                for e, e_name in enumerate(self.e_names):\n                    if e_name in getattr(Obs, kwarg_name + '_dict') and kwarg_name != 'N_sigma':"),
    ('c03-stale-tauexp', 'C03', OBS, "        self.S = {}\n        self.tau_exp = {}\n", "        self.S = {}\n        self.tau_exp = getattr(self, 'tau_exp', {})\n"),
    ('c03-rlength-range', 'C03', OBS, "r_length.append(len(self.idl[r_name]) * self.idl[r_name].step // gapsize)", "r_length.append(len(self.idl[r_name]))"),
    ('c03-fft-pad', 'C03', OBS, "padding = new_shape + max_gamma + (new_shape + max_gamma) % 2", "padding = new_shape + (new_shape) % 2"),
    ('c03-gm-mutates', 'C03', OBS, "        self._dvalue = np.sqrt(self._dvalue)\n        if self._dvalue == 0.0:", "        self._dvalue = np.sqrt(self._dvalue)\n        self.r_values = {k: float(v) for k, v in self.r_values.items()}\n        self._value = float(self._value) * (1 + 1e-15)\n        if self._dvalue == 0.0:"),
    ('c04-names-unsorted', 'C04', OBS, "        self.names = sorted(names)\n", "        self.names = list(names)\n"),
    ('c04-few-samples', 'C04', OBS, "if min(len(x) for x in samples) <= 4:", "if min(len(x) for x in samples) <= 3:"),
    ('c04-merge-dup', 'C04', OBS, "    if (len(replist) == len(set(replist))) is False:\n        raise ValueError", "    if False:\n        raise ValueError"),
    ('c04-dup-idl', 'C04', OBS, "                    elif np.any(dc == 0):", "                    elif False:"),
    ('c04-cobs-mul-real', 'C04', OBS, "            else:\n                return CObs(self.real * other.real, self.imag * other.real)\n        else:\n            return CObs(self.real * other, self.imag * other)", "            else:\n                return CObs(self.real * other.real, self.imag * other.real)\n        else:\n            return self.real * other"),
    ('c04-merge-idx-range', 'C04', OBS, "    if _check_lists_equal(idtest):\n        return idrange\n\n    return idunion", "    return idunion"),
    ('c05-reduce-prefix', 'C05', OBS, "    return np.array(deltas)[indices]", "    return np.array(deltas)[:len(idx_new)]"),
    ('c05-flag-inherit', 'C05', OBS, "    reweighted = len(list(filter(lambda o: o.reweighted is True, raveled_data))) > 0", "    reweighted = raveled_data[0].reweighted is True"),
    ('c05-subset-check', 'C05', OBS, "            if not set(obs[i].idl[name]).issubset(weight.idl[name]):", "            if False:"),
    ('c05-allconfigs', 'C05', OBS, "        if kwargs.get('all_configs'):\n            new_weight = weight", "        if kwargs.get('all_configs') is False:\n            new_weight = weight"),
    ('c05-correlate-flag', 'C05', OBS, "    o.reweighted = obs_a.reweighted or obs_b.reweighted", "    o.reweighted = obs_a.reweighted and obs_b.reweighted"),
    ('c05-merge-flag', 'C05', OBS, "    o.reweighted = np.max([oi.reweighted for oi in list_of_obs])", "    o.reweighted = list_of_obs[0].reweighted"),
    ('c13-jack-n', 'C13', OBS, "tmp_jacks[1:] = (n * mean - full_data) / (n - 1)", "tmp_jacks[1:] = (n * mean - full_data) / n"),
    ('c13-jack-idl', 'C13', OBS, "new_obs = Obs([samples - mean], [name], idl=idl, means=[mean])", "new_obs = Obs([samples - mean], [name], means=[mean])"),
    ('c13-boot-minlength', 'C13', OBS, "        proj = np.vstack([np.bincount(o, minlength=length) for o in random_numbers]) / length\n        ret = np.zeros(samples + 1)", "        proj = np.vstack([np.bincount(np.append(o, length - 1), minlength=length) for o in random_numbers]) / length\n        ret = np.zeros(samples + 1)"),
    ('c13-boot-seed', 'C13', OBS, "seed = int(hashlib.md5(name.encode()).hexdigest(), 16) & 0xFFFFFFFF", "seed = (int(hashlib.md5(name.encode()).hexdigest(), 16) + length) & 0xFFFFFFFF"),
]


def main():
    want = [a.upper() for a in sys.argv[1:]]
    resf = os.path.join(HERE, 'mutants', 'RESULTS.json')
    os.makedirs(os.path.dirname(resf), exist_ok=True)
    results = json.load(open(resf)) if os.path.exists(resf) else {}
    for mid, pid, fn, old, new in M:
        if want and pid not in want:
            continue
        tmp = tempfile.mkdtemp(prefix='selfmut.')
        wt = tmp + '/wt'
        try:
            subprocess.run(['git', '-C', '/repo', 'worktree', 'add', '--detach', wt, 'HEAD'], check=True, capture_output=True)
            s = open(os.path.join(wt, fn)).read()
            if s.count(old) != 1:
                results[mid] = {'property': pid, 'applies': False, 'count': s.count(old)}
                print(mid, 'DOES NOT APPLY (%d matches)' % s.count(old), flush=True)
                continue
            open(os.path.join(wt, fn), 'w').write(s.replace(old, new))
            env = dict(os.environ, VERIF_REPO=wt, VERIF_REPLAY_DIR=tmp + '/replays', VERIF_SHRINK_BUDGET='0')
            p = subprocess.run([os.path.join(HERE, 'check'), pid, '--no-evidence'], capture_output=True, text=True, env=env, cwd=HERE)
            subs = sorted(set(re.findall(r'^violation in %s/(\w+):' % pid, p.stdout, re.M)))
            results[mid] = {'property': pid, 'applies': True, 'rc': p.returncode, 'killed': p.returncode == 1, 'subs': subs,
                            'file': fn, 'old': old[:120], 'new': new[:120]}
            print(mid, 'KILLED' if p.returncode == 1 else 'SURVIVED rc=%d' % p.returncode, subs, flush=True)
        finally:
            subprocess.run(['git', '-C', '/repo', 'worktree', 'remove', '--force', wt], capture_output=True)
            shutil.rmtree(tmp, ignore_errors=True)
    json.dump(results, open(resf, 'w'), indent=1, sort_keys=True)
    k = sum(1 for r in results.values() if r.get('killed'))
    print('killed %d of %d applied' % (k, sum(1 for r in results.values() if r.get('applies'))))


if __name__ == '__main__':
    main()
