#!/venv/bin/python
"""tools/verify_seed.py <PID> <mutant-dir> <name>
Independently confirms a seeded change (patch.diff + demo.py + meta.json produced by a sub-agent):
 demo passes on a clean scratch worktree of /repo HEAD, patch applies, demo fails with it, the pinned
 test-suite still gives the baseline result.  On success copies it to /verif/seeded/<PID>-<name>/ with the
 verification record added to meta.json.  The scratch worktree is removed in every case."""
import json, os, shutil, subprocess, sys, tempfile
pid, src, name = sys.argv[1:4]
d = tempfile.mkdtemp(prefix='seedverify.')
wt = d + '/wt'
env = dict(os.environ, PYTHONPATH=wt, OMP_NUM_THREADS='1', OPENBLAS_NUM_THREADS='1', MKL_NUM_THREADS='1', MPLBACKEND='Agg')
rec = {}
ok = False
try:
    subprocess.run(['git', '-C', '/repo', 'worktree', 'add', '--detach', wt, 'HEAD'], check=True, capture_output=True)
    head = subprocess.run(['git', '-C', '/repo', 'rev-parse', '--short', 'HEAD'], capture_output=True, text=True).stdout.strip()
    def demo():
        p = subprocess.run(['/venv/bin/python', os.path.abspath(src + '/demo.py')], cwd=wt, env=env, capture_output=True, text=True, timeout=1800)
        return p.returncode, (p.stdout + p.stderr)[-600:]
    rc0, out0 = demo()
    rec['demo_clean'] = {'rc': rc0, 'tail': out0[-200:]}
    ap = subprocess.run(['git', '-C', wt, 'apply', os.path.abspath(src + '/patch.diff')], capture_output=True, text=True)
    if ap.returncode != 0:
        ap = subprocess.run('patch -p1 --fuzz=3 < ' + os.path.abspath(src + '/patch.diff'), shell=True, cwd=wt, capture_output=True, text=True)
    rec['patch_applies'] = ap.returncode == 0
    if ap.returncode == 0:
        diff = subprocess.run(['git', '-C', wt, 'diff'], capture_output=True, text=True).stdout
        rc1, out1 = demo()
        rec['demo_changed'] = {'rc': rc1, 'tail': out1[-400:]}
        t = subprocess.run(['/verif/tools/repo_tests.py', wt], capture_output=True, text=True, timeout=3600)
        rec['suite'] = {'rc': t.returncode, 'out': t.stdout[-500:]}
        ok = rc0 == 0 and rc1 != 0 and t.returncode == 0
        if ok:
            dst = '/verif/seeded/%s-%s' % (pid, name)
            os.makedirs(dst, exist_ok=True)
            open(dst + '/patch.diff', 'w').write(diff)
            if os.path.abspath(src) != os.path.abspath(dst):
                shutil.copy(src + '/demo.py', dst + '/demo.py')
            try:
                meta = json.load(open(src + '/meta.json'))
            except Exception:
                meta = {}
            meta['property'] = pid
            meta['verified'] = {'against_repo_head': head, 'ran': ['demo.py on clean worktree (exit 0)', 'git apply patch.diff',
                                'demo.py on changed worktree (exit %d)' % rc1, 'tools/repo_tests.py <worktree> (all 250 baseline tests pass)'],
                                'demo_changed_tail': out1[-300:], 'suite': t.stdout.strip().splitlines()[0] if t.stdout else ''}
            json.dump(meta, open(dst + '/meta.json', 'w'), indent=1)
finally:
    subprocess.run(['git', '-C', '/repo', 'worktree', 'remove', '--force', wt], capture_output=True)
    shutil.rmtree(d, ignore_errors=True)
print(pid, name, 'VERIFIED' if ok else 'REJECTED', json.dumps(rec)[:700])
sys.exit(0 if ok else 1)
