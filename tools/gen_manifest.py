#!/venv/bin/python
"""Writes /verif/MANIFEST.json from the table below (one entry per claimed property) and validates it."""
import json
import os

HERE = os.path.dirname(os.path.dirname(os.path.abspath(__file__)))

CHECKS = {
    'C01': dict(
        technique='property-based testing (Hypothesis): expression trees and derived_observable calls vs. reference model RefObs.combine with analytic gradients; metamorphic split-invariance',
        level='exploration', design='DESIGN.md 4/C01, 3.2',
        text='Generated expression trees (all operators, 15 elementary functions, Obs/number operands in both positions), explicit '
             'derived_observable calls (autograd, num_grad, man_grad, array_mode), complex arithmetic and ndarray operands over related '
             'layouts (config subsets of a common grid, missing replicas, several ensembles, shared covariance inputs). Every node is compared '
             'in value, every per-configuration fluctuation, replica means and covariance gradients with an independent dictionary-based '
             'reference of first-order propagation. Sampling, not proof.',
        note='Trusts vlib/refobs.py (40 lines, written from the property text) and the analytic derivative table (self-checked by finite differences).'),
    'C02': dict(
        technique='property-based testing (Hypothesis): differential test of gamma_method against a loop-based reference Gamma method (ref_gamma)',
        level='exploration', design='DESIGN.md 4/C02, 3.3',
        text='Generated multi-ensemble / multi-replica observables with contiguous, strided and irregular configuration lists and four data kinds; '
             'S, tau_exp, N_sigma from argument, dictionary or global default; fft on/off. All e_* results, dvalue and ddvalue are compared to 1e-9 with '
             'a reference implementation written from the papers; exact ties of the window criterion are skipped and counted.',
        note='Trusts vlib/refgamma.py; conventions the papers leave open (largest admissible lag, truncation of the drho sum) follow the documentation.'),
}

CHECKS['C03'] = dict(
    technique='property-based testing (Hypothesis): metamorphic relations (fft, relabelling, renaming, shift/scale) and a model-based RuleBasedStateMachine over call histories',
    level='exploration', design='DESIGN.md 4/C03',
    text='Metamorphic relations on generated observables (fft on/off, i->a*i+b per ensemble, replica/ensemble renaming and argument permutation, '
         'shift, scale over 36 decades) plus a traced rule-based state machine whose model holds the class dictionaries and global defaults: after every '
         'gamma_method call the data are bit-identical, the results equal the stateless reference analysis with the model\'s effective parameters, a '
         'repeated call is bit-identical, and arithmetic on analysed objects equals arithmetic on rebuilt never-analysed copies.',
    note='Uses ref_gamma both as tie detector and as the stateless analysis in the history model; window ties are skipped and counted.')
CHECKS['C04'] = dict(
    technique='property-based testing (Hypothesis): RuleBasedStateMachine with a structural invariant checked on every returned object; generated closure table and malformed requests',
    level='exploration', design='DESIGN.md 4/C04',
    text='Operation histories (constructors, arithmetic with Obs/CObs/int/float/complex/ndarray in both orders, elementary functions, reweight, correlate, '
         'merge_obs, json/dobs/pickle/jackknife round trips, fits, roots) with the well-formedness predicate evaluated after every step; a generated closure '
         'table for + - * / ** over operand kinds; 17 kinds of malformed construction requests that must raise.',
    note='The predicate (vlib/wellformed.py) is a transcription of the statement; exceptions of non-arithmetic operations inside histories are counted, not judged.')

CHECKS['C05'] = dict(
    technique='property-based testing (Hypothesis): reference results built from {configuration: sample} dictionaries of the generated spec; must-raise cases',
    level='exploration', design='DESIGN.md 4/C05',
    text='Weights on 1-3 replicas and observables on generated subsets (prefix, window, stride, mask) of their configurations and replicas; reweight (function, '
         'method, Corr), correlate (function, Corr with Obs / Corr), merge_obs over replica partitions, qtop_projection; expected value, every fluctuation, '
         'replica means and the reweighted flag are computed by configuration number; 11 kinds of un-alignable requests must raise.',
    note='Trusts RefObs.combine for the first-order ratio <w o>/<w>.')

CHECKS['C13'] = dict(
    technique='property-based testing (Hypothesis): resampling definitions recomputed with numpy (np.delete leave-one-out, x[table].mean()), round trips, operation sequences for seeding',
    level='exploration', design='DESIGN.md 4/C13',
    text='Single-replica observables of length 5..60 (500 thorough) with every list kind and data kind; Hypothesis-drawn bootstrap tables (any table for export, '
         'full-column-rank by construction for import, too few samples must raise); default seeding checked through the saved table, repeated calls, a second '
         'observable of the same chain and of the same chain name with another length in the same process.',
    note='The definition of the resampled means is recomputed independently; import tolerance scales with cond of the projector.')

PENDING_REASON = 'check under construction in this build phase; not claimed until its quick tier is silent on the unchanged tree'


def main():
    props = [json.loads(line) for line in open(os.path.join(HERE, 'properties.jsonl'))]
    checks = []
    na = []
    for p in props:
        pid = p['id']
        c = CHECKS.get(pid)
        if c is None or not os.path.exists(os.path.join(HERE, 'checks', pid.lower() + '.py')):
            na.append({'property_id': pid, 'reason': NA.get(pid, PENDING_REASON)})
            continue
        checks.append({
            'property_id': pid,
            'quick_cmd': './check %s --tier quick' % pid,
            'thorough_cmd': './check %s --tier thorough' % pid,
            'evidence_file': 'evidence/%s.json' % pid,
            'replay_cmd_template': './check %s --replay {path}' % pid,
            'engine': 'pbt-runner',
            'level_claimed': {'category': c['level'], 'text': c['text'], 'design_ref': c['design']},
            'level_note': c['note'],
            'technique': c['technique'],
        })
    man = {
        'version': 1,
        'setup_cmd': './setup.sh',
        'hooks': {
            'guard': 'PYERRORS_VERIF',
            'enable': 'no hooks are needed: every observation point is a public attribute; checks import pyerrors from /repo (or VERIF_REPO) as is',
            'baseline_off_cmd': 'cd /repo && /venv/bin/python -m pytest -ra -q -p no:cacheprovider --timeout=900 --continue-on-collection-errors',
            'source_commits': [],
            'add_only': True,
        },
        'engines': [{
            'name': 'pbt-runner', 'path': 'vlib/runner.py',
            'serves_properties': [c['property_id'] for c in checks],
            'kind_free_text': 'Hypothesis 6.168 (given / RuleBasedStateMachine) and exhaustive enumeration driven by a sharding runner: one fresh '
                              'process per (sub-property, shard), seeds derived from VERIF_SEED, plain-data specs as replay files',
        }],
        'checks': checks,
        'not_applicable': na,
        'notes': 'Exit codes of ./check: 0 held, 1 VIOLATION, 2 harness problem. Fixes to /repo are separate "fix:" commits listed in known_findings.json.',
    }
    json.dump(man, open(os.path.join(HERE, 'MANIFEST.json'), 'w'), indent=1)
    try:
        import jsonschema
        jsonschema.validate(man, json.load(open('/root/.vp/MANIFEST.schema.json')))
        print('MANIFEST.json valid:', len(checks), 'checks,', len(na), 'not_applicable')
    except ImportError:
        print('written (jsonschema not available)')


NA = {}

if __name__ == '__main__':
    main()
