#!/venv/bin/python
"""Writes /verif/MANIFEST.json from the table below (one entry per claimed property) and validates it."""
import json
import os

HERE = os.path.dirname(os.path.dirname(os.path.abspath(__file__)))

CHECKS = {
    'C01': dict(
        technique='property-based testing (Hypothesis): expression trees and derived_observable calls vs. reference model RefObs.combine with analytic gradients; metamorphic split-invariance',
        level='exploration', design='DESIGN.md 4/C01, 3.2',
        text='Generated expression trees (all operators, 15 elementary functions, Obs/number operands in both positions), explicit '
             'derived_observable calls (autograd, num_grad, man_grad, array_mode), complex arithmetic and ndarray operands over related '
             'layouts (config subsets of a common grid, missing replicas, several ensembles, shared covariance inputs). Every node is compared '
             'in value, every per-configuration fluctuation, replica means and covariance gradients with an independent dictionary-based '
             'reference of first-order propagation. Sampling, not proof. Round 7: functions of magnitude 1e-9..1e-30 on the num_grad path (tolerance in units of |f|).',
        note='Trusts vlib/refobs.py (40 lines, written from the property text) and the analytic derivative table (self-checked by finite differences).'),
    'C02': dict(
        technique='property-based testing (Hypothesis): differential test of gamma_method against a loop-based reference Gamma method (ref_gamma)',
        level='exploration', design='DESIGN.md 4/C02, 3.3',
        text='Generated multi-ensemble / multi-replica observables with contiguous, strided and irregular configuration lists and four data kinds; '
             'S, tau_exp, N_sigma from argument, dictionary or global default; fft on/off. All e_* results, dvalue and ddvalue are compared to 1e-9 with '
             'a reference implementation written from the papers; exact ties of the window criterion are skipped and counted. Round 7: S down to 1e-200 (decision margin relative where both terms are small), many short replicas so that the criterion never turns negative.',
        note='Trusts vlib/refgamma.py; conventions the papers leave open (largest admissible lag, truncation of the drho sum) follow the documentation.'),
}

CHECKS['C03'] = dict(
    technique='property-based testing (Hypothesis): metamorphic relations (fft, relabelling, renaming, shift/scale) and a model-based RuleBasedStateMachine over call histories',
    level='exploration', design='DESIGN.md 4/C03',
    text='Metamorphic relations on generated observables (fft on/off, i->a*i+b per ensemble, replica/ensemble renaming and argument permutation, '
         'shift, scale over 36 decades) plus a traced rule-based state machine whose model holds the class dictionaries and global defaults: after every '
         'gamma_method call the data are bit-identical, the results equal the stateless reference analysis with the model\'s effective parameters, a '
         'repeated call is bit-identical, and arithmetic on analysed objects equals arithmetic on rebuilt never-analysed copies. Round 7: sub-property derive (25 operations on analysed vs never-analysed copies: identical data and identical analysis state), replica labels with further separators.',
    note='Uses ref_gamma both as tie detector and as the stateless analysis in the history model; window ties are skipped and counted.')
CHECKS['C04'] = dict(
    technique='property-based testing (Hypothesis): RuleBasedStateMachine with a structural invariant checked on every returned object; generated closure table and malformed requests',
    level='exploration', design='DESIGN.md 4/C04',
    text='Operation histories (constructors, arithmetic with Obs/CObs/int/float/complex/ndarray in both orders, elementary functions, reweight, correlate, '
         'merge_obs, json/dobs/pickle/jackknife round trips, fits, roots) with the well-formedness predicate evaluated after every step; a generated closure '
         'table for + - * / ** over operand kinds; 17 kinds of malformed construction requests that must raise. Round 7: numpy scalars (float32, int64, complex64, complex128) and float / complex arrays as operand kinds of the closure table; mildly indefinite covariance matrices must be refused.',
    note='The predicate (vlib/wellformed.py) is a transcription of the statement; exceptions of non-arithmetic operations inside histories are counted, not judged.')

CHECKS['C05'] = dict(
    technique='property-based testing (Hypothesis): reference results built from {configuration: sample} dictionaries of the generated spec; must-raise cases',
    level='exploration', design='DESIGN.md 4/C05',
    text='Weights on 1-3 replicas and observables on generated subsets (prefix, window, stride, mask) of their configurations and replicas; reweight (function, '
         'method, Corr), correlate (function, Corr with Obs / Corr), merge_obs over replica partitions, qtop_projection; expected value, every fluctuation, '
         'replica means and the reweighted flag are computed by configuration number; 11 kinds of un-alignable requests must raise. Round 7: equally long configuration lists at numbers 1e5..1e9 that differ in one entry must be refused by correlate.',
    note='Trusts RefObs.combine for the first-order ratio <w o>/<w>.')

CHECKS['C13'] = dict(
    technique='property-based testing (Hypothesis): resampling definitions recomputed with numpy (np.delete leave-one-out, x[table].mean()), round trips, operation sequences for seeding',
    level='exploration', design='DESIGN.md 4/C13',
    text='Single-replica observables of length 5..60 (500 thorough) with every list kind and data kind; Hypothesis-drawn bootstrap tables (any table for export, '
         'full-column-rank by construction for import, too few samples must raise); default seeding checked through the saved table, repeated calls, a second '
         'observable of the same chain and of the same chain name with another length in the same process. S=0 requested by argument / dictionary / global, chains in units of 1e-30..1e25, resampling tables in other memory layouts, returned arrays owned by the caller, the name-seeded table reproduced by a child interpreter with another hash salt.',
    note='The definition of the resampled means is recomputed independently; import tolerance scales with cond of the projector.')

CHECKS['C06'] = dict(
    technique='property-based testing (Hypothesis): validity predicates on generated lists of analysed observables, Pearson reference computed by configuration number, metamorphic permutation, helper identities',
    level='exploration', design='DESIGN.md 4/C06',
    text='Lists of 2-8 analysed observables (1-3 ensembles x 1-3 replicas, identical / nested / overlapping / disjoint lists, shared covariance inputs, derived entries, '
         'per-entry analysis parameters): symmetry, diag = dvalue^2, unit diagonal, bounds, zero blocks, cov(perm) = P cov P^T; single-chain Pearson identity and PSD from '
         'spec-level fluctuations; J Sigma J^T for external inputs; invert_corr_cov_cholesky, sort_corr, smoothing (trace and eigenvalue rule), error_band = sqrt(g^T C g). Round 7: Cholesky-based inverse on eigenvalue-smoothed correlation matrices.',
    note='Off-diagonal values for multi-replica / multi-ensemble observables are only constrained by the predicates the statement lists.')
CHECKS['C09'] = dict(
    technique='property-based testing (Hypothesis): closed-form inverse / antiderivative oracles through RefObs.combine; differential test against scipy.integrate.quad',
    level='exploration', design='DESIGN.md 4/C09',
    text='find_root on 10 monotone families (scalar and vector d, d on different ensembles, covariance inputs, aliased inputs): value vs closed-form root, fluctuations vs '
         '-(df/dd)/(df/dx), equality with the explicit inverse applied with Obs arithmetic; integrate.quad on 15 integrand families with every subset of parameters and limits '
         'observable (reversed, coinciding, infinite limits): value F(b)-F(a), gradient (int d_p f, -f(a), +f(b)); plain-number calls return scipy\'s tuple. Root families down to roots of size 1e-8, decoy calls with the same function object before a default-start root, falsy-but-meaningful and complex_func options of quad, a two-scale integrand family.',
    note='Analytic derivatives hand-written and self-checked; quad tolerance is a multiple of QUADPACK\'s own error estimate.')
CHECKS['C10'] = dict(
    technique='property-based testing (Hypothesis): defining matrix identities evaluated to first order in an independent reference domain (vlib/refmat.py over RefObs); independent jackknife recomputation',
    level='exploration', design='DESIGN.md 4/C10',
    text='matmul (2-4 factors, real/complex/mixed with plain numbers), inv, cholesky, det, eigh/eigv, eig, pinv, svd on well-conditioned 1x1..4x4 (rectangular) matrices with '
         'entries on different layouts; identities checked in value, every fluctuation and covariance gradient without using pyerrors arithmetic; jack_matmul / einsum against a '
         'per-sample numpy jackknife and an explicit O(1/N) bound to the exact product. Operand matrices in C / Fortran / transposed-view / slice layouts; the same array objects refilled between two jackknife products; complex Cholesky declined or correct. Round 7: chained jackknife products (operands that came out of jack_matmul / einsum), value equal to the exact product at rounding level.',
    note='Complex input only where the library documents it (matmul, inv).')
CHECKS['C11'] = dict(
    technique='property-based testing (Hypothesis): round trips through every json transport with attribute-level comparison, jsonschema validation of every emitted document',
    level='exploration', design='DESIGN.md 4/C11',
    text='Recursive structures (Obs, list, ndarray 0-3d, Corr N=1-3 with padding / None / prange / tag, nested dicts) on multi-ensemble multi-replica layouts with covariance '
         'inputs, tags of every JSON type, magnitudes 1e-8..1e8; transports string / file (gz on/off) / Obs.dump / Corr.dump / dict / data frame csv+sqlite / pickle; values, names, '
         'configuration numbers and their range-vs-list form, fluctuations (1e-14 of sample magnitude), replica means, covariance + gradient, tag, flag and a subsequent gamma_method '
         'must agree; every document validates against examples/json_schema.json.',
    note='F-C11-2 and F-C11-5 are recorded findings (excluded classes are counted).')
CHECKS['C12'] = dict(
    technique='property-based testing (Hypothesis): export/import round trip with the documented replica-name mapping as oracle',
    level='exploration', design='DESIGN.md 4/C12',
    text='Lists of 1-4 observables on subsets of one base layout (differing configuration sets, missing replicas / ensembles, covariance-only members), continuous and integer-valued '
         'data with exact zeros; dobs via bytes / str / .xml.gz / .xml, pobs files, all separator_insertion modes; central value bitwise, every configuration number, fluctuations '
         'and replica means to 1e-14 of the sample magnitude, covariance and gradients to 2e-14, subsequent error analysis equal. Lists whose members carry one covariance name with different matrices (refused or each member keeps its own); lists of covariance-only observables.',
    note='F-C12-4 (sample exactly equal to the central value is the format\'s not-measured marker) is a recorded finding.')
CHECKS['C15'] = dict(
    technique='property-based testing (Hypothesis): per-timeslice documented formulas with analytic gradients through RefObs.combine; independent bracketing root solve for cosh/sinh variants; exact undefined-set comparison',
    level='exploration', design='DESIGN.md 4/C15',
    text='Single-valued correlators T=4..24 with arbitrary None patterns, positive / sign-changing / cosh / sinh shaped data, exact zeros; all variants of deriv, second_deriv, m_eff '
         '(incl. root variants) and plateau (fit / average, range from argument, set_prange or constructor); each output slice must be undefined exactly where a referenced slice is '
         'undefined or the formula has no real value, otherwise equal the formula as an identity between observables; no exception while one output slice is defined.',
    note='Slices whose root existence the statement does not decide are labelled unjudged.')
CHECKS['C16'] = dict(
    technique='property-based testing (Hypothesis): model matrices with closed-form generalised eigenvectors and exact spectra; eigen-equation residuals; scipy cross-check for prune',
    level='exploration', design='DESIGN.md 4/C16',
    text='G(t) = Z^T diag(a_n(t)) Z with N=2-5, T=8-24, t0<=T/3, exact exponentials / crossing tables / random positive matrices, Obs entries with exact mean on 1-2 replicas, '
         'symmetric and non-symmetric input, undefined slices: eigen-equation for all t>t0, ordering, eigh vs cholesky, Eigenvector sorting consistent over time, Eigenvalue() = exp(-E_n(t-t0)), '
         'prune keeps the lowest energies, matrix pencil returns the exact energies. Round 7: matrix pencil on closely spaced spectra, judged with an analytic first-order sensitivity bound.',
    note='Direction / eigenvalue comparisons only where an a-priori rounding bound is below 1e-6.')
CHECKS['C17'] = dict(
    technique='property-based testing (Hypothesis): synthetic file sets written by independent format writers (byte-exact against the repository\'s sample files) vs reader output; injected directory-listing orders',
    level='exploration', design='DESIGN.md 4/C17',
    text='openQCD rwms 1.4/1.6/2.0, ms.dat flow (energy density, t0/w0, qtop), sfqcd gfms (qtop, coupling), ms5_xsf, sfcf separate / compact / appended, Hadrons hdf5 mesons; 1-3 replicas with '
         'differing digit counts, 5-40 configurations, arbitrary first configuration and spacing, all selection keywords, sorted / reversed / shuffled listings (os.walk / os.listdir proxied as seen by '
         'the readers) and distractor files; names, configuration numbers and per-configuration numbers must equal the stored ones after the documented reduction. In a quarter of the cases the same paths first hold another data set that is read (state between calls). Round 7: range-like irregular configuration lists on disk and in explicit selections.',
    note='Writers define the formats as readers and sample files agree on them; F-C17-4 is a recorded finding.')
CHECKS['C18'] = dict(
    technique='fault injection by exhaustive enumeration of truncation offsets of generated files; oracle: exception or exact prefix',
    level='fault_enumeration', design='DESIGN.md 4/C18',
    text='For every file family of C17 and for json.gz / dobs xml.gz / pobs xml.gz / csv.gz archives: truncate one file at byte offsets (quick: all offsets of header, first and last two records plus a '
         'sample; thorough: every offset of every file) and require an exception or exactly the observables of the complete records before the cut; archives must always raise. Round 7: read_pbp files as a further family (beyond the formats listed in C17).',
    note='A record whose used numbers are complete although an unused trailing block is cut is accepted.')
CHECKS['C19'] = dict(
    technique='property-based testing (Hypothesis): independent value(error) reader in exact rational arithmetic as oracle; equalities for flags, priors and scalar views',
    level='exploration', design='DESIGN.md 4/C19',
    text='Values and errors over 30 decades with carry / power-of-ten / tie families, significance 1-6, flags, CObs: the printed string re-read with Fractions recovers value and error within half a '
         'unit of the last digit, digit counts and shared decimal place, flags affect only the leading character, prior parser and fits with string priors agree exactly, error-free observables print '
         'the plain value, comparisons / float / is_zero_within_error / Corr.plottable use exactly value and error. Round 7: plottable() again after the timeslice observables were re-analysed with other parameters.',
    note='is_zero_within_error in the numerically-zero regime (|value| < 1e-10) is documented library behaviour and only judged one-sidedly.')
CHECKS['C20'] = dict(
    technique='exhaustive enumeration of the finite tables plus property-based testing (Hypothesis) of special-function derivatives against scipy and RefObs.combine',
    level='exploration', design='DESIGN.md 4/C20',
    text='Complete: Clifford algebra / hermiticity / gamma5 for all index pairs, all 16 Grid tags (+ near-miss tags must raise), all tuples of {0..4}^3 and {0..4}^4 against the inversion-count sign '
         '(tuples outside the domain must raise). Generated: K_n for n=-6..6 and x in (0.05,20) plain and inside composite expressions, 30 re-exported special functions inside their domains. Entire functions at an operand whose central value is exactly 0.0; logsumexp with weights; K_n of an array used further inside the function. Round 7: multigammaln of an array argument.',
    note='Table parts are exhaustive (EXHAUSTIVE in the module); the special-function part samples.')

CHECKS['C07'] = dict(
    technique='property-based testing (Hypothesis): closed-form GLS estimator as reference model in value, fluctuations (RefObs.combine) and covariance gradients; metamorphic permutation of points and keys',
    level='exploration', design='DESIGN.md 4/C07',
    text='Linear-basis models with 1-4 parameters, 1-2 abscissa dimensions, 1-3 data sets sharing parameters (list and dictionary call forms, independent insertion orders), data on related '
         'layouts with cross- and autocorrelation, priors as list / dict / Obs / string, correlated fits with estimated or supplied inverse Cholesky factor, LM / migrad / Nelder-Mead / Powell, '
         'autograd and num_grad, Corr.fit ranges: parameters equal (A^T W A + P)^-1 (A^T W y + P pi) in value, every fluctuation and gradient; chi-square, dof, p-value, Hotelling t2 and '
         'chi2/chi2_exp recomputed from their definitions; permutation invariance. Fits chained in one process with identical prior strings (a parameter of the earlier fit as datum of the later) against GLS with fresh independent prior inputs. Round 7: priors of every form through Corr.fit.',
    note='Value tolerance is the stopping accuracy of each minimiser in units of sigma_p; fluctuations 1e-9. F-C07-1 is a recorded finding.')
CHECKS['C08'] = dict(
    technique='property-based testing (Hypothesis): stationarity and implicit-function sensitivities from an independent second-order jet implementation (vlib/fit08.py); metamorphic finite-difference re-fits',
    level='exploration', design='DESIGN.md 4/C08',
    text='Ten smooth non-linear model families (1-4 parameters, 2-d x, combined dictionary fit) on independent / shared ensembles, correlated and uncorrelated chi-square, priors, '
         'x as numbers or observables, autograd and num_grad: Newton step of the documented chi-square vanishes at the returned values, every fluctuation equals sum_j S_kj delta(datum j) with '
         'S = -H^-1 d(grad chi2)/d(data), shifting one datum and re-fitting moves the parameters by S (Richardson-combined quotient), TLS with negligible x errors equals LS, fit_lin dispatch. Metamorphic unit change of ordinate and model (same parameters as observables); fits with 201-260 data points; a mislabelled supplied factor must raise.',
    note='H and mixed derivatives are computed by hand-written product/chain-rule jets, independent of autograd and numdifftools.')
CHECKS['C14'] = dict(
    technique='property-based testing (Hypothesis): differential test Corr level vs Obs/CObs level per timeslice, independently written index maps, deep fingerprints for non-mutation with repeated invocation',
    level='exploration', design='DESIGN.md 4/C14',
    text='Correlators T=2..16, N=1..3, arbitrary None sets, real and complex content; every operator and elementary function with Corr / Obs / CObs / int / float / complex partners in both orders '
         '(NaN timeslices produced on purpose); roll, reverse, thin, symmetric, anti_symmetric, T_symmetry, item, projected, trace, matrix_symmetric, Hankel, __repr__: same T and N, entries equal the '
         'Obs-level operation, None exactly where an operand is None or the value is NaN; every call is made twice with the same objects and operands / arguments must be unchanged.',
    note='F-C14-6 and F-C14-8b (explicitly unsupported exponent types) are recorded findings.')

PENDING_REASON = 'check under construction in this build phase; not claimed until its quick tier is silent on the unchanged tree'


def main():
    props = [json.loads(line) for line in open(os.path.join(HERE, 'properties.jsonl'))]
    checks = []
    na = []
    for p in props:
        pid = p['id']
        c = CHECKS.get(pid)
        if c is None or not os.path.exists(os.path.join(HERE, 'checks', pid.lower() + '.py')):
            na.append({'property_id': pid, 'reason': NA.get(pid, PENDING_REASON)})
            continue
        checks.append({
            'property_id': pid,
            'quick_cmd': './check %s --tier quick' % pid,
            'thorough_cmd': './check %s --tier thorough' % pid,
            'evidence_file': 'evidence/%s.json' % pid,
            'replay_cmd_template': './check %s --replay {path}' % pid,
            'engine': 'pbt-runner',
            'level_claimed': {'category': c['level'], 'text': c['text'], 'design_ref': c['design']},
            'level_note': c['note'],
            'technique': c['technique'],
        })
    man = {
        'version': 1,
        'setup_cmd': './setup.sh',
        'hooks': {
            'guard': 'PYERRORS_VERIF',
            'enable': 'no hooks are needed: every observation point is a public attribute; checks import pyerrors from /repo (or VERIF_REPO) as is',
            'baseline_off_cmd': 'cd /repo && /venv/bin/python -m pytest -ra -q -p no:cacheprovider --timeout=900 --continue-on-collection-errors',
            'source_commits': [],
            'add_only': True,
        },
        'engines': [{
            'name': 'pbt-runner', 'path': 'vlib/runner.py',
            'serves_properties': [c['property_id'] for c in checks],
            'kind_free_text': 'Hypothesis 6.168 (given / RuleBasedStateMachine) and exhaustive enumeration driven by a sharding runner: one fresh '
                              'process per (sub-property, shard), seeds derived from VERIF_SEED, plain-data specs as replay files',
        }],
        'checks': checks,
        'not_applicable': na,
        'notes': 'Exit codes of ./check: 0 held, 1 VIOLATION, 2 harness problem. Fixes to /repo are separate "fix:" commits listed in known_findings.json.',
    }
    json.dump(man, open(os.path.join(HERE, 'MANIFEST.json'), 'w'), indent=1)
    try:
        import jsonschema
        jsonschema.validate(man, json.load(open('/root/.vp/MANIFEST.schema.json')))
        print('MANIFEST.json valid:', len(checks), 'checks,', len(na), 'not_applicable')
    except ImportError:
        print('written (jsonschema not available)')


NA = {}

if __name__ == '__main__':
    main()
