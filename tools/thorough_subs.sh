#!/bin/sh
# tools/thorough_subs.sh "<PID> <sub>" ...  - thorough tier of single sub-properties (no evidence), one line each
cd "$(dirname "$0")/.." || exit 2
for ps in "$@"; do
  set -- $ps
  out=$(PYTHONHASHSEED=0 VERIF_REPLAY_DIR=sweep_replays ./check $1 --tier thorough --sub $2 --no-evidence 2>&1); rc=$?
  echo "$1/$2 rc=$rc $(echo "$out" | grep -E 'VIOLATION|violation in|tier=' | head -3 | tr '\n' ' ' | cut -c1-400)"
done
