#!/venv/bin/python
"""tools/benign_matrix.py [PID ...]  - reverse test: applies every behaviour-preserving change of /verif/benign/ to a scratch
worktree of /repo HEAD and runs the quick tier of the owning check (and of the checks named in meta['also']) on it.  Every
run must stay silent (exit 0, no VIOLATION line).  Writes benign/RESULTS.json and benign/RESULTS.md."""
import json, os, re, subprocess, sys, tempfile, shutil, glob
HERE = os.path.dirname(os.path.dirname(os.path.abspath(__file__)))
want = [a.upper() for a in sys.argv[1:]]
resf = os.path.join(HERE, 'benign', os.environ.get('BENIGN_RESULTS', 'RESULTS.json'))
results = json.load(open(resf)) if os.path.exists(resf) else {}
head = subprocess.run(['git', '-C', '/repo', 'rev-parse', '--short', 'HEAD'], capture_output=True, text=True).stdout.strip()
# files -> checks that exercise them (besides the owner)
BYFILE = {'pyerrors/obs.py': ['C01', 'C02', 'C03', 'C04', 'C05', 'C06', 'C13'], 'pyerrors/covobs.py': ['C04', 'C06'],
          'pyerrors/fits.py': ['C07', 'C08', 'C19'], 'pyerrors/correlators.py': ['C14', 'C15', 'C16'], 'pyerrors/linalg.py': ['C10'],
          'pyerrors/input/json.py': ['C11'], 'pyerrors/input/dobs.py': ['C12'], 'pyerrors/input/openQCD.py': ['C17', 'C18'],
          'pyerrors/input/sfcf.py': ['C17', 'C18'], 'pyerrors/input/hadrons.py': ['C17', 'C18'], 'pyerrors/roots.py': ['C09'],
          'pyerrors/integrate.py': ['C09'], 'pyerrors/special.py': ['C20'], 'pyerrors/dirac.py': ['C20'], 'pyerrors/misc.py': ['C19']}
for d in sorted(glob.glob(os.path.join(HERE, 'benign', 'C*-b*'))):
    name = os.path.basename(d)
    pid = name.split('-')[0]
    if want and pid not in want:
        continue
    if os.environ.get('SEED_FILTER') and not re.search(os.environ['SEED_FILTER'], name):
        continue
    tmp = tempfile.mkdtemp(prefix='benmx.')
    wt = tmp + '/wt'
    try:
        subprocess.run(['git', '-C', '/repo', 'worktree', 'add', '--detach', wt, 'HEAD'], check=True, capture_output=True)
        ap = subprocess.run(['git', '-C', wt, 'apply', d + '/patch.diff'], capture_output=True)
        if ap.returncode:
            results[name] = {'applies': False, 'repo_head': head}
            print(name, 'PATCH DOES NOT APPLY', flush=True)
            continue
        meta = json.load(open(d + '/meta.json'))
        files = re.findall(r'^\+\+\+ b/(\S+)', open(d + '/patch.diff').read(), re.M)
        pids = [pid] + [p for f in files for p in BYFILE.get(f, []) if p != pid]
        if os.environ.get('BENIGN_OWNER_ONLY'):
            pids = [pid]
        pids = list(dict.fromkeys(pids))
        env = dict(os.environ, VERIF_REPO=wt, VERIF_REPLAY_DIR=tmp + '/replays', VERIF_SHRINK_BUDGET='0')
        alarms = {}
        for cp in pids:
            p = subprocess.run([os.path.join(HERE, 'check'), cp, '--no-evidence'], capture_output=True, text=True, env=env, cwd=HERE)
            if p.returncode != 0:
                first = re.search(r'^(violation in .*|HARNESS-ERROR.*|regression of.*)$', p.stdout, re.M)
                alarms[cp] = {'rc': p.returncode, 'first': first.group(0)[:300] if first else p.stdout[-300:]}
        results[name] = {'applies': True, 'checks_run': pids, 'silent': not alarms, 'alarms': alarms,
                         'summary': meta.get('summary', '')[:200], 'kind': meta.get('kind', ''), 'repo_head': head}
        print(name, 'SILENT' if not alarms else 'ALARM %s' % json.dumps(alarms)[:400], pids, flush=True)
    finally:
        subprocess.run(['git', '-C', '/repo', 'worktree', 'remove', '--force', wt], capture_output=True)
        shutil.rmtree(tmp, ignore_errors=True)
json.dump(results, open(resf, 'w'), indent=1, sort_keys=True)
with open(os.path.join(HERE, 'benign', 'RESULTS.md'), 'w') as f:
    f.write('| behaviour-preserving change | kind | what it changes | checks run | all silent |\n|---|---|---|---|---|\n')
    for k in sorted(results):
        r = results[k]
        f.write('| %s | %s | %s | %s | %s |\n' % (k, r.get('kind', ''), r.get('summary', '').replace('|', '/').replace('\n', ' '), ' '.join(r.get('checks_run', [])),
                                               'yes' if r.get('silent') else ('patch no longer applies' if not r.get('applies') else 'NO: ' + ', '.join(r.get('alarms', {})))))
    f.write('\nsilent %d of %d\n' % (sum(1 for r in results.values() if r.get('silent')), len(results)))
print('silent %d of %d' % (sum(1 for r in results.values() if r.get('silent')), len(results)))
