#!/venv/bin/python
"""tools/seed_matrix.py [PID ...]  - runs the quick tier of the owning check against every seeded change in
/verif/seeded/ (scratch worktree of /repo HEAD + patch, removed afterwards) and writes seeded/RESULTS.json and
seeded/RESULTS.md: which check / sub-property catches which change."""
import json, os, re, subprocess, sys, tempfile, shutil, glob
HERE = os.path.dirname(os.path.dirname(os.path.abspath(__file__)))
want = [a.upper() for a in sys.argv[1:]]
resf = os.path.join(HERE, 'seeded', os.environ.get('SEED_RESULTS', 'RESULTS.json'))
results = json.load(open(resf)) if os.path.exists(resf) else {}
head = subprocess.run(['git', '-C', '/repo', 'rev-parse', '--short', 'HEAD'], capture_output=True, text=True).stdout.strip()
for d in sorted(glob.glob(os.path.join(HERE, 'seeded', 'C*-m*'))):
    name = os.path.basename(d)
    pid = name.split('-')[0]
    if want and pid not in want:
        continue
    if os.environ.get('SEED_FILTER') and not re.search(os.environ['SEED_FILTER'], name):
        continue
    if not os.path.exists(os.path.join(HERE, 'checks', pid.lower() + '.py')):
        continue
    m0 = json.load(open(d + '/meta.json'))
    if m0.get('obsolete'):
        results[name] = {'applies': True, 'obsolete': m0['obsolete'][:200], 'caught': None, 'summary': m0.get('summary', '')[:200], 'repo_head': head, '_run': os.getpid()}
        print(name, 'OBSOLETE', flush=True)
        continue
    tmp = tempfile.mkdtemp(prefix='seedmx.')
    wt = tmp + '/wt'
    try:
        subprocess.run(['git', '-C', '/repo', 'worktree', 'add', '--detach', wt, 'HEAD'], check=True, capture_output=True)
        ap = subprocess.run(['git', '-C', wt, 'apply', d + '/patch.diff'], capture_output=True)
        if ap.returncode:
            ap = subprocess.run('patch -p1 --fuzz=3 < %s/patch.diff' % d, shell=True, cwd=wt, capture_output=True)
        if ap.returncode:
            results[name] = {'applies': False, 'repo_head': head, '_run': os.getpid()}
            continue
        env = dict(os.environ, VERIF_REPO=wt, VERIF_REPLAY_DIR=tmp + '/replays', VERIF_SHRINK_BUDGET='0')
        meta = json.load(open(d + '/meta.json'))
        # meta['checked_with']: the properties the change really breaks when that is not (only) the one it was requested for
        for cpid in meta.get('checked_with', [pid]):
            p = subprocess.run([os.path.join(HERE, 'check'), cpid, '--no-evidence'], capture_output=True, text=True, env=env, cwd=HERE)
            subs = sorted(set((cpid + '/' if cpid != pid else '') + x for x in re.findall(r'^violation in %s/(\w+):' % cpid, p.stdout, re.M)))
            first = re.search(r'^violation in .*$', p.stdout, re.M)
            if p.returncode == 1:
                break
        results[name] = {'applies': True, 'rc': p.returncode, 'caught': p.returncode == 1, 'subs': subs,
                         'first': first.group(0)[:220] if first else '', 'summary': meta.get('summary', '')[:200], 'repo_head': head, '_run': os.getpid()}
        print(name, 'CAUGHT' if p.returncode == 1 else 'MISSED rc=%d' % p.returncode, subs, flush=True)
    finally:
        subprocess.run(['git', '-C', '/repo', 'worktree', 'remove', '--force', wt], capture_output=True)
        shutil.rmtree(tmp, ignore_errors=True)
# merge on write: another instance (other SEED_FILTER) may have finished meanwhile
mine = {k: v for k, v in results.items() if v.get('_run') == os.getpid()}
results = json.load(open(resf)) if os.path.exists(resf) else {}
for k, v in mine.items():
    v.pop('_run', None)
    results[k] = v
json.dump(results, open(resf, 'w'), indent=1, sort_keys=True)
with open(os.path.join(HERE, 'seeded', 'RESULTS.md'), 'w') as f:
    f.write('| seeded change | what it changes | caught by quick tier | sub-properties that flag it |\n|---|---|---|---|\n')
    for k in sorted(results):
        r = results[k]
        f.write('| %s | %s | %s | %s |\n' % (k, r.get('summary', '').replace('|', '/'), 'yes' if r.get('caught') else ('neutralised by a fix commit' if r.get('obsolete') else ('patch no longer applies' if not r.get('applies') else 'NO')), ', '.join(r.get('subs', []))))
print('caught %d of %d (%d neutralised by fix commits)' % (sum(1 for r in results.values() if r.get('caught')), sum(1 for r in results.values() if not r.get('obsolete')), sum(1 for r in results.values() if r.get('obsolete'))))
