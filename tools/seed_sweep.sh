#!/bin/sh
# tools/seed_sweep.sh <tier> <seed> [<seed> ...]   - runs every check at the given VERIF_SEED values (no evidence written),
# prints one line per (property, seed); used to look for alarms on the unchanged tree at seeds other than the default.
tier=$1; shift
cd "$(dirname "$0")/.." || exit 2
for s in "$@"; do
  for p in C01 C02 C03 C04 C05 C06 C07 C08 C09 C10 C11 C12 C13 C14 C15 C16 C17 C18 C19 C20; do
    out=$(VERIF_SEED=$s PYTHONHASHSEED=0 VERIF_REPLAY_DIR=sweep_replays ./check $p --tier $tier --no-evidence 2>&1); rc=$?
    echo "seed=$s $p rc=$rc $(echo "$out" | grep -E 'VIOLATION|violation in|harness|NOTE' | head -3 | tr '\n' ' ')"
  done
done
