#!/bin/sh
# tools/try_mutant.sh <patch.diff> <PID> [extra ./check args]
# Applies the patch to a scratch copy of /repo's HEAD (outside /repo and /verif), runs the quick check on it
# through VERIF_REPO and removes the copy.  Exit status is that of the check (1 = mutant detected).
PATCH="$1"; PID="$2"; shift 2
D=$(mktemp -d /tmp/mutrepo.XXXXXX)
git -C /repo worktree add --detach "$D/wt" HEAD >/dev/null 2>&1 || exit 3
if ! git -C "$D/wt" apply "$PATCH" 2>/dev/null; then
  if ! (cd "$D/wt" && patch -p1 --fuzz=3 < "$PATCH" >/dev/null 2>&1); then
    echo "PATCH DOES NOT APPLY: $PATCH"; git -C /repo worktree remove --force "$D/wt"; rm -rf "$D"; exit 3
  fi
fi
cd /verif && VERIF_REPLAY_DIR="$D/replays" VERIF_REPO="$D/wt" ./check "$PID" --no-evidence "$@" > "$D/out.txt" 2>&1
RC=$?
grep -E "^VIOLATION|^HARNESS|^KNOWN|tier=" "$D/out.txt" | head -${MUT_LINES:-4}
grep -E "^violation in" "$D/out.txt" | head -2 | cut -c1-300
git -C /repo worktree remove --force "$D/wt"; rm -rf "$D"
exit $RC
