import numpy as np, pyerrors as pe, warnings, struct, os, shutil, io, contextlib
warnings.simplefilter('ignore')
rng=np.random.default_rng(5)
def write(fn,cfgs,tmax=3):
    dat={}
    with open(fn,'wb') as f:
        f.write(struct.pack('dddd',0.13,1.0,1.0,1.0)); f.write(struct.pack('ii',tmax,1))
        for c in cfgs:
            arr=rng.normal(0,1,2*tmax*10+4); dat[c]=arr
            f.write(struct.pack('=i'+'d'*len(arr),c,*arr))
    return dat
d='/tmp/scr/x5'; shutil.rmtree(d,ignore_errors=True); os.makedirs(d)
truth={}
for r,n in [(1,6),(2,8),(10,9)]:
    truth[r]=write(f'{d}/ens_r{r}.ms5_xsf_dd.dat',list(range(1,n+1)))
def rd(**kw):
    with contextlib.redirect_stdout(io.StringIO()):
        return pe.input.openQCD.read_ms5_xsf(d,'ens','dd','gP',**kw)
def check(c,mapping,tmax=3):
    o=c.content[1][0].real
    for name,r in mapping.items():
        exp=[truth[r][cf][2*tmax*1+2*1] for cf in sorted(truth[r])]
        got=o.deltas[name]+o.r_values[name]
        print(name,'<-r%d'%r,'OK' if len(got)==len(exp) and np.allclose(got,exp) else 'MISMATCH',len(got),len(exp))
c=rd(); print(c.content[1][0].real.names); check(c,{'ens_|r1':1,'ens_|r2':2,'ens_|r10':10})
c=rd(files=['ens_r2.ms5_xsf_dd.dat','ens_r1.ms5_xsf_dd.dat']); print(c.content[1][0].real.names); check(c,{'ens_|r1':1,'ens_|r2':2})
c=rd(files=['ens_r1.ms5_xsf_dd.dat','ens_r2.ms5_xsf_dd.dat'],names=['E|z','E|a']); print(c.content[1][0].real.names); check(c,{'E|z':1,'E|a':2})

