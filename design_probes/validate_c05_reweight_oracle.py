import numpy as np, pyerrors as pe, warnings
from ref import *
warnings.simplefilter('ignore')
rng=np.random.default_rng(21)
def rand_idl(n):
    k=rng.integers(0,3); s=int(rng.integers(1,9))
    if k==0: return list(range(s,s+n))
    if k==1: return list(range(s,s+3*n,3))
    return sorted(rng.choice(np.arange(1,3*n),n,replace=False).tolist())
cnt=0; nontriv=0
for it in range(1500):
    nrep=int(rng.integers(1,4)); names=[f'A|r{i}' for i in range(nrep)]
    widl=[rand_idl(int(rng.integers(8,25))) for _ in names]
    wdat={n:{c:float(rng.uniform(0.5,1.5)) for c in i} for n,i in zip(names,widl)}
    w=pe.Obs([np.array([wdat[n][c] for c in i]) for n,i in zip(names,widl)],names,idl=widl)
    sub=sorted(rng.choice(names,int(rng.integers(1,nrep+1)),replace=False).tolist())
    oidl={}
    for n in sub:
        full=list(w.idl[n]); m=int(rng.integers(5,len(full)+1)); kind=rng.integers(0,3)
        if kind==0: oidl[n]=full[:m]
        elif kind==1: oidl[n]=full[::2] if len(full[::2])>=5 else full
        else: oidl[n]=sorted(rng.choice(full,m,replace=False).tolist())
    odat={n:{c:float(rng.normal(2,0.5)) for c in oidl[n]} for n in sub}
    o=pe.Obs([np.array([odat[n][c] for c in oidl[n]]) for n in sub],sub,idl=[oidl[n] for n in sub])
    allc=bool(rng.integers(0,2))
    res=pe.reweight(w,[o],all_configs=allc)[0]
    # reference
    num=R.from_samples([np.array([wdat[n][c]*odat[n][c] for c in oidl[n]]) for n in sub],sub,[oidl[n] for n in sub])
    if allc: den=R.from_samples([np.array([wdat[n][c] for c in i]) for n,i in zip(names,widl)],names,widl)
    else: den=R.from_samples([np.array([wdat[n][c] for c in oidl[n]]) for n in sub],sub,[oidl[n] for n in sub])
    ref=combine(lambda v:v[0]/v[1],[1/den.value,-num.value/den.value**2],[num,den])
    cmp(ref,res); assert res.reweighted
    cnt+=1; nontriv+= any(oidl[n]!=list(w.idl[n])[:len(oidl[n])] for n in sub) or len(sub)<nrep
print(cnt,nontriv)
