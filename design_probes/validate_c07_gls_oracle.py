import numpy as np, pyerrors as pe, warnings, autograd.numpy as anp
from ref import *
warnings.simplefilter('ignore')
rng=np.random.default_rng(9)
def lin(ops,coef):
    return combine(lambda v: sum(c*x for c,x in zip(coef,v)), coef, ops)
N=60
# combined fit with shared p0, priors (string + Obs), correlated
xa=np.array([1.,2,3,4]); xb=np.array([1.5,2.5,3.5])
base=rng.normal(0,1,(N,7))@np.linalg.cholesky(0.5*np.eye(7)+0.5)   # correlated
ya=[pe.Obs([1+0.5*x+0.2*base[:,i]],['A|r1']) for i,x in enumerate(xa)]
yb=[pe.Obs([1-0.3*x+0.2*base[:,4+i]],['A|r1']) for i,x in enumerate(xb)]
[o.gm() for o in ya+yb]
fa=lambda p,x:p[0]+p[1]*x
fb=lambda p,x:p[0]+p[2]*x
pri_obs=pe.Obs([rng.normal(-0.3,0.5,N)],['P|r1']); pri_obs.gm()
for corr in [False,True]:
  for priors in [None,{2:pri_obs},{0:'1.0(5)',2:pri_obs},['1.0(5)','0.5(1.0)',pri_obs]]:
    r=pe.least_squares({'a':xa,'b':xb},{'a':ya,'b':yb},{'a':fa,'b':fb},priors=priors,correlated_fit=corr,silent=True)
    y=ya+yb
    A=np.zeros((7,3)); A[:4,0]=1;A[:4,1]=xa;A[4:,0]=1;A[4:,2]=xb
    dy=np.array([o.dvalue for o in y])
    if corr:
        C=pe.covariance(y); W=np.linalg.inv(C)
    else: W=np.diag(1/dy**2)
    P=np.zeros((3,3)); pv=np.zeros(3); pobs={}
    if priors is not None:
        items=priors.items() if isinstance(priors,dict) else enumerate(priors)
        for k,pr in items:
            if isinstance(pr,str): v,e=pe.fits._extract_val_and_dval(pr)
            else: v,e=pr.value,pr.dvalue
            P[k,k]=1/e**2; pv[k]=v; pobs[k]=pr
    H=A.T@W@A+P
    My=np.linalg.solve(H,A.T@W); Mp=np.linalg.solve(H,P)
    p=My@np.array([o.value for o in y])+Mp@pv
    print(corr, None if priors is None else list(priors) if isinstance(priors,dict) else 'list', np.max(np.abs([r[i].value-p[i] for i in range(3)])), end=' ')
    # fluctuation check for MC part
    worst=0
    for i in range(3):
        ops=[from_pe(o) for o in y]; coef=list(My[i])
        for k,pr in pobs.items():
            if not isinstance(pr,str): ops.append(from_pe(pr)); coef.append(Mp[i,k])
        ref=lin(ops,coef)
        for n in ref.d:
            a=np.array([ref.d[n][c] for c in sorted(ref.d[n])]); worst=max(worst,np.max(np.abs(a-r[i].deltas[n])))
        # covobs grads from string priors
        for k,pr in pobs.items():
            if isinstance(pr,str):
                nm=[c for c in r[i].covobs if c.startswith('#prior%d_'%k)]
                worst=max(worst,abs(r[i].covobs[nm[0]].grad[0,0]-Mp[i,k]))
    res=np.array([o.value for o in y])-A@p
    chi=res@W@res+sum(P[k,k]*(p[k]-pv[k])**2 for k in range(3))
    print(worst, abs(chi-r.chisquare), r.dof, 7-3+(0 if priors is None else len(priors)))
