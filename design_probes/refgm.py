import numpy as np, math
def ref_gamma(reps, S=2.0, tau_exp=0.0, N_sigma=1.0, fixed_wmax=False):
    """reps: list of (idl(list of int), deltas(array)) for one ensemble"""
    gaps=[]
    for idl,_ in reps:
        df=sorted(set(b-a for a,b in zip(idl,idl[1:])))
        gaps.append(df[0])
    gap=min(gaps)
    assert all(g%gap==0 for g in gaps)
    grids=[]; rlen=[]
    for idl,d in reps:
        L=(idl[-1]-idl[0])//gap+1
        arr=[None]*L
        for c,x in zip(idl,d): arr[(c-idl[0])//gap]=x
        grids.append(arr)
        df=set(b-a for a,b in zip(idl,idl[1:]))
        if len(df)==1: rlen.append(len(idl)*df.pop()//gap)
        else: rlen.append(L if fixed_wmax else (idl[-1]-idl[0]+1)//gap)
    wmax=max(rlen)//2
    N=sum(len(idl) for idl,_ in reps)
    G=[]
    for t in range(wmax):
        num=0.0; cnt=0
        for arr in grids:
            for i in range(len(arr)-t):
                if arr[i] is not None and arr[i+t] is not None:
                    num+=arr[i]*arr[i+t]; cnt+=1
        G.append(num/max(cnt,1))
    out={'wmax':wmax,'N':N,'gamma0':G[0]}
    if abs(G[0])<10*np.finfo(float).tiny:
        out.update(tauint=0.5,dtauint=0.0,dvalue=0.0,ddvalue=0.0,window=0,rho=[0.0]*wmax); return out
    rho=[g/G[0] for g in G]
    nt=[]; acc=0.5
    for W in range(wmax):
        if W>0: acc+=rho[W]
        nt.append(acc)
    ntc=[x if x>0.5 else 0.5+np.finfo(float).eps for x in nt]
    ndt=[0.0]+[ntc[W]*2*math.sqrt(abs(W+0.5-ntc[W])/N) for W in range(1,wmax)]
    def drho(i):
        s=0.0
        for k in range(1,wmax-i):
            s+=(rho[k+i]+rho[abs(k-i)]-2*rho[i]*rho[k])**2
        return math.sqrt(s/N)
    out['rho']=rho; out['n_tauint']=ntc; out['n_dtauint']=ndt
    dr={}
    margins=[]
    if tau_exp>0:
        if wmax//2<=1: raise ValueError
        dr[1]=drho(1)
        for n in range(1,wmax//2):
            dr[n+1]=drho(n+1)
            m=rho[n]-N_sigma*dr[n]; margins.append(m)
            if m<0 or n>=wmax//2-2:
                tau=ntc[n]*(1+(2*n+1)/N)/(1+1/N)+tau_exp*abs(rho[n+1])
                dtau=math.sqrt(ndt[n]**2+tau_exp**2*dr[n+1]**2)
                dv=math.sqrt(2*tau*G[0]*(1+1/N)/N); ddv=dv*math.sqrt((n+0.5)/N); w=n; break
    elif S==0:
        tau=0.5; dtau=0.0; dv=math.sqrt(G[0]/(N-1)); ddv=dv*math.sqrt(0.5/N); w=0
    else:
        for n in range(1,wmax):
            x=ntc[n]
            tw=S/math.log((2*x+1)/(2*x-1))
            g=math.exp(-n/tw)-tw/math.sqrt(n*N); margins.append(g)
            if g<0 or n>=wmax-1:
                dr[n]=drho(n)
                tau=x*(1+(2*n+1)/N)/(1+1/N); dtau=ndt[n]
                dv=math.sqrt(2*tau*G[0]*(1+1/N)/N); ddv=dv*math.sqrt((n+0.5)/N); w=n; break
    out.update(tauint=tau,dtauint=dtau,dvalue=dv,ddvalue=ddv,window=w,drho=dr,margins=margins)
    return out
