import numpy as np, pyerrors as pe, warnings
from refgm import ref_gamma
warnings.simplefilter('ignore')
rng=np.random.default_rng(11)
def rand_idl(n,g):
    kind=rng.integers(0,4); s=int(rng.integers(1,50))
    if kind==0: return list(range(s,s+n*g,g))
    if kind==1: k=int(rng.integers(2,4)); return list(range(s,s+n*g*k,g*k))
    m=int(n*rng.uniform(1.1,2.0))+1
    pos=sorted(rng.choice(np.arange(m),n,replace=False).tolist())
    if not any(b-a==1 for a,b in zip(pos,pos[1:])): pos[1]=pos[0]+1; pos=sorted(set(pos))
    return [s+g*p for p in pos]
def data(n):
    k=rng.integers(0,4)
    if k==0: return rng.normal(0,1,n)
    if k==1:
        x=np.zeros(n); a=rng.uniform(0.5,0.95)
        for i in range(1,n): x[i]=a*x[i-1]+rng.normal()
        return x
    if k==2: return np.ones(n)*1.5
    return np.array([(-1.0)**i for i in range(n)])+rng.normal(0,0.01,n)*(rng.random()<0.5)
bad=0; tot=0; skip=0
for it in range(4000):
    g=int(rng.integers(1,4)); nrep=int(rng.integers(1,4))
    idls=[rand_idl(int(rng.integers(5,40)),g) for _ in range(nrep)]
    # ensure at least one replica has min diff g
    samples=[data(len(i)) for i in idls]
    names=[f'A|r{j}' for j in range(nrep)]
    try: o=pe.Obs(samples,names,idl=idls)
    except Exception as e: print('ctor',e); continue
    mode=rng.integers(0,3)
    kw={}
    if mode==0: kw=dict(S=float(rng.choice([0,1,2,3.5])))
    elif mode==1: kw=dict(tau_exp=float(rng.uniform(0.5,10)),N_sigma=float(rng.choice([0,1,2])))
    kw['fft']=bool(rng.integers(0,2))
    reps=[(list(o.idl[n]),o.deltas[n]) for n in o.names]
    try:
        r=ref_gamma(reps,S=kw.get('S',2.0),tau_exp=kw.get('tau_exp',0.0),N_sigma=kw.get('N_sigma',1.0))
        rexc=None
    except (ValueError,AssertionError) as e: rexc=e
    try: o.gamma_method(**kw); oexc=None
    except Exception as e: oexc=e
    tot+=1
    if (rexc is None)!=(oexc is None): print('EXC MISMATCH',rexc,oexc,idls); bad+=1; continue
    if rexc: continue
    if r.get('margins') and min(abs(m) for m in r['margins'])<1e-9: skip+=1; continue
    ok = (o.e_windowsize['A']==r['window'] and np.isclose(o.dvalue,r['dvalue'],rtol=1e-9,atol=1e-300) and np.isclose(o.ddvalue,r['ddvalue'],rtol=1e-9,atol=1e-300)
          and np.isclose(o.e_tauint['A'],r['tauint'],rtol=1e-9) and np.isclose(o.e_dtauint['A'],r['dtauint'],rtol=1e-8,atol=1e-12) and len(o.e_rho['A'])==r['wmax'] and np.allclose(o.e_rho['A'],r['rho'],atol=1e-9))
    if ok and r.get('drho'):
        for k,v in r['drho'].items(): ok = ok and np.isclose(o.e_drho['A'][k],v,rtol=1e-8,atol=1e-12)
    if not ok:
        bad+=1
        if bad<6: print('MISMATCH',kw,idls,o.e_windowsize,r['window'],o.dvalue,r['dvalue'],o.e_tauint,r['tauint'],len(o.e_rho['A']),r['wmax'])
print(tot,bad,skip)
