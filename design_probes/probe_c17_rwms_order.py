import numpy as np, pyerrors as pe, warnings, struct, os, shutil, io, contextlib
warnings.simplefilter('ignore')
rng=np.random.default_rng(5)
def write_rwms16(fn, cfgs, data, nsrc=2):
    # version 1.6: nrw, nfct[nrw], nsrc[nrw], then per config: cfg, for each rw, for each fct: 2 blocks of nsrc doubles
    nrw=len(data)
    with open(fn,'wb') as f:
        f.write(struct.pack('i',nrw))
        for i in range(nrw): f.write(struct.pack('i',1))
        for i in range(nrw): f.write(struct.pack('i',nsrc))
        for ic,c in enumerate(cfgs):
            f.write(struct.pack('i',c))
            for i in range(nrw):
                f.write(struct.pack('d'*nsrc,*([0.0]*nsrc)))
                f.write(struct.pack('d'*nsrc,*data[i][ic]))
d='/tmp/scr/rw'; shutil.rmtree(d,ignore_errors=True); os.makedirs(d)
truth={}
for r in [0,1,2,10]:
    cfgs=list(range(1,9+r))
    dat=[[rng.normal(0,0.1,2) for c in cfgs]]
    truth[r]=(cfgs,[np.mean(np.exp(-x)) for x in dat[0]])
    write_rwms16(f'{d}/ensAr{r}.ms1.dat',cfgs,dat)
def rd(**kw):
    with contextlib.redirect_stdout(io.StringIO()):
        return pe.input.openQCD.read_rwms(d,'ensA',version='1.6',**kw)[0]
def check(o, mapping):
    for name,r in mapping.items():
        cf,vals=truth[r]
        got=o.deltas[name]+o.r_values[name]
        ok = list(o.idl[name])==cf and np.allclose(got,vals,rtol=1e-14)
        print(name,'<-r%d'%r,'OK' if ok else 'MISMATCH', len(got), len(vals))
o=rd(); print(o.names); check(o,{'ensA|r0':0,'ensA|r1':1,'ensA|r2':2,'ensA|r10':10})
print('files unsorted')
o=rd(files=['ensAr2.ms1.dat','ensAr0.ms1.dat']); print(o.names); check(o,{'ensA|r0':0,'ensA|r2':2})
print('names unsorted')
o=rd(files=['ensAr0.ms1.dat','ensAr2.ms1.dat'],names=['E|r5','E|r3']); print(o.names); check(o,{'E|r5':0,'E|r3':2})
