import numpy as np, pyerrors as pe, warnings, autograd.numpy as anp
from autograd import hessian, grad
from ref import *
warnings.simplefilter('ignore')
rng=np.random.default_rng(4)
N=80; n=6
xt=np.linspace(0.5,3,n); a,b=2.0,0.7
x=[pe.Obs([rng.normal(xi,0.02,N)],[f'X{i}|r1']) for i,xi in enumerate(xt)]
y=[pe.Obs([rng.normal(a*np.exp(-b*xi),0.01,N)],[f'Y{i}|r1']) for i,xi in enumerate(xt)]
[o.gm() for o in x+y]
f=lambda p,x:p[0]*anp.exp(-p[1]*x)
r=pe.total_least_squares(x,y,f,silent=True)
xv=np.array([o.value for o in x]); yv=np.array([o.value for o in y]); dx=np.array([o.dvalue for o in x]); dy=np.array([o.dvalue for o in y])
def chi(z,xd,yd):
    p=z[:2]; xi=z[2:]
    return anp.sum(((yd-f(p,xi))/dy)**2)+anp.sum(((xd-xi)/dx)**2)
z=np.concatenate([[o.value for o in r.fit_parameters], r.xplus])
g=grad(chi)(z,xv,yv); H=hessian(chi)(z,xv,yv)
print('stationarity',np.max(np.abs(g)),np.linalg.norm(H))
full=lambda w: chi(w[:2+n],w[2+n:2+2*n],w[2+2*n:])
HH=hessian(full)(np.concatenate([z,xv,yv]))
S=-np.linalg.solve(H,HH[:2+n,2+n:])   # d z / d (x,y)
for i in range(2):
    worst=0
    for j in range(n):
        worst=max(worst, np.max(np.abs(r[i].deltas[f'X{j}|r1']-S[i,j]*x[j].deltas[f'X{j}|r1'])), np.max(np.abs(r[i].deltas[f'Y{j}|r1']-S[i,n+j]*y[j].deltas[f'Y{j}|r1'])))
    print('param',i,'max dev',worst, 'scale',np.max(np.abs(S[i])))
# finite difference response
eps=1e-4*dy[2]
y2=list(y); y2[2]=y[2]+eps; [o.gm() for o in y2]
# keep weights frozen: dvalue identical since shift only
r2=pe.total_least_squares(x,y2,f,silent=True)
print('FD', [(r2[i].value-r[i].value)/eps for i in range(2)], S[:2,n+2])
# LS vs TLS negligible dx
xs=[pe.Obs([xi+rng.normal(0,1e-9,N)],[f'X{i}|r1']) for i,xi in enumerate(xt)]; [o.gm() for o in xs]
r3=pe.total_least_squares(xs,y,f,silent=True); r4=pe.least_squares(xt,y,f,silent=True); [o.gm() for o in list(r4.fit_parameters)]
print('TLS~LS',[ (r3[i].value-r4[i].value)/r4[i].dvalue for i in range(2)])
