import numpy as np, pyerrors as pe, warnings
import pyerrors.input.dobs as dobs, pyerrors.input.json as pj
warnings.simplefilter('ignore')
rng=np.random.default_rng(3)
# integer-valued data with zeros
q=rng.integers(-2,3,20).astype(float)
o=pe.Obs([q],['A|r1'])
print('mean',o.value, 'zeros', int(np.sum(q==0)))
s=dobs.create_dobs_string([o],'q')
r=dobs.import_dobs_string(s.encode())[0]
print('N before/after',o.N,r.N, r.idl)
# sample equal to mean
q2=np.array([1.,2,3,4,5,3,3])
o2=pe.Obs([q2],['A|r1'])
r2=dobs.import_dobs_string(dobs.create_dobs_string([o2],'q').encode())[0]
print('N before/after',o2.N,r2.N,r2.idl)
# pobs
s=dobs.create_pobs_string([o],'q')
dobs.write_pobs([o],'/tmp/scr/p','q')
r=dobs.read_pobs('/tmp/scr/p.xml.gz')[0]
print('pobs N',r.N, r.names, np.allclose(r.deltas['Ar1']+r.r_values['Ar1'], q))
# separator modes
oc=pe.Obs([rng.normal(0,1,10)],['A|r1'])
s=dobs.create_dobs_string([oc],'q')
for m in [True,False,None,1,'r']:
    try:
        print(m, dobs.import_dobs_string(s.encode(),separator_insertion=m)[0].names)
    except Exception as e: print(m,'EXC',e)
on=pe.Obs([rng.normal(0,1,10)],['A'])
print(dobs.import_dobs_string(dobs.create_dobs_string([on],'q').encode())[0].names)
# json falsy tags
for tag in [0,'',False,[],{}, 'x', 1.5, {'a':1}, [1,2]]:
    a=pe.Obs([rng.normal(0,1,10)],['A|r1']); a.tag=tag
    b=pj.import_json_string(pj.create_json_string(a),verbose=False)
    print(repr(tag),'->',repr(b.tag))
# corr N=1 with None
c=pe.Corr([None, a, a*2, None]); c.tag='None'
b=pj.import_json_string(pj.create_json_string(c),verbose=False)
print(b.content[0], b.T, b.tag)
c.tag=5
try:
    b=pj.import_json_string(pj.create_json_string(c),verbose=False); print(repr(b.tag))
except Exception as e: print('EXC',e)
# dict with empty list
import tempfile,os
d=tempfile.mkdtemp()
for od in [{'a':a,'b':[]},{'a':a,'b':[1,2],'c':{'d':[a,a]}, 'e':'str','f':None,'g':1.5}]:
    try:
        pj.dump_dict_to_json(od,d+'/x',gz=False); print(pj.load_json_dict(d+'/x',gz=False,verbose=False).keys())
    except Exception as e: print('EXC',type(e).__name__,e)
