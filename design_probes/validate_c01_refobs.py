import numpy as np, pyerrors as pe, warnings
from ref import *
warnings.simplefilter('ignore')
rng=np.random.default_rng(7)
def rand_idl(n):
    kind=rng.integers(0,3)
    if kind==0: s=rng.integers(1,5); return list(range(s,s+n))
    if kind==1: s=rng.integers(1,5); st=rng.integers(2,4); return list(range(s,s+n*st,st))
    base=sorted(rng.choice(np.arange(1,3*n),n,replace=False).tolist()); return base
def rand_obs(ensembles=('A','B'),reps=('r1','r2','r3')):
    e=rng.choice(ensembles)
    k=rng.integers(1,len(reps)+1)
    rs=sorted(rng.choice(reps,k,replace=False).tolist())
    names=[f'{e}|{r}' for r in rs]
    pass   # ensemble 'A' with replica 'A' and 'A|r1'
    idls=[rand_idl(int(rng.integers(5,12))) for _ in names]
    samples=[rng.normal(1.5,0.3,len(i)) for i in idls]
    return pe.Obs(samples,names,idl=idls)
cnt=0
for it in range(3000):
    a=rand_obs(); b=rand_obs()
    if rng.random()<0.2: a=a+pe.cov_Obs(0.5,0.01,'cv')
    if rng.random()<0.2: b=b*pe.cov_Obs(1.5,0.01,'cv')
    if rng.random()<0.1: b=b*pe.cov_Obs(1.5,0.02,'cw')
    ra,rb=from_pe(a),from_pe(b)
    for op,f,g in [('add',lambda v:v[0]+v[1],lambda x,y:[1,1]),('mul',lambda v:v[0]*v[1],lambda x,y:[y,x]),('div',lambda v:v[0]/v[1],lambda x,y:[1/y,-x/y**2]),('sub',lambda v:v[0]-v[1],lambda x,y:[1,-1]),('pow',lambda v:v[0]**v[1],lambda x,y:[y*x**(y-1),x**y*np.log(x)])]:
        res={'add':a+b,'mul':a*b,'div':a/b,'sub':a-b,'pow':a**b}[op]
        try:
            cmp(combine(f,g(a.value,b.value),[ra,rb]),res)
        except AssertionError as e:
            print('FAIL',op,a.names,b.names,str(e)[:300]); raise SystemExit
        cnt+=1
print('ok',cnt)
