import numpy as np, pyerrors as pe, warnings
warnings.simplefilter('ignore')
rng=np.random.default_rng(2)
def ob(v): return pe.Obs([rng.normal(v,0.1,20)],['A|r1'])
T=6
C=pe.Corr(np.array([[[ob(1+i+j+t) for j in range(2)] for i in range(2)] for t in range(T)],dtype=object))
vl=[np.array([3.,4.]) for t in range(T)]
vcopy=[v.copy() for v in vl]
p=C.projected(vl,normalize=True)
print('list vecs mutated:', any(not np.array_equal(a,b) for a,b in zip(vl,vcopy)), vl[0])
v=np.array([3.,4.]); C.projected(v,normalize=True); print('array vec mutated', v)
c=pe.Corr([ob(1.0),ob(-1.0),ob(2.0)])
l=np.log(c); print([None if x is None else x[0].value for x in l.content])
s=np.sqrt(c); print([None if x is None else x[0].value for x in s.content])
a=np.arcsin(c); print([None if x is None else x[0].value for x in a.content])
try:
    o=pe.Obs([rng.normal(0,1,10)],['A'],idl=[range(10,0,-1)]); print('desc range accepted',o.idl)
    o.gamma_method(); print(o.dvalue)
except Exception as e: print('EXC',e)
try:
    o=pe.Obs([rng.normal(0,1,10)],['A'],idl=[[1,2,3,4,5,6,7,8,9,9.5]]); print('float idl accepted',o.idl)
except Exception as e: print('EXC',e)
# covariance permutation/asymmetry
obs=[pe.Obs([rng.normal(0,1,30)],['A|r1'],idl=[range(1,31)]), pe.Obs([rng.normal(0,1,20)],['A|r1'],idl=[range(11,31)]), pe.Obs([rng.normal(0,1,15), rng.normal(0,1,10)],['A|r1','A|r2'],idl=[range(1,30,2),range(1,11)])]
[o.gm() for o in obs]
c1=pe.covariance(obs); c2=pe.covariance(obs[::-1])[::-1,::-1]
print(np.max(np.abs(c1-c2)))
