import numpy as np
class R:
    """reference observable: value, {name:{cfg:delta}}, {name: r_value}, {covname:(cov,grad)}"""
    def __init__(s,value,d,rv,cg=None): s.value=value; s.d=d; s.rv=rv; s.cg=cg or {}
    @staticmethod
    def from_samples(samples,names,idls):
        N=sum(len(x) for x in samples); d={};rv={}
        val=sum(np.sum(x) for x in samples)/N
        for x,n,i in zip(samples,names,idls):
            m=np.mean(x); rv[n]=m; d[n]={c:xx-m for c,xx in zip(i,x)}
        return R(val,d,rv)
def ens(n): return n.split('|')[0]
def combine(f, grad, ops):
    """ops: list of R; grad: list of df/dop at central values; f: function of list of values"""
    val=f([o.value for o in ops])
    names=sorted(set(n for o in ops for n in o.d))
    newidl={n:sorted(set(c for o in ops if n in o.d for c in o.d[n])) for n in names}
    d={n:{c:0.0 for c in newidl[n]} for n in names}; rv={}
    for n in names:
        rv[n]=f([o.rv.get(n,o.value) for o in ops])
    for g,o in zip(grad,ops):
        for n in o.d:
            e=ens(n)
            own=[m for m in o.d if ens(m)==e]
            allr=[m for m in names if ens(m)==e]
            sf=1.0
            if len(own)<len(allr):
                sf=sum(len(newidl[m]) for m in allr)/sum(len(newidl[m]) for m in own)
            w=len(newidl[n])/len(o.d[n])*sf
            for c,x in o.d[n].items(): d[n][c]+=g*x*w
    cg={}
    for g,o in zip(grad,ops):
        for cn,(cov,gr) in o.cg.items():
            if cn in cg: cg[cn]=(cov,cg[cn][1]+g*gr)
            else: cg[cn]=(cov,g*gr)
    return R(val,d,rv,cg)
def from_pe(o):
    d={n:{c:x for c,x in zip(o.idl[n],o.deltas[n])} for n in o.deltas}
    return R(o.value,d,dict(o.r_values),{k:(v.cov,v.grad.copy()) for k,v in o.covobs.items()})
def cmp(r,o,tol=1e-12):
    assert abs(r.value-o.value)<=tol*(1+abs(r.value)),(r.value,o.value)
    assert sorted(r.d)==sorted(o.deltas),(sorted(r.d),sorted(o.deltas))
    for n in r.d:
        assert list(o.idl[n])==sorted(r.d[n]),(n,o.idl[n],sorted(r.d[n]))
        a=np.array([r.d[n][c] for c in sorted(r.d[n])])
        assert np.allclose(a,o.deltas[n],rtol=1e-10,atol=1e-13),(n,a,o.deltas[n])
        assert abs(r.rv[n]-o.r_values[n])<=1e-12*(1+abs(r.rv[n]))
    assert sorted(r.cg)==sorted(o.covobs)
    for k in r.cg: assert np.allclose(r.cg[k][1],o.covobs[k].grad)
