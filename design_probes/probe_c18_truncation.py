import os, shutil
_src='/repo/tests/data/sfcf_test/data_o/test_r0/cfg1/f_A'
_d='/tmp/scr/sf'; shutil.rmtree(_d,ignore_errors=True)
for _c in range(1,7):
    os.makedirs(f'{_d}/test_r0/cfg{_c}'); shutil.copy(_src,f'{_d}/test_r0/cfg{_c}/f_A')
import numpy as np, pyerrors as pe, warnings, os, shutil, io, contextlib, gzip
warnings.simplefilter('ignore')
d='/tmp/scr/sf'
full=open(d+'/test_r0/cfg6/f_A').read()
def rd():
    with contextlib.redirect_stdout(io.StringIO()):
        return pe.input.sfcf.read_sfcf(d,'test','f_A',quarks='lquark lquark',noffset=1,wf=2,version='2.0',corr_type='bi',silent=True)
ref=rd()
refv=[(o.deltas['test_|r0']+o.r_values['test_|r0'])[-1] for o in ref]
print('ref last cfg',refv)
res={}
for cut in range(len(full)-80,len(full)):
    open(d+'/test_r0/cfg6/f_A','w').write(full[:cut])
    try:
        r=rd(); v=[(o.deltas['test_|r0']+o.r_values['test_|r0'])[-1] for o in r]
        res[cut]=('OK' if np.allclose(v,refv,rtol=1e-15) else 'WRONG %r'%v)
    except Exception as e: res[cut]='EXC '+type(e).__name__
open(d+'/test_r0/cfg6/f_A','w').write(full)
import collections
print(collections.Counter(x.split()[0] for x in res.values()))
print([ (k,v) for k,v in res.items() if v.startswith('WRONG')][:5])
# archives
o=pe.Obs([np.random.default_rng(1).normal(0,1,30)],['A|r1'])
pe.input.json.dump_to_json([o],'/tmp/scr/a'); b=open('/tmp/scr/a.json.gz','rb').read()
cnt=collections.Counter()
for cut in range(len(b)):
    open('/tmp/scr/t.json.gz','wb').write(b[:cut])
    try:
        pe.input.json.load_json('/tmp/scr/t',verbose=False); cnt['LOADED']+=1
    except Exception as e: cnt[type(e).__name__]+=1
print('json.gz',len(b),cnt)
pe.input.dobs.write_dobs([o],'/tmp/scr/x','n'); b=open('/tmp/scr/x.xml.gz','rb').read()
cnt=collections.Counter()
for cut in range(len(b)):
    open('/tmp/scr/t.xml.gz','wb').write(b[:cut])
    try:
        pe.input.dobs.read_dobs('/tmp/scr/t'); cnt['LOADED']+=1
    except BaseException as e: cnt[type(e).__name__]+=1
print('xml.gz',len(b),cnt)
import pandas as pd
df=pd.DataFrame({'i':[1,2,3],'o':[o,o*2,o*3]})
pe.input.pandas.dump_df(df,'/tmp/scr/d'); b=open('/tmp/scr/d.csv.gz','rb').read()
cnt=collections.Counter()
for cut in range(0,len(b),7):
    open('/tmp/scr/t.csv.gz','wb').write(b[:cut])
    try:
        r=pe.input.pandas.load_df('/tmp/scr/t'); cnt['LOADED rows=%d'%len(r)]+=1
    except BaseException as e: cnt[type(e).__name__]+=1
print('csv.gz',len(b),cnt)
