import numpy as np, re
from decimal import Decimal as D
from pyerrors.obs import _format_uncertainty as fu
from pyerrors.fits import _extract_val_and_dval as ex
rng=np.random.default_rng(3)
bad=[]; classes={}
for it in range(60000):
    e=10.0**rng.uniform(-15,15)
    if rng.random()<0.3:
        k=rng.choice([0.0996,0.996,9.96,0.09996,0.9996,9.996,0.95,0.995,1.0,0.1,9.5,0.0950001])
        e=float(k)*10.0**int(rng.integers(-12,12))*(1+rng.choice([-1,0,1])*2.0**-40)
    v=rng.choice([-1,1])*10.0**rng.uniform(-15,15)
    if rng.random()<0.1: v=0.0
    sig=int(rng.integers(1,7))
    if abs(v)/e>1e17 or e/max(abs(v),1e-300)>1e25: pass
    s=fu(v,e,sig)
    m=re.fullmatch(r'(-?\d+(?:\.(\d+))?)\((\d+(?:\.\d+)?)\)',s)
    if not m: bad.append(('nomatch',v,e,sig,s)); continue
    dec=len(m.group(2)) if m.group(2) else 0
    unit=D(10)**(-dec)
    pv=D(m.group(1)); pe_=D(m.group(3))
    if '.' not in m.group(3) and dec>0: pe_=pe_*unit
    tol=unit/2
    okv=abs(D(v)-pv)<=tol*(1+D('1e-12')); oke=abs(D(e)-pe_)<=tol*(1+D('1e-12'))
    xv,xe=ex(s)
    okx = (xv==float(m.group(1))) and abs(D(xe)-pe_)<=abs(pe_)*D('1e-15')
    if not (okv and oke and okx): bad.append((v,e,sig,s,okv,oke,okx,xv,xe))
print(len(bad)); print(bad[:12])
