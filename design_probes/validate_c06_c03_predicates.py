import numpy as np, pyerrors as pe, warnings, copy
warnings.simplefilter('ignore')
rng=np.random.default_rng(31)
def rand_idl(n):
    k=rng.integers(0,3); s=int(rng.integers(1,9))
    if k==0: return list(range(s,s+n))
    if k==1: return list(range(s,s+2*n,2))
    p=sorted(rng.choice(np.arange(0,2*n),n,replace=False).tolist()); p[1]=p[0]+1; return [s+q for q in sorted(set(p))]
def mk(ens_pool=('A','B','C')):
    k=int(rng.integers(1,3)); es=sorted(rng.choice(ens_pool,k,replace=False).tolist()); o=None
    for e in es:
        nr=int(rng.integers(1,3)); names=[f'{e}|r{i}' for i in range(nr)]
        idl=[rand_idl(int(rng.integers(8,30))) for _ in names]
        x=pe.Obs([rng.normal(1,0.3,len(i)) for i in idl],names,idl=idl)
        o=x if o is None else o+x
    if rng.random()<0.3: o=o*pe.cov_Obs(1.0,0.04,'cv')
    return o
bad=0
for it in range(400):
    n=int(rng.integers(2,7)); base=[mk() for _ in range(3)]
    obs=[]
    for i in range(n):
        a,b=rng.choice(3,2); obs.append(base[a]*rng.normal(1,0.2)+base[b]*rng.normal(0,0.5)+ (pe.cov_Obs(0.5,0.01,'cw') if rng.random()<0.2 else 0))
    [o.gm(S=float(rng.choice([0,1,2]))) for o in obs]
    if any(o.dvalue==0 for o in obs): continue
    C=pe.covariance(obs); R_=pe.covariance(obs,correlation=True)
    perm=rng.permutation(n); Cp=pe.covariance([obs[i] for i in perm])
    ok=np.allclose(C,C.T,atol=0,rtol=0) and np.allclose(np.diag(C),[o.dvalue**2 for o in obs],rtol=1e-12) and np.allclose(np.diag(R_),1,atol=1e-12) and np.all(np.abs(R_)<=1+1e-12) and np.allclose(Cp,C[np.ix_(perm,perm)],rtol=1e-10,atol=1e-14*np.max(np.abs(C)))
    if not ok:
        bad+=1; print('BAD',it, np.max(np.abs(R_)), np.max(np.abs(Cp-C[np.ix_(perm,perm)])))
print('bad',bad)
# history: bitwise claims
o=mk(); snap=(o.value,{k:v.copy() for k,v in o.deltas.items()},copy.deepcopy(o.idl))
o.gm(S=3); r1=(o.dvalue,o.ddvalue,dict(o.e_tauint)); o.gm(S=1.0,tau_exp=2.0) if min(o.shape.values())>=8 else None; o.gm(S=3); r2=(o.dvalue,o.ddvalue,dict(o.e_tauint))
print(r1==r2, o.value==snap[0], all(np.array_equal(o.deltas[k],snap[1][k]) for k in snap[1]), o.idl==snap[2])
f=copy.deepcopy(o); [delattr(f,a) for a in ['e_dvalue']] if False else None
p=pe.Obs([rng.normal(1,0.3,20)],['A|r0'])
q=copy.deepcopy(p); p.gm()
a=(p*o+np.sin(p)); b=(q*o+np.sin(q))
print(all(np.array_equal(a.deltas[k],b.deltas[k]) for k in a.deltas), a.value==b.value)
