"""Helpers of check C08 (non-linear and total least-squares fits).

* `Jet`       second-order forward-mode numbers (value, gradient, Hessian) written from the product and
              chain rule - the oracle's own source of exact first and second derivatives, independent of
              autograd and numdifftools which the code under test uses.  Self-checked against central
              differences at import.
* `MODELS`    the smooth non-linear model families of the quantifier.  A model is a formula
              f(p, x, m) over a namespace `m` providing exp / cosh, so the *same input function* can be
              handed to pyerrors (m = autograd.numpy) and be evaluated on Jets (m = this module).
* data points `point_samples`, `build_point`: observables whose samples are
              mean + sigma * (wc * common[cfg] + sqrt(1 - wc^2) * own), where `common` is a noise chain
              living on the base grid of a replica (shared by all points on that replica, aligned by
              configuration number) - correlated data as a pure function of the spec.
* `ift`       gradient, Hessian and sensitivities S = -H^-1 d(grad chi2)/d(data) of a documented chi-square.
"""
import math

import numpy as np

from vlib.build import samples as recipe_samples, idl_arg
from vlib.refobs import RefObs


# ----------------------------------------------------------------------------------------------
# second-order jets

class Jet:
    __slots__ = ('v', 'g', 'H')
    __array_priority__ = 1000.0

    def __init__(self, v, g, H):
        self.v = float(v)
        self.g = g
        self.H = H

    @staticmethod
    def var(v, i, n):
        g = np.zeros(n)
        g[i] = 1.0
        return Jet(v, g, np.zeros((n, n)))

    def _un(self, f, d1, d2):
        """phi(a): chain rule  g = phi' a.g ;  H = phi' a.H + phi'' a.g a.g^T"""
        return Jet(f, d1 * self.g, d1 * self.H + d2 * np.outer(self.g, self.g))

    def __neg__(self):
        return Jet(-self.v, -self.g, -self.H)

    def __add__(self, o):
        if isinstance(o, Jet):
            return Jet(self.v + o.v, self.g + o.g, self.H + o.H)
        return Jet(self.v + float(o), self.g, self.H)

    __radd__ = __add__

    def __sub__(self, o):
        if isinstance(o, Jet):
            return Jet(self.v - o.v, self.g - o.g, self.H - o.H)
        return Jet(self.v - float(o), self.g, self.H)

    def __rsub__(self, o):
        return Jet(float(o) - self.v, -self.g, -self.H)

    def __mul__(self, o):
        if isinstance(o, Jet):
            og = np.outer(self.g, o.g)
            return Jet(self.v * o.v, self.v * o.g + o.v * self.g, self.v * o.H + o.v * self.H + og + og.T)
        o = float(o)
        return Jet(self.v * o, o * self.g, o * self.H)

    __rmul__ = __mul__

    def recip(self):
        v = self.v
        return self._un(1.0 / v, -1.0 / v ** 2, 2.0 / v ** 3)

    def __truediv__(self, o):
        if isinstance(o, Jet):
            return self * o.recip()
        return self * (1.0 / float(o))

    def __rtruediv__(self, o):
        return self.recip() * float(o)

    def __pow__(self, k):
        if k == 2:
            return self * self
        k = float(k)
        v = self.v
        return self._un(v ** k, k * v ** (k - 1), k * (k - 1) * v ** (k - 2))


def exp(a):
    if isinstance(a, Jet):
        e = math.exp(a.v)
        return a._un(e, e, e)
    return math.exp(a)


def cosh(a):
    if isinstance(a, Jet):
        c, s = math.cosh(a.v), math.sinh(a.v)
        return a._un(c, s, c)
    return math.cosh(a)


def sinh(a):
    if isinstance(a, Jet):
        c, s = math.cosh(a.v), math.sinh(a.v)
        return a._un(s, c, s)
    return math.sinh(a)


# ----------------------------------------------------------------------------------------------
# model families   f(p, x, m): p sequence of parameters, x sequence (one entry per abscissa dimension)

MODELS = {
    # name: npar, xdim, formula, box of true parameters, abscissa range per dimension
    'exp1': dict(npar=1, xdim=1, f=lambda p, x, m: m.exp(-p[0] * x[0]),
                 box=[(0.2, 1.0)], xr=[(0.3, 4.0)]),
    'exp': dict(npar=2, xdim=1, f=lambda p, x, m: p[0] * m.exp(-p[1] * x[0]),
                box=[(0.5, 3.0), (0.2, 1.0)], xr=[(0.0, 4.0)]),
    'expc': dict(npar=3, xdim=1, f=lambda p, x, m: p[0] * m.exp(-p[1] * x[0]) + p[2],
                 box=[(0.8, 3.0), (0.5, 1.2), (0.2, 1.0)], xr=[(0.0, 6.0)]),
    'cosh': dict(npar=3, xdim=1, f=lambda p, x, m: p[0] * m.cosh(p[1] * (x[0] - p[2])),
                 box=[(0.5, 2.0), (0.3, 0.8), (2.0, 4.0)], xr=[(0.0, 6.0)]),
    'rational': dict(npar=3, xdim=1, f=lambda p, x, m: (p[0] + p[1] * x[0]) / (1.0 + p[2] * x[0]),
                     box=[(0.5, 1.5), (2.5, 4.0), (0.2, 1.0)], xr=[(0.2, 5.0)]),
    'coshc': dict(npar=4, xdim=1, f=lambda p, x, m: p[0] * m.cosh(p[1] * (x[0] - p[2])) + p[3],
                  box=[(0.5, 2.0), (0.5, 0.9), (2.0, 4.0), (0.3, 2.0)], xr=[(0.0, 6.0)]),
    'twod': dict(npar=3, xdim=2, f=lambda p, x, m: p[0] * m.exp(-p[1] * x[0]) + p[2] * x[1],
                 box=[(0.5, 3.0), (0.3, 1.0), (0.3, 2.0)], xr=[(0.0, 3.0), (-1.0, 2.0)]),
    'twod4': dict(npar=4, xdim=2, f=lambda p, x, m: p[0] * m.exp(-p[1] * x[0]) + p[2] * x[1] + p[3] * x[0] * x[1] * x[1],
                  box=[(0.5, 3.0), (0.3, 1.0), (0.3, 2.0), (0.2, 1.0)], xr=[(0.0, 3.0), (-1.0, 2.0)]),
    # the model of fit_lin (dispatch between the two fit types); with observables as abscissae the
    # total least-squares problem is non-linear (bilinear in slope and true abscissa)
    'lin': dict(npar=2, xdim=1, f=lambda p, x, m: p[0] + p[1] * x[0],
                box=[(0.5, 2.0), (0.3, 2.0)], xr=[(0.0, 4.0)]),
    # the two members of a combined (dictionary) fit that share the decay constant p[0]
    'cmb_a': dict(npar=3, xdim=1, f=lambda p, x, m: p[1] * m.exp(-p[0] * x[0]),
                  box=[(0.2, 1.0), (0.5, 3.0), (0.5, 3.0)], xr=[(0.0, 4.0)]),
    'cmb_b': dict(npar=3, xdim=1, f=lambda p, x, m: p[2] * m.exp(-p[0] * x[0]),
                  box=[(0.2, 1.0), (0.5, 3.0), (0.5, 3.0)], xr=[(0.0, 4.0)]),
}
# family 'cmb' = combined fit {'a': cmb_a, 'b': cmb_b}
COMBINED = {'cmb': {'a': 'cmb_a', 'b': 'cmb_b'}}


def model_float(fam, p, x):
    """model value for plain floats; x = sequence over dimensions"""
    import sys
    return MODELS[fam]['f'](p, x, sys.modules[__name__])


def pe_func(fam):
    """The fit function in the form pyerrors documents: func(a, x) built on autograd.numpy."""
    import autograd.numpy as anp
    M = MODELS[fam]
    f = M['f']
    if M['xdim'] == 1:
        return lambda a, x: f(a, (x,), anp)

    def func(a, x):
        (x1, x2) = x
        return f(a, (x1, x2), anp)
    return func


def _selfcheck():
    """Jets against central differences of the float evaluation, every family, one interior point."""
    import sys
    me = sys.modules[__name__]
    for fam, M in MODELS.items():
        p0 = [0.5 * (a + b) for a, b in M['box']]
        x0 = [0.37 * a + 0.63 * b for a, b in M['xr']]
        w0 = np.array(p0 + x0)
        n = len(w0)
        npar = M['npar']

        def F(w):
            return M['f'](list(w[:npar]), list(w[npar:]), me)
        jets = [Jet.var(w0[i], i, n) for i in range(n)]
        J = M['f'](jets[:npar], jets[npar:], me)
        h = 1e-4
        for i in range(n):
            ei = np.zeros(n)
            ei[i] = h
            g = (F(w0 + ei) - F(w0 - ei)) / (2 * h)
            assert abs(g - J.g[i]) <= 1e-6 * max(1.0, abs(g)), (fam, 'grad', i, g, J.g[i])
            for j in range(n):
                ej = np.zeros(n)
                ej[j] = h
                hh = (F(w0 + ei + ej) - F(w0 + ei - ej) - F(w0 - ei + ej) + F(w0 - ei - ej)) / (4 * h * h)
                assert abs(hh - J.H[i, j]) <= 1e-5 * max(1.0, abs(hh)), (fam, 'hess', i, j, hh, J.H[i, j])
    # division, powers and hyperbolic sine, which the families use only partly
    a, b = Jet.var(1.3, 0, 2), Jet.var(0.7, 1, 2)
    q = (a / b + 2.0 / a - b / 3.0 + sinh(a * b)) ** 3

    def Q(u, v):
        return (u / v + 2.0 / u - v / 3.0 + math.sinh(u * v)) ** 3
    h = 1e-4
    assert abs(q.v - Q(1.3, 0.7)) < 1e-12
    assert abs(q.g[0] - (Q(1.3 + h, 0.7) - Q(1.3 - h, 0.7)) / (2 * h)) < 1e-5 * abs(q.g[0])
    assert abs(q.H[0, 1] - (Q(1.3 + h, 0.7 + h) - Q(1.3 + h, 0.7 - h) - Q(1.3 - h, 0.7 + h) + Q(1.3 - h, 0.7 - h)) / (4 * h * h)) < 1e-4 * abs(q.H[0, 1])
    assert abs(q.H[1, 1] - (Q(1.3, 0.7 + h) - 2 * Q(1.3, 0.7) + Q(1.3, 0.7 - h)) / (h * h)) < 1e-4 * abs(q.H[1, 1])


_selfcheck()


# ----------------------------------------------------------------------------------------------
# data points

def chain_noise(ch):
    """unit-variance noise of one chain: wc * common(cfg) + sqrt(1 - wc^2) * own"""
    n = len(ch['idl'])
    own = recipe_samples(dict(ch['own'], mean=0.0, sigma=1.0), n)
    wc = float(ch.get('wc', 0.0))
    if wc == 0.0 or ch.get('common') is None:
        return own
    cm = ch['common']
    full = recipe_samples(dict(cm['recipe'], mean=0.0, sigma=1.0), cm['len'])
    idx = [(c - cm['start']) // cm['gap'] for c in ch['idl']]
    return wc * full[idx] + math.sqrt(1.0 - wc * wc) * own


def point_samples(pt):
    return [pt['mean'] + ch['sigma'] * chain_noise(ch) for ch in pt['chains']]


def build_point(pt, shift=0.0):
    """-> (pe.Obs with gamma_method applied, RefObs whose tolerance scale is the size of the fluctuations).
    The chains of a point belong to one ensemble."""
    import pyerrors as pe
    smp = [s + shift for s in point_samples(pt)]
    names = [ch['name'] for ch in pt['chains']]
    o = pe.Obs(smp, names, idl=[idl_arg(ch) for ch in pt['chains']])
    o.gamma_method()
    r = RefObs.from_samples(smp, names, [ch['idl'] for ch in pt['chains']])
    r.mag = {n: max(abs(v) for v in d.values()) for n, d in r.d.items()}
    return o, r


def point_labels(points):
    """labels describing how the data points share ensembles / configurations"""
    labs = set()
    ens = [set(c['name'].split('|')[0] for c in p['chains']) for p in points]
    if any(ens[i] & ens[j] for i in range(len(ens)) for j in range(i)):
        labs.add('shared_ensemble')
    if len(set(frozenset(e) for e in ens)) > 1:
        labs.add('several_ensembles')
    if any(len(p['chains']) > 1 for p in points):
        labs.add('multi_replica')
    by = {}
    for p in points:
        for c in p['chains']:
            by.setdefault(c['name'], []).append(tuple(c['idl']))
    for n, ls in by.items():
        for i in range(len(ls)):
            for j in range(i):
                a, b = set(ls[i]), set(ls[j])
                labs.add('cfg_identical' if a == b else 'cfg_nested' if (a < b or b < a) else 'cfg_overlap' if a & b else 'cfg_disjoint')
    reps = {}
    for p in points:
        for e in set(c['name'].split('|')[0] for c in p['chains']):
            reps.setdefault(e, set()).add(frozenset(c['name'] for c in p['chains']))
    if any(len(v) > 1 for v in reps.values()):
        labs.add('missing_replica')
    return labs


# ----------------------------------------------------------------------------------------------
# documented chi-squares on jets and the implicit-function rule

def chisq_ls(fam_of, z, xs, y, W, pri_pos, pri, dpri, groups):
    """least_squares: sum_ij r_i W_ij r_j + sum_k ((p[pos_k] - prior_k) / dprior_k)^2 ,  r_i = y_i - f(p, x_i).
    W = diag(1/dy^2) or the inverse covariance matrix.  groups[i] = model family of point i (combined fits)."""
    import sys
    me = sys.modules[__name__]
    r = [y[i] - MODELS[groups[i]]['f'](z, xs[i], me) for i in range(len(y))]
    n = len(r)
    chi = 0.0
    for i in range(n):
        if W[i, i] != 0.0:
            chi = chi + (r[i] * r[i]) * float(W[i, i])
        for j in range(i):
            if W[i, j] != 0.0:
                chi = chi + (r[i] * r[j]) * float(2.0 * W[i, j])
    for k, pos in enumerate(pri_pos):
        d = (z[pos] - pri[k]) / float(dpri[k])
        chi = chi + d * d
    return chi


def chisq_tls(fam, p, xi, x, y, dx, dy):
    """total_least_squares: sum_i ((y_i - f(p, xi_i)) / dy_i)^2 + sum_{d,i} ((x_di - xi_di) / dx_di)^2
    xi, x, dx: [dimension][point]"""
    import sys
    me = sys.modules[__name__]
    f = MODELS[fam]['f']
    chi = 0.0
    for i in range(len(y)):
        d = (y[i] - f(p, [xi[k][i] for k in range(len(xi))], me)) / float(dy[i])
        chi = chi + d * d
    for k in range(len(x)):
        for i in range(len(y)):
            d = (x[k][i] - xi[k][i]) / float(dx[k][i])
            chi = chi + d * d
    return chi


def jets(values):
    n = len(values)
    return [Jet.var(float(v), i, n) for i, v in enumerate(values)]


def ift(chi, nz):
    """chi: Jet of the chi-square over w = (z, data), z = first nz variables (the minimised ones).
    -> gradient w.r.t. z, Hessian H w.r.t. z, S = -H^-1 d(grad_z chi2)/d(data), Newton step H^-1 grad,
       condition number of the Jacobi-scaled Hessian (the solves are done in that scaling, so that variables of very
       different magnitude - parameters next to abscissae with tiny errors - do not cost accuracy)"""
    g = chi.g[:nz]
    Hs = 0.5 * (chi.H + chi.H.T)
    H = Hs[:nz, :nz]
    M = Hs[:nz, nz:]
    d = np.diag(H)
    if not np.all(np.isfinite(H)) or np.any(d <= 0):
        return g, H, None, None, float('inf')
    D = 1.0 / np.sqrt(d)
    Hsc = H * np.outer(D, D)
    cond = float(np.linalg.cond(Hsc))
    if not np.isfinite(cond) or cond > 1e13:
        return g, H, None, None, cond
    S = -(D[:, None] * np.linalg.solve(Hsc, D[:, None] * M))
    newton = D * np.linalg.solve(Hsc, D * g)
    return g, H, S, newton, cond


def resolution(H):
    """formal parameter resolution sqrt(2 (H^-1)_kk) of a chi-square with Hessian H"""
    D = 1.0 / np.sqrt(np.diag(H))
    Hi = np.linalg.inv(H * np.outer(D, D)) * np.outer(D, D)
    return np.sqrt(2.0 * np.abs(np.diag(Hi)))
