"""spec -> numbers -> pyerrors objects.  All randomness is a pure function of the spec."""
import numpy as np


def samples(recipe, n):
    # optional overall factor (orders of magnitude far from 1: absolute thresholds in the code under test)
    if recipe.get('scale') is not None:
        return float(recipe['scale']) * _samples({k: v for k, v in recipe.items() if k != 'scale'}, n)
    return _samples(recipe, n)


def _samples(recipe, n):
    k = recipe['kind']
    if k == 'list':
        x = np.array(recipe['x'], dtype=float)
        assert len(x) == n
        return x
    m, s = recipe.get('mean', 0.0), recipe.get('sigma', 1.0)
    rng = np.random.RandomState(recipe['seed'] % (2 ** 32))
    if k == 'white':
        return m + s * rng.normal(size=n)
    if k == 'ar1':
        rho = recipe['rho']
        xi = rng.normal(size=n)
        x = np.empty(n)
        x[0] = xi[0]
        for t in range(1, n):
            x[t] = rho * x[t - 1] + np.sqrt(1 - rho * rho) * xi[t]
        return m + s * x
    if k == 'const':
        return np.full(n, float(m))
    if k == 'alt':
        return m + s * np.array([(-1.0) ** t for t in range(n)])
    if k == 'count':
        return rng.randint(-2, 3, size=n).astype(float) + float(np.round(m))
    raise ValueError(k)


def idl_arg(chain):
    il = chain['idl']
    form = chain.get('form', 'list')
    d = set(b - a for a, b in zip(il, il[1:]))
    if form in ('range', 'range1') and len(d) == 1:
        st = d.pop()
        # 'range1': the same configurations written with the non-canonical stop last+1 (as range(first, last + 1, step))
        return range(il[0], il[-1] + (st if form == 'range' else 1), st)
    if form == 'array':
        return np.array(il)
    return list(il)


def chain_samples(chain):
    return samples(chain['data'], len(chain['idl']))


def ens_of(name):
    return name.split('|')[0]


def group_chains(chains):
    g = {}
    for c in chains:
        g.setdefault(ens_of(c['name']), []).append(c)
    return g


def build_cov_part(pe, cv):
    ol = pe.cov_Obs(list(cv['means']) if len(cv['means']) > 1 else float(cv['means'][0]), np.array(cv['cov']), cv['name'])
    if not isinstance(ol, list):
        ol = [ol]
    out = None
    for g, o in zip(cv['grad'], ol):
        t = g * o
        out = t if out is None else out + t
    return out


def build_obs(spec):
    """Observable = sum over ensembles of Obs(chains of that ensemble) + sum of covariance parts."""
    import pyerrors as pe
    o = None
    for e, chains in sorted(group_chains(spec['chains']).items()):
        p = pe.Obs([chain_samples(c) for c in chains], [c['name'] for c in chains], idl=[idl_arg(c) for c in chains])
        o = p if o is None else o + p
    for cv in spec.get('cov', []):
        p = build_cov_part(pe, cv)
        o = p if o is None else o + p
    return o


def to_complex(z):
    if isinstance(z, dict) and '__complex__' in z:
        return complex(z['__complex__'][0], z['__complex__'][1])
    return z
