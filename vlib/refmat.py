"""Matrices of reference observables on one common layout ("dense" RefObs), for matrix identities (C10).

Everything that concerns *which configuration carries which fluctuation with which weight* is delegated to
`vlib.refobs.combine` (the statement of C01): `carrier` is the combination of all participating observables with
zero gradient (it only defines the union of replicas / configurations), `expand(r, car)` is `1*r + 0*car`, i.e. r
placed on that union by the C01 rule.  Once every entry lives on the same layout, first-order identities between
matrices of observables are plain numpy linear algebra on (values, fluctuation arrays, covariance gradients):
the product rule d(AB) = dA B + A dB is the "explicit sum of element products" differentiated term by term.
pyerrors is never used to multiply, invert or decompose anything in here.

Next to every array of fluctuations a magnitude array is carried (sum of |factor| * magnitude of the raw samples
that were added up), so that "vanishes" / "agrees" can be judged relative to the size of the terms involved
(DESIGN 3.4) and not relative to the - possibly tiny - result.
"""
import itertools

import numpy as np

from vlib.core import Violation
from vlib.refobs import RefObs, combine

DUMMY = '###dummy_covobs###'
ATOL = 1e-13     # absolute rounding floor relative to the largest magnitude that entered (see layout_of)


def ref_number(x):
    return RefObs(float(x), {}, {})


def ref_from_pe(o, what='result'):
    """RefObs view of a pyerrors Obs (or of a plain real number).  derived_observable attaches a placeholder
    covariance input to results computed from matrices that contain plain numbers; it is dropped here after
    checking that its covariance is exactly zero (a plain number has no error)."""
    import pyerrors as pe
    if isinstance(o, (int, float, np.integer, np.floating)) and not isinstance(o, bool):
        return ref_number(o)
    if not isinstance(o, pe.Obs):
        raise Violation('%s is %s, expected an Obs' % (what, type(o).__name__))
    v = o.value
    if isinstance(v, complex) or np.iscomplexobj(v) or np.ndim(v) != 0 or not np.isfinite(v):
        raise Violation('%s has central value %r, expected a finite real number' % (what, v))
    r = RefObs.from_pe(o)
    if DUMMY in r.cg:
        cov = r.cg[DUMMY][0]
        if not np.all(cov == 0):
            raise Violation('%s: the placeholder for plain numbers carries a non-zero covariance %r' % (what, cov.tolist()))
        del r.cg[DUMMY]
        r.cgmag.pop(DUMMY, None)
    for n, dd in r.d.items():
        if not all(np.isfinite(x) for x in dd.values()):
            raise Violation('%s has non-finite fluctuations on %s' % (what, n))
    return r


def carrier(refs):
    """Zero-gradient combination: defines the union layout of all participating observables."""
    return combine(lambda v: 0.0, [0.0] * len(refs), list(refs))


def expand(r, car):
    """r on the union layout, by the C01 rule (1*r + 0*carrier)."""
    return combine(lambda v: v[0], [1.0, 0.0], [r, car])


class Dense:
    """value array v (r,c); d[name] (L,r,c); mag[name] (r,c); g[cov] (dim,r,c); gmag[cov] (r,c); vmag (r,c).
    A missing key means zero."""

    def __init__(self, v, d=None, mag=None, g=None, gmag=None, vmag=None, lay=None):
        self.v = np.asarray(v)
        self.d = d or {}
        self.mag = mag or {}
        self.g = g or {}
        self.gmag = gmag or {}
        self.vmag = np.abs(self.v) if vmag is None else vmag
        self.lay = lay          # {'cfgs': {name: [cfg...]}, 'covs': {cov: matrix}}

    @property
    def shape(self):
        return self.v.shape

    @property
    def T(self):
        return Dense(self.v.T, {k: a.transpose(0, 2, 1) for k, a in self.d.items()}, {k: a.T for k, a in self.mag.items()},
                     {k: a.transpose(0, 2, 1) for k, a in self.g.items()}, {k: a.T for k, a in self.gmag.items()}, self.vmag.T, self.lay)

    @property
    def H(self):
        t = self.T
        return Dense(np.conj(t.v), {k: np.conj(a) for k, a in t.d.items()}, t.mag, {k: np.conj(a) for k, a in t.g.items()},
                     t.gmag, t.vmag, t.lay)

    def __getitem__(self, idx):
        """sub-matrix by a pair of slices / index lists (result stays two-dimensional)"""
        ri, ci = idx
        ix = np.ix_(ri, ci)
        sub3 = lambda a: a[:, ix[0], ix[1]]  # noqa: E731
        sub2 = lambda a: a[ix]               # noqa: E731
        return Dense(sub2(self.v), {k: sub3(a) for k, a in self.d.items()}, {k: sub2(a) for k, a in self.mag.items()},
                     {k: sub3(a) for k, a in self.g.items()}, {k: sub2(a) for k, a in self.gmag.items()}, sub2(self.vmag), self.lay)


def masked(A, mask):
    """entries outside the 0/1 mask set to zero; the magnitudes (tolerance scale) are kept"""
    mask = np.asarray(mask, dtype=float)
    return Dense(A.v * mask, {k: x * mask[None] for k, x in A.d.items()}, A.mag, {k: x * mask[None] for k, x in A.g.items()},
                 A.gmag, np.maximum(A.vmag, np.max(A.vmag, initial=0.0)), A.lay)


def shift_diag(A, lam):
    """A - lam*1 for a (1,1) Dense lam"""
    n = A.shape[0]
    eye = np.eye(n)
    lin = lambda a, b: {q: a.get(q, 0.0) - b[q] * eye[None] for q in b} | {q: a[q] for q in a if q not in b}   # noqa: E731
    mg = lambda a, b: {q: a.get(q, 0.0) + b[q] * eye for q in b} | {q: a[q] for q in a if q not in b}           # noqa: E731
    return Dense(A.v - lam.v[0, 0] * eye, lin(A.d, lam.d), mg(A.mag, lam.mag), lin(A.g, lam.g), mg(A.gmag, lam.gmag),
                 A.vmag + abs(lam.v[0, 0]) * eye, A.lay or lam.lay)


def const(a, lay=None):
    a = np.asarray(a)
    if a.ndim != 2:
        raise ValueError('two-dimensional array expected')
    return Dense(a, lay=lay)


def _lin(a, b, sb):
    """a + sb*b on dictionaries of arrays"""
    out = dict(a)
    for k, x in b.items():
        out[k] = out[k] + sb * x if k in out else sb * x
    return out


def add(A, B, sign=1.0):
    return Dense(A.v + sign * B.v, _lin(A.d, B.d, sign), _lin(A.mag, B.mag, 1.0), _lin(A.g, B.g, sign), _lin(A.gmag, B.gmag, 1.0),
                 A.vmag + B.vmag, A.lay or B.lay)


def sub(A, B):
    return add(A, B, -1.0)


def mm(A, B):
    """product rule of the explicit sum of element products (A B)_ij = sum_k A_ik B_kj"""
    av, bv = np.abs(A.v), np.abs(B.v)

    def prod(da, db, va, vb):
        out = {}
        for k, x in da.items():
            out[k] = x @ vb
        for k, x in db.items():
            y = va @ x
            out[k] = out[k] + y if k in out else y
        return out
    return Dense(A.v @ B.v, prod(A.d, B.d, A.v, B.v), prod(A.mag, B.mag, av, bv), prod(A.g, B.g, A.v, B.v),
                 prod(A.gmag, B.gmag, av, bv), A.vmag @ B.vmag, A.lay or B.lay)


def mprod(mats):
    out = mats[0]
    for m in mats[1:]:
        out = mm(out, m)
    return out


def diag(vec):
    """(k,1) or (1,k) Dense -> (k,k) diagonal matrix"""
    k = max(vec.shape)
    flat2 = lambda a: np.diag(a.reshape(k))   # noqa: E731

    def flat3(a):
        out = np.zeros((a.shape[0], k, k), dtype=a.dtype)
        out[:, np.arange(k), np.arange(k)] = a.reshape(a.shape[0], k)
        return out
    return Dense(flat2(vec.v), {n: flat3(a) for n, a in vec.d.items()}, {n: flat2(a) for n, a in vec.mag.items()},
                 {n: flat3(a) for n, a in vec.g.items()}, {n: flat2(a) for n, a in vec.gmag.items()}, flat2(vec.vmag), vec.lay)


def perm_sign(p):
    s = 1
    p = list(p)
    for i in range(len(p)):
        for j in range(i + 1, len(p)):
            if p[i] > p[j]:
                s = -s
    return s


def leibniz(a):
    """determinant as the explicit sum over permutations; returns (value, sum of |terms|)"""
    n = a.shape[0]
    if n == 0:
        return 1.0, 1.0
    tot, mag = 0.0, 0.0
    for p in itertools.permutations(range(n)):
        t = 1.0
        for i in range(n):
            t = t * a[i, p[i]]
        tot = tot + perm_sign(p) * t
        mag = mag + abs(t)
    return tot, mag


def cofactors(a):
    """C[i,j] = d det / d a[i,j] (signed minors, each by its own Leibniz sum) and the same with absolute terms"""
    n = a.shape[0]
    c = np.zeros((n, n), dtype=a.dtype)
    cm = np.zeros((n, n))
    for i in range(n):
        for j in range(n):
            minor = np.delete(np.delete(a, i, axis=0), j, axis=1)
            v, m = leibniz(minor)
            c[i, j] = (-1) ** (i + j) * v
            cm[i, j] = m
    return c, cm


def det(A):
    """Leibniz expansion of a square Dense as a (1,1) Dense; differential sum_ab C_ab dA_ab"""
    val, vm = leibniz(A.v)
    c, cm = cofactors(A.v)
    con3 = lambda a, w: np.einsum('lab,ab->l', a, w).reshape(-1, 1, 1)  # noqa: E731
    con2 = lambda a, w: np.array([[np.sum(a * w)]])                     # noqa: E731
    return Dense(np.array([[val]]), {k: con3(a, c) for k, a in A.d.items()}, {k: con2(a, cm) for k, a in A.mag.items()},
                 {k: con3(a, c) for k, a in A.g.items()}, {k: con2(a, cm) for k, a in A.gmag.items()}, np.array([[vm]]), A.lay)


# ------------------------------------------------------------------------------------------------------------------
# RefObs <-> Dense

def layout_of(car, refs=()):
    """Union layout; with `refs` (all participating RefObs) also the rounding floors: no number of an identity can be
    more accurate than ~1e-16 x condition number (< 1e3) x the largest magnitude that entered on that chain."""
    lay = {'cfgs': {n: sorted(car.d[n]) for n in sorted(car.d)}, 'covs': {k: v[0] for k, v in car.cg.items()}}
    lay['floor'] = {n: max([r.mag.get(n, 0.0) for r in refs] + [0.0]) for n in lay['cfgs']}
    lay['gfloor'] = {k: max([r.cgmag.get(k, 0.0) for r in refs] + [0.0]) for k in lay['covs']}
    lay['vfloor'] = max([abs(r.value) for r in refs] + [1.0])
    return lay


def densify(parts, car, lay=None):
    """parts: 2-d nested list; an entry is a RefObs (real) or a pair (RefObs re, RefObs im).  Every RefObs is
    expanded onto the carrier with `expand` and stored as arrays."""
    lay = lay or layout_of(car)
    r, c = len(parts), len(parts[0])
    cplx = any(isinstance(e, tuple) for row in parts for e in row)
    dt = complex if cplx else float
    v = np.zeros((r, c), dtype=dt)
    vmag = np.zeros((r, c))
    d = {n: np.zeros((len(cf), r, c), dtype=dt) for n, cf in lay['cfgs'].items()}
    mag = {n: np.zeros((r, c)) for n in lay['cfgs']}
    g = {k: np.zeros((np.asarray(cv).shape[0], r, c), dtype=dt) for k, cv in lay['covs'].items()}
    gmag = {k: np.zeros((r, c)) for k in lay['covs']}
    for i in range(r):
        for j in range(c):
            e = parts[i][j]
            for fac, ro in (((1.0, e[0]), (1j, e[1])) if isinstance(e, tuple) else ((1.0, e),)):
                if not ro.d and not ro.cg:
                    v[i, j] += fac * ro.value
                    vmag[i, j] += abs(ro.value)
                    continue
                x = expand(ro, car)
                v[i, j] += fac * x.value
                vmag[i, j] += max(abs(x.value), ro.vmag)
                for n, cf in lay['cfgs'].items():
                    dn = x.d[n]
                    d[n][:, i, j] += fac * np.array([dn[cc] for cc in cf])
                    mag[n][i, j] += x.mag.get(n, 0.0)
                for k in lay['covs']:
                    if k in x.cg:
                        g[k][:, i, j] += fac * x.cg[k][1].ravel()
                        gmag[k][i, j] += x.cgmag.get(k, 0.0)
    return Dense(v, d, mag, g, gmag, vmag, lay)


# ------------------------------------------------------------------------------------------------------------------
# judgement

def _fmt(z):
    z = complex(z)
    return repr(z.real) if z.imag == 0 else repr(z)


def check_equal(X, Y, what, xname='result', yname='expected', rtol=1e-9, vtol=1e-10):
    """X == Y as matrices of observables: values, every fluctuation, every covariance gradient."""
    if X.shape != Y.shape:
        raise Violation('%s: shape %r, expected %r' % (what, X.shape, Y.shape))
    lay = X.lay or Y.lay or {}
    amp = max(1.0, float(np.max(np.maximum(X.vmag, Y.vmag), initial=0.0)))
    tol = vtol * np.maximum(X.vmag, Y.vmag) + ATOL * lay.get('vfloor', 1.0) * amp
    bad = np.argwhere(~(np.abs(X.v - Y.v) <= tol))
    if len(bad):
        i, j = bad[0]
        raise Violation('%s: central value of entry (%d,%d): %s = %s, %s = %s' % (what, i, j, xname, _fmt(X.v[i, j]), yname, _fmt(Y.v[i, j])))
    for n in sorted(set(X.d) | set(Y.d)):
        a, b = X.d.get(n), Y.d.get(n)
        z = np.zeros_like(a if a is not None else b)
        a = z if a is None else a
        b = z if b is None else b
        m = X.mag.get(n, 0.0) + Y.mag.get(n, 0.0)
        tol = rtol * m + ATOL * lay.get('floor', {}).get(n, 0.0) * amp + 1e-300
        dev = np.abs(a - b)
        bad = np.argwhere(~(dev <= tol[None, :, :] if np.ndim(tol) else dev <= tol))
        if len(bad):
            k = int(np.argmax([dev[tuple(q)] for q in bad]))
            c, i, j = bad[k]
            cfg = lay['cfgs'][n][c] if lay.get('cfgs') else c
            raise Violation('%s: fluctuation of entry (%d,%d) on %s at configuration %s: %s = %s, %s = %s '
                            '(%d of %d numbers differ; magnitude of the terms involved %.3g)'
                            % (what, i, j, n, cfg, xname, _fmt(a[c, i, j]), yname, _fmt(b[c, i, j]), len(bad), a.size, float(np.max(m))))
    for k in sorted(set(X.g) | set(Y.g)):
        a, b = X.g.get(k), Y.g.get(k)
        z = np.zeros_like(a if a is not None else b)
        a = z if a is None else a
        b = z if b is None else b
        m = X.gmag.get(k, 0.0) + Y.gmag.get(k, 0.0)
        tol = rtol * m + ATOL * lay.get('gfloor', {}).get(k, 0.0) * amp + 1e-300
        dev = np.abs(a - b)
        bad = np.argwhere(~(dev <= tol[None, :, :] if np.ndim(tol) else dev <= tol))
        if len(bad):
            c, i, j = bad[0]
            raise Violation('%s: gradient of entry (%d,%d) w.r.t. component %d of covariance input %s: %s = %s, %s = %s'
                            % (what, i, j, c, k, xname, _fmt(a[c, i, j]), yname, _fmt(b[c, i, j])))


def check_zero(R, what, rtol=1e-9, vtol=1e-10):
    check_equal(R, Dense(np.zeros(R.shape, dtype=R.v.dtype), lay=R.lay), what, xname='residual', yname='required', rtol=rtol, vtol=vtol)
