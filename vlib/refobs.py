"""RefObs: reference model of an observable and of first-order (linear) error propagation.

Written from the statement of C01, not from the code: dictionaries keyed by replica name and
configuration number; one operation `combine`.  Slow and obvious on purpose."""
import math

import numpy as np

from vlib.core import Violation


def ens(n):
    return n.split('|')[0]


class RefObs:
    """value ; d = {replica: {cfg: fluctuation}} ; rv = {replica: replica mean} ;
    cg = {covname: (cov matrix, gradient vector)} ; mag = {replica: magnitude of the terms summed
    into the fluctuations (for cancellation-aware tolerances)}"""

    def __init__(self, value, d, rv, cg=None, mag=None, cgmag=None, vmag=None, reweighted=False):
        self.value = value
        self.d = d
        self.rv = rv
        self.cg = cg or {}
        self.mag = mag or {n: max([abs(x) for x in dd.values()] + [0.0]) for n, dd in d.items()}
        self.cgmag = cgmag or {k: float(np.max(np.abs(v[1]), initial=0.0)) for k, v in self.cg.items()}
        self.vmag = abs(value) if vmag is None else vmag
        self.reweighted = reweighted

    # ------------------------------------------------------------------ constructors
    @staticmethod
    def from_samples(samples, names, idls):
        """Single-ensemble observable from raw samples (what Obs(samples, names, idl=...) means)."""
        N = sum(len(x) for x in samples)
        d, rv = {}, {}
        val = math.fsum(float(v) for x in samples for v in x) / N
        for x, n, il in zip(samples, names, idls):
            m = math.fsum(float(v) for v in x) / len(x)
            rv[n] = m
            d[n] = {int(c): float(v) - m for c, v in zip(il, x)}
        # tolerances scale with the magnitude of the raw samples, not with the size of the fluctuations
        mag = {n: max(abs(float(v)) for v in x) for x, n in zip(samples, names)}
        return RefObs(val, d, rv, mag=mag, vmag=max(abs(float(v)) for x in samples for v in x))

    @staticmethod
    def from_cov(cv):
        """covariance part of an obs spec: sum_k grad_k * (k-th mean of the covariance input)."""
        g = np.array(cv['grad'], dtype=float).reshape(-1, 1)
        val = float(sum(gk * mk for gk, mk in zip(cv['grad'], cv['means'])))
        return RefObs(val, {}, {}, {cv['name']: (np.array(cv['cov'], dtype=float), g)},
                      vmag=float(sum(abs(gk * mk) for gk, mk in zip(cv['grad'], cv['means']))))

    @staticmethod
    def from_spec(spec):
        from vlib.build import group_chains, chain_samples
        parts = []
        for e, chains in sorted(group_chains(spec['chains']).items()):
            parts.append(RefObs.from_samples([chain_samples(c) for c in chains], [c['name'] for c in chains],
                                             [c['idl'] for c in chains]))
        for cv in spec.get('cov', []):
            parts.append(RefObs.from_cov(cv))
        out = parts[0]
        for p in parts[1:]:
            out = combine(lambda v: v[0] + v[1], [1.0, 1.0], [out, p])
        return out

    @staticmethod
    def from_pe(o):
        d = {n: {int(c): float(x) for c, x in zip(o.idl[n], o.deltas[n])} for n in o.deltas}
        cg = {k: (np.array(v.cov, dtype=float), np.array(v.grad, dtype=float).reshape(-1, 1)) for k, v in o.covobs.items()}
        return RefObs(float(o.value), d, {n: float(v) for n, v in o.r_values.items()}, cg,
                      reweighted=bool(o.reweighted))

    def cfgs(self, n):
        return sorted(self.d[n])


def combine(f, grad, ops, value=None):
    """First-order propagation as stated in C01.

    f    : function of the list of operand central values -> central value of the result
    grad : list of df/d(operand i) at the central values
    ops  : list of RefObs
    """
    vals = [o.value for o in ops]
    val = f(vals) if value is None else value
    names = sorted(set(n for o in ops for n in o.d))
    cf = {n: sorted(set(c for o in ops if n in o.d for c in o.d[n])) for n in names}
    d = {n: {c: 0.0 for c in cf[n]} for n in names}
    mag = {n: 0.0 for n in names}
    rv = {}
    for n in names:
        rv[n] = f([o.rv.get(n, o.value) for o in ops])
    for g, o in zip(grad, ops):
        g = float(g)
        for n in o.d:
            e = ens(n)
            own = [m for m in o.d if ens(m) == e]
            allr = [m for m in names if ens(m) == e]
            sf = 1.0
            if len(own) < len(allr):
                sf = sum(len(cf[m]) for m in allr) / sum(len(cf[m]) for m in own)
            w = len(cf[n]) / len(o.d[n]) * sf
            dn = d[n]
            for c, x in o.d[n].items():
                dn[c] += g * x * w
            mag[n] += abs(g) * w * o.mag.get(n, 0.0)
    cg, cgmag = {}, {}
    for g, o in zip(grad, ops):
        g = float(g)
        for cn, (cov, gr) in o.cg.items():
            if cn in cg:
                if cg[cn][0].shape != cov.shape or not np.allclose(cg[cn][0], cov):
                    raise ValueError('inconsistent covariance for ' + cn)
                cg[cn] = (cov, cg[cn][1] + g * gr)
                cgmag[cn] += abs(g) * o.cgmag.get(cn, 0.0)
            else:
                cg[cn] = (cov, g * gr)
                cgmag[cn] = abs(g) * o.cgmag.get(cn, 0.0)
    vmag = max([abs(val)] + [abs(g) * o.vmag for g, o in zip(grad, ops)])
    return RefObs(val, d, rv, cg, mag, cgmag, vmag, reweighted=any(o.reweighted for o in ops))


def ref_error_sq_cov(r):
    """sum over covariance inputs of g^T Sigma g"""
    return sum(float((g.T @ cov @ g).item()) for cov, g in r.cg.values())


def cmp_obs(r, o, what='', rtol=1e-10, vtol=1e-11, check_rv=True, check_form=False, check_flag=False,
            atol_scale=1e-12, rv_skip=()):
    """Compare a RefObs with a pyerrors Obs; raises Violation with a readable message."""
    import pyerrors as pe
    pre = (what + ': ') if what else ''
    if not isinstance(o, pe.Obs):
        raise Violation(pre + 'result is %s, not an Obs' % type(o).__name__)
    v = o.value
    if isinstance(v, complex) or np.iscomplexobj(v):
        raise Violation(pre + 'central value is complex: %r' % (v,))
    if not (abs(r.value - v) <= vtol * max(abs(r.value), r.vmag) + 1e-300):
        raise Violation(pre + 'central value %r, expected %r' % (v, r.value))
    mc = sorted(n for n in o.names if n not in o.covobs)
    if mc != sorted(r.d):
        raise Violation(pre + 'Monte-Carlo chains %r, expected %r' % (mc, sorted(r.d)))
    if sorted(o.covobs) != sorted(r.cg):
        raise Violation(pre + 'covariance inputs %r, expected %r' % (sorted(o.covobs), sorted(r.cg)))
    for n in sorted(r.d):
        want = sorted(r.d[n])
        got = [int(c) for c in o.idl[n]]
        if got != want:
            miss = sorted(set(want) - set(got))[:5]
            extra = sorted(set(got) - set(want))[:5]
            raise Violation(pre + 'configuration list of %s differs: %d entries vs expected %d; missing %r, unexpected %r'
                            % (n, len(got), len(want), miss, extra))
        if check_form:
            eq = len(set(b - a for a, b in zip(want, want[1:]))) == 1
            if eq != isinstance(o.idl[n], range):
                raise Violation(pre + 'configuration list of %s is held as %s although equally spaced=%s'
                                % (n, type(o.idl[n]).__name__, eq))
        a = np.array([r.d[n][c] for c in want])
        b = np.asarray(o.deltas[n], dtype=float)
        if b.shape != a.shape:
            raise Violation(pre + 'fluctuation array of %s has shape %r, expected %r' % (n, b.shape, a.shape))
        tol = rtol * np.maximum(np.abs(a), np.abs(b)) + atol_scale * r.mag.get(n, 0.0) + 1e-300
        bad = np.where(~(np.abs(a - b) <= tol))[0]
        if len(bad):
            i = int(bad[0])
            raise Violation(pre + 'fluctuation of %s at configuration %d is %r, expected %r (%d of %d entries differ, max rel. dev. %.3g)'
                            % (n, want[i], float(b[i]), float(a[i]), len(bad), len(a),
                               float(np.max(np.abs(a - b)) / (np.max(np.abs(a)) + 1e-300))))
        if check_rv and n not in rv_skip:
            rvo = o.r_values[n]
            if not (abs(r.rv[n] - rvo) <= vtol * max(abs(r.rv[n]), r.vmag) + 1e-300):
                raise Violation(pre + 'replica mean of %s is %r, expected %r' % (n, rvo, r.rv[n]))
    for k in sorted(r.cg):
        cov, g = r.cg[k]
        co = o.covobs[k]
        if np.asarray(co.cov).shape != cov.shape or not np.allclose(co.cov, cov, rtol=1e-13, atol=0):
            raise Violation(pre + 'covariance matrix of input %s changed' % k)
        go = np.asarray(co.grad, dtype=float)
        if go.shape != g.shape:
            raise Violation(pre + 'gradient of %s has shape %r, expected %r' % (k, go.shape, g.shape))
        tol = rtol * np.maximum(np.abs(g), np.abs(go)) + atol_scale * r.cgmag.get(k, 0.0) + 1e-300
        if not np.all(np.abs(g - go) <= tol):
            raise Violation(pre + 'gradient w.r.t. covariance input %s is %r, expected %r' % (k, go.ravel().tolist(), g.ravel().tolist()))
    if check_flag and bool(o.reweighted) != bool(r.reweighted):
        raise Violation(pre + 'reweighted flag is %r, expected %r' % (o.reweighted, r.reweighted))
