"""Access to known_findings.json from inside checks.

is_open(id): True while a genuine defect with that id is recorded as status "known" (not repaired).  The owning
check then keeps exactly that input class out of its searching generators (counting what it excluded) and probes it
through the replay file in known/.  For a "fixed" entry (or an unknown id) nothing is excluded."""
import json
import os

HERE = os.path.dirname(os.path.dirname(os.path.abspath(__file__)))
_cache = None


def _load():
    global _cache
    if _cache is None:
        st = {}
        p = os.path.join(HERE, 'known_findings.json')
        if os.path.exists(p):
            for f in json.load(open(p))['findings']:
                st[f['id']] = f['status']
        # proposals written by a check author, not yet triaged into known_findings.json
        kd = os.path.join(HERE, 'known')
        if os.path.isdir(kd):
            for fn in os.listdir(kd):
                if fn.endswith('.meta.json'):
                    try:
                        m = json.load(open(os.path.join(kd, fn)))
                        st.setdefault(m['id'], m.get('status', 'known'))
                    except Exception:
                        pass
        _cache = st
    return _cache


def is_open(fid):
    return _load().get(fid) in ('known', 'proposed')
