"""Core types shared by all checks: sub-property descriptors, violation signalling,
per-case statistics.  Nothing in here imports pyerrors."""
import hashlib
import json


class Violation(AssertionError):
    """Raised by an oracle when the property is violated on the given case."""


class Skip(Exception):
    """Raised by an oracle when the case cannot be judged (near tie, minimiser did not
    converge, excluded known finding ...).  Counted, never a violation."""

    def __init__(self, reason):
        super().__init__(reason)
        self.reason = reason


def require(cond, msg, *details):
    if not cond:
        if details:
            msg = msg + ' | ' + ' ; '.join(_short(d) for d in details)
        raise Violation(msg)


def _short(x, n=400):
    s = repr(x)
    return s if len(s) <= n else s[:n] + '...'


class Sub:
    """One executable sub-property.

    name      : identifier (used in replay files)
    strategy  : callable(tier) -> hypothesis strategy producing a JSON-serialisable spec
    oracle    : callable(spec) -> dict(nt=bool, cls=[labels]) ; raises Violation / Skip
    examples  : dict tier -> examples per shard
    shards    : dict tier -> number of shards (fresh processes with derived seeds)
    kind      : 'given' (default), 'machine' (hypothesis RuleBasedStateMachine) or
                'enum' (oracle itself enumerates a finite space; strategy is None)
    """

    def __init__(self, name, strategy, oracle, examples, shards=None, kind='given',
                 machine=None, enum=None, doc='', steps=None, max_skip_frac=0.5):
        self.name = name
        self.strategy = strategy
        self.oracle = oracle
        self.examples = examples
        self.shards = shards or {'quick': 4, 'thorough': 16}
        self.kind = kind
        self.machine = machine
        self.enum = enum
        self.doc = doc
        self.steps = steps or {'quick': 25, 'thorough': 40}
        self.max_skip_frac = max_skip_frac


def spec_hash(spec):
    s = json.dumps(spec, sort_keys=True, default=_json_default)
    return hashlib.blake2b(s.encode(), digest_size=6).hexdigest()


def _json_default(o):
    import numpy as np
    if isinstance(o, (np.integer,)):
        return int(o)
    if isinstance(o, (np.floating,)):
        return float(o)
    if isinstance(o, np.ndarray):
        return o.tolist()
    if isinstance(o, complex):
        return {'__complex__': [o.real, o.imag]}
    if isinstance(o, range):
        return list(o)
    if isinstance(o, (set, frozenset)):
        return sorted(o)
    if isinstance(o, bytes):
        return {'__bytes__': o.hex()}
    return repr(o)


def dumps(obj, **kw):
    return json.dumps(obj, default=_json_default, **kw)


class Stats:
    """Collected inside a worker while Hypothesis drives the oracle."""

    def __init__(self, max_samples=4):
        self.evaluations = 0
        self.nt_hashes = set()
        self.all_hashes = set()
        self.classes = {}
        self.skipped = {}
        self.samples = []
        self.max_samples = max_samples
        self.last_spec = None
        self.steps = 0

    def begin(self, spec):
        self.last_spec = spec

    def record(self, spec, info):
        self.evaluations += 1
        h = spec_hash(spec)
        self.all_hashes.add(h)
        info = info or {}
        if info.get('nt'):
            if h not in self.nt_hashes and len(self.samples) < self.max_samples:
                self.samples.append(spec)
            self.nt_hashes.add(h)
        for c in info.get('cls', ()):
            self.classes[c] = self.classes.get(c, 0) + 1
        self.steps += info.get('steps', 0)

    def skip(self, spec, reason):
        self.evaluations += 1
        self.skipped[reason] = self.skipped.get(reason, 0) + 1

    def to_json(self):
        return {
            'evaluations': self.evaluations,
            'nt_hashes': sorted(self.nt_hashes),
            'n_distinct': len(self.all_hashes),
            'classes': self.classes,
            'skipped': self.skipped,
            'samples': self.samples,
            'steps': self.steps,
        }
