"""State hygiene and small numeric helpers (imports pyerrors)."""
import numpy as np


def reset_state():
    """Every case starts from the same global state: pyerrors' class-level analysis defaults,
    numpy's legacy RNG (pyerrors draws from it in pseudo_Obs and for prior names) and no open figures."""
    import pyerrors as pe
    pe.Obs.S_global = 2.0
    pe.Obs.S_dict = {}
    pe.Obs.tau_exp_global = 0.0
    pe.Obs.tau_exp_dict = {}
    pe.Obs.N_sigma_global = 1.0
    pe.Obs.N_sigma_dict = {}
    np.random.seed(12345)
    try:
        import matplotlib.pyplot as plt
        plt.close('all')
    except Exception:
        pass


def common_spacing(o):
    """Precondition of the Gamma method as the reference model (vlib/refgamma.py) states it: within every ensemble the
    smallest spacing of the replicas' configuration numbers divides the smallest spacing of each replica.  Computed from the
    layout, so that checks do not depend on the wording or type of the library's refusal."""
    by = {}
    for n in o.names:
        il = [int(c) for c in o.idl[n]] if n in getattr(o, 'idl', {}) else None
        if il is None or len(il) < 2:
            continue
        by.setdefault(n.split('|')[0], []).append(min(b - a for a, b in zip(il, il[1:])))
    return all(all(g % min(gs) == 0 for g in gs) for gs in by.values())


def relerr(a, b, scale=None):
    a = np.asarray(a, dtype=float)
    b = np.asarray(b, dtype=float)
    if scale is None:
        scale = max(np.max(np.abs(a), initial=0.0), np.max(np.abs(b), initial=0.0))
    if scale == 0:
        return float(np.max(np.abs(a - b), initial=0.0))
    return float(np.max(np.abs(a - b), initial=0.0) / scale)


def close(a, b, rtol=1e-10, atol=0.0):
    a = np.asarray(a, dtype=float)
    b = np.asarray(b, dtype=float)
    if a.shape != b.shape:
        return False
    return bool(np.all(np.abs(a - b) <= atol + rtol * np.maximum(np.abs(a), np.abs(b))))
