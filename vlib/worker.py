"""One worker = one fresh Python process = one (sub-property, shard).
usage: python -m vlib.worker <PID> <sub> <shard> <nshards> <seed> <tier> <examples> <out.json>
       python -m vlib.worker --replay <PID> <replayfile> <out.json>
"""
import hashlib
import importlib
import json
import os
import sys
import time
import traceback
import warnings

HERE = os.path.dirname(os.path.dirname(os.path.abspath(__file__)))
REPO = os.environ.get('VERIF_REPO', '/repo')
sys.path.insert(0, HERE)
sys.path.insert(0, REPO)
os.environ.setdefault('MPLBACKEND', 'Agg')
os.environ.setdefault('OMP_NUM_THREADS', '1')
os.environ.setdefault('OPENBLAS_NUM_THREADS', '1')
os.environ.setdefault('MKL_NUM_THREADS', '1')

from vlib.core import Violation, Skip, Stats, dumps, spec_hash  # noqa: E402


def derive_seed(base, pid, sub, shard):
    h = hashlib.blake2b(f'{base}:{pid}:{sub}:{shard}'.encode(), digest_size=8).digest()
    return int.from_bytes(h, 'big') % (2 ** 62)


def load_check(pid):
    mod = importlib.import_module('checks.' + pid.lower())
    return mod


def find_sub(mod, name):
    for s in mod.SUBS:
        if s.name == name:
            return s
    raise KeyError(name)


def check_repo_import():
    import pyerrors
    p = os.path.realpath(os.path.dirname(pyerrors.__file__))
    want = os.path.realpath(os.path.join(REPO, 'pyerrors'))
    if p != want:
        raise RuntimeError(f'pyerrors imported from {p}, expected {want}')


def describe_exc(e):
    tb = traceback.extract_tb(e.__traceback__)
    inner = None
    for fr in tb:
        if '/pyerrors/' in fr.filename:
            inner = f'{os.path.basename(fr.filename)}:{fr.lineno}:{fr.name}'
    return {
        'exception': type(e).__name__,
        'message': str(e)[:3000],
        'innermost_pyerrors_frame': inner,
        'traceback': ''.join(traceback.format_exception(type(e), e, e.__traceback__))[-4000:],
    }


def run_oracle(sub, spec):
    from vlib.util import reset_state
    reset_state()
    with warnings.catch_warnings():
        warnings.simplefilter('ignore')
        return sub.oracle(spec)


def run_given(sub, seed, tier, n, stats):
    import hypothesis
    from hypothesis import given, settings, HealthCheck, Phase

    shrink_budget = {'quick': 150, 'thorough': 1500}[tier]
    if os.environ.get('VERIF_SHRINK_BUDGET'):
        shrink_budget = int(os.environ['VERIF_SHRINK_BUDGET'])
    state = {'failed': set(), 'after': 0, 'fail_spec': None, 'fail_size': None}

    @hypothesis.seed(seed)
    @settings(max_examples=n, database=None, deadline=None, derandomize=False,
              report_multiple_bugs=False, print_blob=False,
              suppress_health_check=list(HealthCheck),
              phases=[Phase.explicit, Phase.generate] + ([Phase.shrink] if shrink_budget > 0 else []))
    @given(sub.strategy(tier))
    def test(spec):
        if state['failed']:
            h = spec_hash(spec)
            state['after'] += 1
            if state['after'] > shrink_budget and h not in state['failed']:
                return  # shrink budget exhausted: let the shrinker terminate
        stats.begin(spec)
        try:
            info = run_oracle(sub, spec)
        except Skip as s:
            stats.skip(spec, s.reason)
            return
        except BaseException:
            state['failed'].add(spec_hash(spec))
            size = len(dumps(spec))
            if state['fail_size'] is None or size <= state['fail_size']:
                state['fail_size'] = size
            state['fail_spec'] = spec
            raise
        stats.record(spec, info)

    test()


def ddmin_trace(sub, trace, budget, signature):
    """Greedy removal of single steps from a failing machine trace; a candidate counts as failing only if
    it fails in the same way (exception type and start of the message)."""
    def fails(tr):
        try:
            run_oracle(sub, {'trace': tr})
        except Skip:
            return False
        except BaseException as e:
            return (type(e).__name__, str(e)[:40]) == signature
        return False
    calls = 0
    changed = True
    while changed and calls < budget:
        changed = False
        i = len(trace) - 1
        while i >= 0 and calls < budget:
            cand = trace[:i] + trace[i + 1:]
            calls += 1
            if cand and fails(cand):
                trace = cand
                changed = True
            i -= 1
    return trace


def run_machine(sub, seed, tier, n, stats):
    import hypothesis
    from hypothesis import settings, HealthCheck, Phase
    from hypothesis.stateful import run_state_machine_as_test
    from vlib import machine as vm

    vm.CURRENT_STATS = stats
    cls = sub.machine(tier)
    cls = hypothesis.seed(seed)(cls)
    st = settings(max_examples=n, stateful_step_count=sub.steps[tier], database=None, deadline=None,
                  report_multiple_bugs=False, print_blob=False,
                  suppress_health_check=list(HealthCheck),
                  phases=[Phase.explicit, Phase.generate])
    try:
        run_state_machine_as_test(cls, settings=st)
    except BaseException as e:
        trace = vm.LAST_TRACE
        if trace is not None:
            try:
                budget = {'quick': 60, 'thorough': 400}[tier]
                if os.environ.get('VERIF_SHRINK_BUDGET'):
                    budget = int(os.environ['VERIF_SHRINK_BUDGET'])
                small = ddmin_trace(sub, list(trace), budget, (type(e).__name__, str(e)[:40]))
            except BaseException:
                small = list(trace)
            stats.last_spec = {'trace': small}
        raise e


def main(argv):
    t0 = time.time()
    out = {'status': 'ok'}
    if argv[0] == '--replay':
        pid, path, outpath = argv[1], argv[2], argv[3]
        try:
            check_repo_import()
            mod = load_check(pid)
            rp = json.load(open(path))
            sub = find_sub(mod, rp['sub'])
            try:
                run_oracle(sub, rp['spec'])
                out['status'] = 'ok'
            except Skip as s:
                out['status'] = 'ok'
                out['skip'] = s.reason
            except BaseException as e:
                out['status'] = 'violation'
                out['failure'] = describe_exc(e)
        except BaseException as e:
            out['status'] = 'harness_error'
            out['failure'] = describe_exc(e)
        out['wall_s'] = time.time() - t0
        open(outpath, 'w').write(dumps(out))
        return 0

    pid, subname, shard, nshards, base_seed, tier, n, outpath = argv
    shard, nshards, base_seed, n = int(shard), int(nshards), int(base_seed), int(n)
    stats = Stats()
    seed = derive_seed(base_seed, pid, subname, shard)
    out.update({'property': pid, 'sub': subname, 'shard': shard, 'seed': seed, 'tier': tier})
    try:
        check_repo_import()
        mod = load_check(pid)
        sub = find_sub(mod, subname)
    except BaseException as e:
        out['status'] = 'harness_error'
        out['failure'] = describe_exc(e)
        out['stats'] = stats.to_json()
        open(outpath, 'w').write(dumps(out))
        return 0
    try:
        import hypothesis.errors as he
        harness_excs = (he.FailedHealthCheck, he.Unsatisfiable, he.InvalidArgument, he.InvalidDefinition)
        flaky_excs = tuple(x for x in (getattr(he, 'Flaky', None), getattr(he, 'FlakyFailure', None),
                                       getattr(he, 'FlakyStrategyDefinition', None)) if x is not None)
        try:
            if sub.kind == 'given':
                run_given(sub, seed, tier, n, stats)
            elif sub.kind == 'machine':
                run_machine(sub, seed, tier, n, stats)
            elif sub.kind == 'enum':
                from vlib.util import reset_state
                reset_state()
                with warnings.catch_warnings():
                    warnings.simplefilter('ignore')
                    sub.enum(tier, seed, shard, nshards, stats)
            else:
                raise RuntimeError('unknown kind ' + sub.kind)
        except harness_excs as e:
            out['status'] = 'harness_error'
            out['failure'] = describe_exc(e)
        except flaky_excs as e:
            out['status'] = 'harness_error'
            out['failure'] = describe_exc(e)
            out['failure']['flaky'] = True
            out['failure']['spec'] = stats.last_spec
        except (KeyboardInterrupt, SystemExit):
            raise
        except BaseException as e:
            out['status'] = 'violation'
            out['failure'] = describe_exc(e)
            spec = getattr(e, 'spec', None)
            out['failure']['spec'] = spec if spec is not None else stats.last_spec
    except BaseException as e:
        out['status'] = 'harness_error'
        out['failure'] = describe_exc(e)
    out['stats'] = stats.to_json()
    out['wall_s'] = time.time() - t0
    open(outpath, 'w').write(dumps(out))
    return 0


if __name__ == '__main__':
    sys.exit(main(sys.argv[1:]))
